(* C17 — proofs: the greedy transcription satisfies the property's clauses for every instance,
   and the boolean validator decides exactly those clauses. *)
From Coq Require Import List QArith ZArith NArith Bool Arith Permutation Lia.
From Outrank Require Import Rank.QMedian Rank.QMedianProofs Rank.ThreeMR.
Import ListNotations.
Open Scope Q_scope.

(* ---------- argmax ---------- *)
Lemma argmax_in sc l : forall b, In (argmax sc b l) (b :: l).
Proof.
  induction l as [|a t IH]; intros b; cbn [argmax]; [now left|].
  destruct (Qltb (sc b) (sc a)).
  - right. apply IH.
  - destruct (IH b) as [H|H]; [now left|right; now right].
Qed.

Lemma argmax_max sc l : forall b g, In g (b :: l) -> sc g <= sc (argmax sc b l).
Proof.
  induction l as [|a t IH]; intros b g Hin; cbn [argmax].
  - destruct Hin as [<-|[]]. apply Qle_refl.
  - destruct (Qltb (sc b) (sc a)) eqn:E.
    + apply Qltb_true in E. destruct Hin as [<-|Hin].
      * eapply Qle_trans; [apply Qlt_le_weak; exact E|]. apply IH. now left.
      * apply IH. exact Hin.
    + apply Qltb_false in E. destruct Hin as [<-|[<-|Hin]].
      * apply IH. now left.
      * eapply Qle_trans; [exact E|]. apply IH. now left.
      * apply IH. now right.
Qed.

(* ---------- drop ---------- *)
Lemma drop_in b l x : In x (drop b l) <-> In x l /\ x <> b.
Proof.
  unfold drop. rewrite filter_In. split; intros [H1 H2]; split; try assumption.
  - intros ->. rewrite N.eqb_refl in H2. discriminate.
  - apply negb_true_iff. apply N.eqb_neq. exact H2.
Qed.

Lemma drop_notin b l : ~ In b l -> drop b l = l.
Proof.
  induction l as [|a t IH]; intros H; [reflexivity|]. unfold drop in *. cbn [filter].
  destruct (N.eqb_spec a b) as [->|Hn]; cbn [negb].
  - exfalso. apply H. now left.
  - f_equal. apply IH. intros Hin. apply H. now right.
Qed.

Lemma drop_perm b l : NoDup l -> In b l -> Permutation l (b :: drop b l).
Proof.
  induction l as [|a t IH]; intros Hnd Hin; [destruct Hin|].
  inversion Hnd as [|? ? Hnot Hnd']; subst. unfold drop. cbn [filter].
  destruct (N.eqb_spec a b) as [->|Hn]; cbn [negb].
  - fold (drop b t). rewrite drop_notin by exact Hnot. reflexivity.
  - destruct Hin as [->|Hin]; [congruence|]. fold (drop b t).
    rewrite (IH Hnd' Hin) at 1. apply perm_swap.
Qed.

Lemma drop_nodup b l : NoDup l -> NoDup (drop b l).
Proof. apply NoDup_filter. Qed.

(* ---------- the greedy loop ---------- *)
Section Greedy.
Variable sc : list feat -> feat -> Q.

(* every already ranked feature from position k0 on was best among everything ranked later or still remaining *)
Definition inv (k0 : nat) (ranked remaining : list feat) : Prop :=
  forall p f s, ranked = p ++ f :: s -> (k0 <= length p)%nat ->
  forall g, In g (s ++ remaining) -> sc p g <= sc p f.

Lemma greedy_prefix fuel : forall ranked remaining, exists tail, greedy sc fuel ranked remaining = ranked ++ tail.
Proof.
  induction fuel as [|n IH]; intros ranked remaining; cbn [greedy].
  - exists []. now rewrite app_nil_r.
  - destruct remaining as [|h t]; [exists []; now rewrite app_nil_r|].
    destruct (IH (ranked ++ [argmax (sc ranked) h t]) (drop (argmax (sc ranked) h t) (h :: t))) as [tl Htl].
    rewrite Htl, <- app_assoc. eexists. reflexivity.
Qed.

Lemma greedy_perm fuel : forall ranked remaining, (length remaining <= fuel)%nat -> NoDup remaining ->
  Permutation (greedy sc fuel ranked remaining) (ranked ++ remaining).
Proof.
  induction fuel as [|n IH]; intros ranked remaining Hlen Hnd; cbn [greedy].
  - destruct remaining; [now rewrite app_nil_r|cbn in Hlen; lia].
  - destruct remaining as [|h t]; [now rewrite app_nil_r|].
    set (b := argmax (sc ranked) h t).
    assert (Hb : In b (h :: t)) by apply argmax_in.
    pose proof (drop_perm b (h :: t) Hnd Hb) as Hp.
    rewrite IH.
    + rewrite <- app_assoc. apply Permutation_app_head. cbn [app]. symmetry. exact Hp.
    + apply Permutation_length in Hp. cbn [length] in Hp, Hlen. lia.
    + apply drop_nodup. exact Hnd.
Qed.

Lemma greedy_inv k0 fuel : forall ranked remaining, (length remaining <= fuel)%nat -> NoDup remaining ->
  (k0 <= length ranked)%nat -> inv k0 ranked remaining -> inv k0 (greedy sc fuel ranked remaining) [].
Proof.
  induction fuel as [|n IH]; intros ranked remaining Hlen Hnd Hk Hinv; cbn [greedy].
  - destruct remaining; [exact Hinv|cbn in Hlen; lia].
  - destruct remaining as [|h t]; [exact Hinv|].
    set (b := argmax (sc ranked) h t).
    assert (Hb : In b (h :: t)) by apply argmax_in.
    pose proof (drop_perm b (h :: t) Hnd Hb) as Hp.
    apply IH.
    + apply Permutation_length in Hp. cbn [length] in Hp, Hlen. lia.
    + apply drop_nodup. exact Hnd.
    + rewrite app_length. lia.
    + assert (Hmax : forall g, In g (h :: t) -> sc ranked g <= sc ranked b)
        by (intros; apply argmax_max; assumption).
      clearbody b.
      intros p f s Heq Hkp g Hg.
      destruct s as [|y s0].
      * (* the feature just placed *)
        apply app_inj_tail in Heq. destruct Heq as [Hr Hbf]. subst p f.
        cbn [app] in Hg. apply drop_in in Hg. apply Hmax. apply Hg.
      * (* an earlier one *)
        destruct (exists_last (l := y :: s0)) as [s1 [z Hs1]]; [discriminate|].
        rewrite Hs1 in Heq, Hg.
        change (p ++ f :: s1 ++ [z]) with (p ++ (f :: s1) ++ [z]) in Heq.
        rewrite app_assoc in Heq. apply app_inj_tail in Heq. destruct Heq as [Hr Hz].
        eapply (Hinv p f s1); [rewrite Hr; reflexivity|exact Hkp|].
        rewrite <- app_assoc in Hg. apply in_app_or in Hg. apply in_or_app.
        destruct Hg as [Hg|Hg]; [now left|right].
        cbn [app] in Hg. destruct Hg as [Hg|Hg].
        -- subst. exact Hb.
        -- apply drop_in in Hg. apply Hg.
Qed.
End Greedy.

(* ---------- from "every split" to "every position k" ---------- *)
Lemma nth_error_Some_lt {A} (l : list A) k x : nth_error l k = Some x -> (k < length l)%nat.
Proof. intros H. apply nth_error_Some. congruence. Qed.

Lemma nth_error_split_firstn {A} (l : list A) k f : nth_error l k = Some f ->
  exists s, l = firstn k l ++ f :: s.
Proof.
  intros H. destruct (nth_error_split l k H) as [l1 [l2 [Heq Hlen]]].
  exists l2. rewrite Heq at 2. rewrite firstn_app, Hlen, Nat.sub_diag. cbn [firstn].
  rewrite app_nil_r. rewrite <- Hlen, firstn_all. exact Heq.
Qed.

Lemma nodup_app_disjoint {A} (p q : list A) g : NoDup (p ++ q) -> In g p -> In g q -> False.
Proof.
  induction p as [|a p IH]; intros Hnd Hp Hq; [destruct Hp|].
  cbn [app] in Hnd. inversion Hnd as [|? ? Hnot Hnd']; subst. destruct Hp as [->|Hp].
  - apply Hnot. apply in_or_app. now right.
  - apply IH; assumption.
Qed.

Definition split_opt (sc : list feat -> feat -> Q) (k0 : nat) (fs : list feat) : Prop :=
  forall p f s, fs = p ++ f :: s -> (k0 <= length p)%nat -> forall g, In g s -> sc p g <= sc p f.

Lemma inv_nil sc k0 fs : inv sc k0 fs [] <-> split_opt sc k0 fs.
Proof.
  unfold inv, split_opt. split; intros H p f s Heq Hk g Hg.
  - eapply H; eauto. now rewrite app_nil_r.
  - rewrite app_nil_r in Hg. eapply H; eauto.
Qed.

Lemma split_opt_pos sc F fs : Permutation fs F -> NoDup fs ->
  (split_opt sc 1 fs <->
   forall k f, (0 < k)%nat -> nth_error fs k = Some f ->
   forall g, In g F -> ~ In g (firstn k fs) -> sc (firstn k fs) g <= sc (firstn k fs) f).
Proof.
  intros Hp Hnd. split.
  - intros H k f Hk Hn g HgF Hnot.
    destruct (nth_error_split_firstn fs k f Hn) as [s Heq].
    assert (Hgin : In g fs) by (eapply Permutation_in; [symmetry; exact Hp|exact HgF]).
    rewrite Heq in Hgin. apply in_app_or in Hgin. destruct Hgin as [Hg|[<-|Hg]].
    + contradiction.
    + apply Qle_refl.
    + eapply H; [exact Heq| |exact Hg].
      rewrite firstn_length. apply nth_error_Some_lt in Hn. lia.
  - intros H p f s Heq Hk g Hg.
    assert (Hf : firstn (length p) fs = p).
    { rewrite Heq, firstn_app, Nat.sub_diag, firstn_all. cbn [firstn]. now rewrite app_nil_r. }
    specialize (H (length p) f). rewrite Hf in H. apply H.
    + lia.
    + rewrite Heq, nth_error_app2, Nat.sub_diag by lia. reflexivity.
    + eapply Permutation_in; [exact Hp|]. rewrite Heq. apply in_or_app. right. now right.
    + rewrite Heq in Hnd. intros Hin. apply (nodup_app_disjoint p (f :: s) g Hnd Hin). now right.
Qed.

(* ---------- the model's ranking ---------- *)
Lemma feats_nodup d : NoDup (feats d).
Proof. apply NoDup_nodup. Qed.

Lemma feats_keys d f : In f (feats d) <-> In f (map fst (rel d)).
Proof. apply nodup_In. Qed.

Lemma feats_no_dup_keys d : NoDup (map fst (rel d)) -> feats d = map fst (rel d).
Proof. apply nodup_fixed_point. Qed.

Lemma ranking_perm d : Permutation (ranking d) (feats d) /\ NoDup (ranking d).
Proof.
  assert (Hp : Permutation (ranking d) (feats d)).
  { unfold ranking. pose proof (feats_nodup d) as Hnd. destruct (feats d) as [|h t] eqn:E; [reflexivity|].
    set (f0 := argmax (relv d) h t).
    assert (Hf0 : In f0 (h :: t)) by apply argmax_in.
    pose proof (drop_perm f0 (h :: t) Hnd Hf0) as Hd.
    rewrite greedy_perm.
    - cbn [app]. symmetry. exact Hd.
    - apply Permutation_length in Hd. cbn [length] in Hd. lia.
    - apply drop_nodup. exact Hnd. }
  split; [exact Hp|]. eapply Permutation_NoDup; [symmetry; exact Hp|apply feats_nodup].
Qed.

Lemma ranking_head d : forall f0, nth_error (ranking d) 0 = Some f0 ->
  forall g, In g (feats d) -> relv d g <= relv d f0.
Proof.
  unfold ranking. destruct (feats d) as [|h t] eqn:E; intros f0 H0 g Hg; [destruct Hg|].
  destruct (greedy_prefix (score d) (length t) [argmax (relv d) h t] (drop (argmax (relv d) h t) (h :: t))) as [tl Htl].
  rewrite Htl in H0. cbn in H0. injection H0 as <-. apply argmax_max. exact Hg.
Qed.

Lemma ranking_split_opt d : split_opt (score d) 1 (ranking d).
Proof.
  apply inv_nil. unfold ranking. pose proof (feats_nodup d) as Hnd.
  destruct (feats d) as [|h t] eqn:E.
  - intros p f s Heq. destruct p; discriminate.
  - set (f0 := argmax (relv d) h t).
    assert (Hf0 : In f0 (h :: t)) by apply argmax_in.
    pose proof (drop_perm f0 (h :: t) Hnd Hf0) as Hd.
    apply greedy_inv.
    + apply Permutation_length in Hd. cbn [length] in Hd. lia.
    + apply drop_nodup. exact Hnd.
    + cbn. lia.
    + intros p f s Heq Hk. destruct p as [|a p]; [cbn in Hk; lia|].
      destruct p; discriminate.
Qed.

Lemma ranking_step d : forall k f, (0 < k)%nat -> nth_error (ranking d) k = Some f ->
  forall g, In g (feats d) -> ~ In g (firstn k (ranking d)) ->
  score d (firstn k (ranking d)) g <= score d (firstn k (ranking d)) f.
Proof.
  destruct (ranking_perm d) as [Hp Hnd].
  apply (split_opt_pos (score d) (feats d) (ranking d) Hp Hnd). apply ranking_split_opt.
Qed.

Lemma ranks_length n : length (ranks n) = n.
Proof. unfold ranks. now rewrite map_length, seq_length. Qed.

Lemma ranking_df_fst d : map fst (ranking_df d) = ranking d.
Proof.
  unfold ranking_df. set (l := ranking d). assert (H : length (ranks (length l)) = length l) by apply ranks_length.
  revert H. generalize (ranks (length l)). induction l as [|a l IH]; intros r H; [reflexivity|].
  destruct r as [|z r]; [discriminate|]. cbn [combine map fst]. f_equal. apply IH. cbn in H. lia.
Qed.

Lemma ranking_df_snd d : map snd (ranking_df d) = ranks (length (ranking_df d)).
Proof.
  unfold ranking_df. rewrite combine_length, ranks_length, Nat.min_id.
  set (l := ranking d). assert (H : length (ranks (length l)) = length l) by apply ranks_length.
  revert H. generalize (ranks (length l)). induction l as [|a l IH]; intros r H.
  - destruct r; [reflexivity|discriminate].
  - destruct r as [|z r]; [discriminate|]. cbn [combine map snd]. f_equal. apply IH. cbn in H. lia.
Qed.

Theorem model_spec d : spec_3mr d (ranking_df d).
Proof.
  constructor; rewrite ?ranking_df_fst.
  - apply ranking_perm.
  - apply ranking_head.
  - apply ranking_step.
  - apply ranking_df_snd.
Qed.

(* ranks are 1..n in list order, position by position *)
Lemma ranks_nth n k : (k < n)%nat -> nth_error (ranks n) k = Some (Z.of_nat (S k)).
Proof.
  intros H. unfold ranks. rewrite nth_error_map, nth_error_nth' with (d := O) by (now rewrite seq_length).
  rewrite seq_nth by exact H. reflexivity.
Qed.

Theorem model_ranks d : forall k f z, nth_error (ranking_df d) k = Some (f, z) -> z = Z.of_nat (S k).
Proof.
  intros k f z H.
  assert (Hs : nth_error (map snd (ranking_df d)) k = Some z) by (rewrite nth_error_map, H; reflexivity).
  rewrite ranking_df_snd, ranks_nth in Hs; [congruence|].
  apply nth_error_Some_lt in H. exact H.
Qed.

(* ---------- the validator ---------- *)
Lemma memb_in k l : memb k l = true <-> In k l.
Proof.
  unfold memb. rewrite existsb_exists. split.
  - intros [x [Hx He]]. apply N.eqb_eq in He. now subst.
  - intros H. exists k. split; [exact H|apply N.eqb_refl].
Qed.

Lemma nodupb_iff l : nodupb l = true <-> NoDup l.
Proof.
  induction l as [|h t IH]; cbn [nodupb]; [split; [constructor|reflexivity]|].
  rewrite andb_true_iff, negb_true_iff, IH. split.
  - intros [Hm Hn]. constructor; [|exact Hn]. intros Hin. apply memb_in in Hin. congruence.
  - intros H. inversion H as [|? ? Hnot Hn]; subst. split; [|exact Hn].
    destruct (memb h t) eqn:E; [apply memb_in in E; contradiction|reflexivity].
Qed.

Lemma zlist_eqb_iff a : forall b, zlist_eqb a b = true <-> a = b.
Proof.
  induction a as [|x a IH]; intros [|y b]; cbn [zlist_eqb]; try (split; [discriminate|discriminate]); [tauto|].
  rewrite andb_true_iff, Z.eqb_eq, IH. split; [intros [-> ->]; reflexivity|intros H; injection H; auto].
Qed.

Lemma permb_iff d fs : permb d fs = true <-> Permutation fs (feats d) /\ NoDup fs.
Proof.
  unfold permb. rewrite !andb_true_iff, nodupb_iff, Nat.eqb_eq, forallb_forall. split.
  - intros [[Hnd Hlen] Hall]. split; [|exact Hnd].
    apply NoDup_Permutation_bis; [exact Hnd|lia|].
    intros g Hg. apply memb_in. apply Hall. exact Hg.
  - intros [Hp Hnd]. repeat split; [exact Hnd|apply Permutation_length; exact Hp|].
    intros g Hg. apply memb_in. eapply Permutation_in; eassumption.
Qed.

Lemma firstb_iff d fs : firstb d fs = true <->
  (forall f0, nth_error fs 0 = Some f0 -> forall g, In g (feats d) -> relv d g <= relv d f0).
Proof.
  destruct fs as [|f0 t]; cbn [firstb nth_error].
  - split; [discriminate|reflexivity].
  - rewrite forallb_forall. split.
    + intros H f Hf g Hg. injection Hf as <-. apply Qle_bool_iff. apply H. exact Hg.
    + intros H g Hg. apply Qle_bool_iff. apply (H f0 eq_refl). exact Hg.
Qed.

Lemma steps_okb_iff d rest : forall prefix, steps_okb d prefix rest = true <->
  (forall p f s, rest = p ++ f :: s -> forall g, In g s -> score d (prefix ++ p) g <= score d (prefix ++ p) f).
Proof.
  induction rest as [|f0 s0 IH]; intros prefix; cbn [steps_okb].
  - split; [|reflexivity]. intros _ p f s Heq. destruct p; discriminate.
  - rewrite andb_true_iff, forallb_forall, IH. split.
    + intros [Hhd Htl] p f s Heq g Hg. destruct p as [|a p].
      * cbn [app] in Heq. injection Heq as <- <-. rewrite app_nil_r. apply Qle_bool_iff. apply Hhd. exact Hg.
      * cbn [app] in Heq. injection Heq as <- ->.
        specialize (Htl p f s eq_refl g Hg). rewrite <- app_assoc in Htl. exact Htl.
    + intros H. split.
      * intros g Hg. apply Qle_bool_iff. specialize (H [] f0 s0 eq_refl g Hg). rewrite app_nil_r in H. exact H.
      * intros p f s Heq g Hg. specialize (H (f0 :: p) f s). rewrite <- app_assoc. apply H; [now rewrite Heq|exact Hg].
Qed.

Lemma stepsb_iff d fs : stepsb d fs = true <-> split_opt (score d) 1 fs.
Proof.
  unfold stepsb, split_opt. destruct fs as [|f0 rest].
  - split; [|reflexivity]. intros _ p f s Heq. destruct p; discriminate.
  - rewrite steps_okb_iff. split.
    + intros H p f s Heq Hk g Hg. destruct p as [|a p]; [cbn in Hk; lia|].
      cbn [app] in Heq. injection Heq as <- ->. apply (H p f s eq_refl g Hg).
    + intros H p f s Heq g Hg. apply (H (f0 :: p) f s); [now rewrite Heq|cbn; lia|exact Hg].
Qed.

Theorem valid_3mr_iff d r : valid_3mr d r = true <-> spec_3mr d r.
Proof.
  unfold valid_3mr, ranksb. rewrite !andb_true_iff, permb_iff, firstb_iff, stepsb_iff, zlist_eqb_iff. split.
  - intros [[[[Hp Hnd] Hf] Hs] Hr]. constructor; try assumption; [split; assumption|].
    apply (split_opt_pos (score d) (feats d) (map fst r) Hp Hnd). exact Hs.
  - intros [[Hp Hnd] Hf Hs Hr]. repeat split; try assumption.
    apply (split_opt_pos (score d) (feats d) (map fst r) Hp Hnd). exact Hs.
Qed.

Theorem model_valid d : valid_3mr d (ranking_df d) = true.
Proof. apply valid_3mr_iff. apply model_spec. Qed.

(* ---------- the aggregates are what their names say ---------- *)
Lemma agg_sum l : agg Sum l = fold_right Qplus 0 l.
Proof. reflexivity. Qed.
Lemma agg_mean l : agg Mean l = fold_right Qplus 0 l / inject_Z (Z.of_nat (length l)).
Proof. reflexivity. Qed.
Lemma agg_median l : exists s, Permutation s l /\ Sorting.Sorted.StronglySorted Qle s /\
  agg Median l = if Nat.even (length l) then (nth (length l / 2 - 1) s 0 + nth (length l / 2) s 0) / 2
                 else nth (length l / 2) s 0.
Proof. apply qmedian_spec. Qed.

(* missing pairs count as 0; a present pair gives its value; direction matters *)
Lemma get2_missing t a b : (forall a' b' v, In (a', b', v) t -> a' <> a \/ b' <> b) -> get2 t a b = 0.
Proof.
  induction t as [|[[a' b'] v] r IH]; intros H; [reflexivity|]. cbn [get2].
  assert (Hr : get2 r a b = 0) by (apply IH; intros; eapply H; right; eassumption).
  destruct (N.eqb_spec a a') as [->|Ha]; destruct (N.eqb_spec b b') as [->|Hb]; cbn [andb]; try exact Hr.
  destruct (H a' b' v (or_introl eq_refl)); congruence.
Qed.

Lemma get2_present t a b v : NoDup (map fst t) -> In (a, b, v) t -> get2 t a b = v.
Proof.
  induction t as [|[[a' b'] v'] r IH]; intros Hnd Hin; [destruct Hin|]. cbn [get2].
  inversion Hnd as [|? ? Hnot Hnd']; subst.
  destruct Hin as [Heq|Hin].
  - injection Heq as -> -> ->. rewrite !N.eqb_refl. reflexivity.
  - destruct (N.eqb_spec a a') as [->|Ha]; destruct (N.eqb_spec b b') as [->|Hb]; cbn [andb];
      try (apply IH; assumption).
    exfalso. apply Hnot. change (a', b') with (fst (a', b', v)). apply in_map. exact Hin.
Qed.

(* ---------- the caller: which features get ranked ---------- *)
Lemma set1_keys d k v x : In x (map fst (set1 d k v)) <-> x = k \/ In x (map fst d).
Proof.
  induction d as [|[k' v'] r IH]; cbn [set1 map fst In].
  - split; [intros [H|[]]; left; congruence|intros [H|[]]; left; congruence].
  - destruct (N.eqb_spec k k') as [->|Hn]; cbn [map fst In].
    + split; [intros [H|H]; [right; left; exact H|right; right; exact H]|intros [H|[H|H]]; [left; congruence|left; exact H|right; exact H]].
    + rewrite IH. split; [intros [H|[H|H]]; auto|intros [H|[H|H]]; auto].
Qed.

Lemma fold_set1_keys rows : forall acc x,
  In x (map fst (fold_left (fun d '(k, s) => set1 d k s) rows acc)) <-> In x (map fst rows) \/ In x (map fst acc).
Proof.
  induction rows as [|[k s] rows IH]; intros acc x; cbn [fold_left map fst In]; [tauto|].
  rewrite IH, set1_keys. split; [intros [H|[H|H]]; auto|intros [[H|H]|H]; auto].
Qed.

Lemma norm1_keys rows : map fst (norm1 rows) = map fst rows.
Proof. unfold norm1. rewrite map_map. apply map_ext. intros [k s]. reflexivity. Qed.

Lemma relevance_rows_keys lbl T f :
  In f (map fst (relevance_rows lbl T)) <-> f <> lbl /\ exists s, In (Plain f, Plain lbl, s) T.
Proof.
  unfold relevance_rows. rewrite in_map_iff. split.
  - intros [[k s] [Hk Hin]]. cbn in Hk. subst k. apply in_flat_map in Hin. destruct Hin as [[[a b] s'] [HT Hin]].
    destruct a as [a|]; [|destruct Hin]. destruct b as [b|]; [|destruct Hin].
    destruct (N.eqb_spec b lbl) as [->|]; [|destruct Hin]. destruct (N.eqb_spec a lbl) as [->|Hn]; cbn in Hin; [destruct Hin|].
    destruct Hin as [Heq|[]]. injection Heq as -> ->. split; [exact Hn|]. exists s. exact HT.
  - intros [Hn [s HT]]. exists (f, s). split; [reflexivity|]. apply in_flat_map. exists (Plain f, Plain lbl, s).
    split; [exact HT|]. rewrite N.eqb_refl. destruct (N.eqb_spec f lbl); [contradiction|]. now left.
Qed.

Theorem caller_feats lbl T d f : build_inst lbl T = Some d ->
  (In f (feats d) <-> f <> lbl /\ exists s, In (Plain f, Plain lbl, s) T).
Proof.
  unfold build_inst. destruct (caller_degenerate lbl T); [discriminate|]. intros H. injection H as <-.
  rewrite feats_keys. unfold build_inst_total. cbn [rel].
  rewrite fold_set1_keys, norm1_keys, relevance_rows_keys. cbn [map In]. tauto.
Qed.

(* exactly when a non-empty table has min == max there is no instance (degenerate_iff, QMedianProofs) *)
Theorem caller_none lbl T : build_inst lbl T = None <->
  degenerate (map snd (relevance_rows lbl T)) = true \/ degenerate (map snd (relation_rows lbl T)) = true
  \/ degenerate (map snd (redundancy_rows lbl T)) = true.
Proof.
  unfold build_inst, caller_degenerate.
  destruct (degenerate (map snd (relevance_rows lbl T))); destruct (degenerate (map snd (relation_rows lbl T)));
    destruct (degenerate (map snd (redundancy_rows lbl T))); cbn; intuition discriminate.
Qed.

(* two features with the same relevance: the code's 0/0; no instance *)
Example caller_degenerate_example :
  build_inst 9%N [(Plain 1%N, Plain 9%N, 1 # 2); (Plain 2%N, Plain 9%N, 1 # 2); (Plain 1%N, Plain 2%N, 1 # 4); (Plain 2%N, Plain 2%N, 3 # 4)] = None.
Proof. vm_compute. reflexivity. Qed.
(* the later row of a repeated key wins, the first insertion position is kept *)
Example caller_last_row_wins :
  option_map (fun d => (map fst (rel d), Qred (relv d 1%N), Qred (relv d 2%N)))
    (build_inst 9%N [(Plain 1%N, Plain 9%N, 0); (Plain 2%N, Plain 9%N, 1); (Plain 1%N, Plain 9%N, 1 # 2)])
  = Some ([1%N; 2%N], 1 # 2, 1).
Proof. vm_compute. reflexivity. Qed.

(* ---------- non-vacuity ---------- *)
Example ex_inst : inst :=
  {| rel := [(0%N, 3 # 4); (1%N, 3 # 4); (2%N, 1 # 4); (3%N, -(1 # 2))];
     red := [((0%N, 1%N), 1 # 2); ((1%N, 0%N), 1 # 8); ((0%N, 2%N), 1 # 4); ((1%N, 2%N), 3 # 4)];
     rln := [((0%N, 3%N), 2 # 1); ((1%N, 3%N), 1 # 1)];
     strat := Median; alpha := 1; beta := 1 # 2 |}.
Example ex_ranking : ranking_df ex_inst = [(0%N, 1%Z); (3%N, 2%Z); (1%N, 3%Z); (2%N, 4%Z)].
Proof. vm_compute. reflexivity. Qed.
(* a different tie-breaking (feature 1 first) is valid as well; starting with feature 2 is not *)
Example ex_other_valid : valid_3mr ex_inst [(1%N, 1%Z); (0%N, 2%Z); (3%N, 3%Z); (2%N, 4%Z)] = true.
Proof. vm_compute. reflexivity. Qed.
Example ex_invalid : valid_3mr ex_inst [(2%N, 1%Z); (0%N, 2%Z); (3%N, 3%Z); (1%N, 4%Z)] = false.
Proof. vm_compute. reflexivity. Qed.
