(* C17 — executable model of importance_estimator.rank_features_3MR over exact rationals,
   the property's clauses [spec_3mr] and their boolean validator [valid_3mr].
   No proofs here: the model must still run when a proof breaks.

   Python                                            model
   relevance_dict : dict[str, float]                 rel : list (feat * Q)        (keys = harness-assigned ids)
   redundancy_dict / relational_dict                 red, rln : list (feat * feat * Q), ordered pairs
   d.get((ranked, candidate), 0)                     get2 d ranked candidate       (default 0)
   np.median / np.mean / sum by [strategy]           agg
   max(relevance_dict.items(), key=itemgetter(1))    argmax (first maximal in insertion order)
   for feat in all_features - set(ranked): if >      argmax over the remaining ones (set order -> list order:
                                                     the tie-breaking the property leaves open)                     *)
From Coq Require Import List QArith ZArith NArith Bool Arith Permutation.
From Outrank Require Import Rank.QMedian.
Import ListNotations.
Open Scope Q_scope.

Definition feat := N.
Inductive strategy := Median | Mean | Sum.

Record inst := mk_inst {
  rel : list (feat * Q);
  red : list (feat * feat * Q);
  rln : list (feat * feat * Q);
  strat : strategy;
  alpha : Q;
  beta : Q
}.

Fixpoint get1 (d : list (feat * Q)) (k : feat) : Q :=
  match d with
  | [] => 0
  | (k', v) :: r => if N.eqb k k' then v else get1 r k
  end.

Fixpoint get2 (d : list (feat * feat * Q)) (a b : feat) : Q :=
  match d with
  | [] => 0
  | (a', b', v) :: r => if N.eqb a a' && N.eqb b b' then v else get2 r a b
  end.

Definition feats (d : inst) : list feat := nodup N.eq_dec (map fst (rel d)).
Definition relv (d : inst) (f : feat) : Q := get1 (rel d) f.

Definition agg (s : strategy) (l : list Q) : Q :=
  match s with Median => qmedian l | Mean => qmean l | Sum => qsum l end.

(* calc_higher_order: the looked-up tuple is (already ranked feature, candidate) *)
Definition higher (d : inst) (tbl : list (feat * feat * Q)) (ranked : list feat) (f : feat) : Q :=
  agg (strat d) (map (fun r => get2 tbl r f) ranked).

Definition score (d : inst) (ranked : list feat) (f : feat) : Q :=
  relv d f - alpha d * higher d (red d) ranked f + beta d * higher d (rln d) ranked f.

(* first strictly-better wins, as  `if importance > top_importance`  *)
Fixpoint argmax (sc : feat -> Q) (best : feat) (l : list feat) : feat :=
  match l with
  | [] => best
  | g :: t => if Qltb (sc best) (sc g) then argmax sc g t else argmax sc best t
  end.

Definition drop (b : feat) (l : list feat) : list feat := filter (fun g => negb (N.eqb g b)) l.

Fixpoint greedy (sc : list feat -> feat -> Q) (fuel : nat) (ranked remaining : list feat) : list feat :=
  match fuel with
  | O => ranked
  | S n =>
    match remaining with
    | [] => ranked
    | h :: t => let b := argmax (sc ranked) h t in greedy sc n (ranked ++ [b]) (drop b remaining)
    end
  end.

Definition ranking (d : inst) : list feat :=
  match feats d with
  | [] => []
  | h :: t => let f0 := argmax (relv d) h t in greedy (score d) (length t) [f0] (drop f0 (feats d))
  end.

(* the returned data frame: (Feature, 3MR_Ranking) rows *)
Definition ranks (n : nat) : list Z := map Z.of_nat (seq 1 n).
Definition ranking_df (d : inst) : list (feat * Z) := combine (ranking d) (ranks (length (ranking d))).

(* ---- the property's clauses for an arbitrary data frame r ---- *)
Record spec_3mr (d : inst) (r : list (feat * Z)) : Prop := {
  sp_perm : Permutation (map fst r) (feats d) /\ NoDup (map fst r);
  sp_first : forall f0, nth_error (map fst r) 0 = Some f0 ->
             forall g, In g (feats d) -> relv d g <= relv d f0;
  sp_step : forall k f, (0 < k)%nat -> nth_error (map fst r) k = Some f ->
            forall g, In g (feats d) -> ~ In g (firstn k (map fst r)) ->
            score d (firstn k (map fst r)) g <= score d (firstn k (map fst r)) f;
  sp_ranks : map snd r = ranks (length r)
}.

(* ---- boolean validator, evaluated in Coq on the implementation's data frame ---- *)
Definition memb (k : feat) (l : list feat) : bool := existsb (N.eqb k) l.
Fixpoint nodupb (l : list feat) : bool :=
  match l with [] => true | h :: t => negb (memb h t) && nodupb t end.
Fixpoint zlist_eqb (a b : list Z) : bool :=
  match a, b with
  | [], [] => true
  | x :: a', y :: b' => Z.eqb x y && zlist_eqb a' b'
  | _, _ => false
  end.

Definition permb (d : inst) (fs : list feat) : bool :=
  nodupb fs && Nat.eqb (length fs) (length (feats d)) && forallb (fun g => memb g (feats d)) fs.

Definition firstb (d : inst) (fs : list feat) : bool :=
  match fs with
  | [] => true
  | f0 :: _ => forallb (fun g => Qle_bool (relv d g) (relv d f0)) (feats d)
  end.

Fixpoint steps_okb (d : inst) (prefix rest : list feat) : bool :=
  match rest with
  | [] => true
  | f :: s => forallb (fun g => Qle_bool (score d prefix g) (score d prefix f)) s
              && steps_okb d (prefix ++ [f]) s
  end.

Definition stepsb (d : inst) (fs : list feat) : bool :=
  match fs with [] => true | f0 :: rest => steps_okb d [f0] rest end.

Definition ranksb (r : list (feat * Z)) : bool := zlist_eqb (map snd r) (ranks (length r)).

Definition valid_3mr (d : inst) (r : list (feat * Z)) : bool :=
  permb d (map fst r) && firstb d (map fst r) && stepsb d (map fst r) && ranksb r.

(* per-clause verdicts for the report *)
Definition clauses_3mr (d : inst) (r : list (feat * Z)) : bool * bool * bool * bool :=
  (permb d (map fst r), firstb d (map fst r), stepsb d (map fst r), ranksb r).

(* informational: the ranking is forced (no tie anywhere), so every valid data frame lists the same features *)
Fixpoint steps_strictb (d : inst) (prefix rest : list feat) : bool :=
  match rest with
  | [] => true
  | f :: s => forallb (fun g => Qltb (score d prefix g) (score d prefix f)) s
              && steps_strictb d (prefix ++ [f]) s
  end.
Definition uniqueb (d : inst) (fs : list feat) : bool :=
  match fs with
  | [] => true
  | f0 :: rest => forallb (fun g => N.eqb g f0 || Qltb (relv d g) (relv d f0)) (feats d)
                  && steps_strictb d [f0] rest
  end.

(* informational (pipeline cases only, where the scores are arbitrary doubles): the same checks with a slack, used by the
   harness to tell a float near-tie from a wrong choice; nothing is proved about it *)
Fixpoint steps_slackb (eps : Q) (d : inst) (prefix rest : list feat) : bool :=
  match rest with
  | [] => true
  | f :: s => forallb (fun g => Qle_bool (score d prefix g) (score d prefix f + eps)) s
              && steps_slackb eps d (prefix ++ [f]) s
  end.
Definition valid_slackb (eps : Q) (d : inst) (r : list (feat * Z)) : bool :=
  permb d (map fst r) && ranksb r &&
  match map fst r with
  | [] => true
  | f0 :: rest => forallb (fun g => Qle_bool (relv d g) (relv d f0 + eps)) (feats d) && steps_slackb eps d [f0] rest
  end.

(* Appendix C interface *)
Definition C17_case := inst.
Definition C17_obs := list (feat * Z).
Definition C17_model : C17_case -> C17_obs := ranking_df.
Definition C17_check : C17_case -> C17_obs -> bool := valid_3mr.

(* ---- the caller (task_ranking.py:165-237): the three dictionaries from the triplets ----
   A triplet is (FeatureA, FeatureB, Score).  Names are abstracted by the harness:
   a plain column is [Plain id], an ' AND_REL ' column  x AND_REL y  is [Rel x y], the label is [Plain lbl]. *)
Inductive cname := Plain (f : feat) | Rel (x y : feat).
Definition triplet := (cname * cname * Q)%type.

Definition is_plain_label (lbl : feat) (c : cname) : bool :=
  match c with Plain f => N.eqb f lbl | Rel _ _ => false end.


(* dict comprehension: a later row with the same key overwrites the value but keeps the first insertion position *)
Fixpoint set1 (d : list (feat * Q)) (k : feat) (v : Q) : list (feat * Q) :=
  match d with
  | [] => [(k, v)]
  | (k', v') :: r => if N.eqb k k' then (k', v) :: r else (k', v') :: set1 r k v
  end.
Fixpoint set2 (d : list (feat * feat * Q)) (a b : feat) (v : Q) : list (feat * feat * Q) :=
  match d with
  | [] => [(a, b, v)]
  | (a', b', v') :: r => if N.eqb a a' && N.eqb b b' then (a', b', v) :: r else (a', b', v') :: set2 r a b v
  end.

Definition relevance_rows (lbl : feat) (T : list triplet) : list (feat * Q) :=
  flat_map (fun t => match t with
                     | (Plain a, Plain b, s) => if N.eqb b lbl && negb (N.eqb a lbl) then [(a, s)] else []
                     | _ => [] end) T.
Definition relation_rows (lbl : feat) (T : list triplet) : list (feat * feat * Q) :=
  flat_map (fun t => match t with
                     | (Rel x y, Plain b, s) => if N.eqb b lbl then [(x, y, s)] else []
                     | _ => [] end) T.
Definition redundancy_rows (lbl : feat) (T : list triplet) : list (feat * feat * Q) :=
  flat_map (fun t => match t with
                     | (Plain a, Plain b, s) => if negb (N.eqb a lbl) && negb (N.eqb b lbl) then [(a, b, s)] else []
                     | _ => [] end) T.

Definition norm1 (rows : list (feat * Q)) : list (feat * Q) :=
  let lo := qmin (map snd rows) in let hi := qmax (map snd rows) in
  map (fun '(k, s) => (k, minmax lo hi s)) rows.
Definition norm2 (rows : list (feat * feat * Q)) : list (feat * feat * Q) :=
  let lo := qmin (map snd rows) in let hi := qmax (map snd rows) in
  map (fun '(a, b, s) => (a, b, minmax lo hi s)) rows.

(* The code divides by (max - min) of each non-empty table in floating point: with all values equal that is 0/0 = NaN, the
   dictionaries hold NaN and rank_features_3MR emits None.  Such tables have no instance: [build_inst] is partial. *)
Definition caller_degenerate (lbl : feat) (T : list triplet) : bool :=
  degenerate (map snd (relevance_rows lbl T)) || degenerate (map snd (relation_rows lbl T))
  || degenerate (map snd (redundancy_rows lbl T)).

Definition build_inst_total (lbl : feat) (T : list triplet) : inst :=
  let relr := norm1 (relevance_rows lbl T) in
  let rlnr := norm2 (relation_rows lbl T) in
  let redr := norm2 (redundancy_rows lbl T) in
  let rln1 := fold_left (fun d '(x, y, s) => set2 d x y s) rlnr [] in
  let rln2 := fold_left (fun d '(x, y, s) => set2 d y x s) rlnr rln1 in
  {| rel := fold_left (fun d '(k, s) => set1 d k s) relr [];
     red := fold_left (fun d '(a, b, s) => set2 d a b s) redr [];
     rln := rln2;
     strat := Median; alpha := 1; beta := 1 |}.

Definition build_inst (lbl : feat) (T : list triplet) : option inst :=
  if caller_degenerate lbl T then None else Some (build_inst_total lbl T).
