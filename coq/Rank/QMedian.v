(* C17/C18 — np.median / np.mean / sum over exact rationals.  Definitions only. *)
From Coq Require Import List QArith Arith.
Import ListNotations.
Open Scope Q_scope.

Definition Qltb (a b : Q) : bool := negb (Qle_bool b a).

Fixpoint qinsert (x : Q) (l : list Q) : list Q :=
  match l with
  | [] => [x]
  | y :: r => if Qle_bool x y then x :: l else y :: qinsert x r
  end.
Definition qsort (l : list Q) : list Q := fold_right qinsert [] l.

(* np.median: middle element of the sorted values, mean of the two middle ones for an even count *)
Definition qmedian (l : list Q) : Q :=
  let s := qsort l in
  let n := length s in
  if Nat.even n then (nth (n / 2 - 1) s 0 + nth (n / 2) s 0) / 2 else nth (n / 2) s 0.

Definition qsum (l : list Q) : Q := fold_right Qplus 0 l.
Definition qmean (l : list Q) : Q := qsum l / inject_Z (Z.of_nat (length l)).

(* Series.min() / Series.max() and min-max normalisation *)
Definition qmin (l : list Q) : Q := fold_right (fun x m => if Qle_bool x m then x else m) (hd 0 l) l.
Definition qmax (l : list Q) : Q := fold_right (fun x m => if Qle_bool m x then x else m) (hd 0 l) l.
Definition minmax (lo hi x : Q) : Q := (x - lo) / (hi - lo).

(* (x - min) / (max - min) is 0/0 = NaN in floating point for a non-empty table whose values all coincide *)
Definition degenerate (l : list Q) : bool :=
  match l with [] => false | _ => Qeq_bool (qmin l) (qmax l) end.

(* a rational in lowest terms: the harness only writes such literals *)
Definition reduced (x : Q) : Prop := Qred x = x.
