(* C12 — the generic model of Features/Transform.v instantiated with what the translator read from
   /repo (Gen/Presets.v, Gen/TransformConstants.v), and the functions the harness evaluates.
   No proofs here. *)
From Coq Require Import List NArith ZArith QArith Bool Arith.
From Outrank Require Import Features.Transform Features.Transform3 Gen.Presets Gen.TransformConstants.
Import ListNotations.
Local Close Scope Q_scope.

(* the keep/drop rule with the operators and constants of the source *)
Definition keep_code : list str -> bool :=
  keep_gen nan_literal distinct_op distinct_rhs maj_op max_maj_support nan_op nan_prop_support.

(* get_vals on one cell, with the stripped character and the empty value of the source *)
Definition parse_cell : str -> option Q := parse_cell_gen strip_char empty_value.

(* FeatureTransformerGeneric(..., preset = s).transformer_collection; None = NotImplementedError *)
Definition select : str -> option (list (str * expr)) := select_gen registry preset_separator.

(* ---- Appendix C interface ------------------------------------------------------------------ *)
(* one case: preset string, one numeric column name, and for every selected transformer (in the order
   of the selection) the rendered transformed column *)
Definition C12_case : Type := (str * str * list (list str))%type.
Definition C12_obs : Type := list str.                       (* names of the appended columns *)

Definition C12_model (c : C12_case) : C12_obs :=
  let '(preset, col, rendered) := c in
  match select preset with
  | Some sel => emitted sel col rendered
  | None => []
  end.

Definition C12_check (c : C12_case) (o : C12_obs) : bool := same_set o (C12_model c).

(* transport of rendered columns: table of the distinct strings + one index per row *)
Definition expandN (tbl : list str) (idx : list N) : list str := map (fun i => nth (N.to_nat i) tbl []) idx.

(* what the harness prints for one (preset, column): the names of the selection, then per transformer
   (keep_spec, keep_code, distinct, maxcount, nancount, rows) *)
Definition keep_row (l : list str) : bool * bool * (nat * nat * nat * nat) :=
  let d := distinct l in
  let m := maxcount l in
  let c := count nan_str l in
  let n := length l in
  (keep_spec_of d m c n,
   keep_gen_of distinct_op distinct_rhs maj_op max_maj_support nan_op nan_prop_support d m (count nan_literal l) n,
   (d, m, c, n)).

(* the same verdict from precomputed rows: names of the selection whose row says keep *)
Definition names_from_rows (preset col : str) (keeps : list bool) : list str :=
  match select preset with
  | Some sel => map (fun p => col ++ fst (fst p)) (filter (fun p => snd p) (combine sel keeps))
  | None => []
  end.

(* encoders so that only digits, brackets and booleans are printed *)
Definition sel_names (preset : str) : option (list str) :=
  match select preset with Some sel => Some (names sel) | None => None end.

(* structural dump of an expression (prefix code) so that the harness can check that the table Coq
   compiled is the one it evaluates in Python *)
Fixpoint expr_code (e : expr) : list Z :=
  match e with
  | EX => [0]%Z
  | ELit q => [1; Qnum q; Zpos (Qden q)]%Z
  | EAdd a b => 2%Z :: expr_code a ++ expr_code b
  | ESub a b => 3%Z :: expr_code a ++ expr_code b
  | EMul a b => 4%Z :: expr_code a ++ expr_code b
  | EDiv a b => 5%Z :: expr_code a ++ expr_code b
  | ENeg a => 6%Z :: expr_code a
  | ESqrt a => 7%Z :: expr_code a
  | ELog a => 8%Z :: expr_code a
  | EAbs a => 9%Z :: expr_code a
  | EPow a n => 10%Z :: Z.of_nat n :: expr_code a
  | ERound a d => 11%Z :: Z.of_nat d :: expr_code a
  | EWhere c a b t f =>
      12%Z :: (match c with CLt => 0 | CLe => 1 | CGt => 2 | CGe => 3 | CEq => 4 | CNe => 5 end)%Z
      :: expr_code a ++ expr_code b ++ expr_code t ++ expr_code f
  | EMaxX => [13]%Z
  end.

Definition table_code (t : list (str * expr)) : list (str * list Z) :=
  map (fun kv => (fst kv, expr_code (snd kv))) t.

(* ---- composed model (Features/Transform3.v) -------------------------------------------------------- *)
(* get_vals on one cell with the stripped character and the empty value read from the source, float() as parse_py *)
Definition parse_cell_code (s : str) : pres :=
  match strip strip_char s with
  | [] => PVal empty_value false
  | t => parse_py t
  end.

Definition pres_eq (a b : pres) : Prop :=
  match a, b with
  | PVal p n, PVal q m => Qeq p q /\ n = m
  | PNan, PNan => True
  | PInfty n, PInfty m => n = m
  | PErr, PErr => True
  | _, _ => False
  end.

(* what the harness prints *)
Definition pres_code (p : pres) : Z * Z * Z * bool :=
  match p with
  | PVal q n => (0, Qnum q, Zpos (Qden q), n)
  | PNan => (1, 0, 1, false)
  | PInfty n => (2, 0, 1, n)
  | PErr => (3, 0, 1, false)
  end%Z.

(* per selected transformer: the keep decision of the composed model computed in Q on the raw cells
   (None = not computable in Q for this column, or the column does not parse) *)
Definition keepQ_column (preset : str) (cells : list str) : option (list (option bool)) :=
  match select preset, parse_column OpsQ cells with
  | Some sel, Some xs => Some (map (fun kv => keepQ_parsed (snd kv) xs) sel)     (* = keepQ (snd kv) cells *)
  | _, _ => None
  end.
