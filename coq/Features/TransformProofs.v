(* C12 — lemmas about the model of Features/Transform.v and the regenerated tables. *)
From Coq Require Import Ascii String.
From Coq Require Import List NArith ZArith QArith Qreals Reals Bool Arith Lia Lra ZifyBool.
From Outrank Require Import Features.Transform Features.Transform3 Gen.Presets Gen.TransformConstants Features.TransformTables.
Import ListNotations.
Local Close Scope R_scope.
Local Close Scope Q_scope.

(* ========================================================================================== *)
(* strings, tables                                                                              *)

Lemma str_eqb_eq : forall a b, str_eqb a b = true <-> a = b.
Proof.
  induction a as [|x a IH]; destruct b as [|y b]; cbn [str_eqb]; split; intros H; try discriminate; try reflexivity.
  - apply andb_true_iff in H. destruct H as [H1 H2]. apply N.eqb_eq in H1. apply IH in H2. subst. reflexivity.
  - injection H as -> ->. rewrite N.eqb_refl. cbn. apply IH. reflexivity.
Qed.

Lemma str_eqb_refl : forall a, str_eqb a a = true.
Proof. intros. apply str_eqb_eq. reflexivity. Qed.

Lemma str_eqb_neq : forall a b, str_eqb a b = false <-> a <> b.
Proof.
  intros. split; intros H.
  - intros E. apply str_eqb_eq in E. congruence.
  - destruct (str_eqb a b) eqn:E; [apply str_eqb_eq in E; contradiction | reflexivity].
Qed.

Lemma mem_In : forall k l, mem k l = true <-> In k l.
Proof.
  induction l as [|x l IH]; cbn [mem In].
  - split; [discriminate | tauto].
  - rewrite orb_true_iff, IH, str_eqb_eq. split; intros [H|H]; auto.
Qed.

Lemma lookup_In : forall A k (t : list (str * A)) v, lookup k t = Some v -> In (k, v) t.
Proof.
  induction t as [|[k' v'] t IH]; cbn [lookup]; intros v H; [discriminate|].
  destruct (str_eqb k k') eqn:E.
  - apply str_eqb_eq in E. injection H as ->. subst. left. reflexivity.
  - right. apply IH. exact H.
Qed.

Lemma lookup_names : forall A k (t : list (str * A)), In k (names t) <-> lookup k t <> None.
Proof.
  induction t as [|[k' v'] t IH]; cbn [lookup names map In fst].
  - split; [tauto | congruence].
  - destruct (str_eqb k k') eqn:E.
    + apply str_eqb_eq in E. subst. split; [congruence | auto].
    + apply str_eqb_neq in E. fold (names t). rewrite <- IH. split; [intros [H|H]; [congruence | exact H] | auto].
Qed.

Lemma lookup_map_val : forall A (f : str -> A -> A) k (t : list (str * A)),
  lookup k (map (fun kv => (fst kv, f (fst kv) (snd kv))) t) =
  match lookup k t with Some v => Some (f k v) | None => None end.
Proof.
  induction t as [|[k' v'] t IH]; cbn [lookup map fst snd]; [reflexivity|].
  destruct (str_eqb k k') eqn:E; [|exact IH].
  apply str_eqb_eq in E. subst. reflexivity.
Qed.

Lemma lookup_app : forall A k (a b : list (str * A)),
  lookup k (a ++ b) = match lookup k a with Some v => Some v | None => lookup k b end.
Proof.
  induction a as [|[k' v'] a IH]; intros b; cbn [lookup app]; [reflexivity|].
  destruct (str_eqb k k'); [reflexivity | apply IH].
Qed.

Lemma lookup_filter_key : forall A (p : str -> bool) k (t : list (str * A)),
  lookup k (filter (fun kv => p (fst kv)) t) = if p k then lookup k t else None.
Proof.
  induction t as [|[k' v'] t IH]; cbn [lookup filter fst].
  - destruct (p k); reflexivity.
  - destruct (p k') eqn:P; cbn [lookup]; destruct (str_eqb k k') eqn:E.
    + apply str_eqb_eq in E. subst. rewrite P. reflexivity.
    + exact IH.
    + apply str_eqb_eq in E. subst. rewrite IH, P. reflexivity.
    + exact IH.
Qed.

(* ========================================================================================== *)
(* preset union                                                                                 *)

Lemma lookup_merge : forall A k (a b : list (str * A)),
  lookup k (merge a b) = match lookup k b with Some v => Some v | None => lookup k a end.
Proof.
  intros. unfold merge. rewrite lookup_app.
  rewrite (lookup_map_val A (fun k0 v0 => match lookup k0 b with Some v => v | None => v0 end)).
  rewrite (lookup_filter_key A (fun k0 => negb (mem k0 (names a)))).
  destruct (lookup k a) eqn:Ea.
  - destruct (lookup k b); reflexivity.
  - assert (M : mem k (names a) = false).
    { destruct (mem k (names a)) eqn:M; [|reflexivity].
      apply mem_In in M. apply lookup_names in M. congruence. }
    rewrite M. cbn. destruct (lookup k b); reflexivity.
Qed.

Lemma lookup_fold_merge : forall A k (ps : list (list (str * A))) acc,
  lookup k (fold_left merge ps acc) = match lookup_last k ps with Some v => Some v | None => lookup k acc end.
Proof.
  induction ps as [|p ps IH]; intros acc; cbn [fold_left lookup_last]; [reflexivity|].
  rewrite IH. destruct (lookup_last k ps); [reflexivity|]. apply lookup_merge.
Qed.

Lemma lookup_union : forall A k (ps : list (list (str * A))), lookup k (union ps) = lookup_last k ps.
Proof. intros. unfold union. rewrite lookup_fold_merge. destruct (lookup_last k ps); reflexivity. Qed.

Lemma lookup_last_some : forall A k (ps : list (list (str * A))),
  lookup_last k ps <> None <-> exists p, In p ps /\ lookup k p <> None.
Proof.
  induction ps as [|p ps IH]; cbn [lookup_last In].
  - split; [congruence | intros [p [[] _]]].
  - destruct (lookup_last k ps) eqn:E.
    + split; [|congruence]. intros _. destruct IH as [IH _].
      destruct IH as [q [Hq Hk]]; [congruence|]. exists q. auto.
    + split.
      * intros H. exists p. auto.
      * intros [q [[->|Hq] Hk]]; [exact Hk|]. destruct IH as [_ IH]. exfalso. apply IH; [|reflexivity]. exists q. auto.
Qed.

Lemma names_union : forall A n (ps : list (list (str * A))),
  In n (names (union ps)) <-> exists p, In p ps /\ In n (names p).
Proof.
  intros. rewrite lookup_names, lookup_union, lookup_last_some.
  split; intros [p [Hp H]]; exists p; (split; [exact Hp|]); apply lookup_names; exact H.
Qed.

(* the last preset of the list that defines the name wins *)
Lemma lookup_last_app : forall A k (ps qs : list (list (str * A))),
  lookup_last k (ps ++ qs) = match lookup_last k qs with Some v => Some v | None => lookup_last k ps end.
Proof.
  induction ps as [|p ps IH]; intros qs; cbn [app lookup_last].
  - destruct (lookup_last k qs); reflexivity.
  - rewrite IH. destruct (lookup_last k qs); reflexivity.
Qed.

Lemma union_last_wins : forall A k (ps qs : list (list (str * A))) p v,
  lookup k p = Some v -> (forall q, In q qs -> lookup k q = None) ->
  lookup k (union (ps ++ p :: qs)) = Some v.
Proof.
  intros A k ps qs p v Hp Hq. rewrite lookup_union, lookup_last_app. cbn [lookup_last].
  assert (E : lookup_last k qs = None).
  { destruct (lookup_last k qs) eqn:E; [|reflexivity].
    assert (H : lookup_last k qs <> None) by congruence.
    apply lookup_last_some in H. destruct H as [q [Hin Hk]]. rewrite (Hq q Hin) in Hk. congruence. }
  rewrite E, Hp. reflexivity.
Qed.

Lemma names_merge : forall A (a b : list (str * A)),
  names (merge a b) = names a ++ filter (fun k => negb (mem k (names a))) (names b).
Proof.
  intros. unfold merge, names. rewrite map_app, map_map. cbn [fst]. f_equal.
  induction b as [|[k v] b IH]; cbn [filter map fst]; [reflexivity|].
  destruct (negb (mem k (map fst a))); cbn [map fst]; rewrite IH; reflexivity.
Qed.

Lemma NoDup_filter : forall A (p : A -> bool) l, NoDup l -> NoDup (filter p l).
Proof.
  induction l as [|x l IH]; intros H; cbn [filter]; [constructor|].
  inversion H; subst. destruct (p x); [constructor|]; auto.
  intros Hin. apply filter_In in Hin. tauto.
Qed.

Lemma NoDup_app_intro : forall A (l1 l2 : list A),
  NoDup l1 -> NoDup l2 -> (forall x, In x l1 -> In x l2 -> False) -> NoDup (l1 ++ l2).
Proof.
  induction l1 as [|x l1 IH]; intros l2 H1 H2 H; cbn [app]; [exact H2|].
  inversion H1; subst. constructor.
  - intros Hin. apply in_app_or in Hin. destruct Hin as [Hin|Hin]; [contradiction|].
    apply (H x); [left; reflexivity | exact Hin].
  - apply IH; auto. intros y Hy1 Hy2. apply (H y); [right; exact Hy1 | exact Hy2].
Qed.

Lemma NoDup_names_merge : forall A (a b : list (str * A)),
  NoDup (names a) -> NoDup (names b) -> NoDup (names (merge a b)).
Proof.
  intros A a b Ha Hb. rewrite names_merge. apply NoDup_app_intro; [exact Ha | apply NoDup_filter; exact Hb |].
  intros x Hx Hf. apply filter_In in Hf. destruct Hf as [_ Hf].
  apply mem_In in Hx. rewrite Hx in Hf. discriminate.
Qed.

Lemma NoDup_names_union : forall A (ps : list (list (str * A))),
  (forall p, In p ps -> NoDup (names p)) -> NoDup (names (union ps)).
Proof.
  intros A ps. unfold union.
  assert (G : forall acc, NoDup (names acc) -> (forall p, In p ps -> NoDup (names p)) ->
                          NoDup (names (fold_left merge ps acc))).
  { induction ps as [|p ps IH]; intros acc Ha H; cbn [fold_left]; [exact Ha|].
    apply IH.
    - apply NoDup_names_merge; [exact Ha | apply H; left; reflexivity].
    - intros q Hq. apply H. right. exact Hq. }
  intros H. apply G; [constructor | exact H].
Qed.

(* __init__ on a list of registered, non-empty presets = their union *)
Lemma merge_nonempty : forall A (a b : list (str * A)), b <> [] -> merge a b <> [].
Proof.
  intros A a b Hb. destruct a as [|x a].
  - destruct b as [|y b]; [congruence|]. unfold merge. cbn. discriminate.
  - unfold merge. cbn. discriminate.
Qed.

Lemma select_fold : forall A (reg : list (str * list (str * A))) nss tabs acc,
  Forall2 (fun ns t => lookup ns reg = Some t /\ t <> []) nss tabs ->
  fold_left (select_step reg) nss (Some acc) = Some (fold_left merge tabs acc).
Proof.
  intros A reg nss tabs acc H. revert acc.
  induction H as [|ns t nss tabs [Hl Ht] _ IH]; intros acc; cbn [fold_left]; [reflexivity|].
  unfold select_step at 2. rewrite Hl.
  destruct t as [|kv sub]; [congruence|].
  pose proof (merge_nonempty A acc (kv :: sub) Ht) as Hn.
  destruct (merge acc (kv :: sub)) eqn:E; [congruence|]. apply IH.
Qed.

Lemma select_valid : forall A (reg : list (str * list (str * A))) sep s tabs,
  Forall2 (fun ns t => lookup ns reg = Some t /\ t <> []) (split_on sep s) tabs ->
  select_gen reg sep s = Some (union tabs).
Proof. intros. unfold select_gen, union. apply select_fold. exact H. Qed.

(* split_on inverts joining with the separator *)
Fixpoint join (sep : N) (l : list str) : str :=
  match l with
  | [] => []
  | [w] => w
  | w :: r => w ++ sep :: join sep r
  end.

Lemma split_on_nonempty : forall sep s, split_on sep s <> [].
Proof.
  induction s as [|c s IH]; cbn [split_on]; [discriminate|].
  destruct (N.eqb c sep); [discriminate|]. destruct (split_on sep s); discriminate.
Qed.

Lemma split_on_word : forall sep w, ~ In sep w -> split_on sep w = [w].
Proof.
  induction w as [|c w IH]; intros H; cbn [split_on]; [reflexivity|].
  destruct (N.eqb_spec c sep) as [->|Hne]; [exfalso; apply H; left; reflexivity|].
  rewrite IH; [reflexivity | intros Hin; apply H; right; exact Hin].
Qed.

Lemma split_on_app : forall sep w r, ~ In sep w -> split_on sep (w ++ sep :: r) = w :: split_on sep r.
Proof.
  induction w as [|c w IH]; intros r H; cbn [split_on app].
  - rewrite N.eqb_refl. reflexivity.
  - destruct (N.eqb_spec c sep) as [->|Hne]; [exfalso; apply H; left; reflexivity|].
    rewrite IH; [reflexivity | intros Hin; apply H; right; exact Hin].
Qed.

Lemma split_on_join : forall sep l, l <> [] -> (forall w, In w l -> ~ In sep w) -> split_on sep (join sep l) = l.
Proof.
  induction l as [|w l IH]; intros Hne H; [congruence|].
  destruct l as [|w' l].
  - cbn [join]. apply split_on_word. apply H. left. reflexivity.
  - change (join sep (w :: w' :: l)) with (w ++ sep :: join sep (w' :: l)).
    rewrite split_on_app; [|apply H; left; reflexivity].
    rewrite IH; [reflexivity | discriminate | intros v Hv; apply H; right; exact Hv].
Qed.

(* ========================================================================================== *)
(* keep / drop rule                                                                             *)

Lemma Zpos_of_nat : forall n, n <> 0 -> Zpos (Pos.of_nat n) = Z.of_nat n.
Proof. intros n H. rewrite <- positive_nat_Z, Nat2Pos.id by exact H. reflexivity. Qed.

Lemma count_le_length : forall s l, count s l <= length l.
Proof. induction l as [|x l IH]; cbn [count length]; [lia|]. destruct (str_eqb s x); lia. Qed.

Lemma fold_max_ge : forall l0 l s, In s l ->
  count s l0 <= fold_right (fun s m => Nat.max (count s l0) m) 0 l.
Proof.
  induction l as [|x r IH]; intros s H; cbn [fold_right]; [destruct H|].
  destruct H as [->|H]; [lia|]. specialize (IH s H). lia.
Qed.

Lemma maxcount_ge : forall l s, In s l -> count s l <= maxcount l.
Proof. intros. unfold maxcount. apply fold_max_ge. assumption. Qed.

Lemma fold_max_attained : forall l0 l, l <> [] ->
  exists s, In s l /\ count s l0 = fold_right (fun s m => Nat.max (count s l0) m) 0 l.
Proof.
  induction l as [|x r IH]; intros H; [congruence|].
  cbn [fold_right]. destruct r as [|y r].
  - exists x. split; [left; reflexivity|]. cbn [fold_right]. lia.
  - destruct IH as [s [Hs Hc]]; [discriminate|].
    destruct (Nat.le_gt_cases (count x l0) (fold_right (fun s m => Nat.max (count s l0) m) 0 (y :: r))) as [Hle|Hgt].
    + exists s. split; [right; exact Hs|]. lia.
    + exists x. split; [left; reflexivity|]. lia.
Qed.

Lemma maxcount_attained : forall l, l <> [] -> exists s, In s l /\ count s l = maxcount l.
Proof. intros. unfold maxcount. apply fold_max_attained. assumption. Qed.

Lemma maxcount_le_length : forall l, maxcount l <= length l.
Proof.
  intros l. destruct l as [|x r]; [cbn; lia|].
  destruct (maxcount_attained (x :: r)) as [s [_ <-]]; [discriminate|]. apply count_le_length.
Qed.

Lemma dedup_In : forall l x, In x (dedup l) <-> In x l.
Proof.
  induction l as [|y l IH]; intros x; cbn [dedup In]; [tauto|].
  destruct (mem y l) eqn:M.
  - rewrite IH. apply mem_In in M. split; [auto|]. intros [->|H]; auto.
  - cbn [In]. rewrite IH. tauto.
Qed.

Lemma dedup_NoDup : forall l, NoDup (dedup l).
Proof.
  induction l as [|y l IH]; cbn [dedup]; [constructor|].
  destruct (mem y l) eqn:M; [exact IH|]. constructor; [|exact IH].
  rewrite dedup_In. intros H. apply mem_In in H. congruence.
Qed.

(* facts about the four statistics that make redundant tests of the rule harmless *)
Lemma count_all_equal : forall x l, (forall y, In y l -> y = x) -> count x l = length l.
Proof.
  induction l as [|y l IH]; intros H; cbn [count length]; [reflexivity|].
  rewrite (H y (or_introl eq_refl)), str_eqb_refl. rewrite IH; [reflexivity|].
  intros z Hz. apply H. right. exact Hz.
Qed.

Lemma distinct_one_all_equal : forall l x, In x l -> distinct l <= 1 -> forall y, In y l -> y = x.
Proof.
  intros l x Hx Hd y Hy. unfold distinct in Hd.
  apply dedup_In in Hx. apply dedup_In in Hy.
  destruct (dedup l) as [|a [|b r]]; cbn [length] in Hd; [destruct Hx | | lia].
  destruct Hx as [<-|[]]. destruct Hy as [<-|[]]. reflexivity.
Qed.

Lemma stats_facts : forall l, l <> [] ->
  1 <= length l /\ 1 <= distinct l /\ 1 <= maxcount l <= length l
  /\ (forall s, count s l <= length l) /\ (distinct l <= 1 -> maxcount l = length l).
Proof.
  intros l Hne. destruct l as [|x r]; [congruence|].
  assert (Hin : In x (x :: r)) by (left; reflexivity).
  split; [cbn [length]; lia|]. split.
  { unfold distinct. assert (H : In x (dedup (x :: r))) by (apply dedup_In; exact Hin).
    destruct (dedup (x :: r)); [destruct H | cbn [length]; lia]. }
  split.
  { split; [|apply maxcount_le_length].
    apply Nat.le_trans with (count x (x :: r)); [|apply maxcount_ge; exact Hin].
    cbn [count]. rewrite str_eqb_refl. lia. }
  split; [intros s; apply count_le_length|].
  intros Hd. apply Nat.le_antisymm; [apply maxcount_le_length|].
  rewrite <- (count_all_equal x (x :: r)); [apply maxcount_ge; exact Hin|].
  intros y Hy. apply (distinct_one_all_equal (x :: r) x Hin Hd y Hy).
Qed.

(* the rule of the source = the rule of the property, on any statistics a non-empty column can have;
   the proof only uses linear arithmetic on the constants read from the source, so it also goes through
   for logically equivalent spellings of the rule *)
Lemma keep_of_equiv : forall d m c n,
  1 <= n -> 1 <= d -> 1 <= m <= n -> c <= n -> (d <= 1 -> m = n) ->
  keep_gen_of distinct_op distinct_rhs maj_op max_maj_support nan_op nan_prop_support d m c n
  = keep_spec_of d m c n.
Proof.
  intros d m c n Hn Hd Hm Hc H1.
  unfold keep_gen_of, keep_spec_of, cmpQ, Qcompare, inject_Z.
  unfold distinct_op, distinct_rhs, maj_op, max_maj_support, nan_op, nan_prop_support.
  cbn [Qnum Qden]. rewrite Zpos_of_nat by lia.
  destruct (Nat.ltb_spec 1 d); destruct (Nat.ltb_spec (5 * m) (4 * n)); destruct (Nat.ltb_spec (4 * c) (3 * n));
    cbn [andb];
    repeat match goal with
           | |- context [(?a ?= ?b)%Z] => destruct (Z.compare_spec a b)
           end; cbn [andb]; try reflexivity; exfalso; lia.
Qed.

Lemma keep_code_spec : forall l, keep_code l = keep_spec l.
Proof.
  intros l. destruct l as [|x r]; [vm_compute; reflexivity|].
  unfold keep_code, keep_gen, keep_spec.
  change nan_literal with nan_str.
  destruct (stats_facts (x :: r)) as [F1 [F2 [F3 [F4 F5]]]]; [discriminate|].
  apply keep_of_equiv; auto.
Qed.

Lemma keep_spec_iff : forall l, keep_spec l = true <->
  1 < distinct l /\ 5 * maxcount l < 4 * length l /\ 4 * count nan_str l < 3 * length l.
Proof.
  intros. unfold keep_spec, keep_spec_of. rewrite !andb_true_iff, !Nat.ltb_lt. tauto.
Qed.

Lemma keep_code_iff : forall l, keep_code l = true <->
  1 < distinct l /\ 5 * maxcount l < 4 * length l /\ 4 * count nan_str l < 3 * length l.
Proof. intros. rewrite keep_code_spec. apply keep_spec_iff. Qed.

(* emitted names: exactly the kept transformers *)
Lemma emitted_In : forall A (sel : list (str * A)) col rendered n,
  In n (emitted sel col rendered) <->
  exists k e l, In ((k, e), l) (combine sel rendered) /\ keep_spec l = true /\ n = col ++ k.
Proof.
  intros. unfold emitted. rewrite in_map_iff. split.
  - intros [[[k e] l] [Hn Hf]]. apply filter_In in Hf. cbn [fst snd] in *. exists k, e, l. intuition.
  - intros [k [e [l [Hin [Hk ->]]]]]. exists ((k, e), l). split; [reflexivity|]. apply filter_In. auto.
Qed.

Lemma subset_In : forall a b, subset a b = true <-> (forall x, In x a -> In x b).
Proof.
  intros. unfold subset. rewrite forallb_forall. split; intros H x Hx; [apply mem_In | apply mem_In]; auto.
Qed.

Lemma same_set_iff : forall a b, same_set a b = true <-> (forall x, In x a <-> In x b).
Proof.
  intros. unfold same_set. rewrite andb_true_iff, !subset_In. split.
  - intros [H1 H2] x. split; auto.
  - intros H. split; intros x; apply H.
Qed.

(* ========================================================================================== *)
(* numeric parse                                                                                *)

Lemma strip_idem : forall ch s, strip ch (strip ch s) = strip ch s.
Proof.
  intros. unfold strip. induction s as [|c s IH]; cbn [filter]; [reflexivity|].
  destruct (negb (N.eqb c ch)) eqn:E; cbn [filter]; [rewrite E, IH; reflexivity | exact IH].
Qed.

Lemma strip_no_char : forall ch s, ~ In ch (strip ch s).
Proof.
  intros ch s H. unfold strip in H. apply filter_In in H. destruct H as [_ H].
  rewrite N.eqb_refl in H. discriminate.
Qed.

Lemma strip_app : forall ch a b, strip ch (a ++ b) = strip ch a ++ strip ch b.
Proof. intros. unfold strip. apply filter_app. Qed.

Lemma strip_id : forall ch s, ~ In ch s -> strip ch s = s.
Proof.
  intros ch s. unfold strip. induction s as [|c s IH]; intros H; cbn [filter]; [reflexivity|].
  destruct (N.eqb_spec c ch) as [->|Hne]; [exfalso; apply H; left; reflexivity|].
  cbn [negb]. rewrite IH; [reflexivity | intros Hin; apply H; right; exact Hin].
Qed.

Lemma parse_cell_strip : forall s, parse_cell s = parse_cell (strip strip_char s).
Proof. intros. unfold parse_cell, parse_cell_gen. rewrite strip_idem. reflexivity. Qed.

Lemma parse_cell_unfold : forall s,
  parse_cell s = match strip 34%N s with [] => Some empty_value | t => parse_float t end.
Proof. reflexivity. Qed.

Lemma oQeq_refl : forall a, oQeq a a.
Proof. intros [q|]; cbn; [apply Qeq_refl | exact I]. Qed.

(* the parse of the source (stripped character, value of the empty cell) = the parse of the property *)
Lemma parse_cell_is_spec : forall s, oQeq (parse_cell s) (parse_cell_spec s).
Proof.
  intros s. unfold parse_cell, parse_cell_spec, parse_cell_gen.
  change strip_char with 34%N.
  destruct (strip 34%N s); [|apply oQeq_refl].
  cbn [oQeq]. unfold empty_value. reflexivity.
Qed.

Lemma parse_cell_spec_empty : parse_cell_spec [] = Some 0%Q.
Proof. reflexivity. Qed.

Lemma parse_cell_only_quotes : forall s, (forall c, In c s -> c = 34%N) -> parse_cell_spec s = Some 0%Q.
Proof.
  intros s H. unfold parse_cell_spec, parse_cell_gen.
  replace (strip 34%N s) with (@nil N); [reflexivity|].
  induction s as [|c s IH]; [reflexivity|]. unfold strip. cbn [filter].
  rewrite (H c (or_introl eq_refl)). cbn. apply IH. intros d Hd. apply H. right. exact Hd.
Qed.

(* plain digit strings denote their decimal value *)
Lemma span_digits_all : forall ds, forallb is_digit ds = true -> span_digits ds = (ds, []).
Proof.
  induction ds as [|c ds IH]; intros H; cbn [span_digits]; [reflexivity|].
  cbn [forallb] in H. apply andb_true_iff in H. destruct H as [H1 H2].
  rewrite H1, (IH H2). reflexivity.
Qed.

Lemma parse_float_digits : forall c ds, forallb is_digit (c :: ds) = true ->
  parse_float (c :: ds) = Some (inject_Z (digits_val 0 (c :: ds))).
Proof.
  intros c ds H. unfold parse_float.
  assert (Hc : is_digit c = true) by (cbn [forallb] in H; apply andb_true_iff in H; tauto).
  assert (N1 : c <> 45%N) by (intros ->; discriminate Hc).
  assert (N2 : c <> 43%N) by (intros ->; discriminate Hc).
  assert (S : (let (neg, s1) := match c :: ds with
                   | 45%N :: r => (true, r) | 43%N :: r => (false, r) | _ => (false, c :: ds) end in
               (neg, s1)) = (false, c :: ds)).
  { destruct c as [|p]; [reflexivity|].
    do 6 (destruct p as [p|p|]; try reflexivity); congruence. }
  destruct c as [|p]; [discriminate Hc|].
  do 6 (destruct p as [p|p|]; try discriminate Hc); try congruence;
    rewrite (span_digits_all _ H); cbn [is_nil andb exponent app length Z.of_nat Z.sub Z.leb Z.compare Z.opp];
    rewrite app_nil_r; cbn [Z.pow Z.pow_pos Pos.iter Z.mul]; rewrite Z.mul_1_r; reflexivity.
Qed.

(* ========================================================================================== *)
(* real-number semantics                                                                        *)
Local Open Scope R_scope.

Lemma Rltb_true : forall a b, a < b -> Rltb a b = true.
Proof. intros. unfold Rltb. destruct (Rlt_dec a b); [reflexivity | contradiction]. Qed.
Lemma Rltb_false : forall a b, b <= a -> Rltb a b = false.
Proof. intros. unfold Rltb. destruct (Rlt_dec a b); [lra | reflexivity]. Qed.
Lemma Reqb_true : forall a b, a = b -> Reqb a b = true.
Proof. intros. unfold Reqb. destruct (Req_EM_T a b); [reflexivity | contradiction]. Qed.
Lemma Reqb_false : forall a b, a <> b -> Reqb a b = false.
Proof. intros. unfold Reqb. destruct (Req_EM_T a b); [contradiction | reflexivity]. Qed.

Lemma Rltb_cases : forall a b, (a < b /\ Rltb a b = true) \/ (b <= a /\ Rltb a b = false).
Proof. intros. destruct (Rlt_le_dec a b); [left | right]; split; auto using Rltb_true, Rltb_false. Qed.
Lemma Reqb_cases : forall a b, (a = b /\ Reqb a b = true) \/ (a <> b /\ Reqb a b = false).
Proof. intros. destruct (Req_EM_T a b); [left | right]; split; auto using Reqb_true, Reqb_false. Qed.

Lemma Q2R_int : forall z, Q2R (z # 1) = IZR z.
Proof. intros. unfold Q2R. cbn [Qnum Qden]. rewrite Rinv_1, Rmult_1_r. reflexivity. Qed.

Lemma Q2R_inject_Z : forall z, Q2R (inject_Z z) = IZR z.
Proof. intros. apply Q2R_int. Qed.

Lemma Q2R_per_cent : forall z, Q2R (z # 100) = IZR z / 100.
Proof. intros. unfold Q2R. cbn [Qnum Qden]. reflexivity. Qed.

(* ---- round half to even ---- *)
Lemma rhe_spec : forall r,
  Rabs (r - IZR (rhe r)) <= 1 / 2 /\ (Rabs (r - IZR (rhe r)) = 1 / 2 -> Z.even (rhe r) = true).
Proof.
  intros r. unfold rhe.
  destruct (base_Int_part r) as [H1 H2].
  set (f := Int_part r) in *.
  destruct (Rlt_dec (r - IZR f) (1 / 2)) as [A|A].
  - split.
    + rewrite Rabs_right by lra. lra.
    + rewrite Rabs_right by lra. lra.
  - destruct (Rlt_dec (1 / 2) (r - IZR f)) as [B|B].
    + rewrite plus_IZR. split.
      * rewrite Rabs_left by lra. lra.
      * rewrite Rabs_left by lra. lra.
    + assert (E : r - IZR f = 1 / 2) by lra.
      destruct (Z.even f) eqn:Ev.
      * split; [rewrite Rabs_right by lra; lra | intros _; exact Ev].
      * split.
        -- rewrite plus_IZR. rewrite Rabs_left by lra. lra.
        -- intros _. replace (f + 1)%Z with (Z.succ f) by lia.
           rewrite Z.even_succ. rewrite <- Z.negb_even, Ev. reflexivity.
Qed.

Lemma Int_part_IZR : forall z, Int_part (IZR z) = z.
Proof.
  intros z. unfold Int_part.
  assert (H : (z + 1)%Z = up (IZR z)).
  { apply up_tech; [lra | rewrite plus_IZR; lra]. }
  rewrite <- H. lia.
Qed.

Lemma rhe_IZR : forall z, rhe (IZR z) = z.
Proof.
  intros z. unfold rhe. rewrite Int_part_IZR.
  destruct (Rlt_dec (IZR z - IZR z) (1 / 2)); [reflexivity | exfalso; lra].
Qed.

(* the nearest integer is unique when it is strictly nearer than one half *)
Lemma rhe_nearest : forall r z, Rabs (r - IZR z) < 1 / 2 -> rhe r = z.
Proof.
  intros r z H. destruct (rhe_spec r) as [S _].
  apply Rabs_def2 in H. destruct H as [Ha Hb].
  assert (S1 : -(1/2) <= r - IZR (rhe r) <= 1/2).
  { split; [|apply Rle_trans with (2 := S); apply Rle_abs].
    apply Ropp_le_cancel. rewrite Ropp_involutive. apply Rle_trans with (2 := S).
    rewrite <- Rabs_Ropp. apply Rle_abs. }
  assert (D : -1 < IZR (rhe r) - IZR z < 1) by lra.
  rewrite <- minus_IZR in D. destruct D as [D1 D2].
  apply lt_IZR in D1. apply lt_IZR in D2. lia.
Qed.

Lemma rnd_0 : forall v, rnd 0 v = IZR (rhe v).
Proof.
  intros. unfold rnd. cbn [pow]. rewrite Rmult_1_r. unfold Rdiv. rewrite Rinv_1, Rmult_1_r. reflexivity.
Qed.

(* ---- max of a column ---- *)
Lemma fold_Rmax_ge : forall ys y, y <= fold_left Rmax ys y /\ (forall z, In z ys -> z <= fold_left Rmax ys y).
Proof.
  induction ys as [|a ys IH]; intros y; cbn [fold_left].
  - split; [lra | intros z []].
  - destruct (IH (Rmax y a)) as [H1 H2]. split.
    + apply Rle_trans with (2 := H1). apply Rmax_l.
    + intros z [->|Hz]; [apply Rle_trans with (2 := H1); apply Rmax_r | apply H2; exact Hz].
Qed.

Lemma fold_Rmax_in : forall ys y, fold_left Rmax ys y = y \/ In (fold_left Rmax ys y) ys.
Proof.
  induction ys as [|a ys IH]; intros y; cbn [fold_left]; [left; reflexivity|].
  destruct (IH (Rmax y a)) as [H|H].
  - rewrite H. unfold Rmax. destruct (Rle_dec y a); [right; left; reflexivity | left; reflexivity].
  - right. right. exact H.
Qed.

Lemma list_max_spec : forall xs m, list_max xs = Some m -> In m xs /\ (forall z, In z xs -> z <= m).
Proof.
  intros [|y ys] m H; [discriminate|]. cbn [list_max] in H. injection H as <-.
  destruct (fold_Rmax_ge ys y) as [H1 H2]. split.
  - destruct (fold_Rmax_in ys y) as [E|E]; [rewrite E; left; reflexivity | right; exact E].
  - intros z [<-|Hz]; [exact H1 | apply H2; exact Hz].
Qed.

(* ---- literals equal as rationals denote the same formula ---- *)
Lemma cmp_eqb_eq : forall a b, cmp_eqb a b = true -> a = b.
Proof. destruct a, b; cbn; congruence. Qed.

Lemma expr_eqb_den : forall a b, expr_eqb a b = true -> forall xs x, den a xs x = den b xs x.
Proof.
  induction a; destruct b; cbn [expr_eqb]; intros H xs x; try discriminate H; try reflexivity;
    repeat match goal with
           | H : _ && _ = true |- _ => apply andb_true_iff in H; destruct H
           end;
    cbn [den].
  - f_equal. apply Qeq_eqR. apply Qeq_bool_eq. assumption.
  - rewrite (IHa1 _ H xs x), (IHa2 _ H0 xs x). reflexivity.
  - rewrite (IHa1 _ H xs x), (IHa2 _ H0 xs x). reflexivity.
  - rewrite (IHa1 _ H xs x), (IHa2 _ H0 xs x). reflexivity.
  - rewrite (IHa1 _ H xs x), (IHa2 _ H0 xs x). reflexivity.
  - rewrite (IHa _ H xs x). reflexivity.
  - rewrite (IHa _ H xs x). reflexivity.
  - rewrite (IHa _ H xs x). reflexivity.
  - rewrite (IHa _ H xs x). reflexivity.
  - apply Nat.eqb_eq in H0. subst. rewrite (IHa _ H xs x). reflexivity.
  - apply Nat.eqb_eq in H0. subst. rewrite (IHa _ H xs x). reflexivity.
  - apply cmp_eqb_eq in H. subst.
    rewrite (IHa1 _ H3 xs x), (IHa2 _ H2 xs x), (IHa3 _ H1 xs x), (IHa4 _ H0 xs x). reflexivity.
Qed.

(* conditions of np.where in the presets never involve a non-finite operand *)
Lemma total_den : forall e, total_expr e = true -> forall xs x, exists v, den e xs x = Some v.
Proof.
  induction e; cbn [total_expr]; intros H xs x; try discriminate H;
    repeat match goal with
           | H : _ && _ = true |- _ => apply andb_true_iff in H; destruct H
           end;
    cbn [den].
  - eexists; reflexivity.
  - eexists; reflexivity.
  - destruct (IHe1 H xs x) as [u ->]. destruct (IHe2 H0 xs x) as [v ->]. eexists; reflexivity.
  - destruct (IHe1 H xs x) as [u ->]. destruct (IHe2 H0 xs x) as [v ->]. eexists; reflexivity.
  - destruct (IHe1 H xs x) as [u ->]. destruct (IHe2 H0 xs x) as [v ->]. eexists; reflexivity.
  - destruct (IHe H xs x) as [u ->]. eexists; reflexivity.
  - destruct (IHe H xs x) as [u ->]. eexists; reflexivity.
  - destruct (IHe H xs x) as [u ->]. eexists; reflexivity.
  - destruct (IHe H xs x) as [u ->]. eexists; reflexivity.
Qed.

(* ========================================================================================== *)
(* the fw family                                                                                *)

Lemma fw_body_den : forall b res thr xs x,
  den (fw_body b res thr) xs x = Some (fw_fun b (Q2R res) (Q2R thr) x).
Proof.
  intros b res thr xs x. unfold fw_body, fw_fun. cbn [den cmpR].
  destruct (Rltb_cases x (Q2R thr)) as [[A ->]|[A ->]]; [reflexivity|].
  destruct (Rltb_cases (Q2R thr) x) as [[B ->]|[B ->]].
  - destruct b; cbn [den olift1 olift2].
    + rewrite (Rltb_false (x - Q2R thr) 0) by lra. cbn [olift1 olift2]. rewrite rnd_0. reflexivity.
    + rewrite (Rltb_true 0 (x - Q2R thr)) by lra. cbn [olift1 olift2]. rewrite rnd_0. reflexivity.
  - f_equal. unfold Q2R. cbn [Qnum Qden]. lra.
Qed.

Lemma fw_thr_R : forall k gt,
  Q2R (fw_thr k gt) = if fw_is_prob k then IZR (Z.of_N gt) / 100 else IZR (Z.of_N gt).
Proof.
  intros. unfold fw_thr. destruct (fw_is_prob k); [apply Q2R_per_cent | apply Q2R_inject_Z].
Qed.

(* the function named by (kind, resolution, threshold), in terms of the two numbers only *)
Definition fw_named_fun (k : fwkind) (res gt : N) : R -> R :=
  fw_fun (fw_is_sqrt k) (IZR (Z.of_N res))
         (if fw_is_prob k then IZR (Z.of_N gt) / 100 else IZR (Z.of_N gt)).

Lemma fw_expr_den : forall k res gt xs x, den (fw_expr k res gt) xs x = Some (fw_named_fun k res gt x).
Proof.
  intros. unfold fw_expr, fw_named_fun. rewrite fw_body_den, Q2R_inject_Z, fw_thr_R. reflexivity.
Qed.

(* finite part, on the regenerated table *)
Definition fw_entry_ok (k : fwkind) (res gt : N) : bool :=
  match lookup (fw_name k res gt) fw_table with
  | Some e => expr_eqb e (fw_expr k res gt)
  | None => false
  end.

Definition fw_grid_ok : bool :=
  forallb (fun k => forallb (fun res => forallb (fun gt => fw_entry_ok k res gt) greater_than_range)
                            resolution_range) fw_kinds.

Lemma fw_grid_ok_true : fw_grid_ok = true.
Proof. vm_compute. reflexivity. Qed.

Lemma fw_family : forall k res gt,
  In res resolution_range -> In gt greater_than_range ->
  exists e, lookup (fw_name k res gt) fw_table = Some e
            /\ expr_eqb e (fw_expr k res gt) = true
            /\ forall xs x, den e xs x = Some (fw_named_fun k res gt x).
Proof.
  intros k res gt Hr Hg.
  assert (Hk : In k fw_kinds) by (destruct k; cbn; tauto).
  pose proof fw_grid_ok_true as G. unfold fw_grid_ok in G.
  rewrite forallb_forall in G. specialize (G k Hk).
  rewrite forallb_forall in G. specialize (G res Hr).
  rewrite forallb_forall in G. specialize (G gt Hg).
  unfold fw_entry_ok in G. destruct (lookup (fw_name k res gt) fw_table) as [e|]; [|discriminate].
  exists e. split; [reflexivity|]. split; [exact G|].
  intros xs x. rewrite (expr_eqb_den _ _ G). apply fw_expr_den.
Qed.

(* conversely: the fw preset is the default preset plus exactly the generated grid *)
Definition fw_generated : list (str * expr) :=
  flat_map (fun k => flat_map (fun res => map (fun gt => (fw_name k res gt, fw_expr k res gt))
                                              greater_than_range) resolution_range) fw_kinds.

Definition entry_in (t : list (str * expr)) (kv : str * expr) : bool :=
  match lookup (fst kv) t with Some e => expr_eqb e (snd kv) | None => false end.

Definition fw_closed_ok : bool :=
  forallb (fun kv => entry_in default_table kv || entry_in fw_generated kv) fw_table.

Lemma fw_closed_ok_true : fw_closed_ok = true.
Proof. vm_compute. reflexivity. Qed.

Lemma fw_generated_In : forall n e, In (n, e) fw_generated ->
  exists k res gt, In res resolution_range /\ In gt greater_than_range
                   /\ n = fw_name k res gt /\ e = fw_expr k res gt.
Proof.
  intros n e H. unfold fw_generated in H.
  apply in_flat_map in H. destruct H as [k [_ H]].
  apply in_flat_map in H. destruct H as [res [Hr H]].
  apply in_map_iff in H. destruct H as [gt [E Hg]].
  injection E as <- <-. exists k, res, gt. auto.
Qed.

Lemma fw_closed : forall n e, In (n, e) fw_table ->
  (exists e', lookup n default_table = Some e' /\ expr_eqb e' e = true)
  \/ (exists k res gt, In res resolution_range /\ In gt greater_than_range
                       /\ n = fw_name k res gt /\ expr_eqb (fw_expr k res gt) e = true).
Proof.
  intros n e H. pose proof fw_closed_ok_true as G. unfold fw_closed_ok in G.
  rewrite forallb_forall in G. specialize (G (n, e) H). apply orb_true_iff in G.
  unfold entry_in in G. cbn [fst snd] in G. destruct G as [G|G].
  - left. destruct (lookup n default_table) as [e'|]; [|discriminate]. exists e'. auto.
  - right. destruct (lookup n fw_generated) as [e'|] eqn:L; [|discriminate].
    apply lookup_In in L. apply fw_generated_In in L.
    destruct L as [k [res [gt [Hr [Hg [-> ->]]]]]]. exists k, res, gt. auto.
Qed.

(* nesting of the presets: minimal within default within fw, with equal formulas *)
Definition nested_ok : bool :=
  forallb (entry_in default_table) minimal_table && forallb (entry_in fw_table) default_table.

Lemma nested_ok_true : nested_ok = true.
Proof. vm_compute. reflexivity. Qed.

Lemma entry_in_sound : forall t n e, entry_in t (n, e) = true ->
  exists e', lookup n t = Some e' /\ forall xs x, den e' xs x = den e xs x.
Proof.
  intros t n e H. unfold entry_in in H. cbn [fst snd] in H.
  destruct (lookup n t) as [e'|]; [|discriminate]. exists e'. split; [reflexivity|].
  intros. apply expr_eqb_den. exact H.
Qed.

Lemma presets_nested :
  (forall n e, In (n, e) minimal_table ->
     exists e', lookup n default_table = Some e' /\ forall xs x, den e' xs x = den e xs x)
  /\ (forall n e, In (n, e) default_table ->
     exists e', lookup n fw_table = Some e' /\ forall xs x, den e' xs x = den e xs x).
Proof.
  pose proof nested_ok_true as G. unfold nested_ok in G. apply andb_true_iff in G. destruct G as [G1 G2].
  rewrite forallb_forall in G1, G2.
  split; intros n e H; apply entry_in_sound; auto.
Qed.

(* sizes, duplicate-freeness *)
Fixpoint nodupb (l : list str) : bool :=
  match l with [] => true | x :: r => negb (mem x r) && nodupb r end.

Lemma nodupb_NoDup : forall l, nodupb l = true -> NoDup l.
Proof.
  induction l as [|x r IH]; cbn [nodupb]; intros H; [constructor|].
  apply andb_true_iff in H. destruct H as [H1 H2]. constructor; [|apply IH; exact H2].
  intros Hin. apply mem_In in Hin. rewrite Hin in H1. discriminate.
Qed.

Lemma sizes :
  length minimal_table = 4%nat /\ length default_table = 10%nat /\ length fw_table = 138%nat
  /\ NoDup (names minimal_table) /\ NoDup (names default_table) /\ NoDup (names fw_table).
Proof.
  repeat split; try (vm_compute; reflexivity); apply nodupb_NoDup; vm_compute; reflexivity.
Qed.

Lemma conds_simple : forallb (fun kv => simple_conds (snd kv)) fw_table = true.
Proof. vm_compute. reflexivity. Qed.

(* ========================================================================================== *)
(* the names of the default preset                                                              *)

Ltac lits := rewrite ?Q2R_int.

Ltac named_start :=
  eexists; split; [reflexivity|]; intros xs x; cbn [den olift1 olift2 cmpR]; lits.

Lemma named_sqrt : exists e, lookup nm_sqrt default_table = Some e /\ forall xs x, den e xs x = rd_sqrt xs x.
Proof. named_start. reflexivity. Qed.

Lemma named_log_x1 : exists e, lookup nm_log_x1 default_table = Some e /\ forall xs x, den e xs x = rd_log_x1 xs x.
Proof.
  named_start. unfold rd_log_x1.
  destruct (Rltb_cases (-1) x) as [[A ->]|[A ->]].
  - rewrite Rltb_true by lra. reflexivity.
  - rewrite Rltb_false by lra. reflexivity.
Qed.

Lemma named_sqrt_abs : exists e, lookup nm_sqrt_abs default_table = Some e /\ forall xs x, den e xs x = rd_sqrt_abs xs x.
Proof.
  named_start. unfold rd_sqrt_abs.
  rewrite Rltb_false by apply Rabs_pos. reflexivity.
Qed.

Lemma named_log_abs1 : exists e, lookup nm_log_abs1 default_table = Some e /\ forall xs x, den e xs x = rd_log_abs1 xs x.
Proof.
  named_start. unfold rd_log_abs1.
  rewrite Rltb_true by (pose proof (Rabs_pos x); lra). reflexivity.
Qed.

Lemma named_sign_log : exists e, lookup nm_sign_log default_table = Some e /\ forall xs x, den e xs x = rd_sign_log xs x.
Proof.
  named_start. unfold rd_sign_log.
  destruct (Reqb_cases x 0) as [[A ->]|[A ->]].
  - subst x. rewrite Rabs_R0. rewrite Reqb_true by reflexivity. reflexivity.
  - destruct (Rltb_cases 0 x) as [[B ->]|[B ->]].
    + rewrite (Rabs_right x) by lra.
      rewrite Reqb_false by lra. rewrite Rltb_true by lra. cbn [olift2]. f_equal. field. lra.
    + rewrite (Rabs_left x) by lra.
      rewrite Reqb_false by lra. rewrite Rltb_true by lra. cbn [olift2]. f_equal. field. lra.
Qed.

Lemma arcsinh_arg_pos : forall x, 0 < x + sqrt (x ^ 2 + 1).
Proof.
  intros x. assert (P : 0 < x ^ 2 + 1) by (pose proof (pow2_ge_0 x); lra).
  pose proof (sqrt_lt_R0 _ P) as S.
  destruct (Rle_lt_dec 0 x) as [H|H]; [lra|].
  assert (L : sqrt ((- x) ^ 2) < sqrt (x ^ 2 + 1)).
  { apply sqrt_lt_1_alt. split; [apply pow2_ge_0|]. replace ((- x) ^ 2) with (x ^ 2) by ring. lra. }
  rewrite sqrt_pow2 in L by lra. lra.
Qed.

Lemma named_arcsinh : exists e, lookup nm_arcsinh default_table = Some e /\ forall xs x, den e xs x = rd_arcsinh xs x.
Proof.
  named_start. unfold rd_arcsinh, arcsinh.
  rewrite Rltb_false by (pose proof (pow2_ge_0 x); lra). cbn [olift2].
  rewrite Rltb_true by apply arcsinh_arg_pos. reflexivity.
Qed.

Lemma named_log_sqrt : exists e, lookup nm_log_sqrt default_table = Some e /\ forall xs x, den e xs x = rd_log_sqrt xs x.
Proof.
  named_start. unfold rd_log_sqrt.
  destruct (Rltb_cases x 0) as [[A ->]|[A ->]].
  - destruct (Rltb 0 (x + 1)); reflexivity.
  - rewrite Rltb_true by lra. reflexivity.
Qed.

Lemma named_log100 : exists e, lookup nm_log100 default_table = Some e /\ forall xs x, den e xs x = rd_log100 xs x.
Proof.
  named_start. unfold rd_log100.
  destruct (Rltb_cases (-1) x) as [[A ->]|[A ->]].
  - rewrite Rltb_true by lra. cbn [olift1 olift2]. rewrite rnd_0. reflexivity.
  - rewrite Rltb_false by lra. reflexivity.
Qed.

Lemma named_nonzero : exists e, lookup nm_nonzero default_table = Some e /\ forall xs x, den e xs x = rd_nonzero xs x.
Proof.
  named_start. unfold rd_nonzero.
  destruct (Reqb_cases x 0) as [[A ->]|[A ->]]; reflexivity.
Qed.

Lemma named_round_div_max : exists e, lookup nm_round_div_max default_table = Some e
  /\ forall xs x, den e xs x = rd_round_div_max xs x.
Proof.
  named_start. unfold rd_round_div_max.
  destruct (list_max xs) as [m|]; [|reflexivity].
  destruct (Reqb m 0); cbn [olift1]; [reflexivity|]. rewrite rnd_0. reflexivity.
Qed.

(* all ten names of the default preset have a reading *)
Lemma readings_cover : forallb (fun n => mem n (map fst readings)) (names default_table) = true
                       /\ length readings = length default_table.
Proof. split; vm_compute; reflexivity. Qed.

(* ========================================================================================== *)
(* checker of the harness, concrete instances (non-vacuity)                                     *)

Lemma check_sound : forall c o, C12_check c o = true -> forall n, In n o <-> In n (C12_model c).
Proof. intros c o H. apply same_set_iff. exact H. Qed.

Lemma model_emitted : forall preset col rendered sel, select preset = Some sel ->
  forall n, In n (C12_model (preset, col, rendered)) <->
            exists k e l, In ((k, e), l) (combine sel rendered)
                          /\ (1 < distinct l /\ 5 * maxcount l < 4 * length l /\ 4 * count nan_str l < 3 * length l)%nat
                          /\ n = col ++ k.
Proof.
  intros preset col rendered sel Hs n. unfold C12_model. rewrite Hs, emitted_In.
  split; intros [k [e [l [H1 [H2 H3]]]]]; exists k, e, l; (split; [exact H1|]); (split; [|exact H3]);
    apply keep_spec_iff; exact H2.
Qed.

Lemma select_registered : forall s tabs,
  Forall2 (fun ns t => lookup ns registry = Some t /\ t <> []) (split_on preset_separator s) tabs ->
  select s = Some (union tabs)
  /\ (forall k, lookup k (union tabs) = lookup_last k tabs)
  /\ (forall k, In k (names (union tabs)) <-> exists t, In t tabs /\ In k (names t)).
Proof.
  intros s tabs H. split; [apply select_valid; exact H|]. split; intros k; [apply lookup_union | apply names_union].
Qed.

Example select_default_minimal :
  option_map names (select (s2l "default,minimal")) = Some (names default_table)
  /\ option_map names (select (s2l "minimal,default")) = Some (names default_table)
  /\ option_map (fun t => length t) (select (s2l "fw-transformers,minimal")) = Some 138%nat
  /\ select (s2l "minimal,no-such-preset") = Some minimal_table
  /\ select (s2l "no-such-preset,minimal") = None.   (* the error is raised inside the loop *)
Proof. repeat split; vm_compute; reflexivity. Qed.

Example select_hypothesis_satisfiable :
  Forall2 (fun ns t => lookup ns registry = Some t /\ t <> [])
          (split_on preset_separator (s2l "default,minimal")) [default_table; minimal_table].
Proof.
  assert (E : split_on preset_separator (s2l "default,minimal") = [s2l "default"; s2l "minimal"])
    by (vm_compute; reflexivity).
  rewrite E. repeat constructor; try (vm_compute; reflexivity); discriminate.
Qed.

Local Close Scope R_scope.

Example keep_boundaries :
  let col (a b : nat) := repeat (s2l "1.0") a ++ repeat (s2l "2.0") b in
  keep_code (col 8 2) = false            (* exactly 80 % *)
  /\ keep_code (col 79 21) = true        (* 79 % *)
  /\ keep_code (repeat nan_str 3 ++ [s2l "1.0"]) = false                   (* exactly 75 % nan *)
  /\ keep_code (repeat nan_str 74 ++ repeat (s2l "1.0") 13 ++ repeat (s2l "2.0") 13) = true
  /\ keep_code (repeat (s2l "1.0") 5) = false.                            (* constant *)
Proof. repeat split; vm_compute; reflexivity. Qed.

Example parse_examples :
  parse_cell_spec [] = Some 0%Q
  /\ parse_cell (s2l """12.5""") = Some (125 # 10)%Q
  /\ parse_cell (s2l "-3e2") = Some (-300 # 1)%Q
  /\ parse_cell_spec (s2l """""") = Some 0%Q
  /\ parse_cell (s2l "1e-2") = Some (1 # 100)%Q
  /\ parse_cell (s2l "abc") = None.
Proof. repeat split; vm_compute; reflexivity. Qed.

Example fw_example :   (* the entry the repo's test looks at: _tr_fw_sqrt_res_1_gt_1 *)
  fw_name Ksqrt 1 1 = s2l "_tr_fw_sqrt_res_1_gt_1"
  /\ fw_name Kplog 100 96 = s2l "_tr_fw_prob_log_res_100_gt_0.96"
  /\ In 1%N resolution_range /\ In 96%N greater_than_range.
Proof. repeat split; vm_compute; auto 10. Qed.

Local Open Scope R_scope.

Example fw_values : fw_named_fun Ksqrt 1 1 5 = 2 /\ fw_named_fun Ksqrt 1 1 1 = 0 /\ fw_named_fun Ksqrt 1 1 (1/2) = 1/2.
Proof.
  unfold fw_named_fun, fw_fun. cbn [fw_is_sqrt fw_is_prob Z.of_N]. repeat split.
  - rewrite (Rltb_false 5 1) by lra. rewrite (Rltb_true 1 5) by lra.
    replace (5 - 1) with (2 * 2) by ring. rewrite sqrt_square by lra.
    replace (2 * 1) with (IZR 2) by (simpl; ring). rewrite rhe_IZR. reflexivity.
  - rewrite Rltb_false by lra. reflexivity.
  - rewrite Rltb_true by lra. reflexivity.
Qed.

Lemma parse_cell_code_spec : forall s, pres_eq (parse_cell_code s) (parse_cell3 s).
Proof.
  intros s. unfold parse_cell_code, parse_cell3. change strip_char with 34%N.
  destruct (strip 34%N s) as [|c r].
  - cbn. split; reflexivity.
  - destruct (parse_py (c :: r)); cbn; auto. split; [apply Qeq_refl | reflexivity].
Qed.

(* every modelled preset is a key of the vault's registry (the other keys are not modelled) *)
Lemma registry_subset : forallb (fun n => mem n vault_registry_keys) (names registry) = true.
Proof. vm_compute. reflexivity. Qed.
