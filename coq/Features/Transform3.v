(* C12 — the composed model: raw cells -> numeric parse -> named formula -> text -> keep/drop rule.

   Values carry the special classes of IEEE doubles that are visible in the rendered text and in the keep rule:
   finite numbers with a signed zero, nan, +inf, -inf ([gval]).  The evaluator [geval] is written once, generically in
   the carrier of the finite values (a record of operations [Ops]); it is instantiated at R ([den3], the specification:
   exact real arithmetic, no rounding, no overflow) and at Q ([denQ], executable: sqrt only of rational squares, ln only
   of 1, [None] = "not computable in Q").  Features/Transform3Proofs.v proves that the Q instance computes the R instance
   wherever it answers, and that on finite data [den3] refines [den] of Features/Transform.v.
   No proofs here. *)
From Coq Require Import Ascii String.
From Coq Require Import List NArith ZArith QArith Qreals Qround Reals Bool Arith.
From Outrank Require Import Features.Transform.
Import ListNotations.
Local Close Scope R_scope.
Local Close Scope Q_scope.

Inductive gval (T : Type) : Type :=
| GFin (v : T) (negzero : bool)     (* finite; the flag is meaningful (and only ever true) when v = 0: the value -0.0 *)
| GNaN
| GInf (neg : bool).
Arguments GFin {T} _ _.
Arguments GNaN {T}.
Arguments GInf {T} _.

Record Ops (T : Type) : Type := mkOps {
  o_ofQ : Q -> T;
  o_add : T -> T -> T;
  o_mul : T -> T -> T;
  o_opp : T -> T;
  o_div : T -> T -> T;            (* used with a non-zero divisor only *)
  o_ltb : T -> T -> bool;
  o_eqb : T -> T -> bool;
  o_sqrt : T -> option T;         (* used with a positive argument only; None = not computable in this carrier *)
  o_ln : T -> option T;           (* idem *)
  o_rnd : nat -> T -> T           (* np.round(., d): half to even *)
}.
Arguments o_ofQ {T} _ _.
Arguments o_add {T} _ _ _.
Arguments o_mul {T} _ _ _.
Arguments o_opp {T} _ _.
Arguments o_div {T} _ _ _.
Arguments o_ltb {T} _ _ _.
Arguments o_eqb {T} _ _ _.
Arguments o_sqrt {T} _ _.
Arguments o_ln {T} _ _.
Arguments o_rnd {T} _ _ _.

Section Generic.
  Context {T : Type} (K : Ops T).

  Definition zeroT : T := o_ofQ K 0%Q.
  Definition oneT : T := o_ofQ K 1%Q.
  Definition is_zero (v : T) : bool := o_eqb K v zeroT.
  Definition is_neg (v : T) : bool := o_ltb K v zeroT.

  (* canonical finite value: the sign flag survives only on a zero *)
  Definition fin (v : T) (z : bool) : gval T := GFin v (z && is_zero v).

  (* IEEE sign bit *)
  Definition sgn (x : gval T) : bool :=
    match x with GFin v z => is_neg v || z | GNaN => false | GInf n => n end.

  Definition gzero (x : gval T) : bool := match x with GFin v _ => is_zero v | _ => false end.

  Definition gneg (x : gval T) : gval T :=
    match x with GFin v z => fin (o_opp K v) (negb z) | GNaN => GNaN | GInf n => GInf (negb n) end.

  Definition gadd (x y : gval T) : gval T :=
    match x, y with
    | GNaN, _ | _, GNaN => GNaN
    | GInf a, GInf b => if Bool.eqb a b then GInf a else GNaN
    | GInf a, _ => GInf a
    | _, GInf b => GInf b
    | GFin a za, GFin b zb => fin (o_add K a b) (za && zb)      (* -0 only from (-0) + (-0) *)
    end.

  Definition gsub (x y : gval T) : gval T := gadd x (gneg y).

  Definition gmul (x y : gval T) : gval T :=
    match x, y with
    | GNaN, _ | _, GNaN => GNaN
    | GInf _, _ | _, GInf _ => if gzero x || gzero y then GNaN else GInf (xorb (sgn x) (sgn y))
    | GFin a _, GFin b _ => fin (o_mul K a b) (xorb (sgn x) (sgn y))
    end.

  Definition gdiv (x y : gval T) : gval T :=
    match x, y with
    | GNaN, _ | _, GNaN => GNaN
    | GInf _, GInf _ => GNaN
    | GFin _ _, GInf _ => fin zeroT (xorb (sgn x) (sgn y))
    | GInf _, GFin _ _ => GInf (xorb (sgn x) (sgn y))
    | GFin a _, GFin b _ =>
        if is_zero b then (if is_zero a then GNaN else GInf (xorb (sgn x) (sgn y)))
        else fin (o_div K a b) (xorb (sgn x) (sgn y))
    end.

  Definition gabs (x : gval T) : gval T :=
    match x with
    | GFin v _ => fin (if is_neg v then o_opp K v else v) false
    | GNaN => GNaN
    | GInf _ => GInf false
    end.

  Definition gsqrt (x : gval T) : option (gval T) :=
    match x with
    | GFin v z => if is_neg v then Some GNaN
                  else if is_zero v then Some (GFin v z)           (* sqrt(-0) = -0 *)
                  else match o_sqrt K v with Some r => Some (fin r false) | None => None end
    | GNaN => Some GNaN
    | GInf n => Some (if n then GNaN else GInf false)
    end.

  Definition glog (x : gval T) : option (gval T) :=
    match x with
    | GFin v _ => if is_neg v then Some GNaN
                  else if is_zero v then Some (GInf true)           (* log(+-0) = -inf *)
                  else match o_ln K v with Some r => Some (fin r false) | None => None end
    | GNaN => Some GNaN
    | GInf n => Some (if n then GNaN else GInf false)
    end.

  Fixpoint gpow (x : gval T) (n : nat) : gval T :=
    match n with O => GFin oneT false | S k => gmul (gpow x k) x end.

  Definition ground (d : nat) (x : gval T) : gval T :=
    match x with GFin v _ => fin (o_rnd K d v) (sgn x) | _ => x end.

  (* IEEE comparisons: anything involving nan is false (so != is true); -0 = +0 *)
  Definition gltb (x y : gval T) : bool :=
    match x, y with
    | GNaN, _ | _, GNaN => false
    | GInf a, GInf b => a && negb b
    | GInf a, GFin _ _ => a
    | GFin _ _, GInf b => negb b
    | GFin a _, GFin b _ => o_ltb K a b
    end.

  Definition gnumeq (x y : gval T) : bool :=
    match x, y with
    | GInf a, GInf b => Bool.eqb a b
    | GFin a _, GFin b _ => o_eqb K a b
    | _, _ => false
    end.

  Definition gcmp (c : cmp) (x y : gval T) : bool :=
    match c with
    | CLt => gltb x y
    | CLe => gltb x y || gnumeq x y
    | CGt => gltb y x
    | CGe => gltb y x || gnumeq x y
    | CEq => gnumeq x y
    | CNe => negb (gnumeq x y)
    end.

  Definition gisnan (x : gval T) : bool := match x with GNaN => true | _ => false end.

  (* np.max: nan wins, otherwise the first of the largest elements *)
  Definition gmax2 (a y : gval T) : gval T :=
    if gisnan a then a else if gisnan y then y else if gltb a y then y else a.

  Definition gmaxl (xs : list (gval T)) : option (gval T) :=
    match xs with [] => None | y :: ys => Some (fold_left gmax2 ys y) end.

  Definition obind {A B} (a : option A) (f : A -> option B) : option B :=
    match a with Some x => f x | None => None end.

  (* value of the formula at the element x of the column xs; None = empty column (np.max) or an operation the
     carrier cannot compute *)
  Fixpoint geval (e : expr) (xs : list (gval T)) (x : gval T) : option (gval T) :=
    match e with
    | EX => Some x
    | ELit q => Some (GFin (o_ofQ K q) false)
    | EAdd a b => obind (geval a xs x) (fun u => obind (geval b xs x) (fun v => Some (gadd u v)))
    | ESub a b => obind (geval a xs x) (fun u => obind (geval b xs x) (fun v => Some (gsub u v)))
    | EMul a b => obind (geval a xs x) (fun u => obind (geval b xs x) (fun v => Some (gmul u v)))
    | EDiv a b => obind (geval a xs x) (fun u => obind (geval b xs x) (fun v => Some (gdiv u v)))
    | ENeg a => obind (geval a xs x) (fun u => Some (gneg u))
    | ESqrt a => obind (geval a xs x) gsqrt
    | ELog a => obind (geval a xs x) glog
    | EAbs a => obind (geval a xs x) (fun u => Some (gabs u))
    | EPow a n => obind (geval a xs x) (fun u => Some (gpow u n))
    | ERound a d => obind (geval a xs x) (fun u => Some (ground d u))
    | EWhere c a b t f =>
        obind (geval a xs x) (fun u => obind (geval b xs x) (fun v =>
          if gcmp c u v then geval t xs x else geval f xs x))
    | EMaxX => gmaxl xs
    end.

  (* equality of the classes that are visible in the text: same finite number and same zero sign, nan, same infinity *)
  Definition gsame (x y : gval T) : bool :=
    match x, y with
    | GFin a za, GFin b zb => o_eqb K a b && Bool.eqb za zb
    | GNaN, GNaN => true
    | GInf a, GInf b => Bool.eqb a b
    | _, _ => false
    end.
End Generic.

Definition gmap {A B} (f : A -> B) (x : gval A) : gval B :=
  match x with GFin v z => GFin (f v) z | GNaN => GNaN | GInf n => GInf n end.

(* ------------------------------------------------------------------------------------------------------------ *)
(* The two carriers *)

Definition OpsR : Ops R :=
  mkOps R Q2R Rplus Rmult Ropp Rdiv Rltb Reqb (fun v => Some (sqrt v)) (fun v => Some (ln v)) rnd.

(* exact square root of a rational, when there is one *)
Definition Zsqrt_exact (z : Z) : option Z :=
  let s := Z.sqrt z in if Z.eqb (s * s) z then Some s else None.

Definition Qsqrt_exact (q : Q) : option Q :=
  let r := Qred q in
  match Zsqrt_exact (Qnum r), Zsqrt_exact (Zpos (Qden r)) with
  | Some a, Some b => if Z.eqb b 0 then None else Some (a # Z.to_pos b)%Q
  | _, _ => None
  end.

Definition Qln_exact (q : Q) : option Q := if Qeq_bool q 1%Q then Some 0%Q else None.

(* round half to even on a rational *)
Definition rheQ (q : Q) : Z :=
  let f := Qfloor q in
  match (q - inject_Z f ?= 1 # 2)%Q with
  | Lt => f
  | Gt => (f + 1)%Z
  | Eq => if Z.even f then f else (f + 1)%Z
  end.

Definition rndQ (d : nat) (q : Q) : Q :=
  (inject_Z (rheQ (q * inject_Z (10 ^ Z.of_nat d))) / inject_Z (10 ^ Z.of_nat d))%Q.

Definition Qltb (a b : Q) : bool := match (a ?= b)%Q with Lt => true | _ => false end.

Definition OpsQ : Ops Q :=
  mkOps Q (fun q => q) Qplus Qmult Qopp Qdiv Qltb Qeq_bool Qsqrt_exact Qln_exact rndQ.

Definition den3 : expr -> list (gval R) -> gval R -> option (gval R) := geval OpsR.
Definition denQ : expr -> list (gval Q) -> gval Q -> option (gval Q) := geval OpsQ.

(* ------------------------------------------------------------------------------------------------------------ *)
(* Numeric parse of a cell as Python's float() reads it (after the quote character is removed; the empty cell is 0):
   surrounding blanks, an optional sign, decimal numerals with single underscores between digits, "nan", "inf",
   "infinity" in any letter case.  PErr = float() raises ValueError. *)

Inductive pres := PVal (q : Q) (neg : bool) | PNan | PInfty (neg : bool) | PErr.

Definition is_blank (c : N) : bool :=
  N.eqb c 32 || (N.leb 9 c && N.leb c 13) || (N.leb 28 c && N.leb c 31) || N.eqb c 133 || N.eqb c 160.

Fixpoint drop_blanks (s : str) : str :=
  match s with c :: r => if is_blank c then drop_blanks r else s | [] => [] end.

Definition trim (s : str) : str := rev (drop_blanks (rev (drop_blanks s))).

Definition lower (c : N) : N := if N.leb 65 c && N.leb c 90 then (c + 32)%N else c.

(* digits with single underscores strictly between digits: returns the digits and the rest; None = misplaced '_' *)
Fixpoint span_digits_us (s : str) (prev_digit : bool) : option (str * str) :=
  match s with
  | c :: r =>
      if is_digit c then
        match span_digits_us r true with Some (d, t) => Some (c :: d, t) | None => None end
      else if N.eqb c 95 then
        (if prev_digit then
           match r with
           | c2 :: _ => if is_digit c2 then span_digits_us r false else None
           | [] => None
           end
         else None)
      else Some ([], s)
  | [] => Some ([], [])
  end.

Definition exponent_us (s : str) : option Z :=
  match s with
  | [] => Some 0%Z
  | c :: r =>
      if N.eqb c 101 || N.eqb c 69 then
        let (neg, r1) := match r with
                         | 45%N :: r' => (true, r')
                         | 43%N :: r' => (false, r')
                         | _ => (false, r)
                         end in
        match span_digits_us r1 false with
        | Some (ds, rest) =>
            if is_nil ds || negb (is_nil rest) then None
            else Some (if neg then (- digits_val 0 ds)%Z else digits_val 0 ds)
        | None => None
        end
      else None
  end.

Definition parse_py (s0 : str) : pres :=
  let s := trim s0 in
  let (neg, s1) := match s with
                   | 45%N :: r => (true, r)
                   | 43%N :: r => (false, r)
                   | _ => (false, s)
                   end in
  let low := map lower s1 in
  if str_eqb low (s2l "nan"%string) then PNan
  else if str_eqb low (s2l "inf"%string) || str_eqb low (s2l "infinity"%string) then PInfty neg
  else
    match span_digits_us s1 false with
    | None => PErr
    | Some (ip, s2) =>
        match (match s2 with
               | 46%N :: r =>
                   (* after the point an underscore may not come first; "1_.5" is excluded by span_digits_us already *)
                   span_digits_us r false
               | _ => Some ([], s2)
               end) with
        | None => PErr
        | Some (fp, s3) =>
            if is_nil ip && is_nil fp then PErr
            else match exponent_us s3 with
                 | None => PErr
                 | Some ex =>
                     let mant := digits_val 0 (ip ++ fp) in
                     let e := (ex - Z.of_nat (length fp))%Z in
                     let q := if (0 <=? e)%Z then inject_Z (mant * 10 ^ e)%Z
                              else (mant # Z.to_pos (10 ^ (- e)))%Q in
                     PVal q neg
                 end
        end
    end.

(* get_vals on one cell, as the property states it *)
Definition parse_cell3 (s : str) : pres :=
  match strip 34%N s with
  | [] => PVal 0%Q false
  | t => parse_py t
  end.

Definition pres_val {T} (O : Ops T) (p : pres) : option (gval T) :=
  match p with
  | PVal q neg => Some (if neg then gneg O (GFin (o_ofQ O q) false) else GFin (o_ofQ O q) false)
  | PNan => Some GNaN
  | PInfty neg => Some (GInf neg)
  | PErr => None
  end.

Fixpoint all_some {A} (l : list (option A)) : option (list A) :=
  match l with
  | [] => Some []
  | Some a :: r => match all_some r with Some t => Some (a :: t) | None => None end
  | None :: _ => None
  end.

(* the parsed column; None = some cell makes float() raise *)
Definition parse_column {T} (O : Ops T) (cells : list str) : option (list (gval T)) :=
  all_some (map (fun s => pres_val O (parse_cell3 s)) cells).

(* ------------------------------------------------------------------------------------------------------------ *)
(* The whole construction, for one input column.  [render] is numpy's astype(str) on one double, kept abstract. *)

Section Construct.
  Variable render : gval R -> str.

  (* the transformed column, as text; None = a formula has no value (empty column under np.max) *)
  Definition rendered_column (e : expr) (xs : list (gval R)) : option (list str) :=
    all_some (map (fun x => option_map render (den3 e xs x)) xs).

  Definition construct {A} (expr_of : A -> expr) (sel : list (str * A)) (col : str) (cells : list str)
      : option (list str) :=
    match parse_column OpsR cells with
    | None => None                                   (* ValueError *)
    | Some xs =>
        match all_some (map (fun kv => rendered_column (expr_of (snd kv)) xs) sel) with
        | None => None
        | Some rend => Some (emitted sel col rend)
        end
    end.
End Construct.

(* the same decision without text: statistics of the value classes themselves *)
Section ByClass.
  Context {A : Type} (eqA : A -> A -> bool).

  Fixpoint gcount (a : A) (l : list A) : nat :=
    match l with [] => 0 | x :: r => (if eqA a x then 1 else 0) + gcount a r end.
  Fixpoint gmem (a : A) (l : list A) : bool :=
    match l with [] => false | x :: r => eqA a x || gmem a r end.
  Fixpoint gdedup (l : list A) : list A :=
    match l with [] => [] | x :: r => if gmem x r then gdedup r else x :: gdedup r end.
  Definition gdistinct (l : list A) : nat := length (gdedup l).
  Definition gmaxcount (l : list A) : nat := fold_right (fun s m => Nat.max (gcount s l) m) 0 l.
  Definition gnancount (isnan : A -> bool) (l : list A) : nat := length (filter isnan l).

  Definition keep_by (isnan : A -> bool) (l : list A) : bool :=
    keep_spec_of (gdistinct l) (gmaxcount l) (gnancount isnan l) (length l).
End ByClass.

(* executable: keep decision of one transformer on one raw column, computed in Q; None = not computable in Q
   (or ValueError / empty column) *)
Definition keepQ_parsed (e : expr) (xs : list (gval Q)) : option bool :=
  match all_some (map (fun x => denQ e xs x) xs) with
  | None => None
  | Some vs => Some (keep_by (gsame OpsQ) (@gisnan Q) vs)
  end.

Definition keepQ (e : expr) (cells : list str) : option bool :=
  match parse_column OpsQ cells with
  | None => None
  | Some xs => keepQ_parsed e xs
  end.
