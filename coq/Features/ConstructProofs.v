(* C11 — lemmas about Features/Construct.v *)
From Coq Require Import List NArith ZArith Arith Bool Lia.
From Outrank Require Import Features.Interact Features.InteractProofs Features.Construct.
Import ListNotations.

(* ---------------- frames ---------------- *)
Lemma appends_refl df : appends df df.
Proof. exists []. split; [symmetry; apply app_nil_r | constructor]. Qed.

Lemma appends_nrows df df' : appends df df' -> nrows df' = nrows df.
Proof.
  intros [app [-> H]]. destruct df as [|c df]; [|reflexivity]. cbn.
  destruct app as [|c app]; [reflexivity|]. inversion H; subst. assumption.
Qed.

Lemma appends_trans a b c : appends a b -> appends b c -> appends a c.
Proof.
  intros Hab Hbc. pose proof (appends_nrows _ _ Hab) as En.
  destruct Hab as [p [-> Hp]]. destruct Hbc as [q [-> Hq]].
  exists (p ++ q). split; [symmetry; apply app_assoc|]. apply Forall_app. split; [exact Hp|].
  rewrite En in Hq. exact Hq.
Qed.

Lemma appends_wf df df' : wf df -> appends df df' -> wf df'.
Proof.
  intros Hw Ha. unfold wf. rewrite (appends_nrows _ _ Ha). destruct Ha as [app [-> H]].
  apply Forall_app. split; assumption.
Qed.

Lemma getcol_in df f : In f (names df) -> In (f, getcol df f) df.
Proof.
  induction df as [|[k v] df IH]; cbn; [intros []|]. intros H.
  destruct (streqb f k) eqn:E.
  - apply streqb_spec in E. subst. left. reflexivity.
  - right. apply IH. destruct H as [H|H]; [|exact H]. subst. rewrite streqb_refl in E. discriminate.
Qed.

Lemma has_col_in df f : has_col df f = true <-> In f (names df).
Proof. apply memb_spec. Qed.

Lemma getcol_length df f : wf df -> has_col df f = true -> length (getcol df f) = nrows df.
Proof.
  intros Hw H. apply has_col_in, getcol_in in H. unfold wf in Hw. rewrite Forall_forall in Hw.
  apply (Hw _ H).
Qed.

Lemma skipn_app_exact {A} (a b : list A) : skipn (length a) (a ++ b) = b.
Proof. rewrite skipn_app, Nat.sub_diag, skipn_all. reflexivity. Qed.

(* ---------------- uniq ---------------- *)
Lemma uniq_in l : forall x, In x (uniq l) <-> In x l.
Proof.
  induction l as [|y l IH]; intros x; cbn; [tauto|].
  rewrite filter_In, IH. split.
  - intros [H|[H _]]; auto.
  - intros [H|H]; [left; exact H|]. destruct (streqb y x) eqn:E.
    + left. apply streqb_spec, E.
    + right. split; [exact H | reflexivity].
Qed.

Lemma NoDup_filter {A} (f : A -> bool) l : NoDup l -> NoDup (filter f l).
Proof.
  induction 1 as [|x l Hn Hd IH]; cbn; [constructor|]. destruct (f x); [|exact IH].
  constructor; [|exact IH]. intros H. apply filter_In in H. tauto.
Qed.

Lemma uniq_nodup l : NoDup (uniq l).
Proof.
  induction l as [|y l IH]; cbn; constructor.
  - intros H. apply filter_In in H. destruct H as [_ H]. rewrite streqb_refl in H. discriminate.
  - apply NoDup_filter, IH.
Qed.

(* ---------------- split ---------------- *)
Lemma split_on_nonempty d s : split_on d s <> [].
Proof. destruct s as [|c r]; cbn; [discriminate|]. destruct (N.eqb c d); [discriminate|]. destruct (split_on d r); discriminate. Qed.

Lemma split_on_join d s : join1 d (split_on d s) = s.
Proof.
  induction s as [|c r IH]; [reflexivity|]. cbn [split_on]. destruct (N.eqb_spec c d) as [->|Hne].
  - pose proof (split_on_nonempty d r) as Hn. destruct (split_on d r) as [|p ps] eqn:E; [contradiction|].
    cbn [join1]. cbn [join1] in IH. cbn. f_equal. exact IH.
  - pose proof (split_on_nonempty d r) as Hn. destruct (split_on d r) as [|p ps] eqn:E; [contradiction|].
    cbn [join1] in *. destruct ps; cbn in *; f_equal; exact IH.
Qed.

Lemma split_on_nodelim d s : forall p, In p (split_on d s) -> ~ In d p.
Proof.
  induction s as [|c r IH]; cbn [split_on]; intros p H.
  - destruct H as [<-|[]]. intros [].
  - destruct (N.eqb_spec c d) as [->|Hne].
    + destruct H as [<-|H]; [intros []|apply IH, H].
    + destruct (split_on d r) as [|q qs] eqn:E.
      * destruct H as [<-|[]]. intros [H|[]]. congruence.
      * destruct H as [<-|H]; [|apply IH; right; exact H].
        intros [H|H]; [congruence|]. apply (IH q); [left; reflexivity | exact H].
Qed.

(* the tokens of a multi-value cell: the maximal pieces free of '-' after turning ',' into '-' *)
Lemma tokens_spec v :
  join1 DASH (tokens v) = map (fun c => if N.eqb c COMMA then DASH else c) v /\
  forall t, In t (tokens v) -> ~ In DASH t.
Proof. split; [apply split_on_join | apply split_on_nodelim]. Qed.

(* ---------------- dict: the value under a name is the last one written ---------------- *)
Fixpoint dict_get {V} (d : list (str * V)) (k : str) : option V :=
  match d with
  | [] => None
  | (k', v) :: r => if streqb k k' then Some v else dict_get r k
  end.
Fixpoint assoc_last {V} (l : list (str * V)) (k : str) : option V :=
  match l with
  | [] => None
  | (k', v) :: r => match assoc_last r k with Some w => Some w | None => if streqb k k' then Some v else None end
  end.

Lemma dict_get_set {V} (d : list (str * V)) k v x :
  dict_get (dict_set d k v) x = if streqb x k then Some v else dict_get d x.
Proof.
  induction d as [|[k' v'] d IH]; cbn.
  - reflexivity.
  - destruct (streqb k k') eqn:E; cbn.
    + apply streqb_spec in E. subst k'. destruct (streqb x k); reflexivity.
    + rewrite IH. destruct (streqb x k') eqn:E2; [|reflexivity].
      apply streqb_spec in E2. subst x. destruct (streqb k' k) eqn:E3; [|reflexivity].
      apply streqb_spec in E3. subst. rewrite streqb_refl in E. discriminate.
Qed.

Lemma dict_fold_get {V} (l : list (str * V)) : forall d x,
  dict_get (fold_left (fun d kv => dict_set d (fst kv) (snd kv)) l d) x =
  match assoc_last l x with Some w => Some w | None => dict_get d x end.
Proof.
  induction l as [|[k v] l IH]; cbn; intros d x; [reflexivity|].
  rewrite IH, dict_get_set. destruct (assoc_last l x); [reflexivity|]. destruct (streqb x k); reflexivity.
Qed.
Lemma dict_of_get {V} (l : list (str * V)) x : dict_get (dict_of l) x = assoc_last l x.
Proof. unfold dict_of. rewrite dict_fold_get. destruct (assoc_last l x); reflexivity. Qed.

Lemma dict_get_in {V} (d : list (str * V)) k v : NoDup (map fst d) -> (dict_get d k = Some v <-> In (k, v) d).
Proof.
  induction d as [|[k' v'] d IH]; cbn; intros Hn; [split; [discriminate | intros []]|].
  inversion Hn as [|? ? Hnot Hd]; subst. destruct (streqb k k') eqn:E.
  - apply streqb_spec in E. subst k'. split.
    + intros H. inversion H. left. reflexivity.
    + intros [H|H]; [inversion H; reflexivity|]. exfalso. apply Hnot. apply in_map_iff. exists (k, v). auto.
  - rewrite (IH Hd). split; [intros H; right; exact H|]. intros [H|H]; [|exact H].
    inversion H; subst. rewrite streqb_refl in E. discriminate.
Qed.

(* ================= multi-value ================= *)
Lemma dash_split f : forall f' t t', ~ In DASH t -> ~ In DASH t' -> f ++ DASH :: t = f' ++ DASH :: t' -> f = f' /\ t = t'.
Proof.
  induction f as [|c f IH]; intros [|c' f'] t t' Ht Ht' E; cbn in E.
  - inversion E. auto.
  - inversion E; subst. exfalso. apply Ht. apply in_or_app. right. left. reflexivity.
  - inversion E; subst. exfalso. apply Ht'. apply in_or_app. right. left. reflexivity.
  - inversion E; subst. destruct (IH f' t t' Ht Ht' H1) as [-> ->]. auto.
Qed.

Lemma mv_name_inj f f' t t' : ~ In DASH t -> ~ In DASH t' -> mv_name f t = mv_name f' t' -> f = f' /\ t = t'.
Proof. unfold mv_name. intros Ht Ht' E. apply app_inv_head in E. apply dash_split; assumption. Qed.

Lemma sinsert_in x l y : In y (sinsert x l) <-> y = x \/ In y l.
Proof.
  induction l as [|z l IH]; cbn.
  - split; [intros [H|[]]; left; symmetry; exact H | intros [H|[]]; left; symmetry; exact H].
  - destruct (str_ltb z x); cbn; [rewrite IH|]; split; intros H; intuition congruence.
Qed.
Lemma sort_str_in l y : In y (sort_str l) <-> In y l.
Proof.
  induction l as [|x l IH]; cbn; [tauto|]. rewrite sinsert_in, IH. split; intros [H|H]; auto.
Qed.

Lemma mv_tokens_in missing vec t :
  In t (mv_tokens missing vec) <-> (~ In t missing /\ exists v, In v vec /\ In t (tokens v)).
Proof.
  unfold mv_tokens. rewrite filter_In, sort_str_in, uniq_in, in_flat_map, negb_true_iff. split.
  - intros [H Hm]. split; [|exact H]. intros Hin. apply memb_spec in Hin. congruence.
  - intros [Hm H]. split; [exact H|]. destruct (memb t missing) eqn:E; [apply memb_spec in E; contradiction | reflexivity].
Qed.

Lemma mv_tokens_nodash missing vec t : In t (mv_tokens missing vec) -> ~ In DASH t.
Proof. intros H. apply mv_tokens_in in H. destruct H as [_ [v [_ Ht]]]. eapply tokens_spec, Ht. Qed.

Lemma mv_all_in df missing feats k col :
  In (k, col) (flat_map (mv_feature df missing) feats) <->
  exists f t, In f feats /\ In t (mv_tokens missing (getcol df f)) /\ k = mv_name f t /\ col = mv_column (getcol df f) t.
Proof.
  rewrite in_flat_map. unfold mv_feature. split.
  - intros [f [Hf H]]. apply in_map_iff in H. destruct H as [t [E Ht]]. inversion E; subst. exists f, t. auto.
  - intros [f [t [Hf [Ht [-> ->]]]]]. exists f. split; [exact Hf|]. apply in_map_iff. exists t. auto.
Qed.

Lemma mv_functional df missing feats k v v' :
  In (k, v) (flat_map (mv_feature df missing) feats) -> In (k, v') (flat_map (mv_feature df missing) feats) -> v = v'.
Proof.
  intros H H'. apply mv_all_in in H. apply mv_all_in in H'.
  destruct H as [f [t [_ [Ht [-> ->]]]]]. destruct H' as [f' [t' [_ [Ht' [E ->]]]]].
  apply mv_name_inj in E; [|eapply mv_tokens_nodash; eassumption|eapply mv_tokens_nodash; eassumption].
  destruct E as [-> ->]. reflexivity.
Qed.

Lemma multivalue_new df missing feats out :
  multivalue df missing feats = Some out ->
  out = df ++ dict_of (flat_map (mv_feature df missing) feats) /\ forallb (has_col df) feats = true.
Proof.
  unfold multivalue. destruct (forallb _ _); cbn; [|discriminate].
  destruct (negb _); [|discriminate]. intros H. inversion H. auto.
Qed.

Lemma multivalue_appends df missing feats out : wf df -> multivalue df missing feats = Some out -> appends df out.
Proof.
  intros Hw H. apply multivalue_new in H. destruct H as [-> Hf].
  eexists. split; [reflexivity|]. apply Forall_forall. intros [k col] Hc. apply dict_of_in in Hc.
  apply mv_all_in in Hc. destruct Hc as [f [t [Hin [_ [_ ->]]]]]. cbn. unfold mv_column. rewrite map_length.
  apply getcol_length; [exact Hw|]. rewrite forallb_forall in Hf. apply Hf, Hin.
Qed.

Lemma multivalue_names_nodup df missing feats out :
  multivalue df missing feats = Some out -> NoDup (names (skipn (length df) out)).
Proof. intros H. apply multivalue_new in H. destruct H as [-> _]. rewrite skipn_app_exact. apply dict_of_nodup. Qed.

(* the rule: a column MULTIEX-f-t exists iff t is a non-missing token of some row of f, and it is the indicator of t *)
Theorem multivalue_rule df missing feats out f t :
  multivalue df missing feats = Some out -> In f feats -> ~ In DASH t ->
  ((exists col, In (mv_name f t, col) (skipn (length df) out)) <->
   (~ In t missing /\ exists v, In v (getcol df f) /\ In t (tokens v))) /\
  (forall col, In (mv_name f t, col) (skipn (length df) out) -> col = mv_column (getcol df f) t).
Proof.
  intros H Hf Hd. apply multivalue_new in H. destruct H as [-> _]. rewrite skipn_app_exact.
  assert (Hiff := dict_of_in_iff (flat_map (mv_feature df missing) feats) (mv_functional df missing feats)).
  assert (Hchar : forall col, In (mv_name f t, col) (dict_of (flat_map (mv_feature df missing) feats)) <->
                              In t (mv_tokens missing (getcol df f)) /\ col = mv_column (getcol df f) t).
  { intros col. rewrite Hiff, mv_all_in. split.
    - intros [f' [t' [_ [Ht' [E ->]]]]]. apply mv_name_inj in E; [|exact Hd|eapply mv_tokens_nodash; eassumption].
      destruct E as [-> ->]. auto.
    - intros [Ht ->]. exists f, t. auto. }
  split.
  - rewrite <- mv_tokens_in. split.
    + intros [col Hc]. apply Hchar in Hc. tauto.
    + intros Ht. exists (mv_column (getcol df f) t). apply Hchar. auto.
  - intros col Hc. apply Hchar in Hc. tauto.
Qed.

(* the emitted order: the new columns of one feature follow the code-point order of their tokens *)
Example sort_str_example :
  sort_str [[98%N]; [97; 98]%N; []; [233%N]; [97%N]; [65%N]] = [[]; [65%N]; [97%N]; [97; 98]%N; [98%N]; [233%N]].
Proof. reflexivity. Qed.

Lemma ONE_not_EMPTY : ONE <> EMPTY.
Proof. discriminate. Qed.

(* cell level: "1" exactly on the rows whose delimited value contains the token, "" elsewhere *)
Lemma mv_cell vec t i v : nth_error vec i = Some v ->
  (In t (tokens v) -> nth_error (mv_column vec t) i = Some ONE) /\
  (~ In t (tokens v) -> nth_error (mv_column vec t) i = Some EMPTY).
Proof.
  intros E. unfold mv_column. rewrite nth_error_map, E. cbn. destruct (memb t (tokens v)) eqn:M.
  - apply memb_spec in M. split; [reflexivity | contradiction].
  - split; [|reflexivity]. intros H. apply memb_spec in H. congruence.
Qed.
Lemma mv_column_length vec t : length (mv_column vec t) = length vec.
Proof. apply map_length. Qed.

(* ================= sub-features ================= *)
Lemma nth_error_combine {A B} (xs : list A) : forall (ys : list B) i a b,
  nth_error xs i = Some a -> nth_error ys i = Some b -> nth_error (combine xs ys) i = Some (a, b).
Proof.
  induction xs as [|x xs IH]; intros [|y ys] [|i] a b Ha Hb; cbn in *; try discriminate.
  - inversion Ha; inversion Hb; reflexivity.
  - apply IH; assumption.
Qed.

Lemma subfeatures_new df ops out :
  subfeatures df ops = Some out ->
  out = df ++ dict_of (flat_map (sub_cols df) ops) /\ forallb (op_ok df) ops = true.
Proof. unfold subfeatures. destruct (forallb _ _); [|discriminate]. intros H. inversion H. auto. Qed.

Lemma sub_cols_length df op c : wf df -> op_ok df op = true -> In c (sub_cols df op) -> length (snd c) = nrows df.
Proof.
  intros Hw Hok Hc. destruct op as [fa fb|fa fb]; cbn in Hok; apply andb_true_iff in Hok; destruct Hok as [Hok _];
    apply andb_true_iff in Hok; destruct Hok as [Ha Hb]; cbn in Hc.
  - apply in_map_iff in Hc. destruct Hc as [v [<- _]]. cbn. unfold sub_one_column.
    rewrite map_length, combine_length, !getcol_length by assumption. apply Nat.min_id.
  - apply in_flat_map in Hc. destruct Hc as [v [_ Hc]]. apply in_map_iff in Hc. destruct Hc as [u [<- _]]. cbn.
    unfold sub_two_column. rewrite map_length, combine_length, !getcol_length by assumption. apply Nat.min_id.
Qed.

Lemma subfeatures_appends df ops out : wf df -> subfeatures df ops = Some out -> appends df out.
Proof.
  intros Hw H. apply subfeatures_new in H. destruct H as [-> Hok].
  eexists. split; [reflexivity|]. apply Forall_forall. intros c Hc. apply dict_of_in in Hc.
  apply in_flat_map in Hc. destruct Hc as [op [Hop Hc]]. eapply sub_cols_length; try eassumption.
  rewrite forallb_forall in Hok. apply Hok, Hop.
Qed.

(* every appended column was generated by one of the operators, under its name; every generated name is present;
   the column kept under a name is the last one generated under it (Python dict assignment) *)
Theorem subfeatures_columns df ops out :
  subfeatures df ops = Some out ->
  let new := skipn (length df) out in
  (forall c, In c new -> exists op, In op ops /\ In c (sub_cols df op)) /\
  (forall nm, In nm (names new) <-> exists op, In op ops /\ In nm (names (sub_cols df op))) /\
  NoDup (names new) /\
  (forall nm, dict_get new nm = assoc_last (flat_map (sub_cols df) ops) nm).
Proof.
  intros H. apply subfeatures_new in H. destruct H as [-> _]. cbn zeta. rewrite skipn_app_exact.
  split; [|split; [|split]].
  - intros c Hc. apply dict_of_in, in_flat_map in Hc. exact Hc.
  - intros nm. unfold names. rewrite dict_of_keys, in_map_iff. split.
    + intros [c [E Hc]]. apply in_flat_map in Hc. destruct Hc as [op [Hop Hc]]. exists op. split; [exact Hop|].
      apply in_map_iff. exists c. auto.
    + intros [op [Hop Hn]]. apply in_map_iff in Hn. destruct Hn as [c [E Hc]]. exists c. split; [exact E|].
      apply in_flat_map. exists op. auto.
  - apply dict_of_nodup.
  - intros nm. apply dict_of_get.
Qed.

Lemma sub_one_cols df fa fb nm col :
  In (nm, col) (sub_cols df (OneSided fa fb)) <->
  exists v, In v (getcol df fb) /\ nm = sub_one_name fa v /\ col = sub_one_column (getcol df fa) (getcol df fb) v.
Proof.
  cbn. rewrite in_map_iff. split.
  - intros [v [E Hv]]. inversion E; subst. exists v. rewrite uniq_in in Hv. auto.
  - intros [v [Hv [-> ->]]]. exists v. rewrite uniq_in. auto.
Qed.

Lemma sub_two_cols df fa fb nm col :
  In (nm, col) (sub_cols df (TwoSided fa fb)) <->
  exists u v, In u (getcol df fa) /\ In v (getcol df fb) /\ nm = sub_two_name fa fb u v /\
              col = sub_two_column (getcol df fa) (getcol df fb) u v.
Proof.
  cbn. rewrite in_flat_map. split.
  - intros [v [Hv H]]. apply in_map_iff in H. destruct H as [u [E Hu]]. inversion E; subst.
    rewrite uniq_in in Hv, Hu. exists u, v. auto.
  - intros [u [v [Hu [Hv [-> ->]]]]]. exists v. rewrite uniq_in. split; [exact Hv|]. apply in_map_iff. exists u.
    rewrite uniq_in. auto.
Qed.

(* one-sided a->b, value v of b: the joined source value a ++ "AND" ++ b exactly where b = v, "" elsewhere *)
Lemma sub_one_cell A B v i a b : nth_error A i = Some a -> nth_error B i = Some b ->
  (b = v -> nth_error (sub_one_column A B v) i = Some (a ++ S_AND ++ b)) /\
  (b <> v -> nth_error (sub_one_column A B v) i = Some EMPTY).
Proof.
  intros Ha Hb. unfold sub_one_column.
  assert (Hc : forall f : cell * cell -> cell, nth_error (map f (combine A B)) i = Some (f (a, b))).
  { intros f. apply map_nth_error, nth_error_combine; assumption. }
  split; intros Hv; (eapply eq_trans; [apply Hc|]); cbn.
  - apply streqb_spec in Hv. rewrite Hv. reflexivity.
  - apply streqb_neq in Hv. rewrite Hv. reflexivity.
Qed.

(* two-sided a<->b, value pair (u, v): the indicator of the pair *)
Lemma sub_two_cell A B u v i a b : nth_error A i = Some a -> nth_error B i = Some b ->
  ((a, b) = (u, v) -> nth_error (sub_two_column A B u v) i = Some ONE) /\
  ((a, b) <> (u, v) -> nth_error (sub_two_column A B u v) i = Some ZERO).
Proof.
  intros Ha Hb. unfold sub_two_column.
  assert (Hc : forall f : cell * cell -> cell, nth_error (map f (combine A B)) i = Some (f (a, b))).
  { intros f. apply map_nth_error, nth_error_combine; assumption. }
  split; intros Hv; (eapply eq_trans; [apply Hc|]); cbn.
  - inversion Hv; subst. rewrite !streqb_refl. reflexivity.
  - destruct (streqb a u) eqn:E1; destruct (streqb b v) eqn:E2; cbn; try reflexivity.
    apply streqb_spec in E1, E2. subst. contradiction Hv. reflexivity.
Qed.

Lemma sub_column_lengths A B u v :
  length (sub_one_column A B v) = Nat.min (length A) (length B) /\
  length (sub_two_column A B u v) = Nat.min (length A) (length B).
Proof. unfold sub_one_column, sub_two_column. split; rewrite map_length, combine_length; reflexivity. Qed.

(* ================= transformations ================= *)
Lemma transform_appends T df out : transform T df = Some out -> appends df out.
Proof.
  unfold transform. intros H. inversion H; subst. eexists. split; [reflexivity|].
  apply Forall_forall. intros c Hc. apply dict_of_in, in_map_iff in Hc. destruct Hc as [nc [<- _]]. cbn.
  rewrite map_length, seq_length. reflexivity.
Qed.

(* ================= noise ================= *)
Lemma noisy_appends rnd df label out : wf df -> noisy rnd df label = Some out -> appends df out.
Proof.
  unfold noisy. intros Hw H. inversion H; subst. eexists. split; [reflexivity|].
  unfold noise_cols. rewrite !Forall_app. split; [|split].
  - apply Forall_forall. intros c Hc. apply in_map_iff in Hc. destruct Hc as [nm [<- _]]. cbn.
    rewrite map_length, seq_length. reflexivity.
  - destruct (has_col df label) eqn:E; constructor; [|constructor]. cbn. apply getcol_length; assumption.
  - constructor; [|constructor]. cbn. rewrite map_length, seq_length. reflexivity.
Qed.

Theorem noisy_target rnd df label out : noisy rnd df label = Some out -> has_col df label = true ->
  let new := skipn (length df) out in
  names new = CONTROL_RANDOM ++ [CONTROL_TARGET; CONTROL_VOLUME] /\
  getcol new CONTROL_TARGET = getcol df label /\ In (CONTROL_TARGET, getcol df label) new.
Proof.
  unfold noisy. intros H Hl. inversion H; subst. cbn zeta. rewrite skipn_app_exact. unfold noise_cols. rewrite Hl.
  split; [reflexivity|]. split; [reflexivity|]. apply in_or_app. right. left. reflexivity.
Qed.

Lemma noisy_names_nolabel rnd df label out : noisy rnd df label = Some out -> has_col df label = false ->
  names (skipn (length df) out) = CONTROL_RANDOM ++ [CONTROL_VOLUME].
Proof.
  unfold noisy. intros H Hl. inversion H; subst. rewrite skipn_app_exact. unfold noise_cols. rewrite Hl. reflexivity.
Qed.

(* ================= composition ================= *)
Definition append_step (s : step) : Prop := forall d d', wf d -> s d = Some d' -> appends d d'.

Lemma run_steps_none steps : fold_left (fun acc (s : step) => match acc with Some d => s d | None => None end) steps None = None.
Proof. induction steps; cbn; auto. Qed.

Theorem run_steps_appends steps : Forall append_step steps ->
  forall df df', wf df -> run_steps steps df = Some df' -> appends df df' /\ wf df'.
Proof.
  unfold run_steps. induction steps as [|s steps IH]; intros Hall df df' Hw H; cbn in H.
  - inversion H; subst. split; [apply appends_refl | exact Hw].
  - inversion Hall as [|? ? Hs Hrest]; subst. destruct (s df) as [d1|] eqn:E; [|rewrite run_steps_none in H; discriminate].
    pose proof (Hs df d1 Hw E) as Ha. pose proof (appends_wf _ _ Hw Ha) as Hw1.
    destruct (IH Hrest d1 df' Hw1 H) as [Ha2 Hw2]. split; [eapply appends_trans; eassumption | exact Hw2].
Qed.

Section BatchProofs.
  Variable h : str -> cell.
  Variable T : frame -> list (str * (nat -> cell)).
  Variable rnd : str -> nat -> cell.
  Variable sample : bool -> list (list str) -> list (list str).

  Lemma step_transform_ok : append_step (transform T).
  Proof. intros d d' _ H. eapply transform_appends, H. Qed.
  Lemma step_multivalue_ok missing feats : append_step (fun df => multivalue df missing feats).
  Proof. intros d d' Hw H. eapply multivalue_appends; eassumption. Qed.
  Lemma step_sub_ok ops : append_step (fun df => subfeatures df ops).
  Proof. intros d d' Hw H. eapply subfeatures_appends; eassumption. Qed.
  Lemma step_combined_ok cfg b : append_step (step_combined h sample cfg b).
  Proof. intros d d' _ H. unfold step_combined in H. inversion H; subst. apply combined_appends. Qed.
  Lemma step_noise_ok label : append_step (fun df => noisy rnd df label).
  Proof. intros d d' Hw H. eapply noisy_appends; eassumption. Qed.

  Lemma batch_steps_ok cfg : Forall append_step (batch_steps h T rnd sample cfg).
  Proof.
    unfold batch_steps. repeat rewrite Forall_app. repeat split.
    - destruct (c_transformers cfg); constructor; [apply step_transform_ok | constructor].
    - destruct (c_explode cfg); constructor; [apply step_multivalue_ok | constructor].
    - destruct (c_submap cfg); constructor; [apply step_sub_ok | constructor].
    - destruct (Nat.ltb 1 (c_io cfg)); constructor; [apply step_combined_ok | constructor].
    - destruct (c_3mr cfg); constructor; [apply step_combined_ok | constructor].
    - destruct (c_noise cfg); constructor; [apply step_noise_ok | constructor].
  Qed.

  Theorem batch_appends cfg df out : wf df -> batch_construct h T rnd sample cfg df = Some out ->
    appends df out /\ wf out.
  Proof. intros Hw H. eapply run_steps_appends; [apply batch_steps_ok | exact Hw | exact H]. Qed.
End BatchProofs.

(* ================= checkers ================= *)
Lemma append_okb_sound df out : append_okb df out = true -> appends df out.
Proof.
  unfold append_okb. rewrite andb_true_iff. intros [H1 H2]. apply frame_eqb_spec in H1.
  exists (skipn (length df) out). split.
  - rewrite <- H1 at 1. symmetry. apply firstn_skipn.
  - apply Forall_forall. intros c Hc. rewrite forallb_forall in H2. apply Nat.eqb_eq, H2, Hc.
Qed.

Lemma incl_colsb_sound a b : incl_colsb a b = true -> incl a b.
Proof.
  unfold incl_colsb. rewrite forallb_forall. intros H c Hc. specialize (H c Hc). apply existsb_exists in H.
  destruct H as [c' [Hc' E]]. apply column_eqb_spec in E. subst. exact Hc'.
Qed.

Lemma same_colsb_sound a b : same_colsb a b = true ->
  NoDup (names a) /\ NoDup (names b) /\ forall c, In c a <-> In c b.
Proof.
  unfold same_colsb. rewrite !andb_true_iff. intros [[[H1 H2] H3] H4].
  split; [apply nodupb_spec, H1|]. split; [apply nodupb_spec, H2|].
  intros c. split; [apply incl_colsb_sound, H3 | apply incl_colsb_sound, H4].
Qed.

Lemma same_namesb_sound a b : same_namesb a b = true -> NoDup a /\ NoDup b /\ forall x, In x a <-> In x b.
Proof.
  unfold same_namesb. rewrite !andb_true_iff, !forallb_forall. intros [[[H1 H2] H3] H4].
  split; [apply nodupb_spec, H1|]. split; [apply nodupb_spec, H2|].
  intros x. split; intros Hx; apply memb_spec; auto.
Qed.

Theorem check_against_sound df m out :
  check_against df (Some m) out = (true, true) ->
  appends df out /\ forall c, In c (skipn (length df) out) <-> In c (skipn (length df) m).
Proof.
  unfold check_against. intros H. injection H as H1 H2. split; [apply append_okb_sound, H1|].
  apply same_colsb_sound in H2. tauto.
Qed.

Theorem noise_okb_sound df label out : noise_okb df label out = (true, true) -> has_col df label = true ->
  appends df out /\ getcol (skipn (length df) out) CONTROL_TARGET = getcol df label /\
  forall nm, In nm (names (skipn (length df) out)) <-> In nm (CONTROL_RANDOM ++ [CONTROL_TARGET; CONTROL_VOLUME]).
Proof.
  unfold noise_okb. intros H Hl. rewrite Hl in H. injection H as H1 H2.
  apply andb_true_iff in H2. destruct H2 as [Hn Ht]. split; [apply append_okb_sound, H1|].
  split; [apply liststr_eqb_spec, Ht|]. apply same_namesb_sound in Hn. tauto.
Qed.

(* ================= non-vacuity ================= *)
Example ex_frame : frame :=
  [([109%N], [[97; 44; 98; 45; 99]%N; []; [98%N]; [97; 45]%N]);         (* m = "a,b-c" "" "b" "a-" *)
   ([98%N], [[49; 49]%N; [49%N]; [49; 49]%N; []]);                      (* b = "11" "1" "11" "" *)
   ([121%N], [[120%N]; [120%N]; [121%N]; [121%N]])].                    (* y = "x" "x" "y" "y" *)
Example ex_wf : wf ex_frame.
Proof. repeat constructor. Qed.
Example ex_multivalue :
  option_map (fun out => names (skipn 3 out)) (multivalue_args ex_frame [109%N] [44; 123; 125]%N)
  = Some [mv_name [109%N] [97%N]; mv_name [109%N] [98%N]; mv_name [109%N] [99%N]].
Proof. vm_compute. reflexivity. Qed.
Example ex_sub :
  option_map (fun out => skipn 3 out) (subfeatures_args ex_frame [109; 45; 62; 98]%N)
  = Some [(sub_one_name [109%N] [49; 49]%N, [[97; 44; 98; 45; 99; 65; 78; 68; 49; 49]%N; []; [98; 65; 78; 68; 49; 49]%N; []]);
          (sub_one_name [109%N] [49%N], [[]; [65; 78; 68; 49]%N; []; []]);
          (sub_one_name [109%N] [], [[]; []; []; [97; 45; 65; 78; 68]%N])].
Proof. vm_compute. reflexivity. Qed.
