(* C10 — executable model of core_ranking.compute_combined_features (repaired encoding, commits
   be309a6 + 3978e4d), plus the frame vocabulary shared with C11 (Features/Construct.v).
   No proofs here (they live in Features/InteractProofs.v): the model must still run when a proof breaks.

   The real code, per selected combination (f1 .. fk) of non-label columns and per row:
       s   = str(len(v1)) + ':' + v1 + ... + str(len(vk)) + ':' + vk      (vi = str cell of column fi; len = code points)
       val = xxhash.xxh64(s.encode('utf-8')).hexdigest()
       name = ' AND '.join((f1 .. fk))          (' AND_REL ' for the 3mr relation features)
   [enc] below is s, character for character; the hash is the Section variable [h]. *)
From Coq Require Import List NArith ZArith Arith Bool Decimal DecimalNat.
Import ListNotations.

(* strings are lists of Unicode code points (Python ord) *)
Definition str := list N.

Fixpoint streqb (a b : str) : bool :=
  match a, b with
  | [], [] => true
  | x :: a', y :: b' => N.eqb x y && streqb a' b'
  | _, _ => false
  end.
Definition memb (x : str) (l : list str) : bool := existsb (streqb x) l.

(* ---- decimal printing of a length: Python str(int) for int >= 0 ---- *)
Fixpoint codes_of_uint (d : uint) : str :=
  match d with
  | Nil => []
  | D0 d => 48%N :: codes_of_uint d | D1 d => 49%N :: codes_of_uint d | D2 d => 50%N :: codes_of_uint d
  | D3 d => 51%N :: codes_of_uint d | D4 d => 52%N :: codes_of_uint d | D5 d => 53%N :: codes_of_uint d
  | D6 d => 54%N :: codes_of_uint d | D7 d => 55%N :: codes_of_uint d | D8 d => 56%N :: codes_of_uint d
  | D9 d => 57%N :: codes_of_uint d
  end.
Definition dec (n : nat) : str := codes_of_uint (Nat.to_uint n).
Definition COLON : N := 58%N.
Definition is_digit (c : N) : Prop := (48 <= c <= 57)%N.

(* ---- the encoding of one row's value tuple ---- *)
Fixpoint enc (t : list str) : str :=
  match t with
  | [] => []
  | v :: t' => dec (length v) ++ COLON :: v ++ enc t'
  end.

(* the encoding before fix 3978e4d: plain concatenation *)
Definition enc_old (t : list str) : str := concat t.

(* a tempting "simplification" of the repaired encoding: the length without the ':' — ambiguous as soon as a length has
   two digits (refuted in InteractProofs.enc_nosep_refuted) *)
Fixpoint enc_nosep (t : list str) : str :=
  match t with
  | [] => []
  | v :: t' => dec (length v) ++ v ++ enc_nosep t'
  end.

(* ---- names ---- *)
Definition SEP_AND : str := [32; 65; 78; 68; 32]%N.                          (* " AND " *)
Definition SEP_AND_REL : str := [32; 65; 78; 68; 95; 82; 69; 76; 32]%N.      (* " AND_REL " *)
Fixpoint join (sep : str) (l : list str) : str :=
  match l with
  | [] => []
  | x :: r => match r with [] => x | _ => x ++ sep ++ join sep r end
  end.

(* ---- frames: named columns of string cells, in column order; a pipeline frame has a RangeIndex,
        so a row is a position ---- *)
Definition cell := str.
Definition column := (str * list cell)%type.
Definition frame := list column.
Definition names (df : frame) : list str := map fst df.
Definition nrows (df : frame) : nat := match df with [] => 0 | c :: _ => length (snd c) end.
Definition wf (df : frame) : Prop := Forall (fun c : column => length (snd c) = nrows df) df.
Fixpoint getcol (df : frame) (nm : str) : list cell :=
  match df with
  | [] => []
  | (k, v) :: r => if streqb nm k then v else getcol r nm
  end.
Definition has_col (df : frame) (nm : str) : bool := memb nm (names df).

(* row i of a list of columns *)
Definition rows_of (cols : list (list cell)) (n : nat) : list (list cell) :=
  map (fun i => map (fun c => nth i c []) cols) (seq 0 n).
(* the explicit value tuples of a combination, one per row *)
Definition tuples (df : frame) (comb : list str) : list (list cell) :=
  rows_of (map (getcol df) comb) (nrows df).

(* ---- a Python dict used as  name -> column  (insertion order kept, re-assignment keeps the position) ---- *)
Fixpoint dict_set {V} (d : list (str * V)) (k : str) (v : V) : list (str * V) :=
  match d with
  | [] => [(k, v)]
  | (k', v') :: r => if streqb k k' then (k', v) :: r else (k', v') :: dict_set r k v
  end.
Definition dict_of {V} (l : list (str * V)) : list (str * V) :=
  fold_left (fun d kv => dict_set d (fst kv) (snd kv)) l [].

(* ---- itertools.combinations(l, k), in its order ---- *)
Fixpoint combinations {A} (l : list A) (k : nat) : list (list A) :=
  match k, l with
  | 0, _ => [[]]
  | S _, [] => []
  | S k', x :: r => map (cons x) (combinations r k') ++ combinations r k
  end.

(* len(L[:cap]) *)
Definition cap_len (len : nat) (cap : Z) : nat :=
  if (cap <? 0)%Z then Z.to_nat (Z.max 0 (Z.of_nat len + cap)) else Nat.min len (Z.to_nat cap).

(* the candidate space of compute_combined_features: combinations of the non-label columns;
   note the guard reads args.interaction_order even for the 3mr relation features (order 2) *)
Definition feature_columns (df : frame) (label : str) : list str :=
  filter (fun c => negb (streqb c label)) (names df).
Definition candidates (df : frame) (label : str) (io : nat) (is3mr : bool) : list (list str) :=
  if Nat.ltb 1 io then combinations (feature_columns df label) (if is3mr then 2 else io) else [].
(* prior_combinations_sample on a fresh counter: stable sort of all-zero counts, then the slice *)
Definition fresh_selection (cands : list (list str)) (cap : Z) : list (list str) :=
  firstn (cap_len (length cands) cap) cands.

Section Hash.
  Variable h : str -> cell.        (* xxh64(utf8(.)).hexdigest() *)

  Definition feature_values (df : frame) (comb : list str) : list cell :=
    map (fun r => h (enc r)) (tuples df comb).
  Definition combine_feature (sep : str) (df : frame) (comb : list str) : column :=
    (join sep comb, feature_values df comb).
  (* sel = the combinations the sampler returned (any list: the theorems do not depend on the sampler) *)
  Definition combined (sep : str) (df : frame) (sel : list (list str)) : frame :=
    df ++ dict_of (map (combine_feature sep df) sel).

  (* what the old code computed *)
  Definition feature_values_old (df : frame) (comb : list str) : list cell :=
    map (fun r => h (enc_old r)) (tuples df comb).
End Hash.

(* ---- partitions of the rows ---- *)
Definition same_part {A B} (xs : list A) (ys : list B) : Prop :=
  length xs = length ys /\
  forall i j a a' b b', nth_error xs i = Some a -> nth_error xs j = Some a' ->
                        nth_error ys i = Some b -> nth_error ys j = Some b' -> (a = a' <-> b = b').

Fixpoint pair_rowb {A B} (ea : A -> A -> bool) (eb : B -> B -> bool) (a : A) (b : B) (xs : list A) (ys : list B) : bool :=
  match xs, ys with
  | [], [] => true
  | a' :: xs', b' :: ys' => Bool.eqb (ea a a') (eb b b') && pair_rowb ea eb a b xs' ys'
  | _, _ => false
  end.
Fixpoint same_partb {A B} (ea : A -> A -> bool) (eb : B -> B -> bool) (xs : list A) (ys : list B) : bool :=
  match xs, ys with
  | [], [] => true
  | a :: xs', b :: ys' => pair_rowb ea eb a b xs' ys' && same_partb ea eb xs' ys'
  | _, _ => false
  end.

(* a scorer of a coded feature column against a coded target that only sees the partition *)
Definition partition_invariant {S} (score : list N -> list N -> S) : Prop :=
  forall xs ys T, same_part xs ys -> score xs T = score ys T.
Definition inj_on {A B} (f : A -> B) (l : list A) : Prop :=
  forall x y, In x l -> In y l -> f x = f y -> x = y.

(* ---- the checker run on what the implementation returned ----
   obs_prefix: the first (ncols df) columns of the returned frame;
   obs_new: the appended columns, hash cells relabelled by the harness to ids (equal id <-> equal cell). *)
Fixpoint list_eqb {A} (e : A -> A -> bool) (a b : list A) : bool :=
  match a, b with
  | [], [] => true
  | x :: a', y :: b' => e x y && list_eqb e a' b'
  | _, _ => false
  end.
Definition column_eqb (a b : column) : bool := streqb (fst a) (fst b) && list_eqb streqb (snd a) (snd b).
Definition frame_eqb (a b : frame) : bool := list_eqb column_eqb a b.
Fixpoint nodupb (l : list str) : bool :=
  match l with [] => true | x :: r => negb (memb x r) && nodupb r end.

Definition C10_colcheck (sep : str) (df : frame) (cands : list (list str)) (c : str * list N) : bool :=
  match find (fun comb => streqb (join sep comb) (fst c)) cands with
  | None => false
  | Some comb => same_partb N.eqb (list_eqb streqb) (snd c) (tuples df comb)
  end.
Definition C10_name_known (sep : str) (cands : list (list str)) (c : str * list N) : bool :=
  existsb (fun comb => streqb (join sep comb) (fst c)) cands.

Record C10_verdict := { v_prefix : bool; v_count : bool; v_distinct : bool; v_names : list bool; v_parts : list bool }.
Definition C10_verdicts (sep : str) (df : frame) (label : str) (io : nat) (is3mr : bool) (cap : Z)
           (obs_prefix : frame) (obs_new : list (str * list N)) : C10_verdict :=
  let cands := candidates df label io is3mr in
  {| v_prefix := frame_eqb obs_prefix df;
     v_count := Nat.eqb (length obs_new) (cap_len (length cands) cap);
     v_distinct := nodupb (map fst obs_new);
     v_names := map (C10_name_known sep cands) obs_new;
     v_parts := map (C10_colcheck sep df cands) obs_new |}.
Definition C10_check sep df label io is3mr cap obs_prefix obs_new : bool :=
  let v := C10_verdicts sep df label io is3mr cap obs_prefix obs_new in
  v_prefix v && v_count v && v_distinct v && forallb (fun b => b) (v_parts v).
