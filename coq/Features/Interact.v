From Coq Require Import List NArith Arith Lia Decimal DecimalNat.
Import ListNotations.

Definition str := list N.
Fixpoint codes_of_uint (d : uint) : str :=
  match d with
  | Nil => []
  | D0 d => 48%N :: codes_of_uint d | D1 d => 49%N :: codes_of_uint d | D2 d => 50%N :: codes_of_uint d
  | D3 d => 51%N :: codes_of_uint d | D4 d => 52%N :: codes_of_uint d | D5 d => 53%N :: codes_of_uint d
  | D6 d => 54%N :: codes_of_uint d | D7 d => 55%N :: codes_of_uint d | D8 d => 56%N :: codes_of_uint d
  | D9 d => 57%N :: codes_of_uint d
  end.
Definition dec (n : nat) : str := codes_of_uint (Nat.to_uint n).
Definition COLON : N := 58%N.
Definition is_digit (c : N) : Prop := (48 <= c <= 57)%N.

Lemma codes_digits d : Forall is_digit (codes_of_uint d).
Proof. induction d; cbn; constructor; try assumption; unfold is_digit; lia. Qed.

Lemma codes_inj d : forall d', codes_of_uint d = codes_of_uint d' -> d = d'.
Proof.
  induction d; destruct d'; cbn; intros H; try discriminate; try reflexivity;
    inversion H; f_equal; auto.
Qed.

Lemma dec_inj n m : dec n = dec m -> n = m.
Proof.
  unfold dec. intros H. apply codes_inj in H.
  rewrite <- (Unsigned.of_to n), <- (Unsigned.of_to m), H. reflexivity.
Qed.

Lemma split_colon d1 : forall d2 r1 r2, Forall is_digit d1 -> Forall is_digit d2 ->
  d1 ++ COLON :: r1 = d2 ++ COLON :: r2 -> d1 = d2 /\ r1 = r2.
Proof.
  induction d1 as [|a d1 IH]; intros d2 r1 r2 H1 H2 E.
  - destruct d2 as [|b d2]; cbn in E.
    + inversion E. auto.
    + inversion E; subst. inversion H2 as [|? ? Hb _]; subst. unfold is_digit, COLON in Hb. lia.
  - destruct d2 as [|b d2]; cbn in E.
    + inversion E; subst. inversion H1 as [|? ? Ha _]; subst. unfold is_digit, COLON in Ha. lia.
    + inversion E; subst. inversion H1; inversion H2; subst.
      destruct (IH d2 r1 r2) as [-> ->]; auto.
Qed.

Fixpoint enc (t : list str) : str :=
  match t with
  | [] => []
  | v :: t' => dec (length v) ++ COLON :: v ++ enc t'
  end.

Lemma app_eq_len {A} (a : list A) : forall b x y, length a = length b -> a ++ x = b ++ y -> a = b /\ x = y.
Proof.
  induction a as [|h a IH]; intros [|k b] x y Hl E; cbn in *; try discriminate; auto.
  inversion E; subst. destruct (IH b x y) as [-> ->]; auto.
Qed.

Theorem enc_inj t : forall t', enc t = enc t' -> t = t'.
Proof.
  induction t as [|v t IH]; intros [|v' t'] E; cbn [enc] in E; try reflexivity.
  - destruct (dec (length v')); discriminate.
  - destruct (dec (length v)); discriminate.
  - apply split_colon in E; try apply codes_digits. destruct E as [Ed Er].
    apply dec_inj in Ed. apply app_eq_len in Er; [|exact Ed]. destruct Er as [-> Et].
    f_equal. apply IH. exact Et.
Qed.
Print Assumptions enc_inj.

(* the old encoding is not injective *)
Definition enc_old (t : list str) : str := concat t.
Example enc_old_refuted : exists t t', t <> t' /\ enc_old t = enc_old t'.
Proof. exists [[49%N]; [49%N; 49%N]], [[49%N; 49%N]; [49%N]]. split; [discriminate|reflexivity]. Qed.
Eval vm_compute in enc [[49%N]; []; [49%N; 58%N; 49%N; 48%N; 48%N; 48%N; 48%N; 48%N; 48%N; 48%N; 48%N; 48%N]].
