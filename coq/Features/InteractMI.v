(* C10 — "hence its score equals the score of the explicit value tuple", instantiated for the MI family:
   the numba estimator transcribed in MI/Model.v ([core], both values of the cardinality-correction flag) gives the coded
   interaction column the score it gives the coded value-tuple column.  Uses MI/Proofs.core_relabel (C02) read-only;
   this file depends on the Reals library (the four standard axioms), the rest of C10 does not. *)
From Coq Require Import List NArith ZArith Arith Reals.
From Outrank Require Import Features.Interact Features.InteractProofs.
From Outrank Require MI.Model MI.Proofs.
Import ListNotations.

Section ScoreMI.
  Variable h : str -> cell.

  (* decode a tuple code back to the interaction code through the (finite) list of occurring tuples *)
  Definition recode (cH : cell -> Z) (cT : list cell -> Z) (l : list (list cell)) (z : Z) : Z :=
    match find (fun t => Z.eqb (cT t) z) l with
    | Some t => cH (h (enc t))
    | None => 0%Z
    end.

  Lemma recode_spec cH cT l t : inj_on cT l -> In t l -> recode cH cT l (cT t) = cH (h (enc t)).
  Proof.
    intros Hinj Hin. unfold recode. destruct (find _ l) as [t'|] eqn:E.
    - apply find_some in E. destruct E as [Hin' Eq]. apply Z.eqb_eq in Eq.
      rewrite (Hinj t' t Hin' Hin Eq). reflexivity.
    - exfalso. apply (find_none _ _ E t) in Hin. rewrite Z.eqb_refl in Hin. discriminate.
  Qed.

  Theorem score_MI (cH : cell -> Z) (cT : list cell -> Z) df comb (T : list Z) (c : bool) :
    incl comb (names df) -> no_collision h df comb ->
    length T = nrows df -> 0 < nrows df ->
    inj_on cH (feature_values h df comb) -> inj_on cT (tuples df comb) ->
    MI.Model.eval_R (MI.Model.core T (map cH (feature_values h df comb)) c)
    = MI.Model.eval_R (MI.Model.core T (map cT (tuples df comb)) c).
  Proof.
    intros _ Hnc HT Hn HcH HcT.
    set (l := tuples df comb).
    assert (Hmap : map cH (feature_values h df comb) = map (recode cH cT l) (map cT l)).
    { unfold feature_values. fold l. rewrite !map_map. apply map_ext_in. intros t Ht.
      symmetry. apply recode_spec; assumption. }
    rewrite Hmap. rewrite <- (map_id T) at 1.
    apply MI.Proofs.core_relabel.
    - rewrite map_length. unfold l. rewrite tuples_length. exact HT.
    - rewrite map_length. unfold l. rewrite tuples_length. exact Hn.
    - intros a b _ _ E. exact E.
    - intros a b Ha Hb E. apply in_map_iff in Ha. apply in_map_iff in Hb.
      destruct Ha as [ta [<- Hta]]. destruct Hb as [tb [<- Htb]].
      rewrite !recode_spec in E by assumption.
      apply HcH in E; [|apply (in_map (fun r => h (enc r))); assumption|apply (in_map (fun r => h (enc r))); assumption].
      apply Hnc in E; [|apply in_map; assumption|apply in_map; assumption].
      apply enc_inj in E. subst. reflexivity.
  Qed.
End ScoreMI.
