(* C10 — lemmas about Features/Interact.v *)
From Coq Require Import List NArith ZArith Arith Bool Lia Decimal DecimalNat.
From Outrank Require Import Features.Interact.
Import ListNotations.

(* ---------------- string equality ---------------- *)
Lemma list_eqb_spec {A} (e : A -> A -> bool) (He : forall x y, e x y = true <-> x = y) :
  forall a b, list_eqb e a b = true <-> a = b.
Proof.
  induction a as [|x a IH]; intros [|y b]; cbn; split; intros H; try reflexivity; try discriminate.
  - apply andb_true_iff in H. destruct H as [H1 H2]. apply He in H1. apply IH in H2. subst. reflexivity.
  - inversion H; subst. apply andb_true_iff. split; [apply He | apply IH]; reflexivity.
Qed.

Lemma streqb_spec a : forall b, streqb a b = true <-> a = b.
Proof.
  induction a as [|x a IH]; intros [|y b]; cbn; split; intros H; try reflexivity; try discriminate.
  - apply andb_true_iff in H. destruct H as [H1 H2]. apply N.eqb_eq in H1. apply IH in H2. subst. reflexivity.
  - inversion H; subst. apply andb_true_iff. split; [apply N.eqb_refl | apply IH; reflexivity].
Qed.
Lemma streqb_refl a : streqb a a = true.
Proof. apply streqb_spec. reflexivity. Qed.
Lemma streqb_neq a b : streqb a b = false <-> a <> b.
Proof.
  split.
  - intros H E. apply streqb_spec in E. congruence.
  - intros H. destruct (streqb a b) eqn:E; [apply streqb_spec in E; contradiction | reflexivity].
Qed.
Lemma liststr_eqb_spec : forall a b : list str, list_eqb streqb a b = true <-> a = b.
Proof. apply list_eqb_spec. intros; apply streqb_spec. Qed.
Lemma memb_spec x l : memb x l = true <-> In x l.
Proof.
  unfold memb. rewrite existsb_exists. split.
  - intros [y [Hy E]]. apply streqb_spec in E. subst. exact Hy.
  - intros H. exists x. split; [exact H | apply streqb_refl].
Qed.
Lemma nodupb_spec l : nodupb l = true -> NoDup l.
Proof.
  induction l as [|x l IH]; cbn; intros H; constructor.
  - apply andb_true_iff in H. destruct H as [H _]. intros Hin. apply memb_spec in Hin. rewrite Hin in H. discriminate.
  - apply IH. apply andb_true_iff in H. tauto.
Qed.
Lemma column_eqb_spec a b : column_eqb a b = true <-> a = b.
Proof.
  destruct a as [k v], b as [k' v']. unfold column_eqb; cbn. rewrite andb_true_iff, streqb_spec, liststr_eqb_spec.
  split; [intros [-> ->]; reflexivity | intros H; inversion H; auto].
Qed.
Lemma frame_eqb_spec a b : frame_eqb a b = true <-> a = b.
Proof. apply list_eqb_spec. intros; apply column_eqb_spec. Qed.

(* ---------------- the encoding is injective ---------------- *)
Lemma codes_digits d : Forall is_digit (codes_of_uint d).
Proof. induction d; cbn; constructor; try assumption; unfold is_digit; lia. Qed.

Lemma codes_inj d : forall d', codes_of_uint d = codes_of_uint d' -> d = d'.
Proof.
  induction d; destruct d'; cbn; intros H; try discriminate; try reflexivity;
    inversion H; f_equal; auto.
Qed.

Lemma dec_inj n m : dec n = dec m -> n = m.
Proof.
  unfold dec. intros H. apply codes_inj in H.
  rewrite <- (Unsigned.of_to n), <- (Unsigned.of_to m), H. reflexivity.
Qed.

Lemma split_colon d1 : forall d2 r1 r2, Forall is_digit d1 -> Forall is_digit d2 ->
  d1 ++ COLON :: r1 = d2 ++ COLON :: r2 -> d1 = d2 /\ r1 = r2.
Proof.
  induction d1 as [|a d1 IH]; intros d2 r1 r2 H1 H2 E.
  - destruct d2 as [|b d2]; cbn in E.
    + inversion E. auto.
    + inversion E; subst. inversion H2 as [|? ? Hb _]; subst. unfold is_digit, COLON in Hb. lia.
  - destruct d2 as [|b d2]; cbn in E.
    + inversion E; subst. inversion H1 as [|? ? Ha _]; subst. unfold is_digit, COLON in Ha. lia.
    + inversion E; subst. inversion H1; inversion H2; subst.
      destruct (IH d2 r1 r2) as [-> ->]; auto.
Qed.

Lemma app_eq_len {A} (a : list A) : forall b x y, length a = length b -> a ++ x = b ++ y -> a = b /\ x = y.
Proof.
  induction a as [|k a IH]; intros [|k' b] x y Hl E; cbn in *; try discriminate; auto.
  inversion E; subst. destruct (IH b x y) as [-> ->]; auto.
Qed.

Theorem enc_inj t : forall t', enc t = enc t' -> t = t'.
Proof.
  induction t as [|v t IH]; intros [|v' t'] E; cbn [enc] in E; try reflexivity.
  - destruct (dec (length v')); discriminate.
  - destruct (dec (length v)); discriminate.
  - apply split_colon in E; try apply codes_digits. destruct E as [Ed Er].
    apply dec_inj in Ed. apply app_eq_len in Er; [|exact Ed]. destruct Er as [-> Et].
    f_equal. apply IH. exact Et.
Qed.

(* the old encoding is not injective: ("1","11") and ("11","1") *)
Lemma enc_old_refuted : exists t t', t <> t' /\ length t = length t' /\ enc_old t = enc_old t'.
Proof. exists [[49%N]; [49%N; 49%N]], [[49%N; 49%N]; [49%N]]. repeat split. discriminate. Qed.

(* the length prefix WITHOUT the separator is not injective either: ("0","AAAAAAAA3xyz") and ("12AAAAAAAA","xyz")
   both give "1012AAAAAAAA3xyz" (the first reads 1|0|12|AAAAAAAA3xyz, the second 10|12AAAAAAAA|3|xyz) *)
Definition nosep_t1 : list str :=
  [[48]; [65; 65; 65; 65; 65; 65; 65; 65; 51; 120; 121; 122]]%N.
Definition nosep_t2 : list str :=
  [[49; 50; 65; 65; 65; 65; 65; 65; 65; 65]; [120; 121; 122]]%N.
Lemma enc_nosep_refuted : exists t t', t <> t' /\ length t = length t' /\ enc_nosep t = enc_nosep t'.
Proof. exists nosep_t1, nosep_t2. split; [discriminate|]. split; vm_compute; reflexivity. Qed.
(* ... while the real encoding keeps the two apart *)
Example enc_separates_nosep_witness : enc nosep_t1 <> enc nosep_t2.
Proof. vm_compute. discriminate. Qed.

Section WithHash.
  Variable h : str -> cell.

  Lemma equal_if t t' : t = t' -> h (enc t) = h (enc t').
  Proof. intros ->. reflexivity. Qed.

  (* "up to collisions": no collision between the two strings that are hashed *)
  Lemma equal_iff t t' : inj_on h [enc t; enc t'] -> (h (enc t) = h (enc t') <-> t = t').
  Proof.
    intros Hinj. split; [|apply equal_if].
    intros E. apply enc_inj, Hinj; [left; reflexivity | right; left; reflexivity | exact E].
  Qed.

  (* whatever the hash, the old encoding gives two different value tuples of the same arity the same value *)
  Lemma old_aliases : exists t t', t <> t' /\ length t = length t' /\ h (enc_old t) = h (enc_old t').
  Proof.
    destruct enc_old_refuted as [t [t' [Hne [Hl E]]]]. exists t, t'. repeat split; auto. rewrite E. reflexivity.
  Qed.
  Lemma nosep_aliases : exists t t', t <> t' /\ length t = length t' /\ h (enc_nosep t) = h (enc_nosep t').
  Proof.
    destruct enc_nosep_refuted as [t [t' [Hne [Hl E]]]]. exists t, t'. repeat split; auto. rewrite E. reflexivity.
  Qed.
End WithHash.

(* ---------------- names ---------------- *)
Lemma name_is_join h sep df comb : fst (combine_feature h sep df comb) = join sep comb.
Proof. reflexivity. Qed.

Example name_example :
  join SEP_AND [[97%N]; [98%N]; [99%N]] = [97; 32; 65; 78; 68; 32; 98; 32; 65; 78; 68; 32; 99]%N.
Proof. reflexivity. Qed.

(* ---------------- dict ---------------- *)
Lemma dict_set_in {V} (d : list (str * V)) k v kv : In kv (dict_set d k v) -> kv = (k, v) \/ In kv d.
Proof.
  induction d as [|[k' v'] d IH]; cbn; intros H.
  - destruct H as [H|[]]. left. symmetry. exact H.
  - destruct (streqb k k') eqn:E.
    + apply streqb_spec in E. subst k'. destruct H as [H|H]; [left; symmetry; exact H | right; right; exact H].
    + destruct H as [H|H]; [right; left; exact H|]. destruct (IH H) as [H'|H']; [left; exact H' | right; right; exact H'].
Qed.

Lemma dict_set_keys {V} (d : list (str * V)) k v x : In x (map fst (dict_set d k v)) <-> x = k \/ In x (map fst d).
Proof.
  induction d as [|[k' v'] d IH]; cbn.
  - split; [intros [H|[]]; left; symmetry; exact H | intros [H|[]]; left; symmetry; exact H].
  - destruct (streqb k k') eqn:E; cbn.
    + apply streqb_spec in E. subst k'. split; [intros [H|H]; [left; symmetry; exact H | right; right; exact H]|].
      intros [H|[H|H]]; [left; symmetry; exact H | left; exact H | right; exact H].
    + rewrite IH. tauto.
Qed.

Lemma dict_set_nodup {V} (d : list (str * V)) k v : NoDup (map fst d) -> NoDup (map fst (dict_set d k v)).
Proof.
  induction d as [|[k' v'] d IH]; cbn; intros H.
  - constructor; [intros []|constructor].
  - destruct (streqb k k') eqn:E; cbn.
    + exact H.
    + inversion H as [|? ? Hn Hd]; subst. constructor; [|apply IH; exact Hd].
      intros Hin. apply dict_set_keys in Hin. destruct Hin as [Hk|Hin]; [|contradiction].
      subst k'. rewrite streqb_refl in E. discriminate.
Qed.

Lemma dict_fold_in {V} (l : list (str * V)) : forall d kv,
  In kv (fold_left (fun d kv => dict_set d (fst kv) (snd kv)) l d) -> In kv l \/ In kv d.
Proof.
  induction l as [|[k v] l IH]; cbn; intros d kv H; [right; exact H|].
  apply IH in H. destruct H as [H|H]; [left; right; exact H|].
  apply dict_set_in in H. destruct H as [H|H]; [left; left; symmetry; exact H | right; exact H].
Qed.
Lemma dict_of_in {V} (l : list (str * V)) kv : In kv (dict_of l) -> In kv l.
Proof. intros H. apply dict_fold_in in H. destruct H as [H|[]]. exact H. Qed.

Lemma dict_fold_keys {V} (l : list (str * V)) : forall d x,
  In x (map fst (fold_left (fun d kv => dict_set d (fst kv) (snd kv)) l d)) <-> In x (map fst l) \/ In x (map fst d).
Proof.
  induction l as [|[k v] l IH]; cbn; intros d x; [tauto|].
  rewrite IH, dict_set_keys. split; intros H; intuition congruence.
Qed.
Lemma dict_of_keys {V} (l : list (str * V)) x : In x (map fst (dict_of l)) <-> In x (map fst l).
Proof. unfold dict_of. rewrite dict_fold_keys. cbn. tauto. Qed.

Lemma dict_fold_nodup {V} (l : list (str * V)) : forall d,
  NoDup (map fst d) -> NoDup (map fst (fold_left (fun d kv => dict_set d (fst kv) (snd kv)) l d)).
Proof. induction l as [|[k v] l IH]; cbn; intros d H; [exact H|]. apply IH, dict_set_nodup, H. Qed.
Lemma dict_of_nodup {V} (l : list (str * V)) : NoDup (map fst (dict_of l)).
Proof. apply dict_fold_nodup. constructor. Qed.

(* when equal names carry equal values the dict holds exactly the listed bindings *)
Lemma dict_of_in_iff {V} (l : list (str * V)) :
  (forall k v v', In (k, v) l -> In (k, v') l -> v = v') ->
  forall kv, In kv (dict_of l) <-> In kv l.
Proof.
  intros Hf [k v]. split; [apply dict_of_in|]. intros H.
  assert (Hk : In k (map fst (dict_of l))) by (apply dict_of_keys, in_map_iff; exists (k, v); auto).
  apply in_map_iff in Hk. destruct Hk as [[k' v'] [Ek Hin]]. cbn in Ek. subst k'.
  rewrite (Hf k v v' H (dict_of_in _ _ Hin)). exact Hin.
Qed.

(* ---------------- frames ---------------- *)
Lemma rows_of_length cols n : length (rows_of cols n) = n.
Proof. unfold rows_of. rewrite map_length, seq_length. reflexivity. Qed.

Lemma rows_of_nth cols n i : i < n ->
  nth_error (rows_of cols n) i = Some (map (fun c => nth i c []) cols).
Proof.
  intros H. unfold rows_of. rewrite nth_error_map.
  replace (nth_error (seq 0 n) i) with (Some i); [reflexivity|].
  symmetry. rewrite (nth_error_nth' _ 0) by (rewrite seq_length; exact H). rewrite seq_nth by exact H. reflexivity.
Qed.

Lemma tuples_length df comb : length (tuples df comb) = nrows df.
Proof. apply rows_of_length. Qed.
Lemma feature_values_length h df comb : length (feature_values h df comb) = nrows df.
Proof. unfold feature_values. rewrite map_length. apply tuples_length. Qed.

(* append-only: the returned frame is the input followed by new columns of one value per row *)
Definition appends (df df' : frame) : Prop :=
  exists app, df' = df ++ app /\ Forall (fun c : column => length (snd c) = nrows df) app.

Lemma appends_firstn df df' : appends df df' ->
  firstn (length df) df' = df /\ Forall (fun c : column => length (snd c) = nrows df) (skipn (length df) df').
Proof.
  intros [app [-> H]]. split.
  - rewrite firstn_app, Nat.sub_diag, firstn_all. cbn. apply app_nil_r.
  - rewrite skipn_app, Nat.sub_diag, skipn_all. cbn. exact H.
Qed.

Lemma combined_appends h sep df sel : appends df (combined h sep df sel).
Proof.
  exists (dict_of (map (combine_feature h sep df) sel)). split; [reflexivity|].
  apply Forall_forall. intros c Hc. apply dict_of_in in Hc. apply in_map_iff in Hc.
  destruct Hc as [comb [<- _]]. cbn. apply feature_values_length.
Qed.

(* every appended column is the feature of one selected combination, and every selected combination has one *)
Lemma combined_new h sep df sel c :
  In c (skipn (length df) (combined h sep df sel)) -> exists comb, In comb sel /\ c = combine_feature h sep df comb.
Proof.
  unfold combined. rewrite skipn_app, Nat.sub_diag, skipn_all. cbn. intros H. apply dict_of_in in H.
  apply in_map_iff in H. destruct H as [comb [E Hin]]. exists comb. auto.
Qed.
Lemma combined_names h sep df sel nm :
  In nm (names (skipn (length df) (combined h sep df sel))) <-> In nm (map (join sep) sel).
Proof.
  unfold combined, names. rewrite skipn_app, Nat.sub_diag, skipn_all. cbn.
  rewrite dict_of_keys, map_map. cbn. reflexivity.
Qed.

Lemma combined_untouched h sep df sel :
  firstn (length df) (combined h sep df sel) = df /\
  Forall (fun c : column => length (snd c) = nrows df) (skipn (length df) (combined h sep df sel)).
Proof. apply appends_firstn, combined_appends. Qed.
Lemma combined_new_columns h sep df sel :
  (forall c, In c (skipn (length df) (combined h sep df sel)) -> exists comb, In comb sel /\ c = combine_feature h sep df comb) /\
  (forall nm, In nm (names (skipn (length df) (combined h sep df sel))) <-> In nm (map (join sep) sel)).
Proof. split; [apply combined_new | apply combined_names]. Qed.

(* ---------------- partitions ---------------- *)
Lemma same_part_maps {A B C} (f : A -> B) (g : A -> C) (l : list A) :
  (forall x y, In x l -> In y l -> (f x = f y <-> g x = g y)) -> same_part (map f l) (map g l).
Proof.
  intros H. split; [rewrite !map_length; reflexivity|].
  intros i j a a' b b'. rewrite !nth_error_map.
  destruct (nth_error l i) as [x|] eqn:Ei; cbn; [|discriminate].
  destruct (nth_error l j) as [y|] eqn:Ej; cbn; [|discriminate].
  intros Ea Ea' Eb Eb'. inversion Ea; inversion Ea'; inversion Eb; inversion Eb'; subst.
  apply H; eapply nth_error_In; eassumption.
Qed.

Lemma same_part_map_inj {A B} (f : A -> B) (l : list A) : inj_on f l -> same_part (map f l) l.
Proof.
  intros H. rewrite <- (map_id l) at 2. apply same_part_maps. intros x y Hx Hy.
  split; [apply H; assumption | intros ->; reflexivity].
Qed.

Lemma same_part_sym {A B} (xs : list A) (ys : list B) : same_part xs ys -> same_part ys xs.
Proof. intros [Hl H]. split; [symmetry; exact Hl|]. intros i j b b' a a' ? ? ? ?. symmetry. eapply H; eassumption. Qed.

Lemma pair_rowb_sound {A B} (ea : A -> A -> bool) (eb : B -> B -> bool)
      (Ha : forall x y, ea x y = true <-> x = y) (Hb : forall x y, eb x y = true <-> x = y) a b :
  forall xs ys, pair_rowb ea eb a b xs ys = true ->
  length xs = length ys /\
  forall j a' b', nth_error xs j = Some a' -> nth_error ys j = Some b' -> (a = a' <-> b = b').
Proof.
  induction xs as [|x xs IH]; intros [|y ys] H; cbn in H; try discriminate.
  - split; [reflexivity|]. intros [|j]; discriminate.
  - apply andb_true_iff in H. destruct H as [H1 H2]. destruct (IH ys H2) as [Hl Hr]. split; [cbn; congruence|].
    intros [|j] a' b'; cbn; [|apply Hr].
    intros E1 E2. inversion E1; inversion E2; subst. apply eqb_prop in H1.
    rewrite <- Ha, <- Hb, H1. reflexivity.
Qed.

Lemma same_partb_sound {A B} (ea : A -> A -> bool) (eb : B -> B -> bool)
      (Ha : forall x y, ea x y = true <-> x = y) (Hb : forall x y, eb x y = true <-> x = y) :
  forall xs ys, same_partb ea eb xs ys = true -> same_part xs ys.
Proof.
  induction xs as [|x xs IH]; intros [|y ys] H; cbn in H; try discriminate.
  - split; [reflexivity|]. intros [|i]; discriminate.
  - apply andb_true_iff in H. destruct H as [H1 H2].
    destruct (pair_rowb_sound ea eb Ha Hb x y xs ys H1) as [Hl Hrow]. destruct (IH ys H2) as [_ Hrec].
    split; [cbn; congruence|].
    intros [|i] [|j] a a' b b'; cbn; intros E1 E2 E3 E4.
    + inversion E1; inversion E2; inversion E3; inversion E4; subst. tauto.
    + inversion E1; inversion E3; subst. eapply Hrow; eassumption.
    + inversion E2; inversion E4; subst. split; intros E; symmetry; symmetry in E; eapply Hrow; eassumption.
    + eapply Hrec; eassumption.
Qed.

Lemma pair_rowb_complete {A B} (ea : A -> A -> bool) (eb : B -> B -> bool)
      (Ha : forall x y, ea x y = true <-> x = y) (Hb : forall x y, eb x y = true <-> x = y) a b :
  forall xs ys, length xs = length ys ->
  (forall j a' b', nth_error xs j = Some a' -> nth_error ys j = Some b' -> (a = a' <-> b = b')) ->
  pair_rowb ea eb a b xs ys = true.
Proof.
  induction xs as [|x xs IH]; intros [|y ys] Hl H; cbn in *; try discriminate; [reflexivity|].
  apply andb_true_iff. split.
  - specialize (H 0 x y eq_refl eq_refl). apply eqb_true_iff. apply eq_true_iff_eq. rewrite Ha, Hb. exact H.
  - apply IH; [congruence|]. intros j. apply (H (S j)).
Qed.

Lemma same_partb_complete {A B} (ea : A -> A -> bool) (eb : B -> B -> bool)
      (Ha : forall x y, ea x y = true <-> x = y) (Hb : forall x y, eb x y = true <-> x = y) :
  forall xs ys, same_part xs ys -> same_partb ea eb xs ys = true.
Proof.
  induction xs as [|x xs IH]; intros [|y ys] [Hl H]; cbn in *; try discriminate; [reflexivity|].
  apply andb_true_iff. split.
  - apply pair_rowb_complete; auto. intros j a' b' E1 E2. apply (H 0 (S j) x a' y b'); auto.
  - apply IH. split; [congruence|]. intros i j. apply (H (S i) (S j)).
Qed.

Lemma partition_test_exact (xs : list N) (ys : list (list str)) :
  same_partb N.eqb (list_eqb streqb) xs ys = true <-> same_part xs ys.
Proof.
  split.
  - apply same_partb_sound; [apply N.eqb_eq | apply liststr_eqb_spec].
  - apply same_partb_complete; [apply N.eqb_eq | apply liststr_eqb_spec].
Qed.

(* "up to 64-bit hash collisions", made precise: no collision among the strings hashed for this frame and combination.
   (Global injectivity of h can never hold of a 16-hex-digit digest; this can, and is what a run of the code relies on.) *)
Definition no_collision (h : str -> cell) (df : frame) (comb : list str) : Prop :=
  inj_on h (map enc (tuples df comb)).

Section Score.
  Variable h : str -> cell.

  (* the new column partitions the rows exactly as the explicit value tuples do *)
  Lemma feature_partition df comb : incl comb (names df) -> no_collision h df comb ->
    same_part (feature_values h df comb) (tuples df comb).
  Proof.
    intros _ H. unfold feature_values. apply same_part_map_inj. intros x y Hx Hy E.
    apply enc_inj. apply H; auto using in_map.
  Qed.

  Lemma tuples_nth_in df comb i : i < nrows df -> In (map (fun c => nth i c []) (map (getcol df) comb)) (tuples df comb).
  Proof. intros Hi. eapply nth_error_In. unfold tuples. apply rows_of_nth. exact Hi. Qed.

  (* row-level reading: two rows get equal values iff they agree on every constituent feature *)
  Lemma rows_iff df comb i j : incl comb (names df) -> no_collision h df comb -> i < nrows df -> j < nrows df ->
    (nth_error (feature_values h df comb) i = nth_error (feature_values h df comb) j
     <-> forall f, In f comb -> nth i (getcol df f) [] = nth j (getcol df f) []).
  Proof.
    intros _ Hnc Hi Hj. pose proof (tuples_nth_in df comb i Hi) as Ii. pose proof (tuples_nth_in df comb j Hj) as Ij.
    unfold feature_values, tuples. rewrite !nth_error_map, !rows_of_nth by assumption. cbn.
    split.
    - intros E. inversion E as [E']. apply Hnc in E'; [|apply in_map; assumption|apply in_map; assumption].
      apply enc_inj in E'. rewrite !map_map in E'. apply map_ext_in_iff. exact E'.
    - intros H. do 3 f_equal. rewrite !map_map. apply map_ext_in_iff. exact H.
  Qed.

  (* hence any scorer that sees only the partition scores the interaction feature as it scores the tuples,
     whatever (injective on the occurring values) category codes are used on either side *)
  Lemma score_equal {S} (score : list N -> list N -> S) (cH : cell -> N) (cT : list cell -> N) df comb T :
    incl comb (names df) -> no_collision h df comb ->
    partition_invariant score ->
    inj_on cH (feature_values h df comb) -> inj_on cT (tuples df comb) ->
    score (map cH (feature_values h df comb)) T = score (map cT (tuples df comb)) T.
  Proof.
    intros _ Hnc Hs HcH HcT. apply Hs. unfold feature_values in *. rewrite map_map.
    apply same_part_maps. intros x y Hx Hy. split.
    - intros E. apply HcH in E;
        [|apply (in_map (fun r => h (enc r))); assumption|apply (in_map (fun r => h (enc r))); assumption].
      apply Hnc in E; [|apply in_map; assumption|apply in_map; assumption]. apply enc_inj in E. subst. reflexivity.
    - intros E. apply HcT in E; auto. subst. reflexivity.
  Qed.
End Score.

(* the hypothesis is satisfiable: the identity "hash" never collides, on any frame *)
Lemma no_collision_id df comb : no_collision (fun x => x) df comb.
Proof. intros x y _ _ E. exact E. Qed.

(* the old encoding breaks the partition on a 2-row frame, for every hash *)
Definition witness_frame : frame :=
  [([97%N], [[49%N]; [49%N; 49%N]]); ([98%N], [[49%N; 49%N]; [49%N]])].    (* a = ["1","11"], b = ["11","1"] *)
Lemma old_partition_refuted (h : str -> cell) :
  ~ same_part (feature_values_old h witness_frame [[97%N]; [98%N]]) (tuples witness_frame [[97%N]; [98%N]]).
Proof.
  intros [_ H]. specialize (H 0 1 _ _ _ _ eq_refl eq_refl eq_refl eq_refl). cbn in H.
  destruct H as [H _]. specialize (H eq_refl). discriminate.
Qed.

(* ---------------- candidates ---------------- *)
Lemma combinations_spec {A} (l : list A) : forall k c, In c (combinations l k) -> length c = k /\ incl c l.
Proof.
  induction l as [|x l IH]; intros [|k] c H; cbn in H.
  - destruct H as [<-|[]]. split; [reflexivity | intros ? []].
  - destruct H.
  - destruct H as [<-|[]]. split; [reflexivity | intros ? []].
  - apply in_app_or in H. destruct H as [H|H].
    + apply in_map_iff in H. destruct H as [c' [<- Hc']]. apply IH in Hc'. destruct Hc' as [Hl Hi].
      split; [cbn; congruence|]. intros y [<-|Hy]; [left; reflexivity | right; apply Hi, Hy].
    + apply IH in H. destruct H as [Hl Hi]. split; [exact Hl|]. intros y Hy. right. apply Hi, Hy.
Qed.

Lemma candidates_spec df label io is3mr c : In c (candidates df label io is3mr) ->
  length c = (if is3mr then 2 else io) /\ (forall f, In f c -> In f (names df) /\ f <> label).
Proof.
  unfold candidates. destruct (Nat.ltb 1 io); [|intros []]. intros H. apply combinations_spec in H.
  destruct H as [Hl Hi]. split; [exact Hl|]. intros f Hf. apply Hi in Hf. unfold feature_columns in Hf.
  apply filter_In in Hf. destruct Hf as [Hn Hb]. split; [exact Hn|]. intros ->. rewrite streqb_refl in Hb. discriminate.
Qed.

(* ---------------- the checker is sound ---------------- *)
Lemma C10_check_sound sep df label io is3mr cap obs_prefix obs_new :
  C10_check sep df label io is3mr cap obs_prefix obs_new = true ->
  obs_prefix = df /\
  length obs_new = cap_len (length (candidates df label io is3mr)) cap /\
  NoDup (map fst obs_new) /\
  forall nm ids, In (nm, ids) obs_new ->
    exists comb, In comb (candidates df label io is3mr) /\ nm = join sep comb /\ same_part ids (tuples df comb).
Proof.
  unfold C10_check. cbn. rewrite !andb_true_iff. intros [[[H1 H2] H3] H4].
  split; [apply frame_eqb_spec, H1|]. split; [apply Nat.eqb_eq, H2|]. split; [apply nodupb_spec, H3|].
  intros nm ids Hin. rewrite forallb_forall in H4.
  assert (Hc : C10_colcheck sep df (candidates df label io is3mr) (nm, ids) = true).
  { apply H4. apply in_map_iff. exists (nm, ids). split; [reflexivity | exact Hin]. }
  unfold C10_colcheck in Hc. cbn in Hc.
  destruct (find _ _) as [comb|] eqn:Ef; [|discriminate]. apply find_some in Ef. destruct Ef as [Hc1 Hc2].
  exists comb. split; [exact Hc1|]. split; [symmetry; apply streqb_spec, Hc2|].
  eapply same_partb_sound; [apply N.eqb_eq | apply liststr_eqb_spec | exact Hc].
Qed.

(* the transcription passes its own checker when the ids are an injective relabelling of the hash cells *)
Example C10_check_model_example :
  let df : frame := [([97%N], [[49%N]; [49%N; 49%N]; [49%N]]); ([98%N], [[49%N; 49%N]; [49%N]; [49%N; 49%N]]);
                     ([121%N], [[48%N]; [49%N]; [48%N]])] in
  C10_check SEP_AND df [121%N] 2 false 5%Z df [([97; 32; 65; 78; 68; 32; 98]%N, [7; 9; 7]%N)] = true.
Proof. vm_compute. reflexivity. Qed.
