(* C12 — model of outrank/feature_transformations/ranking_transformers.py (FeatureTransformerGeneric)
   and of the formula language of feature_transformer_vault/{default,fw}_transformers.py.

   No proofs here (Features/TransformProofs.v), no dependence on generated files: the tables
   (Gen/Presets.v) and the constants read from the source (Gen/TransformConstants.v) are written by
   tools/translate_presets.py in terms of the types defined here; Features/TransformTables.v instantiates
   the generic definitions below with them.

   Strings are lists of Unicode code points ([str]).  The formulas are deep-embedded ([expr]); their
   meaning [den] is over the real numbers, [None] standing for "not a finite real number" (numpy: nan or
   +-inf).  The keep/drop rule, the numeric parse of a cell and the preset union are executable. *)
From Coq Require Import Ascii String.
From Coq Require Import List NArith ZArith QArith Qreals Reals Bool Arith.
Import ListNotations.
Local Close Scope R_scope.
Local Close Scope Q_scope.

Definition str := list N.

(* readable literals in hand-written specifications: s2l "abc" = [97;98;99] *)
Definition s2l (s : string) : str := map N_of_ascii (list_ascii_of_string s).

Fixpoint str_eqb (a b : str) : bool :=
  match a, b with
  | [], [] => true
  | x :: a', y :: b' => N.eqb x y && str_eqb a' b'
  | _, _ => false
  end.

Fixpoint mem (k : str) (l : list str) : bool :=
  match l with
  | [] => false
  | x :: r => str_eqb k x || mem k r
  end.

(* ------------------------------------------------------------------------------------------ *)
(* Formula language: exactly the numpy subset occurring in the minimal / default / fw presets   *)

Inductive cmp := CLt | CLe | CGt | CGe | CEq | CNe.

Inductive expr :=
| EX                                   (* the element of the column X *)
| ELit (q : Q)                         (* decimal literal, exact *)
| EAdd (a b : expr) | ESub (a b : expr) | EMul (a b : expr)
| EDiv (a b : expr)                    (* np.divide(a, b)  and  a / b *)
| ENeg (a : expr)
| ESqrt (a : expr) | ELog (a : expr) | EAbs (a : expr)
| EPow (a : expr) (n : nat)            (* np.power(a, n), np.square(a) *)
| ERound (a : expr) (d : nat)          (* np.round(a, d) *)
| EWhere (c : cmp) (a b t f : expr)    (* np.where(a c b, t, f) *)
| EMaxX.                               (* np.max(X): maximum of the whole column *)

(* round half to even (numpy rint), as an integer *)
Definition rhe (r : R) : Z :=
  let f := Int_part r in
  let d := (r - IZR f)%R in
  if Rlt_dec d (1 / 2) then f
  else if Rlt_dec (1 / 2) d then (f + 1)%Z
  else if Z.even f then f else (f + 1)%Z.

Definition rnd (d : nat) (v : R) : R := (IZR (rhe (v * 10 ^ d)) / 10 ^ d)%R.

Definition Rltb (a b : R) : bool := if Rlt_dec a b then true else false.
Definition Reqb (a b : R) : bool := if Req_EM_T a b then true else false.

Definition cmpR (c : cmp) (a b : R) : bool :=
  match c with
  | CLt => Rltb a b
  | CLe => negb (Rltb b a)
  | CGt => Rltb b a
  | CGe => negb (Rltb a b)
  | CEq => Reqb a b
  | CNe => negb (Reqb a b)
  end.

Definition olift1 (f : R -> R) (a : option R) : option R :=
  match a with Some u => Some (f u) | None => None end.
Definition olift2 (f : R -> R -> R) (a b : option R) : option R :=
  match a, b with Some u, Some v => Some (f u v) | _, _ => None end.

Definition list_max (xs : list R) : option R :=
  match xs with [] => None | y :: ys => Some (fold_left Rmax ys y) end.

(* [den e xs x]: value of the formula at the element x of the column xs.
   None = some intermediate result is not a finite real number (numpy yields nan or +-inf there). *)
Fixpoint den (e : expr) (xs : list R) (x : R) : option R :=
  match e with
  | EX => Some x
  | ELit q => Some (Q2R q)
  | EAdd a b => olift2 Rplus (den a xs x) (den b xs x)
  | ESub a b => olift2 Rminus (den a xs x) (den b xs x)
  | EMul a b => olift2 Rmult (den a xs x) (den b xs x)
  | EDiv a b =>
      match den a xs x, den b xs x with
      | Some u, Some v => if Reqb v 0 then None else Some (u / v)%R
      | _, _ => None
      end
  | ENeg a => olift1 Ropp (den a xs x)
  | ESqrt a =>
      match den a xs x with
      | Some u => if Rltb u 0 then None else Some (sqrt u)
      | None => None
      end
  | ELog a =>
      match den a xs x with
      | Some u => if Rltb 0 u then Some (ln u) else None
      | None => None
      end
  | EAbs a => olift1 Rabs (den a xs x)
  | EPow a n => olift1 (fun u => (u ^ n)%R) (den a xs x)
  | ERound a d => olift1 (rnd d) (den a xs x)
  | EWhere c a b t f =>
      match den a xs x, den b xs x with
      | Some u, Some v => if cmpR c u v then den t xs x else den f xs x
      | _, _ => None
      end
  | EMaxX => list_max xs
  end.

(* syntactic equality up to the value of literals (2 # 100 vs 1 # 50) *)
Definition cmp_eqb (a b : cmp) : bool :=
  match a, b with
  | CLt, CLt | CLe, CLe | CGt, CGt | CGe, CGe | CEq, CEq | CNe, CNe => true
  | _, _ => false
  end.

Fixpoint expr_eqb (a b : expr) : bool :=
  match a, b with
  | EX, EX => true
  | ELit p, ELit q => Qeq_bool p q
  | EAdd a1 a2, EAdd b1 b2 | ESub a1 a2, ESub b1 b2 | EMul a1 a2, EMul b1 b2 | EDiv a1 a2, EDiv b1 b2 =>
      expr_eqb a1 b1 && expr_eqb a2 b2
  | ENeg a1, ENeg b1 | ESqrt a1, ESqrt b1 | ELog a1, ELog b1 | EAbs a1, EAbs b1 => expr_eqb a1 b1
  | EPow a1 n, EPow b1 m | ERound a1 n, ERound b1 m => expr_eqb a1 b1 && Nat.eqb n m
  | EWhere c a1 a2 a3 a4, EWhere d b1 b2 b3 b4 =>
      cmp_eqb c d && expr_eqb a1 b1 && expr_eqb a2 b2 && expr_eqb a3 b3 && expr_eqb a4 b4
  | EMaxX, EMaxX => true
  | _, _ => false
  end.

(* conditions of np.where compare finite quantities only (X, literals, arithmetic on them): then
   the "None = nan or inf" abstraction never has to decide a comparison with a non-finite operand *)
Fixpoint total_expr (e : expr) : bool :=
  match e with
  | EX | ELit _ => true
  | EAdd a b | ESub a b | EMul a b => total_expr a && total_expr b
  | ENeg a | EAbs a | EPow a _ | ERound a _ => total_expr a
  | _ => false
  end.

Fixpoint simple_conds (e : expr) : bool :=
  match e with
  | EX | ELit _ | EMaxX => true
  | EAdd a b | ESub a b | EMul a b | EDiv a b => simple_conds a && simple_conds b
  | ENeg a | ESqrt a | ELog a | EAbs a | EPow a _ | ERound a _ => simple_conds a
  | EWhere _ a b t f => total_expr a && total_expr b && simple_conds t && simple_conds f
  end.

(* ------------------------------------------------------------------------------------------ *)
(* Tables (Python dicts in insertion order), preset union                                        *)

Fixpoint lookup {A} (k : str) (t : list (str * A)) : option A :=
  match t with
  | [] => None
  | (k', v) :: r => if str_eqb k k' then Some v else lookup k r
  end.

Definition names {A} (t : list (str * A)) : list str := map fst t.

(* {**a, **b}: keys of a in order (values overridden by b), then the new keys of b *)
Definition merge {A} (a b : list (str * A)) : list (str * A) :=
  map (fun kv => (fst kv, match lookup (fst kv) b with Some v => v | None => snd kv end)) a
  ++ filter (fun kv => negb (mem (fst kv) (names a))) b.

Definition union {A} (ps : list (list (str * A))) : list (str * A) := fold_left merge ps [].

(* the last preset of the list defining the name wins *)
Fixpoint lookup_last {A} (k : str) (ps : list (list (str * A))) : option A :=
  match ps with
  | [] => None
  | p :: r => match lookup_last k r with Some v => Some v | None => lookup k p end
  end.

(* str.split(sep) for a one-character separator: "a,b" -> [a; b], "" -> [""] *)
Fixpoint split_on (sep : N) (s : str) : list str :=
  match s with
  | [] => [[]]
  | c :: r =>
      if N.eqb c sep then [] :: split_on sep r
      else match split_on sep r with
           | w :: ws => (c :: w) :: ws
           | [] => [[c]]
           end
  end.

(* FeatureTransformerGeneric.__init__: None = NotImplementedError (raised inside the loop as soon as
   the collection is still empty after a preset name) *)
Definition select_step {A} (registry : list (str * list (str * A)))
    (acc : option (list (str * A))) (ns : str) : option (list (str * A)) :=
  match acc with
  | None => None
  | Some coll =>
      let coll' := match lookup ns registry with
                   | Some (kv :: sub) => merge coll (kv :: sub)
                   | _ => coll
                   end in
      match coll' with [] => None | _ => Some coll' end
  end.

Definition select_gen {A} (registry : list (str * list (str * A))) (sep : N) (preset : str)
    : option (list (str * A)) :=
  fold_left (select_step registry) (split_on sep preset) (Some []).

(* ------------------------------------------------------------------------------------------ *)
(* Keep / drop rule over the rendered column (list of strings)                                  *)

Fixpoint count (s : str) (l : list str) : nat :=
  match l with
  | [] => 0
  | x :: r => (if str_eqb s x then 1 else 0) + count s r
  end.

Fixpoint dedup (l : list str) : list str :=
  match l with
  | [] => []
  | x :: r => if mem x r then dedup r else x :: dedup r
  end.

Definition distinct (l : list str) : nat := length (dedup l).
Definition maxcount (l : list str) : nat := fold_right (fun s m => Nat.max (count s l) m) 0 l.

Definition nan_str : str := [110; 97; 110]%N.   (* "nan" *)

(* the rule as the property states it, on the four statistics of the rendered column *)
Definition keep_spec_of (d m c n : nat) : bool := (1 <? d) && (5 * m <? 4 * n) && (4 * c <? 3 * n).
Definition keep_spec (l : list str) : bool :=
  keep_spec_of (distinct l) (maxcount l) (count nan_str l) (length l).

Definition cmpQ (c : cmp) (a b : Q) : bool :=
  match c, (a ?= b)%Q with
  | CLt, Lt | CLe, Lt | CLe, Eq | CGt, Gt | CGe, Gt | CGe, Eq | CEq, Eq | CNe, Lt | CNe, Gt => true
  | _, _ => false
  end.

(* the rule as the code writes it, parametrised by what the translator reads from the source *)
Definition keep_gen_of (dop : cmp) (drhs : Q) (mop : cmp) (mthr : Q) (nop : cmp) (nthr : Q) (d m c n : nat) : bool :=
  let p := Pos.of_nat n in
  cmpQ dop (inject_Z (Z.of_nat d)) drhs
  && cmpQ mop (Z.of_nat m # p)%Q mthr
  && cmpQ nop (Z.of_nat c # p)%Q nthr.

Definition keep_gen (nanlit : str) (dop : cmp) (drhs : Q) (mop : cmp) (mthr : Q) (nop : cmp) (nthr : Q)
    (l : list str) : bool :=
  keep_gen_of dop drhs mop mthr nop nthr (distinct l) (maxcount l) (count nanlit l) (length l).

(* names of the columns appended for one input column: [sel] the selected transformers,
   [rendered] the rendered transformed column of each, in the same order *)
Definition emitted {A} (sel : list (str * A)) (col : str) (rendered : list (list str)) : list str :=
  map (fun p => col ++ fst (fst p)) (filter (fun p => keep_spec (snd p)) (combine sel rendered)).

Definition subset (a b : list str) : bool := forallb (fun x => mem x b) a.
Definition same_set (a b : list str) : bool := subset a b && subset b a.

(* ------------------------------------------------------------------------------------------ *)
(* Numeric parse of a cell (get_vals): remove the quote character, empty = 0, decimal otherwise *)

Definition is_digit (c : N) : bool := N.leb 48 c && N.leb c 57.

Fixpoint digits_val (acc : Z) (s : str) : Z :=
  match s with
  | [] => acc
  | c :: r => digits_val (10 * acc + (Z.of_N c - 48))%Z r
  end.

Fixpoint span_digits (s : str) : str * str :=
  match s with
  | c :: r => if is_digit c then let (d, t) := span_digits r in (c :: d, t) else ([], s)
  | [] => ([], [])
  end.

Definition is_nil {A} (l : list A) : bool := match l with [] => true | _ => false end.

(* exponent part: "" -> 0, e[+-]ddd -> value, anything else -> not a number *)
Definition exponent (s : str) : option Z :=
  match s with
  | [] => Some 0%Z
  | c :: r =>
      if N.eqb c 101 || N.eqb c 69 then
        let (neg, r1) := match r with
                         | 45%N :: r' => (true, r')
                         | 43%N :: r' => (false, r')
                         | _ => (false, r)
                         end in
        let (ds, rest) := span_digits r1 in
        if is_nil ds || negb (is_nil rest) then None
        else Some (if neg then (- digits_val 0 ds)%Z else digits_val 0 ds)
      else None
  end.

(* [+-]digits[.digits][e[+-]digits] with at least one mantissa digit; exact value *)
Definition parse_float (s : str) : option Q :=
  let (neg, s1) := match s with
                   | 45%N :: r => (true, r)
                   | 43%N :: r => (false, r)
                   | _ => (false, s)
                   end in
  let (ip, s2) := span_digits s1 in
  let (fp, s3) := match s2 with
                  | 46%N :: r => span_digits r
                  | _ => ([], s2)
                  end in
  if is_nil ip && is_nil fp then None
  else match exponent s3 with
       | None => None
       | Some ex =>
           let mant := digits_val 0 (ip ++ fp) in
           let e := (ex - Z.of_nat (length fp))%Z in
           let q := if (0 <=? e)%Z then inject_Z (mant * 10 ^ e)%Z else (mant # Z.to_pos (10 ^ (- e)))%Q in
           Some (if neg then Qopp q else q)
       end.

Definition strip (ch : N) (s : str) : str := filter (fun c => negb (N.eqb c ch)) s.

Definition parse_cell_gen (ch : N) (empty : Q) (s : str) : option Q :=
  match strip ch s with
  | [] => Some empty
  | t => parse_float t
  end.

(* the parse as the property states it: the double quote removed, the empty cell is 0 *)
Definition parse_cell_spec (s : str) : option Q := parse_cell_gen 34%N 0%Q s.

Definition oQeq (a b : option Q) : Prop :=
  match a, b with
  | Some p, Some q => Qeq p q
  | None, None => True
  | _, _ => False
  end.

(* ------------------------------------------------------------------------------------------ *)
(* The fw family as its names describe it                                                        *)

Inductive fwkind := Ksqrt | Klog | Kpsqrt | Kplog.

Definition fw_is_sqrt (k : fwkind) : bool := match k with Ksqrt | Kpsqrt => true | _ => false end.
Definition fw_is_prob (k : fwkind) : bool := match k with Kpsqrt | Kplog => true | _ => false end.

(* np.where(X < thr, X, np.where(X > thr, np.round(f(X - thr) * res, 0), 0)) *)
Definition fw_body (is_sqrt : bool) (res thr : Q) : expr :=
  let g := ESub EX (ELit thr) in
  EWhere CLt EX (ELit thr) EX
    (EWhere CGt EX (ELit thr)
       (ERound (EMul (if is_sqrt then ESqrt g else ELog g) (ELit res)) 0)
       (ELit 0)).

(* threshold denoted by the grid value gt: gt itself, or gt per cent for the "prob" kinds *)
Definition fw_thr (k : fwkind) (gt : N) : Q :=
  if fw_is_prob k then (Z.of_N gt # 100)%Q else inject_Z (Z.of_N gt).

Definition fw_expr (k : fwkind) (res gt : N) : expr :=
  fw_body (fw_is_sqrt k) (inject_Z (Z.of_N res)) (fw_thr k gt).

(* decimal rendering of a natural number *)
Fixpoint uint_codes (u : Decimal.uint) : str :=
  match u with
  | Decimal.Nil => []
  | Decimal.D0 r => 48%N :: uint_codes r | Decimal.D1 r => 49%N :: uint_codes r
  | Decimal.D2 r => 50%N :: uint_codes r | Decimal.D3 r => 51%N :: uint_codes r
  | Decimal.D4 r => 52%N :: uint_codes r | Decimal.D5 r => 53%N :: uint_codes r
  | Decimal.D6 r => 54%N :: uint_codes r | Decimal.D7 r => 55%N :: uint_codes r
  | Decimal.D8 r => 56%N :: uint_codes r | Decimal.D9 r => 57%N :: uint_codes r
  end.
Definition dec (n : N) : str := uint_codes (N.to_uint n).

(* how a threshold of gt per cent (0 < gt < 100) is written: 0.01, 0.16, 0.5 *)
Definition per_cent (gt : N) : str :=
  s2l "0."%string ++ (if N.ltb gt 10 then 48%N :: dec gt
               else if N.eqb (N.modulo gt 10) 0 then dec (N.div gt 10) else dec gt).

Definition fw_name (k : fwkind) (res gt : N) : str :=
  s2l (match k with
       | Ksqrt => "_tr_fw_sqrt_res_" | Klog => "_tr_fw_log_res_"
       | Kpsqrt => "_tr_fw_prob_sqrt_res_" | Kplog => "_tr_fw_prob_log_res_"
       end)%string
  ++ dec res ++ s2l "_gt_"%string ++ (if fw_is_prob k then per_cent gt else dec gt).

Definition fw_kinds : list fwkind := [Ksqrt; Klog; Kpsqrt; Kplog].

(* the function on real numbers determined by (kind, resolution, threshold) *)
Definition fw_fun (is_sqrt : bool) (res thr x : R) : R :=
  if Rltb x thr then x
  else if Rltb thr x then IZR (rhe ((if is_sqrt then sqrt (x - thr) else ln (x - thr)) * res))
  else 0%R.

(* ------------------------------------------------------------------------------------------ *)
(* Hand-written reading of the names of the default preset (the specification the translated    *)
(* formulas are held against in the C12_named theorems); xs is the column, x the element       *)
Local Open Scope R_scope.

Definition rd_sqrt (xs : list R) (x : R) : option R := if Rltb x 0 then None else Some (sqrt x).
Definition rd_log_x1 (xs : list R) (x : R) : option R := if Rltb (-1) x then Some (ln (x + 1)) else None.
Definition rd_sqrt_abs (xs : list R) (x : R) : option R := Some (sqrt (Rabs x)).
Definition rd_log_abs1 (xs : list R) (x : R) : option R := Some (ln (Rabs x + 1)).
(* div(x,abs(x))*log(abs(x)) = sign(x) * log|x|, undefined at 0 *)
Definition rd_sign_log (xs : list R) (x : R) : option R :=
  if Reqb x 0 then None else Some (if Rltb 0 x then ln x else - ln (- x)).
(* log(x + sqrt(x^2 + 1)) = arcsinh x, defined everywhere *)
Definition rd_arcsinh (xs : list R) (x : R) : option R := Some (arcsinh x).
Definition rd_log_sqrt (xs : list R) (x : R) : option R :=
  if Rltb x 0 then None else Some (ln (x + 1) * sqrt x).
Definition rd_log100 (xs : list R) (x : R) : option R :=
  if Rltb (-1) x then Some (IZR (rhe (ln (x + 1) * 100))) else None.
Definition rd_nonzero (xs : list R) (x : R) : option R := Some (if Reqb x 0 then 0 else 1).
Definition rd_round_div_max (xs : list R) (x : R) : option R :=
  match list_max xs with
  | None => None
  | Some m => if Reqb m 0 then None else Some (IZR (rhe (x / m)))
  end.

Definition nm_sqrt := s2l "_tr_sqrt"%string.
Definition nm_log_x1 := s2l "_tr_log(x+1)"%string.
Definition nm_sqrt_abs := s2l "_tr_sqrt(abs(x))"%string.
Definition nm_log_abs1 := s2l "_tr_log(abs(x)+1)"%string.
Definition nm_sign_log := s2l "_tr_div(x,abs(x))*log(abs(x))"%string.
Definition nm_arcsinh := s2l "_tr_log(x + sqrt(pow(x,2), 1)"%string.
Definition nm_log_sqrt := s2l "_tr_log*sqrt"%string.
Definition nm_log100 := s2l "_tr_log*100"%string.
Definition nm_nonzero := s2l "_tr_nonzero"%string.
Definition nm_round_div_max := s2l "_tr_round(div(x,max))"%string.

Definition readings : list (str * (list R -> R -> option R)) :=
  [(nm_sqrt, rd_sqrt); (nm_log_x1, rd_log_x1); (nm_sqrt_abs, rd_sqrt_abs); (nm_log_abs1, rd_log_abs1);
   (nm_sign_log, rd_sign_log); (nm_arcsinh, rd_arcsinh); (nm_log_sqrt, rd_log_sqrt);
   (nm_log100, rd_log100); (nm_nonzero, rd_nonzero); (nm_round_div_max, rd_round_div_max)].
