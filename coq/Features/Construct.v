(* C11 — executable model of the feature constructors of outrank/core_ranking.py
   (compute_expanded_multivalue_features, compute_subfeatures, compute_combined_features [Features/Interact.v],
   enrich_with_transformations, include_noisy_features) and of the order in which compute_batch_ranking applies them.
   No proofs here (Features/ConstructProofs.v).

   Frames are lists of (name, cells) in column order with a RangeIndex (a row is a position); cells are strings.
   A constructor returns [None] where the real function raises because the configuration names a column the frame
   does not have (KeyError) or is syntactically invalid; the property does not speak about those. *)
From Coq Require Import List NArith ZArith Arith Bool.
From Outrank Require Import Features.Interact.
Import ListNotations.

Definition COMMA : N := 44%N.
Definition DASH : N := 45%N.
Definition SEMI : N := 59%N.
Definition AMP : N := 38%N.
Definition BAR : N := 124%N.
Definition ONE : cell := [49%N].
Definition ZERO : cell := [48%N].
Definition EMPTY : cell := [].
Definition S_AND : str := [65; 78; 68]%N.
Definition S_MULTIEX : str := [77; 85; 76; 84; 73; 69; 88; 45]%N.                      (* "MULTIEX-" *)
Definition S_SUB1 : str := [83; 85; 66; 70; 69; 65; 84; 85; 82; 69; 45]%N.             (* "SUBFEATURE-" *)
Definition S_SUB2 : str := [83; 85; 66; 70; 69; 65; 84; 85; 82; 69; 124]%N.            (* "SUBFEATURE|" *)
Definition S_ARROW : str := [45; 62]%N.                                                (* "->" *)
Definition S_DARROW : str := [60; 45; 62]%N.                                           (* "<->" *)

(* ---- str.split(c) for a one-character separator: always at least one piece ---- *)
Fixpoint split_on (d : N) (s : str) : list str :=
  match s with
  | [] => [[]]
  | c :: r => if N.eqb c d then [] :: split_on d r
              else match split_on d r with
                   | [] => [[c]]
                   | p :: ps => (c :: p) :: ps
                   end
  end.
Fixpoint join1 (d : N) (l : list str) : str :=
  match l with
  | [] => []
  | x :: r => match r with [] => x | _ => x ++ d :: join1 d r end
  end.

(* ---- str.split(sep) for a longer separator (left to right, non-overlapping) ---- *)
Fixpoint starts_with (p s : str) : bool :=
  match p, s with
  | [], _ => true
  | a :: p', b :: s' => N.eqb a b && starts_with p' s'
  | _ :: _, [] => false
  end.
Fixpoint split_str_aux (sep : str) (skip : nat) (s : str) (cur : str) : list str :=
  match s with
  | [] => [rev cur]
  | c :: r => match skip with
              | S k => split_str_aux sep k r cur
              | 0 => if starts_with sep s then rev cur :: split_str_aux sep (length sep - 1) r []
                     else split_str_aux sep 0 r (c :: cur)
              end
  end.
Definition split_str (sep s : str) : list str := split_str_aux sep 0 s [].

(* first-occurrence de-duplication (pandas .unique(); also one representative per element of a Python set) *)
Fixpoint uniq (l : list str) : list str :=
  match l with
  | [] => []
  | x :: r => x :: filter (fun y => negb (streqb x y)) (uniq r)
  end.

(* ================= multi-value expansion ================= *)
(* x.replace(',', '-').split('-') *)
Definition tokens (v : cell) : list str :=
  split_on DASH (map (fun c => if N.eqb c COMMA then DASH else c) v).
Definition mv_name (f t : str) : str := S_MULTIEX ++ f ++ DASH :: t.
Definition mv_column (vec : list cell) (t : str) : list cell :=
  map (fun v => if memb t (tokens v) then ONE else EMPTY) vec.
(* sorted(set_of_tokens): Python orders str by code point (the code emits the tokens in sorted order since repo commit
   b8c228d; the property itself does not fix the order, the model follows the code) *)
Fixpoint str_ltb (a b : str) : bool :=
  match a, b with
  | [], [] => false
  | [], _ :: _ => true
  | _ :: _, [] => false
  | x :: a', y :: b' => if N.ltb x y then true else if N.eqb x y then str_ltb a' b' else false
  end.
Fixpoint sinsert (x : str) (l : list str) : list str :=
  match l with
  | [] => [x]
  | y :: r => if str_ltb y x then y :: sinsert x r else x :: l
  end.
Definition sort_str (l : list str) : list str := fold_right sinsert [] l.

Definition mv_tokens (missing : list str) (vec : list cell) : list str :=
  filter (fun t => negb (memb t missing)) (sort_str (uniq (flat_map tokens vec))).
Definition mv_feature (df : frame) (missing : list str) (f : str) : list column :=
  map (fun t => (mv_name f t, mv_column (getcol df f) t)) (mv_tokens missing (getcol df f)).
(* None: a listed feature is not a column (KeyError), or the frame has no rows (set.union of no sets raises TypeError) *)
Definition multivalue (df : frame) (missing : list str) (feats : list str) : option frame :=
  if forallb (has_col df) feats && negb (Nat.eqb (nrows df) 0)
  then Some (df ++ dict_of (flat_map (mv_feature df missing) feats))
  else None.
(* as configured: --explode_multivalue_features "f1;f2", --missing_value_symbols "a,b" *)
Definition multivalue_args (df : frame) (explode missing_symbols : str) : option frame :=
  multivalue df (split_on COMMA missing_symbols) (split_on SEMI explode).

(* ================= sub-features ================= *)
Inductive subop := OneSided (a b : str) | TwoSided (a b : str).

Definition sub_one_name (fa v : str) : str := S_SUB1 ++ fa ++ AMP :: v.
Definition sub_one_column (A B : list cell) (v : str) : list cell :=
  map (fun ab => if streqb (snd ab) v then fst ab ++ S_AND ++ snd ab else EMPTY) (combine A B).
Definition sub_two_name (fa fb u v : str) : str := S_SUB2 ++ fa ++ BAR :: fb ++ DASH :: u ++ AMP :: v.
Definition sub_two_column (A B : list cell) (u v : str) : list cell :=
  map (fun ab => if streqb (fst ab) u && streqb (snd ab) v then ONE else ZERO) (combine A B).

Definition sub_cols (df : frame) (op : subop) : list column :=
  match op with
  | OneSided fa fb =>
      let A := getcol df fa in let B := getcol df fb in
      map (fun v => (sub_one_name fa v, sub_one_column A B v)) (uniq B)
  | TwoSided fa fb =>
      let A := getcol df fa in let B := getcol df fb in
      flat_map (fun v => map (fun u => (sub_two_name fa fb u v, sub_two_column A B u v)) (uniq A)) (uniq B)
  end.
Definition op_ok (df : frame) (op : subop) : bool :=
  match op with
  | OneSided a b | TwoSided a b => has_col df a && has_col df b && negb (streqb a b)
  end.
Definition subfeatures (df : frame) (ops : list subop) : option frame :=
  if forallb (op_ok df) ops
  then Some (df ++ dict_of (flat_map (sub_cols df) ops))
  else None.

(* --subfeature_mapping "a->b;c<->d" *)
Definition parse_subop (seed : str) : option subop :=
  match split_str S_DARROW seed with
  | [a; b] => Some (TwoSided a b)
  | _ :: _ :: _ => None                                   (* "too many values to unpack" *)
  | _ => match split_str S_ARROW seed with
         | [a; b] => Some (OneSided a b)
         | _ => None                                      (* more than one "->", or no operator *)
         end
  end.
Fixpoint all_some {A} (l : list (option A)) : option (list A) :=
  match l with
  | [] => Some []
  | None :: _ => None
  | Some x :: r => match all_some r with Some xs => Some (x :: xs) | None => None end
  end.
Definition parse_submap (mapping : str) : option (list subop) :=
  all_some (map parse_subop (split_on SEMI mapping)).
Definition subfeatures_args (df : frame) (mapping : str) : option frame :=
  match parse_submap mapping with Some ops => subfeatures df ops | None => None end.

(* ================= transformations (FeatureTransformerGeneric is C12's; here only its frame discipline) =========
   the oracle names the kept transformed features and gives each one value per row *)
Section Transform.
  Variable T : frame -> list (str * (nat -> cell)).
  Definition transform (df : frame) : option frame :=
    Some (df ++ dict_of (map (fun nc => (fst nc, map (snd nc) (seq 0 (nrows df)))) (T df))).
End Transform.

(* ================= noise / control features ================= *)
Definition CONTROL_RANDOM : list str :=
  [ [67; 79; 78; 84; 82; 79; 76; 45; 99; 111; 110; 115; 116; 97; 110; 116; 48]%N;
    [67; 79; 78; 84; 82; 79; 76; 45; 103; 97; 117; 115; 115; 105; 97; 110]%N;
    [67; 79; 78; 84; 82; 79; 76; 45; 117; 110; 105; 102; 111; 114; 109]%N;
    [67; 79; 78; 84; 82; 79; 76; 45; 114; 97; 110; 100; 111; 109; 45; 98; 105; 110; 97; 114; 121]%N;
    [67; 79; 78; 84; 82; 79; 76; 45; 114; 97; 110; 100; 111; 109; 45; 99; 97; 114; 100; 49; 48; 48]%N;
    [67; 79; 78; 84; 82; 79; 76; 45; 114; 97; 110; 100; 111; 109; 45; 99; 97; 114; 100; 50; 107]%N;
    [67; 79; 78; 84; 82; 79; 76; 45; 114; 97; 110; 100; 111; 109; 45; 99; 97; 114; 100; 49; 48; 107]%N;
    [67; 79; 78; 84; 82; 79; 76; 45; 114; 97; 110; 100; 111; 109; 45; 99; 97; 114; 100; 53; 48; 107]%N;
    [67; 79; 78; 84; 82; 79; 76; 45; 105; 110; 116; 45; 115; 101; 113; 117; 101; 110; 99; 101]%N ].
Definition CONTROL_TARGET : str := [67; 79; 78; 84; 82; 79; 76; 45; 116; 97; 114; 103; 101; 116]%N.
Definition CONTROL_VOLUME : str := [67; 79; 78; 84; 82; 79; 76; 45; 118; 111; 108; 117; 109; 101]%N.

Section Noise.
  Variable rnd : str -> nat -> cell.        (* the drawn / derived values, by column name and row *)
  Definition noise_cols (df : frame) (label : str) : list column :=
    map (fun nm => (nm, map (rnd nm) (seq 0 (nrows df)))) CONTROL_RANDOM
    ++ (if has_col df label then [(CONTROL_TARGET, getcol df label)] else [])
    ++ [(CONTROL_VOLUME, map (rnd CONTROL_VOLUME) (seq 0 (nrows df)))].
  Definition noisy (df : frame) (label : str) : option frame := Some (df ++ noise_cols df label).
End Noise.

(* ================= the order of compute_batch_ranking ================= *)
Record config := {
  c_label : str;
  c_transformers : bool;                 (* args.transformers != 'none' *)
  c_explode : option (list str);         (* args.explode_multivalue_features != 'False', split on ';' *)
  c_missing : list str;                  (* args.missing_value_symbols, split on ',' *)
  c_submap : option (list subop);        (* args.subfeature_mapping != 'False', parsed *)
  c_io : nat;                            (* args.interaction_order (no reference model) *)
  c_3mr : bool;                          (* '3mr' in args.heuristic *)
  c_noise : bool                         (* include_noise_baseline_features == 'True' and heuristic != 'Constant' *)
}.

Definition step := frame -> option frame.
Definition run_steps (steps : list step) (df : frame) : option frame :=
  fold_left (fun acc s => match acc with Some d => s d | None => None end) steps (Some df).

Section Batch.
  Variable h : str -> cell.
  Variable T : frame -> list (str * (nat -> cell)).
  Variable rnd : str -> nat -> cell.
  Variable sample : bool -> list (list str) -> list (list str).   (* prior_combinations_sample (per pass: is3mr), any behaviour *)

  Definition step_combined (cfg : config) (is3mr : bool) : step :=
    fun df => Some (combined h (if is3mr then SEP_AND_REL else SEP_AND) df
                             (sample is3mr (candidates df (c_label cfg) (c_io cfg) is3mr))).
  Definition batch_steps (cfg : config) : list step :=
    (if c_transformers cfg then [transform T] else [])
    ++ (match c_explode cfg with Some feats => [fun df => multivalue df (c_missing cfg) feats] | None => [] end)
    ++ (match c_submap cfg with Some ops => [fun df => subfeatures df ops] | None => [] end)
    ++ (if Nat.ltb 1 (c_io cfg) then [step_combined cfg false] else [])
    ++ (if c_3mr cfg then [step_combined cfg true] else [])
    ++ (if c_noise cfg then [fun df => noisy rnd df (c_label cfg)] else []).
  Definition batch_construct (cfg : config) (df : frame) : option frame := run_steps (batch_steps cfg) df.
End Batch.

(* the sampler returns its candidates least-used first; with a non-binding cap that is a reordering which depends on the
   history of the process.  To run the model next to the implementation the observed order of the new columns is used:
   candidates whose name was observed come first, in the observed order *)
Definition order_cands (sep : str) (obs : list str) (cands : list (list str)) : list (list str) :=
  flat_map (fun nm => filter (fun c => streqb (join sep c) nm) cands) obs
  ++ filter (fun c => negb (memb (join sep c) obs)) cands.
Definition observed_sample (obs : list str) (is3mr : bool) (cands : list (list str)) : list (list str) :=
  order_cands (if is3mr then SEP_AND_REL else SEP_AND) obs cands.

(* ================= checkers run on what the implementation returned ================= *)
(* the generic clause: originals preserved exactly, every new column has one value per row *)
Definition append_okb (df out : frame) : bool :=
  frame_eqb (firstn (length df) out) df
  && forallb (fun c : column => Nat.eqb (length (snd c)) (nrows df)) (skipn (length df) out).
(* two lists of new columns read as name -> column maps *)
Definition incl_colsb (a b : list column) : bool := forallb (fun c => existsb (column_eqb c) b) a.
Definition same_colsb (a b : list column) : bool :=
  nodupb (names a) && nodupb (names b) && incl_colsb a b && incl_colsb b a.
Definition same_namesb (a b : list str) : bool :=
  nodupb a && nodupb b && forallb (fun x => memb x b) a && forallb (fun x => memb x a) b.

(* (append-only ok, rule ok) *)
Definition check_against (df : frame) (model : option frame) (out : frame) : bool * bool :=
  (append_okb df out,
   match model with
   | Some m => same_colsb (skipn (length df) out) (skipn (length df) m)
   | None => true
   end).
Definition noise_okb (df : frame) (label : str) (out : frame) : bool * bool :=
  let new := skipn (length df) out in
  (append_okb df out,
   same_namesb (names new) (CONTROL_RANDOM ++ (if has_col df label then [CONTROL_TARGET] else []) ++ [CONTROL_VOLUME])
   && (if has_col df label then list_eqb streqb (getcol new CONTROL_TARGET) (getcol df label) else true)).
