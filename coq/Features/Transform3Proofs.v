(* C12 — lemmas about the composed model of Features/Transform3.v. *)
From Coq Require Import Ascii String.
From Coq Require Import List NArith ZArith QArith Qreals Qround Reals Bool Arith Lia Lra ZifyBool.
From Outrank Require Import Features.Transform Features.Transform3 Features.TransformProofs.
Import ListNotations.
Local Close Scope R_scope.
Local Close Scope Q_scope.

(* ========================================================================================== *)
(* statistics are invariant under a map that respects the equality on the values present         *)

Section Transfer.
  Context {A B : Type} (f : A -> B) (eqA : A -> A -> bool) (eqB : B -> B -> bool) (P : A -> Prop).
  Hypothesis Heq : forall a b, P a -> P b -> eqB (f a) (f b) = eqA a b.

  Lemma gcount_map : forall a l, P a -> Forall P l -> gcount eqB (f a) (map f l) = gcount eqA a l.
  Proof.
    induction l as [|x l IH]; intros Pa Pl; cbn [gcount map]; [reflexivity|].
    inversion Pl; subst. rewrite Heq by assumption. rewrite IH by assumption. reflexivity.
  Qed.

  Lemma gmem_map : forall a l, P a -> Forall P l -> gmem eqB (f a) (map f l) = gmem eqA a l.
  Proof.
    induction l as [|x l IH]; intros Pa Pl; cbn [gmem map]; [reflexivity|].
    inversion Pl; subst. rewrite Heq by assumption. rewrite IH by assumption. reflexivity.
  Qed.

  Lemma gdedup_map : forall l, Forall P l -> gdedup eqB (map f l) = map f (gdedup eqA l).
  Proof.
    induction l as [|x l IH]; intros Pl; cbn [gdedup map]; [reflexivity|].
    inversion Pl; subst. rewrite gmem_map by assumption.
    destruct (gmem eqA x l); cbn [map]; rewrite IH by assumption; reflexivity.
  Qed.

  Lemma gdistinct_map : forall l, Forall P l -> gdistinct eqB (map f l) = gdistinct eqA l.
  Proof. intros. unfold gdistinct. rewrite gdedup_map by assumption. apply map_length. Qed.

  Lemma gmaxcount_map : forall l, Forall P l -> gmaxcount eqB (map f l) = gmaxcount eqA l.
  Proof.
    intros l Pl. unfold gmaxcount.
    assert (G : forall l1, Forall P l1 ->
              fold_right (fun s m => Nat.max (gcount eqB s (map f l)) m) 0 (map f l1)
              = fold_right (fun s m => Nat.max (gcount eqA s l) m) 0 l1).
    { induction l1 as [|x l1 IH]; intros P1; cbn [fold_right map]; [reflexivity|].
      inversion P1; subst. rewrite gcount_map by assumption. rewrite IH by assumption. reflexivity. }
    apply G. exact Pl.
  Qed.

  Lemma gnancount_map : forall (nA : A -> bool) (nB : B -> bool) l,
    (forall a, P a -> nB (f a) = nA a) -> Forall P l -> gnancount nB (map f l) = gnancount nA l.
  Proof.
    intros nA nB l Hn. unfold gnancount. induction l as [|x l IH]; intros Pl; cbn [filter map]; [reflexivity|].
    inversion Pl; subst. rewrite Hn by assumption. destruct (nA x); cbn [length]; rewrite IH by assumption; reflexivity.
  Qed.

  Lemma keep_by_map : forall (nA : A -> bool) (nB : B -> bool) l,
    (forall a, P a -> nB (f a) = nA a) -> Forall P l -> keep_by eqB nB (map f l) = keep_by eqA nA l.
  Proof.
    intros. unfold keep_by.
    rewrite gdistinct_map, gmaxcount_map, (gnancount_map nA nB), map_length by assumption. reflexivity.
  Qed.
End Transfer.

(* the string statistics of Transform.v are the instance at str_eqb *)
Lemma count_gcount : forall s l, count s l = gcount str_eqb s l.
Proof. induction l as [|x l IH]; cbn [count gcount]; [reflexivity | rewrite IH; reflexivity]. Qed.
Lemma mem_gmem : forall s l, mem s l = gmem str_eqb s l.
Proof. induction l as [|x l IH]; cbn [mem gmem]; [reflexivity | rewrite IH; reflexivity]. Qed.
Lemma dedup_gdedup : forall l, dedup l = gdedup str_eqb l.
Proof.
  induction l as [|x l IH]; cbn [dedup gdedup]; [reflexivity|].
  rewrite mem_gmem, IH. reflexivity.
Qed.
Lemma maxcount_gmaxcount : forall l, maxcount l = gmaxcount str_eqb l.
Proof.
  intros l. unfold maxcount, gmaxcount.
  assert (G : forall l1, fold_right (fun s m => Nat.max (count s l) m) 0 l1
                         = fold_right (fun s m => Nat.max (gcount str_eqb s l) m) 0 l1).
  { induction l1 as [|x l1 IH]; cbn [fold_right]; [reflexivity | rewrite IH, count_gcount; reflexivity]. }
  apply G.
Qed.
Lemma count_nancount : forall s l, count s l = gnancount (str_eqb s) l.
Proof.
  unfold gnancount. induction l as [|x l IH]; cbn [count filter]; [reflexivity|].
  destruct (str_eqb s x); cbn [length]; rewrite IH; reflexivity.
Qed.

Lemma keep_spec_keep_by : forall l, keep_spec l = keep_by str_eqb (str_eqb nan_str) l.
Proof.
  intros. unfold keep_spec, keep_by, distinct, gdistinct.
  rewrite dedup_gdedup, maxcount_gmaxcount, count_nancount. reflexivity.
Qed.

(* ========================================================================================== *)
(* all_some                                                                                     *)

Lemma all_some_spec : forall A (l : list (option A)) t,
  all_some l = Some t <-> l = map Some t.
Proof.
  induction l as [|[a|] l IH]; intros t; cbn [all_some].
  - split; [intros H; injection H as <-; reflexivity | destruct t; [reflexivity | discriminate]].
  - destruct (all_some l) as [t'|] eqn:E.
    + split.
      * intros H. injection H as <-. cbn [map]. f_equal. apply IH. reflexivity.
      * destruct t as [|b t]; [discriminate|]. cbn [map]. intros H. injection H as -> H.
        apply IH in H. injection H as ->. reflexivity.
    + split; [discriminate|]. destruct t as [|b t]; [discriminate|]. cbn [map]. intros H. injection H as -> H.
      apply IH in H. discriminate.
  - split; [discriminate|]. destruct t; discriminate.
Qed.

Lemma all_some_map : forall A B (g : A -> option B) l t,
  all_some (map g l) = Some t -> length t = length l /\ forall i a, nth_error l i = Some a -> option_map Some (g a) = option_map Some (nth_error t i).
Proof.
  intros A B g l t H. apply all_some_spec in H.
  split.
  - rewrite <- (map_length g l), H, map_length. reflexivity.
  - intros i a Hi. assert (E : nth_error (map g l) i = Some (g a)) by (rewrite nth_error_map, Hi; reflexivity).
    rewrite H, nth_error_map in E. destruct (nth_error t i); cbn in E; [|discriminate].
    injection E as <-. reflexivity.
Qed.

(* ========================================================================================== *)
(* the composition: raw cells -> emitted names                                                  *)

Section Composition.
  Variable render : gval R -> str.

  (* the property's sentence, as one statement: for the raw column [cells] of the feature [col] and the selected
     transformers [sel] (names with their formulas), a column named col ++ k is emitted iff k is a selected transformer
     with formula e and the text of e applied to the numeric parse of the cells has more than one distinct value, its
     most frequent value covers less than 80 % of the rows and less than 75 % of it is the text of nan *)
  Lemma emitted_iff : forall (sel : list (str * expr)) col cells out,
    construct render (fun e => e) sel col cells = Some out ->
    exists xs, parse_column OpsR cells = Some xs /\
    forall n, In n out <->
      exists k e txt, In (k, e) sel /\ n = col ++ k
        /\ rendered_column render e xs = Some txt
        /\ (1 < distinct txt /\ 5 * maxcount txt < 4 * length txt /\ 4 * count nan_str txt < 3 * length txt)%nat.
  Proof.
    intros sel col cells out H. unfold construct in H.
    destruct (parse_column OpsR cells) as [xs|]; [|discriminate]. exists xs. split; [reflexivity|].
    destruct (all_some (map (fun kv => rendered_column render (snd kv) xs) sel)) as [rend|] eqn:E; [|discriminate].
    injection H as <-. apply all_some_spec in E.
    intros n. rewrite emitted_In. split.
    - intros [k [e [l [Hin [Hk ->]]]]]. exists k, e, l. split; [eapply in_combine_l; exact Hin|]. split; [reflexivity|].
      split; [|apply keep_spec_iff; exact Hk].
      (* the l paired with (k, e) is its rendered column *)
      apply In_nth_error in Hin. destruct Hin as [i Hi].
      assert (L : length sel = length rend).
      { rewrite <- (map_length (fun kv => rendered_column render (snd kv) xs) sel), E, map_length. reflexivity. }
      pose proof (f_equal (fun l0 => nth_error l0 i) E) as Ei. cbn beta in Ei. rewrite !nth_error_map in Ei.
      assert (Hs : nth_error sel i = Some (k, e) /\ nth_error rend i = Some l).
      { clear - Hi. revert rend i Hi. induction sel as [|x s IH]; intros [|y r] [|i] Hi; cbn in *; try discriminate.
        - injection Hi as -> ->. auto.
        - apply IH. exact Hi. }
      destruct Hs as [Hs Hr]. rewrite Hs, Hr in Ei. cbn in Ei. injection Ei as Ei. exact Ei.
    - intros [k [e [txt [Hin [-> [Ht Hk]]]]]]. exists k, e, txt. split; [|split; [apply keep_spec_iff; exact Hk | reflexivity]].
      apply In_nth_error in Hin. destruct Hin as [i Hi].
      pose proof (f_equal (fun l0 => nth_error l0 i) E) as Ei. cbn beta in Ei. rewrite !nth_error_map in Ei.
      rewrite Hi in Ei. cbn in Ei. rewrite Ht in Ei.
      destruct (nth_error rend i) as [l|] eqn:Hr; cbn in Ei; [|discriminate]. injection Ei as <-.
      clear - Hi Hr. revert rend i Hi Hr. induction sel as [|x s IH]; intros [|y r] [|i] Hi Hr; cbn in *; try discriminate.
      + injection Hi as ->. injection Hr as ->. left. reflexivity.
      + right. eapply IH; eassumption.
  Qed.

  (* ... and in terms of the value classes instead of the text, when [render] is faithful on the values that occur:
     two values have the same text iff they are the same class (same finite number with the same zero sign, nan, the same
     infinity), and exactly nan is rendered as "nan".  [D] is the set of values for which this is assumed of numpy's
     astype(str) (it cannot hold on all reals: there are only countably many strings; for doubles it is the shortest
     round-trip repr). *)
  Variable D : gval R -> Prop.
  Hypothesis render_faithful : forall a b, D a -> D b -> str_eqb (render a) (render b) = gsame OpsR a b.
  Hypothesis render_nan : forall a, D a -> str_eqb nan_str (render a) = gisnan a.

  Lemma keep_text_iff_classes : forall vs, Forall D vs ->
    keep_spec (map render vs) = keep_by (gsame OpsR) (@gisnan R) vs.
  Proof.
    intros vs Hd. rewrite keep_spec_keep_by.
    apply (keep_by_map render (gsame OpsR) str_eqb D render_faithful (@gisnan R) (str_eqb nan_str)); assumption.
  Qed.
End Composition.
