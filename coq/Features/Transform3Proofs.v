(* C12 — lemmas about the composed model of Features/Transform3.v. *)
From Coq Require Import Ascii String.
From Coq Require Import List NArith ZArith QArith Qreals Qround Reals Bool Arith Lia Lra ZifyBool DecimalN DecimalPos.
From Outrank Require Import Features.Transform Features.Transform3 Features.TransformProofs.
Import ListNotations.
Local Close Scope R_scope.
Local Close Scope Q_scope.

(* ========================================================================================== *)
(* statistics are invariant under a map that respects the equality on the values present         *)

Section Transfer.
  Context {A B : Type} (f : A -> B) (eqA : A -> A -> bool) (eqB : B -> B -> bool) (P : A -> Prop).
  Hypothesis Heq : forall a b, P a -> P b -> eqB (f a) (f b) = eqA a b.

  Lemma gcount_map : forall a l, P a -> Forall P l -> gcount eqB (f a) (map f l) = gcount eqA a l.
  Proof.
    induction l as [|x l IH]; intros Pa Pl; cbn [gcount map]; [reflexivity|].
    inversion Pl; subst. rewrite Heq by assumption. rewrite IH by assumption. reflexivity.
  Qed.

  Lemma gmem_map : forall a l, P a -> Forall P l -> gmem eqB (f a) (map f l) = gmem eqA a l.
  Proof.
    induction l as [|x l IH]; intros Pa Pl; cbn [gmem map]; [reflexivity|].
    inversion Pl; subst. rewrite Heq by assumption. rewrite IH by assumption. reflexivity.
  Qed.

  Lemma gdedup_map : forall l, Forall P l -> gdedup eqB (map f l) = map f (gdedup eqA l).
  Proof.
    induction l as [|x l IH]; intros Pl; cbn [gdedup map]; [reflexivity|].
    inversion Pl; subst. rewrite gmem_map by assumption.
    destruct (gmem eqA x l); cbn [map]; rewrite IH by assumption; reflexivity.
  Qed.

  Lemma gdistinct_map : forall l, Forall P l -> gdistinct eqB (map f l) = gdistinct eqA l.
  Proof. intros. unfold gdistinct. rewrite gdedup_map by assumption. apply map_length. Qed.

  Lemma gmaxcount_map : forall l, Forall P l -> gmaxcount eqB (map f l) = gmaxcount eqA l.
  Proof.
    intros l Pl. unfold gmaxcount.
    assert (G : forall l1, Forall P l1 ->
              fold_right (fun s m => Nat.max (gcount eqB s (map f l)) m) 0 (map f l1)
              = fold_right (fun s m => Nat.max (gcount eqA s l) m) 0 l1).
    { induction l1 as [|x l1 IH]; intros P1; cbn [fold_right map]; [reflexivity|].
      inversion P1; subst. rewrite gcount_map by assumption. rewrite IH by assumption. reflexivity. }
    apply G. exact Pl.
  Qed.

  Lemma gnancount_map : forall (nA : A -> bool) (nB : B -> bool) l,
    (forall a, P a -> nB (f a) = nA a) -> Forall P l -> gnancount nB (map f l) = gnancount nA l.
  Proof.
    intros nA nB l Hn. unfold gnancount. induction l as [|x l IH]; intros Pl; cbn [filter map]; [reflexivity|].
    inversion Pl; subst. rewrite Hn by assumption. destruct (nA x); cbn [length]; rewrite IH by assumption; reflexivity.
  Qed.

  Lemma keep_by_map : forall (nA : A -> bool) (nB : B -> bool) l,
    (forall a, P a -> nB (f a) = nA a) -> Forall P l -> keep_by eqB nB (map f l) = keep_by eqA nA l.
  Proof.
    intros. unfold keep_by.
    rewrite gdistinct_map, gmaxcount_map, (gnancount_map nA nB), map_length by assumption. reflexivity.
  Qed.
End Transfer.

(* the string statistics of Transform.v are the instance at str_eqb *)
Lemma count_gcount : forall s l, count s l = gcount str_eqb s l.
Proof. induction l as [|x l IH]; cbn [count gcount]; [reflexivity | rewrite IH; reflexivity]. Qed.
Lemma mem_gmem : forall s l, mem s l = gmem str_eqb s l.
Proof. induction l as [|x l IH]; cbn [mem gmem]; [reflexivity | rewrite IH; reflexivity]. Qed.
Lemma dedup_gdedup : forall l, dedup l = gdedup str_eqb l.
Proof.
  induction l as [|x l IH]; cbn [dedup gdedup]; [reflexivity|].
  rewrite mem_gmem, IH. reflexivity.
Qed.
Lemma maxcount_gmaxcount : forall l, maxcount l = gmaxcount str_eqb l.
Proof.
  intros l. unfold maxcount, gmaxcount.
  assert (G : forall l1, fold_right (fun s m => Nat.max (count s l) m) 0 l1
                         = fold_right (fun s m => Nat.max (gcount str_eqb s l) m) 0 l1).
  { induction l1 as [|x l1 IH]; cbn [fold_right]; [reflexivity | rewrite IH, count_gcount; reflexivity]. }
  apply G.
Qed.
Lemma count_nancount : forall s l, count s l = gnancount (str_eqb s) l.
Proof.
  unfold gnancount. induction l as [|x l IH]; cbn [count filter]; [reflexivity|].
  destruct (str_eqb s x); cbn [length]; rewrite IH; reflexivity.
Qed.

Lemma keep_spec_keep_by : forall l, keep_spec l = keep_by str_eqb (str_eqb nan_str) l.
Proof.
  intros. unfold keep_spec, keep_by, distinct, gdistinct.
  rewrite dedup_gdedup, maxcount_gmaxcount, count_nancount. reflexivity.
Qed.

(* ========================================================================================== *)
(* all_some                                                                                     *)

Lemma all_some_spec : forall A (l : list (option A)) t,
  all_some l = Some t <-> l = map Some t.
Proof.
  induction l as [|[a|] l IH]; intros t; cbn [all_some].
  - split; [intros H; injection H as <-; reflexivity | destruct t; [reflexivity | discriminate]].
  - destruct (all_some l) as [t'|] eqn:E.
    + split.
      * intros H. injection H as <-. cbn [map]. f_equal. apply IH. reflexivity.
      * destruct t as [|b t]; [discriminate|]. cbn [map]. intros H. injection H as -> H.
        apply IH in H. injection H as ->. reflexivity.
    + split; [discriminate|]. destruct t as [|b t]; [discriminate|]. cbn [map]. intros H. injection H as -> H.
      apply IH in H. discriminate.
  - split; [discriminate|]. destruct t; discriminate.
Qed.

Lemma all_some_map : forall A B (g : A -> option B) l t,
  all_some (map g l) = Some t -> length t = length l /\ forall i a, nth_error l i = Some a -> option_map Some (g a) = option_map Some (nth_error t i).
Proof.
  intros A B g l t H. apply all_some_spec in H.
  split.
  - rewrite <- (map_length g l), H, map_length. reflexivity.
  - intros i a Hi. assert (E : nth_error (map g l) i = Some (g a)) by (rewrite nth_error_map, Hi; reflexivity).
    rewrite H, nth_error_map in E. destruct (nth_error t i); cbn in E; [|discriminate].
    injection E as <-. reflexivity.
Qed.

(* ========================================================================================== *)
(* the composition: raw cells -> emitted names                                                  *)

Section Composition.
  Variable render : gval R -> str.

  (* the property's sentence, as one statement: for the raw column [cells] of the feature [col] and the selected
     transformers [sel] (names with their formulas), a column named col ++ k is emitted iff k is a selected transformer
     with formula e and the text of e applied to the numeric parse of the cells has more than one distinct value, its
     most frequent value covers less than 80 % of the rows and less than 75 % of it is the text of nan *)
  Lemma emitted_iff : forall (sel : list (str * expr)) col cells out,
    construct render (fun e => e) sel col cells = Some out ->
    exists xs, parse_column OpsR cells = Some xs /\
    forall n, In n out <->
      exists k e txt, In (k, e) sel /\ n = col ++ k
        /\ rendered_column render e xs = Some txt
        /\ (1 < distinct txt /\ 5 * maxcount txt < 4 * length txt /\ 4 * count nan_str txt < 3 * length txt)%nat.
  Proof.
    intros sel col cells out H. unfold construct in H.
    destruct (parse_column OpsR cells) as [xs|]; [|discriminate]. exists xs. split; [reflexivity|].
    destruct (all_some (map (fun kv => rendered_column render (snd kv) xs) sel)) as [rend|] eqn:E; [|discriminate].
    injection H as <-. apply all_some_spec in E.
    intros n. rewrite emitted_In. split.
    - intros [k [e [l [Hin [Hk ->]]]]]. exists k, e, l. split; [eapply in_combine_l; exact Hin|]. split; [reflexivity|].
      split; [|apply keep_spec_iff; exact Hk].
      (* the l paired with (k, e) is its rendered column *)
      apply In_nth_error in Hin. destruct Hin as [i Hi].
      assert (L : length sel = length rend).
      { rewrite <- (map_length (fun kv => rendered_column render (snd kv) xs) sel), E, map_length. reflexivity. }
      pose proof (f_equal (fun l0 => nth_error l0 i) E) as Ei. cbn beta in Ei. rewrite !nth_error_map in Ei.
      assert (Hs : nth_error sel i = Some (k, e) /\ nth_error rend i = Some l).
      { clear - Hi. revert rend i Hi. induction sel as [|x s IH]; intros [|y r] [|i] Hi; cbn in *; try discriminate.
        - injection Hi as -> ->. auto.
        - apply IH. exact Hi. }
      destruct Hs as [Hs Hr]. rewrite Hs, Hr in Ei. cbn in Ei. injection Ei as Ei. exact Ei.
    - intros [k [e [txt [Hin [-> [Ht Hk]]]]]]. exists k, e, txt. split; [|split; [apply keep_spec_iff; exact Hk | reflexivity]].
      apply In_nth_error in Hin. destruct Hin as [i Hi].
      pose proof (f_equal (fun l0 => nth_error l0 i) E) as Ei. cbn beta in Ei. rewrite !nth_error_map in Ei.
      rewrite Hi in Ei. cbn in Ei. rewrite Ht in Ei.
      destruct (nth_error rend i) as [l|] eqn:Hr; cbn in Ei; [|discriminate]. injection Ei as <-.
      clear - Hi Hr. revert rend i Hi Hr. induction sel as [|x s IH]; intros [|y r] [|i] Hi Hr; cbn in *; try discriminate.
      + injection Hi as ->. injection Hr as ->. left. reflexivity.
      + right. eapply IH; eassumption.
  Qed.

  (* ... and in terms of the value classes instead of the text, when [render] is faithful on the values that occur:
     two values have the same text iff they are the same class (same finite number with the same zero sign, nan, the same
     infinity), and exactly nan is rendered as "nan".  [D] is the set of values for which this is assumed of numpy's
     astype(str) (it cannot hold on all reals: there are only countably many strings; for doubles it is the shortest
     round-trip repr). *)
  Variable D : gval R -> Prop.
  Hypothesis render_faithful : forall a b, D a -> D b -> str_eqb (render a) (render b) = gsame OpsR a b.
  Hypothesis render_nan : forall a, D a -> str_eqb nan_str (render a) = gisnan a.

  Lemma keep_text_iff_classes : forall vs, Forall D vs ->
    keep_spec (map render vs) = keep_by (gsame OpsR) (@gisnan R) vs.
  Proof.
    intros vs Hd. rewrite keep_spec_keep_by.
    apply (keep_by_map render (gsame OpsR) str_eqb D render_faithful (@gisnan R) (str_eqb nan_str)); assumption.
  Qed.
End Composition.

(* ========================================================================================== *)
(* a carrier morphism commutes with the evaluator                                               *)

Section Morphism.
  Context {T1 T2 : Type} (O1 : Ops T1) (O2 : Ops T2) (phi : T1 -> T2).
  Hypothesis h_ofQ : forall q, phi (o_ofQ O1 q) = o_ofQ O2 q.
  Hypothesis h_add : forall a b, phi (o_add O1 a b) = o_add O2 (phi a) (phi b).
  Hypothesis h_mul : forall a b, phi (o_mul O1 a b) = o_mul O2 (phi a) (phi b).
  Hypothesis h_opp : forall a, phi (o_opp O1 a) = o_opp O2 (phi a).
  Hypothesis h_div : forall a b, is_zero O1 b = false -> phi (o_div O1 a b) = o_div O2 (phi a) (phi b).
  Hypothesis h_ltb : forall a b, o_ltb O2 (phi a) (phi b) = o_ltb O1 a b.
  Hypothesis h_eqb : forall a b, o_eqb O2 (phi a) (phi b) = o_eqb O1 a b.
  Hypothesis h_sqrt : forall a r, is_neg O1 a = false -> o_sqrt O1 a = Some r -> o_sqrt O2 (phi a) = Some (phi r).
  Hypothesis h_ln : forall a r, is_neg O1 a = false -> is_zero O1 a = false -> o_ln O1 a = Some r ->
                                o_ln O2 (phi a) = Some (phi r).
  Hypothesis h_rnd : forall d a, phi (o_rnd O1 d a) = o_rnd O2 d (phi a).

  Notation gm := (gmap phi).

  Lemma m_is_zero : forall v, is_zero O2 (phi v) = is_zero O1 v.
  Proof. intros. unfold is_zero, zeroT. rewrite <- h_ofQ. apply h_eqb. Qed.
  Lemma m_is_neg : forall v, is_neg O2 (phi v) = is_neg O1 v.
  Proof. intros. unfold is_neg, zeroT. rewrite <- h_ofQ. apply h_ltb. Qed.
  Lemma m_fin : forall v z, gm (fin O1 v z) = fin O2 (phi v) z.
  Proof. intros. unfold fin. cbn [gmap]. rewrite m_is_zero. reflexivity. Qed.
  Lemma m_sgn : forall x, sgn O2 (gm x) = sgn O1 x.
  Proof. intros [v z| |n]; cbn [sgn gmap]; [rewrite m_is_neg|..]; reflexivity. Qed.
  Lemma m_gzero : forall x, gzero O2 (gm x) = gzero O1 x.
  Proof. intros [v z| |n]; cbn [gzero gmap]; [rewrite m_is_zero|..]; reflexivity. Qed.
  Lemma m_gisnan : forall x, gisnan (gm x) = gisnan x.
  Proof. intros [v z| |n]; reflexivity. Qed.

  Lemma m_gneg : forall x, gm (gneg O1 x) = gneg O2 (gm x).
  Proof. intros [v z| |n]; cbn [gneg gmap]; [rewrite m_fin, h_opp|..]; reflexivity. Qed.

  Lemma m_gadd : forall x y, gm (gadd O1 x y) = gadd O2 (gm x) (gm y).
  Proof.
    intros [a za| |na] [b zb| |nb]; cbn [gadd gmap]; try reflexivity.
    - rewrite m_fin, h_add. reflexivity.
    - destruct (Bool.eqb na nb); reflexivity.
  Qed.

  Lemma m_gsub : forall x y, gm (gsub O1 x y) = gsub O2 (gm x) (gm y).
  Proof. intros. unfold gsub. rewrite m_gadd, m_gneg. reflexivity. Qed.

  Lemma m_gmul : forall x y, gm (gmul O1 x y) = gmul O2 (gm x) (gm y).
  Proof.
    intros x y.
    pose proof (m_sgn x) as Sx. pose proof (m_sgn y) as Sy.
    pose proof (m_gzero x) as Zx. pose proof (m_gzero y) as Zy.
    destruct x as [a za| |na], y as [b zb| |nb]; cbn [gmul gmap] in *; try reflexivity.
    1: { rewrite m_fin, h_mul, Sx, Sy. reflexivity. }
    all: rewrite ?Zx, ?Zy, ?Sx, ?Sy;
      match goal with |- context [if ?c then _ else _] => destruct c end; reflexivity.
  Qed.

  Lemma m_gdiv : forall x y, gm (gdiv O1 x y) = gdiv O2 (gm x) (gm y).
  Proof.
    intros x y.
    pose proof (m_sgn x) as Sx. pose proof (m_sgn y) as Sy.
    destruct x as [a za| |na], y as [b zb| |nb]; cbn [gdiv gmap] in *; try reflexivity.
    - rewrite !m_is_zero. destruct (is_zero O1 b) eqn:Zb.
      + destruct (is_zero O1 a); [reflexivity|]. cbn [gmap]. rewrite Sx, Sy. reflexivity.
      + rewrite m_fin, h_div by exact Zb. rewrite Sx, Sy. reflexivity.
    - rewrite m_fin. unfold zeroT. rewrite h_ofQ, Sx. reflexivity.
    - rewrite Sy. reflexivity.
  Qed.

  Lemma m_gabs : forall x, gm (gabs O1 x) = gabs O2 (gm x).
  Proof.
    intros [v z| |n]; cbn [gabs gmap]; try reflexivity.
    rewrite m_fin, m_is_neg. destruct (is_neg O1 v); [rewrite h_opp|]; reflexivity.
  Qed.

  Lemma m_gsqrt : forall x r, gsqrt O1 x = Some r -> gsqrt O2 (gm x) = Some (gm r).
  Proof.
    intros [v z| |n] r; cbn [gsqrt gmap]; intros H.
    - rewrite m_is_neg, m_is_zero. destruct (is_neg O1 v) eqn:Nv; [injection H as <-; reflexivity|].
      destruct (is_zero O1 v); [injection H as <-; reflexivity|].
      destruct (o_sqrt O1 v) as [s|] eqn:E; [|discriminate]. injection H as <-.
      rewrite (h_sqrt v s Nv E), m_fin. reflexivity.
    - injection H as <-. reflexivity.
    - injection H as <-. destruct n; reflexivity.
  Qed.

  Lemma m_glog : forall x r, glog O1 x = Some r -> glog O2 (gm x) = Some (gm r).
  Proof.
    intros [v z| |n] r; cbn [glog gmap]; intros H.
    - rewrite m_is_neg, m_is_zero. destruct (is_neg O1 v) eqn:Nv; [injection H as <-; reflexivity|].
      destruct (is_zero O1 v) eqn:Zv; [injection H as <-; reflexivity|].
      destruct (o_ln O1 v) as [s|] eqn:E; [|discriminate]. injection H as <-.
      rewrite (h_ln v s Nv Zv E), m_fin. reflexivity.
    - injection H as <-. reflexivity.
    - injection H as <-. destruct n; reflexivity.
  Qed.

  Lemma m_gpow : forall x n, gm (gpow O1 x n) = gpow O2 (gm x) n.
  Proof.
    induction n as [|n IH]; cbn [gpow gmap].
    - unfold oneT. rewrite h_ofQ. reflexivity.
    - rewrite m_gmul, IH. reflexivity.
  Qed.

  Lemma m_ground : forall d x, gm (ground O1 d x) = ground O2 d (gm x).
  Proof.
    intros d x. pose proof (m_sgn x) as Sx.
    destruct x as [v z| |n]; cbn [ground gmap] in *; try reflexivity.
    rewrite m_fin, h_rnd, Sx. reflexivity.
  Qed.

  Lemma m_gltb : forall x y, gltb O2 (gm x) (gm y) = gltb O1 x y.
  Proof. intros [a za| |na] [b zb| |nb]; cbn [gltb gmap]; try reflexivity. apply h_ltb. Qed.
  Lemma m_gnumeq : forall x y, gnumeq O2 (gm x) (gm y) = gnumeq O1 x y.
  Proof. intros [a za| |na] [b zb| |nb]; cbn [gnumeq gmap]; try reflexivity. apply h_eqb. Qed.
  Lemma m_gcmp : forall c x y, gcmp O2 c (gm x) (gm y) = gcmp O1 c x y.
  Proof. intros c x y. destruct c; cbn [gcmp]; rewrite ?m_gltb, ?m_gnumeq; reflexivity. Qed.
  Lemma m_gsame : forall x y, gsame O2 (gm x) (gm y) = gsame O1 x y.
  Proof. intros [a za| |na] [b zb| |nb]; cbn [gsame gmap]; try reflexivity. rewrite h_eqb. reflexivity. Qed.

  Lemma m_gmax2 : forall a y, gm (gmax2 O1 a y) = gmax2 O2 (gm a) (gm y).
  Proof.
    intros a y. unfold gmax2. rewrite !m_gisnan, m_gltb.
    destruct (gisnan a); [reflexivity|]. destruct (gisnan y); [reflexivity|]. destruct (gltb O1 a y); reflexivity.
  Qed.

  Lemma m_gmaxl : forall xs r, gmaxl O1 xs = Some r -> gmaxl O2 (map gm xs) = Some (gm r).
  Proof.
    intros [|y ys] r H; [discriminate|]. cbn [gmaxl map] in *. injection H as <-. f_equal.
    revert y. induction ys as [|z ys IH]; intros y; cbn [fold_left map]; [reflexivity|].
    rewrite <- m_gmax2. apply IH.
  Qed.

  Lemma geval_morph : forall e xs x v,
    geval O1 e xs x = Some v -> geval O2 e (map gm xs) (gm x) = Some (gm v).
  Proof.
    induction e; intros xs x v H; cbn [geval] in *.
    - injection H as <-. reflexivity.
    - injection H as <-. cbn [gmap]. rewrite h_ofQ. reflexivity.
    - destruct (geval O1 e1 xs x) as [u|] eqn:E1; [|discriminate]. destruct (geval O1 e2 xs x) as [w|] eqn:E2; [|discriminate].
      cbn [obind] in *. injection H as <-. rewrite (IHe1 _ _ _ E1), (IHe2 _ _ _ E2). cbn [obind]. rewrite m_gadd. reflexivity.
    - destruct (geval O1 e1 xs x) as [u|] eqn:E1; [|discriminate]. destruct (geval O1 e2 xs x) as [w|] eqn:E2; [|discriminate].
      cbn [obind] in *. injection H as <-. rewrite (IHe1 _ _ _ E1), (IHe2 _ _ _ E2). cbn [obind]. rewrite m_gsub. reflexivity.
    - destruct (geval O1 e1 xs x) as [u|] eqn:E1; [|discriminate]. destruct (geval O1 e2 xs x) as [w|] eqn:E2; [|discriminate].
      cbn [obind] in *. injection H as <-. rewrite (IHe1 _ _ _ E1), (IHe2 _ _ _ E2). cbn [obind]. rewrite m_gmul. reflexivity.
    - destruct (geval O1 e1 xs x) as [u|] eqn:E1; [|discriminate]. destruct (geval O1 e2 xs x) as [w|] eqn:E2; [|discriminate].
      cbn [obind] in *. injection H as <-. rewrite (IHe1 _ _ _ E1), (IHe2 _ _ _ E2). cbn [obind]. rewrite m_gdiv. reflexivity.
    - destruct (geval O1 e xs x) as [u|] eqn:E1; [|discriminate]. cbn [obind] in *. injection H as <-.
      rewrite (IHe _ _ _ E1). cbn [obind]. rewrite m_gneg. reflexivity.
    - destruct (geval O1 e xs x) as [u|] eqn:E1; [|discriminate]. cbn [obind] in *.
      rewrite (IHe _ _ _ E1). cbn [obind]. apply m_gsqrt. exact H.
    - destruct (geval O1 e xs x) as [u|] eqn:E1; [|discriminate]. cbn [obind] in *.
      rewrite (IHe _ _ _ E1). cbn [obind]. apply m_glog. exact H.
    - destruct (geval O1 e xs x) as [u|] eqn:E1; [|discriminate]. cbn [obind] in *. injection H as <-.
      rewrite (IHe _ _ _ E1). cbn [obind]. rewrite m_gabs. reflexivity.
    - destruct (geval O1 e xs x) as [u|] eqn:E1; [|discriminate]. cbn [obind] in *. injection H as <-.
      rewrite (IHe _ _ _ E1). cbn [obind]. rewrite m_gpow. reflexivity.
    - destruct (geval O1 e xs x) as [u|] eqn:E1; [|discriminate]. cbn [obind] in *. injection H as <-.
      rewrite (IHe _ _ _ E1). cbn [obind]. rewrite m_ground. reflexivity.
    - destruct (geval O1 e1 xs x) as [u|] eqn:E1; [|discriminate]. destruct (geval O1 e2 xs x) as [w|] eqn:E2; [|discriminate].
      cbn [obind] in *. rewrite (IHe1 _ _ _ E1), (IHe2 _ _ _ E2). cbn [obind]. rewrite m_gcmp.
      destruct (gcmp O1 c u w); [apply IHe3 | apply IHe4]; exact H.
    - apply m_gmaxl. exact H.
  Qed.
End Morphism.

(* ========================================================================================== *)
(* Q computes R                                                                                  *)
Local Open Scope R_scope.

Lemma Qltb_Rltb : forall a b, Rltb (Q2R a) (Q2R b) = Qltb a b.
Proof.
  intros a b. unfold Qltb. destruct (Qcompare_spec a b) as [H|H|H].
  - apply Rltb_false. rewrite (Qeq_eqR _ _ H). lra.
  - apply Rltb_true. apply Qlt_Rlt. exact H.
  - apply Rltb_false. apply Rlt_le. apply Qlt_Rlt. exact H.
Qed.

Lemma Qeqb_Reqb : forall a b, Reqb (Q2R a) (Q2R b) = Qeq_bool a b.
Proof.
  intros a b. destruct (Qeq_bool a b) eqn:E.
  - apply Reqb_true. apply Qeq_eqR. apply Qeq_bool_eq. exact E.
  - apply Reqb_false. intros H. apply eqR_Qeq in H. apply Qeq_eq_bool in H. congruence.
Qed.

Lemma Q2R_IZR : forall z, Q2R (inject_Z z) = IZR z.
Proof. intros. apply Q2R_int. Qed.

Lemma Zsqrt_exact_spec : forall z s, Zsqrt_exact z = Some s -> (0 <= s /\ s * s = z)%Z.
Proof.
  intros z s H. unfold Zsqrt_exact in H. destruct (Z.eqb_spec (Z.sqrt z * Z.sqrt z) z) as [E|E]; [|discriminate].
  injection H as <-. split; [apply Z.sqrt_nonneg | exact E].
Qed.

Lemma Qsqrt_exact_R : forall q r, Qsqrt_exact q = Some r -> sqrt (Q2R q) = Q2R r.
Proof.
  intros q r H. unfold Qsqrt_exact in H.
  destruct (Zsqrt_exact (Qnum (Qred q))) as [a|] eqn:Ea; [|discriminate].
  destruct (Zsqrt_exact (Zpos (Qden (Qred q)))) as [b|] eqn:Eb; [|discriminate].
  destruct (Z.eqb_spec b 0) as [Zb|Zb]; [discriminate|]. injection H as <-.
  apply Zsqrt_exact_spec in Ea. apply Zsqrt_exact_spec in Eb. destruct Ea as [Pa Ea]. destruct Eb as [Pb Eb].
  assert (Bp : (0 < b)%Z) by lia.
  rewrite <- (Qeq_eqR _ _ (Qred_correct q)).
  unfold Q2R. cbn [Qnum Qden]. rewrite <- Ea, <- Eb. rewrite Z2Pos.id by exact Bp. rewrite !mult_IZR.
  assert (Rb : 0 < IZR b) by (apply IZR_lt; exact Bp).
  assert (Ra : 0 <= IZR a) by (apply IZR_le; exact Pa).
  replace (IZR a * IZR a * / (IZR b * IZR b)) with ((IZR a * / IZR b) * (IZR a * / IZR b)) by (field; lra).
  apply sqrt_square. apply Rmult_le_pos; [exact Ra|]. apply Rlt_le. apply Rinv_0_lt_compat. exact Rb.
Qed.

Lemma Int_part_unique : forall r z, IZR z <= r < IZR z + 1 -> Int_part r = z.
Proof.
  intros r z [H1 H2]. unfold Int_part.
  assert (E : (z + 1)%Z = up r) by (apply up_tech; [exact H1 | rewrite plus_IZR; exact H2]).
  rewrite <- E. lia.
Qed.

Lemma Qfloor_Int_part : forall q, Int_part (Q2R q) = Qfloor q.
Proof.
  intros q. apply Int_part_unique. split.
  - rewrite <- Q2R_IZR. apply Qle_Rle. apply Qfloor_le.
  - replace (IZR (Qfloor q) + 1) with (IZR (Qfloor q + 1)) by (rewrite plus_IZR; reflexivity).
    rewrite <- Q2R_IZR. apply Qlt_Rlt. apply Qlt_floor.
Qed.

Lemma rheQ_rhe : forall q, rhe (Q2R q) = rheQ q.
Proof.
  intros q. unfold rhe, rheQ. rewrite Qfloor_Int_part.
  set (f := Qfloor q).
  assert (E : Q2R q - IZR f = Q2R (q - inject_Z f)).
  { unfold Qminus. rewrite Q2R_plus, Q2R_opp, Q2R_IZR. reflexivity. }
  rewrite E.
  assert (H12 : Q2R (1 # 2) = 1 / 2) by (unfold Q2R; cbn; lra).
  rewrite <- H12.
  destruct (Qcompare_spec (q - inject_Z f) (1 # 2)) as [H|H|H].
  - rewrite (Qeq_eqR _ _ H).
    destruct (Rlt_dec (Q2R (1 # 2)) (Q2R (1 # 2))); [lra|]. reflexivity.
  - apply Qlt_Rlt in H. destruct (Rlt_dec (Q2R (q - inject_Z f)) (Q2R (1 # 2))); [reflexivity | contradiction].
  - apply Qlt_Rlt in H. destruct (Rlt_dec (Q2R (q - inject_Z f)) (Q2R (1 # 2))); [lra|].
    destruct (Rlt_dec (Q2R (1 # 2)) (Q2R (q - inject_Z f))); [reflexivity | contradiction].
Qed.

Lemma pow10_pos : forall d, (0 < 10 ^ Z.of_nat d)%Z.
Proof. intros. apply Z.pow_pos_nonneg; lia. Qed.

Lemma rndQ_rnd : forall d q, Q2R (rndQ d q) = rnd d (Q2R q).
Proof.
  intros d q. unfold rndQ, rnd.
  assert (P : Q2R (inject_Z (10 ^ Z.of_nat d)) = 10 ^ d).
  { rewrite Q2R_IZR. rewrite <- pow_IZR. reflexivity. }
  rewrite Q2R_div.
  - rewrite Q2R_IZR, P. rewrite <- rheQ_rhe. rewrite Q2R_mult, P. reflexivity.
  - intros H. apply Qeq_eqR in H. rewrite P in H. unfold Q2R in H. cbn in H.
    assert (0 < 10 ^ d) by (apply pow_lt; lra). lra.
Qed.

Lemma Qis_zero : forall b, is_zero OpsQ b = false -> ~ (b == 0)%Q.
Proof.
  intros b H E. unfold is_zero, zeroT in H. cbn in H. apply Qeq_eq_bool in E. congruence.
Qed.

(* the executable instance answers what the specification says, wherever it answers *)
Lemma denQ_sound : forall e xs x v,
  denQ e xs x = Some v -> den3 e (map (gmap Q2R) xs) (gmap Q2R x) = Some (gmap Q2R v).
Proof.
  unfold denQ, den3. apply (geval_morph OpsQ OpsR Q2R); cbn.
  - reflexivity.
  - apply Q2R_plus.
  - apply Q2R_mult.
  - apply Q2R_opp.
  - intros a b H. apply Q2R_div. apply Qis_zero. exact H.
  - apply Qltb_Rltb.
  - apply Qeqb_Reqb.
  - intros a r _ H. f_equal. apply Qsqrt_exact_R. exact H.
  - intros a r _ _ H. unfold Qln_exact in H. destruct (Qeq_bool a 1) eqn:E; [|discriminate]. injection H as <-.
    apply Qeq_bool_eq in E. rewrite (Qeq_eqR _ _ E). f_equal.
    replace (Q2R 1) with 1 by (unfold Q2R; cbn; lra). replace (Q2R 0) with 0 by (unfold Q2R; cbn; lra). apply ln_1.
  - intros d a. apply rndQ_rnd.
Qed.

Lemma gsame_Q2R : forall a b, gsame OpsR (gmap Q2R a) (gmap Q2R b) = gsame OpsQ a b.
Proof.
  intros [a za| |na] [b zb| |nb]; cbn [gsame gmap]; try reflexivity. cbn. rewrite Qeqb_Reqb. reflexivity.
Qed.

Lemma pres_val_Q2R : forall p, pres_val OpsR p = option_map (gmap Q2R) (pres_val OpsQ p).
Proof.
  intros [q neg| |neg|]; cbn [pres_val option_map]; try reflexivity.
  destruct neg; [|reflexivity]. f_equal.
  change (gneg OpsR (gmap Q2R (GFin q false)) = gmap Q2R (gneg OpsQ (GFin q false))).
  symmetry. apply (m_gneg OpsQ OpsR Q2R); cbn.
  - reflexivity.
  - apply Q2R_opp.
  - apply Qeqb_Reqb.
Qed.

Lemma all_some_map_option : forall A B (g : A -> B) (l : list (option A)),
  all_some (map (option_map g) l) = option_map (map g) (all_some l).
Proof.
  induction l as [|[a|] l IH]; cbn [all_some map option_map]; [reflexivity | | reflexivity].
  rewrite IH. destruct (all_some l); reflexivity.
Qed.

Lemma parse_column_Q2R : forall cells,
  parse_column OpsR cells = option_map (map (gmap Q2R)) (parse_column OpsQ cells).
Proof.
  intros. unfold parse_column. rewrite <- all_some_map_option, map_map. f_equal.
  apply map_ext. intros s. apply pres_val_Q2R.
Qed.

(* soundness of the executable keep decision: if [keepQ e cells] answers b, then in the specification model
   (real arithmetic, any text rendering that is faithful on the values of this column) the transformed column
   of e is kept iff b *)
Lemma keepQ_sound : forall (render : gval R -> str) (D : gval R -> Prop),
  (forall a b, D a -> D b -> str_eqb (render a) (render b) = gsame OpsR a b) ->
  (forall a, D a -> str_eqb nan_str (render a) = gisnan a) ->
  forall e cells b, keepQ e cells = Some b ->
  exists xs vs, parse_column OpsR cells = Some xs
    /\ map (den3 e xs) xs = map Some vs
    /\ rendered_column render e xs = Some (map render vs)
    /\ (Forall D vs -> keep_spec (map render vs) = b).
Proof.
  intros render D Hf Hn e cells b H. unfold keepQ, keepQ_parsed in H.
  destruct (parse_column OpsQ cells) as [xq|] eqn:Ep; [|discriminate].
  destruct (all_some (map (fun x => denQ e xq x) xq)) as [vq|] eqn:Ev; [|discriminate].
  injection H as <-. apply all_some_spec in Ev.
  exists (map (gmap Q2R) xq), (map (gmap Q2R) vq).
  split; [rewrite parse_column_Q2R, Ep; reflexivity|].
  assert (Hv : map (den3 e (map (gmap Q2R) xq)) (map (gmap Q2R) xq) = map Some (map (gmap Q2R) vq)).
  { rewrite !map_map.
    assert (G : forall l w, map (fun x => denQ e xq x) l = map Some w ->
                map (fun x => den3 e (map (gmap Q2R) xq) (gmap Q2R x)) l = map (fun x => Some (gmap Q2R x)) w).
    { induction l as [|x l IH]; intros [|y w] Hw; cbn [map] in *; try discriminate; [reflexivity|].
      injection Hw as Hx Hw. rewrite (denQ_sound _ _ _ _ Hx), (IH _ Hw). reflexivity. }
    apply G. exact Ev. }
  split; [exact Hv|]. split.
  - unfold rendered_column. apply all_some_spec.
    rewrite <- (map_map (den3 e (map (gmap Q2R) xq)) (option_map render)), Hv, !map_map. reflexivity.
  - intros Hd. rewrite (keep_text_iff_classes render D Hf Hn) by exact Hd.
    apply (keep_by_map (gmap Q2R) (gsame OpsQ) (gsame OpsR) (fun _ => True)).
    + intros. apply gsame_Q2R.
    + intros [v z| |n] _; reflexivity.
    + apply Forall_forall. intros; exact I.
Qed.

(* ========================================================================================== *)
(* on finite data, den3 refines den: wherever the formula has a real value in the sense of       *)
(* Transform.den (every intermediate result finite), den3 yields that finite value               *)

Definition isfin (g : gval R) (r : R) : Prop := exists z, g = GFin r z.

Lemma Q2R_0 : Q2R 0 = 0. Proof. unfold Q2R; cbn; lra. Qed.
Lemma Q2R_1 : Q2R 1 = 1. Proof. unfold Q2R; cbn; lra. Qed.

Lemma fin_isfin : forall v z, isfin (fin OpsR v z) v.
Proof. intros. unfold fin. eexists; reflexivity. Qed.

Lemma is_zero_R : forall v, is_zero OpsR v = Reqb v 0.
Proof. intros. unfold is_zero, zeroT. cbn. rewrite Q2R_0. reflexivity. Qed.
Lemma is_neg_R : forall v, is_neg OpsR v = Rltb v 0.
Proof. intros. unfold is_neg, zeroT. cbn. rewrite Q2R_0. reflexivity. Qed.

Lemma gcmp_fin : forall c u v zu zv, gcmp OpsR c (GFin u zu) (GFin v zv) = cmpR c u v.
Proof.
  intros. destruct c; cbn [gcmp gltb gnumeq cmpR OpsR o_ltb o_eqb]; try reflexivity.
  - destruct (Rltb_cases u v) as [[A ->]|[A ->]]; destruct (Rltb_cases v u) as [[B ->]|[B ->]];
      destruct (Reqb_cases u v) as [[C ->]|[C ->]]; cbn; try reflexivity; exfalso; lra.
  - destruct (Rltb_cases u v) as [[A ->]|[A ->]]; destruct (Rltb_cases v u) as [[B ->]|[B ->]];
      destruct (Reqb_cases u v) as [[C ->]|[C ->]]; cbn; try reflexivity; exfalso; lra.
Qed.

Lemma gpow_fin : forall u z n, isfin (gpow OpsR (GFin u z) n) (u ^ n).
Proof.
  induction n as [|n IH]; cbn [gpow pow].
  - unfold oneT. cbn. rewrite Q2R_1. eexists; reflexivity.
  - destruct IH as [z' ->]. cbn [gmul OpsR o_mul]. rewrite Rmult_comm. apply fin_isfin.
Qed.

Lemma gmax_fold_fin : forall ys ys3 y y3, Forall2 isfin ys3 ys -> isfin y3 y ->
  isfin (fold_left (gmax2 OpsR) ys3 y3) (fold_left Rmax ys y).
Proof.
  induction ys as [|a ys IH]; intros ys3 y y3 H Hy; inversion H; subst; cbn [fold_left]; [exact Hy|].
  apply IH; [assumption|].
  destruct Hy as [zy ->]. match goal with H : isfin _ a |- _ => destruct H as [za ->] end.
  unfold gmax2. cbn [gisnan gltb OpsR o_ltb]. unfold Rmax.
  destruct (Rltb_cases y a) as [[A ->]|[A ->]]; destruct (Rle_dec y a) as [B|B]; try (eexists; reflexivity); try (exfalso; lra).
  assert (y = a) by lra. subst. eexists; reflexivity.
Qed.

Lemma den_den3 : forall e xs xs3 x x3 r,
  Forall2 isfin xs3 xs -> isfin x3 x -> den e xs x = Some r -> exists g, den3 e xs3 x3 = Some g /\ isfin g r.
Proof.
  unfold den3. induction e; intros xs xs3 x x3 r Hxs Hx H; cbn [den geval] in *.
  - injection H as <-. eexists; split; [reflexivity | exact Hx].
  - injection H as <-. eexists; split; [reflexivity | eexists; reflexivity].
  - destruct (den e1 xs x) as [u|] eqn:E1; [|discriminate]. destruct (den e2 xs x) as [v|] eqn:E2; [|discriminate].
    cbn [olift2] in H. injection H as <-.
    destruct (IHe1 _ _ _ _ _ Hxs Hx E1) as [g1 [-> [z1 ->]]]. destruct (IHe2 _ _ _ _ _ Hxs Hx E2) as [g2 [-> [z2 ->]]].
    cbn [obind gadd]. eexists; split; [reflexivity | apply fin_isfin].
  - destruct (den e1 xs x) as [u|] eqn:E1; [|discriminate]. destruct (den e2 xs x) as [v|] eqn:E2; [|discriminate].
    cbn [olift2] in H. injection H as <-.
    destruct (IHe1 _ _ _ _ _ Hxs Hx E1) as [g1 [-> [z1 ->]]]. destruct (IHe2 _ _ _ _ _ Hxs Hx E2) as [g2 [-> [z2 ->]]].
    cbn [obind gsub gneg gadd fin]. eexists; split; [reflexivity|]. cbn [OpsR o_add o_opp]. apply fin_isfin.
  - destruct (den e1 xs x) as [u|] eqn:E1; [|discriminate]. destruct (den e2 xs x) as [v|] eqn:E2; [|discriminate].
    cbn [olift2] in H. injection H as <-.
    destruct (IHe1 _ _ _ _ _ Hxs Hx E1) as [g1 [-> [z1 ->]]]. destruct (IHe2 _ _ _ _ _ Hxs Hx E2) as [g2 [-> [z2 ->]]].
    cbn [obind gmul]. eexists; split; [reflexivity | apply fin_isfin].
  - destruct (den e1 xs x) as [u|] eqn:E1; [|discriminate]. destruct (den e2 xs x) as [v|] eqn:E2; [|discriminate].
    destruct (Reqb v 0) eqn:Zv; [discriminate|]. injection H as <-.
    destruct (IHe1 _ _ _ _ _ Hxs Hx E1) as [g1 [-> [z1 ->]]]. destruct (IHe2 _ _ _ _ _ Hxs Hx E2) as [g2 [-> [z2 ->]]].
    cbn [obind gdiv]. rewrite is_zero_R, Zv. eexists; split; [reflexivity | apply fin_isfin].
  - destruct (den e xs x) as [u|] eqn:E1; [|discriminate]. cbn [olift1] in H. injection H as <-.
    destruct (IHe _ _ _ _ _ Hxs Hx E1) as [g1 [-> [z1 ->]]]. cbn [obind gneg]. eexists; split; [reflexivity | apply fin_isfin].
  - destruct (den e xs x) as [u|] eqn:E1; [|discriminate]. destruct (Rltb u 0) eqn:Nu; [discriminate|]. injection H as <-.
    destruct (IHe _ _ _ _ _ Hxs Hx E1) as [g1 [-> [z1 ->]]]. cbn [obind gsqrt]. rewrite is_neg_R, Nu, is_zero_R.
    destruct (Reqb_cases u 0) as [[Z ->]|[Z ->]].
    + subst u. rewrite sqrt_0. eexists; split; [reflexivity | eexists; reflexivity].
    + cbn [OpsR o_sqrt]. eexists; split; [reflexivity | apply fin_isfin].
  - destruct (den e xs x) as [u|] eqn:E1; [|discriminate]. destruct (Rltb_cases 0 u) as [[P Pu]|[P Pu]]; rewrite Pu in H; [|discriminate].
    injection H as <-.
    destruct (IHe _ _ _ _ _ Hxs Hx E1) as [g1 [-> [z1 ->]]]. cbn [obind glog]. rewrite is_neg_R, is_zero_R.
    rewrite Rltb_false by lra. rewrite Reqb_false by lra. cbn [OpsR o_ln]. eexists; split; [reflexivity | apply fin_isfin].
  - destruct (den e xs x) as [u|] eqn:E1; [|discriminate]. cbn [olift1] in H. injection H as <-.
    destruct (IHe _ _ _ _ _ Hxs Hx E1) as [g1 [-> [z1 ->]]]. cbn [obind gabs]. rewrite is_neg_R.
    eexists; split; [reflexivity|].
    destruct (Rltb_cases u 0) as [[A ->]|[A ->]]; cbn [OpsR o_opp].
    + rewrite Rabs_left by lra. apply fin_isfin.
    + rewrite Rabs_right by lra. apply fin_isfin.
  - destruct (den e xs x) as [u|] eqn:E1; [|discriminate]. cbn [olift1] in H. injection H as <-.
    destruct (IHe _ _ _ _ _ Hxs Hx E1) as [g1 [-> [z1 ->]]]. cbn [obind]. eexists; split; [reflexivity | apply gpow_fin].
  - destruct (den e xs x) as [u|] eqn:E1; [|discriminate]. cbn [olift1] in H. injection H as <-.
    destruct (IHe _ _ _ _ _ Hxs Hx E1) as [g1 [-> [z1 ->]]]. cbn [obind ground]. eexists; split; [reflexivity | apply fin_isfin].
  - destruct (den e1 xs x) as [u|] eqn:E1; [|discriminate]. destruct (den e2 xs x) as [v|] eqn:E2; [|discriminate].
    destruct (IHe1 _ _ _ _ _ Hxs Hx E1) as [g1 [-> [z1 ->]]]. destruct (IHe2 _ _ _ _ _ Hxs Hx E2) as [g2 [-> [z2 ->]]].
    cbn [obind]. rewrite gcmp_fin. destruct (cmpR c u v); [eapply IHe3 | eapply IHe4]; eassumption.
  - destruct xs as [|y ys]; [discriminate|]. cbn [list_max] in H. injection H as <-.
    inversion Hxs; subst. cbn [gmaxl]. eexists; split; [reflexivity|]. apply gmax_fold_fin; assumption.
Qed.

(* ========================================================================================== *)
(* the numeric parse agrees with Coq's own valuation of decimal numerals (N.of_uint)              *)
Local Close Scope R_scope.

Lemma dv_acc : forall l p, digits_val (Zpos p) (uint_codes l) = Zpos (Pos.of_uint_acc l p).
Proof.
  induction l; intros p; cbn [uint_codes digits_val Pos.of_uint_acc]; [reflexivity|..];
    rewrite <- IHl; f_equal; cbn [Z.of_N]; rewrite ?Pos2Z.inj_add, ?Pos2Z.inj_mul; lia.
Qed.

Lemma dv_uint : forall l, digits_val 0 (uint_codes l) = Z.of_N (Pos.of_uint l).
Proof.
  induction l; cbn [uint_codes digits_val Pos.of_uint]; [reflexivity | exact IHl |..];
    cbn [Z.of_N]; rewrite <- dv_acc; f_equal.
Qed.

Lemma uint_codes_digits : forall l, forallb is_digit (uint_codes l) = true.
Proof. induction l; cbn [uint_codes forallb]; [reflexivity|..]; rewrite IHl; reflexivity. Qed.

Lemma digit_not_blank : forall c, is_digit c = true -> is_blank c = false.
Proof.
  intros c H. unfold is_digit in H. apply andb_true_iff in H. destruct H as [H1 H2].
  apply N.leb_le in H1. apply N.leb_le in H2. unfold is_blank.
  rewrite !orb_false_iff, !andb_false_iff, !N.eqb_neq, !N.leb_gt. lia.
Qed.

Lemma drop_blanks_digit : forall c r, is_digit c = true -> drop_blanks (c :: r) = c :: r.
Proof. intros c r H. cbn [drop_blanks]. rewrite (digit_not_blank c H). reflexivity. Qed.

Lemma trim_digits : forall s, forallb is_digit s = true -> trim s = s.
Proof.
  intros s H. unfold trim.
  assert (D : forall l, forallb is_digit l = true -> drop_blanks l = l).
  { intros [|c r] Hl; [reflexivity|]. apply drop_blanks_digit. cbn [forallb] in Hl. apply andb_true_iff in Hl. tauto. }
  rewrite (D s H). rewrite D; [apply rev_involutive|].
  apply forallb_forall. intros x Hx. apply in_rev in Hx. rewrite forallb_forall in H. apply H. exact Hx.
Qed.

Lemma span_us_digits : forall s b, forallb is_digit s = true -> span_digits_us s b = Some (s, []).
Proof.
  induction s as [|c r IH]; intros b H; cbn [span_digits_us]; [reflexivity|].
  cbn [forallb] in H. apply andb_true_iff in H. destruct H as [H1 H2]. rewrite H1, (IH true H2). reflexivity.
Qed.

Lemma parse_py_digits : forall c ds, forallb is_digit (c :: ds) = true ->
  parse_py (c :: ds) = PVal (inject_Z (digits_val 0 (c :: ds))) false.
Proof.
  intros c ds H. unfold parse_py. rewrite (trim_digits _ H).
  assert (Hc : is_digit c = true) by (cbn [forallb] in H; apply andb_true_iff in H; tauto).
  assert (N1 : c <> 45%N) by (intros ->; discriminate Hc).
  assert (N2 : c <> 43%N) by (intros ->; discriminate Hc).
  assert (L : lower c = c).
  { unfold lower. destruct (N.leb 65 c && N.leb c 90) eqn:E; [|reflexivity]. exfalso.
    unfold is_digit in Hc. apply andb_true_iff in Hc. destruct Hc as [_ H2]. apply N.leb_le in H2.
    apply andb_true_iff in E. destruct E as [E _]. apply N.leb_le in E. lia. }
  assert (S1 : (let (neg, s1) := match c :: ds with
                   | 45%N :: r => (true, r) | 43%N :: r => (false, r) | _ => (false, c :: ds) end in (neg, s1))
               = (false, c :: ds)).
  { destruct c as [|p]; [reflexivity|]. do 6 (destruct p as [p|p|]; try reflexivity); congruence. }
  destruct c as [|p]; [discriminate Hc|].
  do 6 (destruct p as [p|p|]; try discriminate Hc); try congruence;
    cbn [map]; rewrite L; cbn [str_eqb s2l list_ascii_of_string map N_of_ascii N_of_digits N.eqb Pos.eqb andb orb];
    rewrite (span_us_digits _ false H); cbn [is_nil andb exponent_us app length Z.of_nat Z.sub Z.leb Z.compare Z.opp];
    rewrite app_nil_r; cbn [Z.pow Z.pow_pos Pos.iter Z.mul]; rewrite Z.mul_1_r; reflexivity.
Qed.

(* for every decimal numeral u (as Coq's own number notation reads it) *)
Lemma parse_py_numeral : forall u, u <> Decimal.Nil ->
  parse_py (uint_codes u) = PVal (inject_Z (Z.of_N (N.of_uint u))) false.
Proof.
  intros u Hu. pose proof (uint_codes_digits u) as D. pose proof (dv_uint u) as V.
  destruct (uint_codes u) as [|c ds] eqn:E.
  - destruct u; cbn in E; congruence.
  - rewrite (parse_py_digits c ds D), V. reflexivity.
Qed.

Lemma parse_py_print : forall n, parse_py (dec n) = PVal (inject_Z (Z.of_N n)) false.
Proof.
  intros n. unfold dec. rewrite parse_py_numeral.
  - rewrite DecimalN.Unsigned.of_to. reflexivity.
  - destruct n as [|p]; [discriminate|]. cbn. intros H.
    pose proof (DecimalPos.Unsigned.of_to p) as T. rewrite H in T. discriminate.
Qed.

(* ========================================================================================== *)
(* doubles vs integers in the keep rule: any rounding of the quotient that is monotone and has    *)
(* relative error at most 2^-53 decides k/n < 0.8 and k/n < 0.75 exactly as 5k < 4n and 4k < 3n,   *)
(* for n < 2^50                                                                                  *)
Local Open Scope R_scope.

Section FloatThreshold.
  Variable rn : R -> R.
  Let u := / 2 ^ 53.
  Hypothesis rn_mono : forall x y, x <= y -> rn x <= rn y.
  Hypothesis rn_err : forall x, 0 <= x -> x * (1 - u) <= rn x <= x * (1 + u).

  (* a / b is 4/5 or 3/4; k, n stand for integers: b*k < a*n gives b*k + 1 <= a*n *)
  Lemma threshold_generic : forall (a b k n : R),
    0 < a -> a <= b -> a <= 4 -> 0 <= k -> 0 < n -> n < 2 ^ 50 ->
    (b * k < a * n -> b * k + 1 <= a * n) ->
    (rn (k / n) < rn (a / b) <-> b * k < a * n).
  Proof.
    intros a b k n Ha Hab Ha4 Hk Hn Hbig Hint.
    assert (Hb : 0 < b) by lra.
    split.
    - intros H. destruct (Rlt_le_dec (b * k) (a * n)) as [L|L]; [exact L|]. exfalso.
      assert (Q : a / b <= k / n).
      { unfold Rdiv. apply Rmult_le_reg_r with (r := b * n); [nra|].
        replace (a * / b * (b * n)) with (a * n) by (field; lra).
        replace (k * / n * (b * n)) with (b * k) by (field; lra). exact L. }
      apply rn_mono in Q. lra.
    - intros L. specialize (Hint L).
      assert (P53 : 2 ^ 53 = 8 * 2 ^ 50) by (simpl; lra).
      assert (P50 : 0 < 2 ^ 50) by (apply pow_lt; lra).
      assert (U : 0 < u) by (unfold u; apply Rinv_0_lt_compat; apply pow_lt; lra).
      assert (Un : 8 * u * n < 1).
      { unfold u. rewrite P53. apply Rmult_lt_reg_r with (r := 2 ^ 50); [exact P50|].
        replace (8 * / (8 * 2 ^ 50) * n * 2 ^ 50) with n by (field; lra). lra. }
      assert (X : 0 <= k / n) by (unfold Rdiv; apply Rmult_le_pos; [lra | apply Rlt_le, Rinv_0_lt_compat; lra]).
      assert (T : 0 <= a / b) by (unfold Rdiv; apply Rmult_le_pos; [lra | apply Rlt_le, Rinv_0_lt_compat; lra]).
      destruct (rn_err (k / n) X) as [_ E1]. destruct (rn_err (a / b) T) as [E2 _].
      apply Rle_lt_trans with (1 := E1). apply Rlt_le_trans with (2 := E2).
      set (x := k / n) in *. set (t := a / b) in *.
      assert (I : 0 < / (b * n)) by (apply Rinv_0_lt_compat; nra).
      assert (G : x <= t - / (b * n)).
      { unfold x, t. apply Rmult_le_reg_r with (r := b * n); [nra|].
        replace (k / n * (b * n)) with (b * k) by (field; lra).
        replace ((a / b - / (b * n)) * (b * n)) with (a * n - 1) by (field; lra). lra. }
      assert (A1 : t <= 1).
      { unfold t. apply Rmult_le_reg_r with (r := b); [lra|]. unfold Rdiv. rewrite Rmult_assoc, Rinv_l by lra. lra. }
      (* u * (t + x) <= u * 2t = 2 a u / b < 1/(b n)  since 2 a u n <= 8 u n < 1 *)
      assert (Tb : t * b = a) by (unfold t; field; lra).
      assert (Un0 : 0 < u * n) by nra.
      assert (Q : u * (2 * t) < / (b * n)).
      { apply Rmult_lt_reg_r with (r := b * n); [nra|]. rewrite Rinv_l by nra.
        replace (u * (2 * t) * (b * n)) with (2 * (u * n) * (t * b)) by ring. rewrite Tb. nra. }
      assert (Xt : x <= t) by lra.
      assert (Ux : u * x <= u * t) by nra.
      lra.
  Qed.

  Lemma majority_threshold_exact : forall k n : Z, (0 <= k)%Z -> (0 < n)%Z -> (n < 2 ^ 50)%Z ->
    (rn (IZR k / IZR n) < rn (4 / 5) <-> (5 * k < 4 * n)%Z).
  Proof.
    intros k n Hk Hn Hb.
    assert (B : IZR n < 2 ^ 50).
    { assert (E : 2 ^ 50 = IZR (2 ^ 50)%Z) by (rewrite (pow_IZR 2 50); reflexivity). rewrite E. apply IZR_lt. exact Hb. }
    rewrite (threshold_generic 4 5 (IZR k) (IZR n)); try lra; try (apply IZR_le; lia); try (apply IZR_lt; lia); try exact B.
    - rewrite <- !mult_IZR. split; [apply lt_IZR | apply IZR_lt].
    - rewrite <- !mult_IZR. intros H. apply lt_IZR in H. rewrite <- plus_IZR. apply IZR_le. lia.
  Qed.

  Lemma nan_threshold_exact : forall k n : Z, (0 <= k)%Z -> (0 < n)%Z -> (n < 2 ^ 50)%Z ->
    (rn (IZR k / IZR n) < rn (3 / 4) <-> (4 * k < 3 * n)%Z).
  Proof.
    intros k n Hk Hn Hb.
    assert (B : IZR n < 2 ^ 50).
    { assert (E : 2 ^ 50 = IZR (2 ^ 50)%Z) by (rewrite (pow_IZR 2 50); reflexivity). rewrite E. apply IZR_lt. exact Hb. }
    rewrite (threshold_generic 3 4 (IZR k) (IZR n)); try lra; try (apply IZR_le; lia); try (apply IZR_lt; lia); try exact B.
    - rewrite <- !mult_IZR. split; [apply lt_IZR | apply IZR_lt].
    - rewrite <- !mult_IZR. intros H. apply lt_IZR in H. rewrite <- plus_IZR. apply IZR_le. lia.
  Qed.
End FloatThreshold.

Lemma float_thresholds : forall rn : R -> R,
  (forall x y, x <= y -> rn x <= rn y) ->
  (forall x, 0 <= x -> x * (1 - / 2 ^ 53) <= rn x <= x * (1 + / 2 ^ 53)) ->
  forall k n : Z, (0 <= k)%Z -> (0 < n)%Z -> (n < 2 ^ 50)%Z ->
    (rn (IZR k / IZR n) < rn (4 / 5) <-> (5 * k < 4 * n)%Z)
    /\ (rn (IZR k / IZR n) < rn (3 / 4) <-> (4 * k < 3 * n)%Z).
Proof.
  intros rn H1 H2 k n Hk Hn Hb. split.
  - apply majority_threshold_exact; assumption.
  - apply nan_threshold_exact; assumption.
Qed.
