(* C20 — executable models of the derived-structure methods of
   outrank/algorithms/synthetic_data_generators/cc_generator.py:
   generate_duplicates, generate_combinations, generate_correlated (self-description only; the
   correlation algebra is Synth/Corr.v), generate_labels (np.percentile, default 'linear' method,
   modelled exactly in Q), generate_noise (categorical / missing), downsample_dataset and the
   dataset_info bookkeeping.  RNG / sklearn.resample / argsort are ANSWER-STREAM ORACLES: the model
   consumes recorded answers and checks the assumed library behaviour on each of them.
   No proofs here: the model must still run when a proof breaks (proofs: Synth/DerivedProofs.v). *)
From Coq Require Import List ZArith QArith Qround Bool.
Import ListNotations.
Open Scope Z_scope.

Definition mat := list (list Z).
Definition lenZ {A} (l : list A) : Z := Z.of_nat (length l).
Definition nthZ (l : list Z) (i : Z) : Z := nth (Z.to_nat i) l 0.
Definition in_range (n i : Z) : bool := (0 <=? i) && (i <? n).
Fixpoint memZ (v : Z) (l : list Z) : bool :=
  match l with [] => false | a :: r => (v =? a) || memZ v r end.
Fixpoint nodupb (l : list Z) : bool :=
  match l with [] => true | a :: r => negb (memZ a r) && nodupb r end.
Definition zsum (l : list Z) : Z := fold_right Z.add 0 l.
Definition zrange (a : Z) (k : nat) : list Z := map (fun t => a + Z.of_nat t) (seq 0 k).
Definition countZ (v : Z) (l : list Z) : Z := lenZ (filter (Z.eqb v) l).
Fixpoint list_eqb (a b : list Z) : bool :=
  match a, b with
  | [], [] => true
  | x :: r, y :: s => (x =? y) && list_eqb r s
  | _, _ => false
  end.

(* insertion sort (np.sort / np.unique order) *)
Fixpoint insert (x : Z) (l : list Z) : list Z :=
  match l with [] => [x] | y :: r => if x <=? y then x :: l else y :: insert x r end.
Definition sort (l : list Z) : list Z := fold_right insert [] l.
Fixpoint dedup (l : list Z) : list Z :=
  match l with [] => [] | a :: r => if memZ a r then dedup r else a :: dedup r end.
Definition uniq (l : list Z) : list Z := dedup (sort l).          (* np.unique: sorted distinct values *)
Fixpoint sortedb (l : list Z) : bool :=
  match l with a :: ((b :: _) as r) => (a <=? b) && sortedb r | _ => true end.

(* ------------------------------------------------------------------------------------------ *)
(* column selection X[:, feature_indices] (numpy wraps negative indices) *)

Definition ncols (X : mat) : Z := match X with [] => 0 | r :: _ => lenZ r end.
Definition norm_idx (nc j : Z) : Z := if j <? 0 then j + nc else j.
Definition idx_ok (nc j : Z) : bool := (- nc <=? j) && (j <? nc).
Definition select (row idx : list Z) : list Z := map (fun j => nthZ row (norm_idx (lenZ row) j)) idx.
Definition rect (X : mat) : bool := forallb (fun r => lenZ r =? ncols X) X.
Definition call_ok (X : mat) (idx : list Z) : bool :=
  match X with [] => false | _ => rect X && forallb (idx_ok (ncols X)) idx end.

(* generate_duplicates: (new X, (feature_indices, duplicate_indices)) *)
Definition gen_duplicates (X : mat) (idx : list Z) : option (mat * (list Z * list Z)) :=
  if call_ok X idx
  then Some (map (fun row => row ++ select row idx) X, (idx, zrange (ncols X) (length idx)))
  else None.
(* the behaviour before fix 40bb872: np.arange(ncols, ncols + k - 1) *)
Definition gen_duplicates_old (X : mat) (idx : list Z) : option (mat * (list Z * list Z)) :=
  if call_ok X idx
  then Some (map (fun row => row ++ select row idx) X, (idx, zrange (ncols X) (length idx - 1)))
  else None.

(* generate_combinations.  CNonlinear yields the ARGUMENT s of sin: the cell means sin(s). *)
Inductive cfun := CLinear | CNonlinear | CXor | CAnd | COr.
Definition fold1 (f : Z -> Z -> Z) (l : list Z) : option Z :=
  match l with a :: b :: r => Some (fold_left f r (f a b)) | _ => None end.
Definition comb_val (f : cfun) (vals : list Z) : option Z :=
  match f with
  | CLinear | CNonlinear => Some (zsum vals)
  | CXor => fold1 Z.lxor vals
  | CAnd => fold1 Z.land vals
  | COr => fold1 Z.lor vals
  end.
Fixpoint map_opt {A B} (f : A -> option B) (l : list A) : option (list B) :=
  match l with
  | [] => Some []
  | a :: r => match f a, map_opt f r with Some b, Some s => Some (b :: s) | _, _ => None end
  end.
(* (new X, (feature_indices, combination_type, combination_ix)) *)
Definition gen_combinations (X : mat) (f : cfun) (idx : list Z) : option (mat * (list Z * cfun * Z)) :=
  if call_ok X idx
  then match map_opt (fun row => match comb_val f (select row idx) with Some v => Some (row ++ [v]) | None => None end) X with
       | Some X' => Some (X', (idx, f, ncols X))
       | None => None
       end
  else None.

(* generate_correlated: the recorded correlated_indices, canonical list form
   (the code stores the scalar ncols when one feature is selected) *)
Definition corr_indices (nc : Z) (idx : list Z) : list Z :=
  if 1 <? lenZ idx then zrange nc (length idx) else [nc].

(* ------------------------------------------------------------------------------------------ *)
(* dataset_info bookkeeping over a session of calls; data-independent given the shapes *)

Inductive relname := RLinear | RNonlinear | RCluster | RCustom (name : list N).
Definition info : Type :=
  (list (list Z * cfun * Z)            (* combinations: feature_indices, combination_type, combination_ix *)
   * list (list Z * list Z * Q)        (* correlations: feature_indices, correlated_indices, correlation_factor *)
   * list (list Z * list Z)            (* duplicates: feature_indices, duplicate_indices *)
   * option (relname * Z)              (* labels: class_relation, n_class *)
   * list (bool * Q)                   (* noise: (type = 'missing'), amount *)
   * option ((Z * Z) * (Z * Z)))%type. (* downsampling: original_shape, downsampled_shape *)
Definition info0 : info := ([], [], [], None, [], None).

Inductive op :=
| ODup (idx : list Z)
| OCombo (f : cfun) (idx : list Z)
| OCorr (idx : list Z) (r : Q)
| OLabels (rel : relname) (n : Z)
| ONoise (missing : bool) (p : Q)
| ODown (classes n : Z).

(* state: rows, columns, info *)
Definition sstate : Type := (Z * Z * info)%type.
Definition step (old : bool) (s : sstate) (o : op) : sstate :=
  let '(nr, nc, (cb, cr, du, lb, no, dn)) := s in
  match o with
  | ODup idx => (nr, nc + lenZ idx,
                 (cb, cr, du ++ [(idx, zrange nc (if old then length idx - 1 else length idx))], lb, no, dn))
  | OCombo f idx => (nr, nc + 1, (cb ++ [(idx, f, nc)], cr, du, lb, no, dn))
  | OCorr idx r => (nr, nc + lenZ idx, (cb, cr ++ [(idx, corr_indices nc idx, r)], du, lb, no, dn))
  | OLabels rel n => (nr, nc, (cb, cr, du, Some (rel, n), no, dn))
  | ONoise m p => (nr, nc, (cb, cr, du, lb, no ++ [(m, p)], dn))
  | ODown k n => (k * n, nc, (cb, cr, du, lb, no, Some ((nr, nc), (k * n, nc))))
  end.
Definition session (nr nc : Z) (ops : list op) : sstate := fold_left (step false) ops (nr, nc, info0).
Definition session_old (nr nc : Z) (ops : list op) : sstate := fold_left (step true) ops (nr, nc, info0).

(* a pipeline of exact (integer) derivations *)
Inductive pop := PDup (idx : list Z) | PCombo (f : cfun) (idx : list Z).
Fixpoint pipe (X : mat) (ops : list pop) : option mat :=
  match ops with
  | [] => Some X
  | PDup idx :: r => match gen_duplicates X idx with Some (X', _) => pipe X' r | None => None end
  | PCombo f idx :: r => match gen_combinations X f idx with Some (X', _) => pipe X' r | None => None end
  end.
Definition pop_op (o : pop) : op := match o with PDup idx => ODup idx | PCombo f idx => OCombo f idx end.

(* printing form for the harness: rationals as (numerator, denominator) pairs of Z *)
Definition qpair (q : Q) : Z * Z := (Qnum q, Zpos (Qden q)).
Definition enc_state (s : sstate) :=
  let '(nr, nc, (cb, cr, du, lb, no, dn)) := s in
  (nr, nc, (cb, map (fun e => (fst (fst e), snd (fst e), qpair (snd e))) cr, du, lb,
            map (fun e => (fst e, qpair (snd e))) no, dn)).

(* a HISTORY of calls on one generator object, every call on its own input matrix (given by its shape):
   the self-description after each call.  No state other than dataset_info may carry over between calls. *)
Fixpoint history_trace (i : info) (calls : list (Z * Z * op)) : list info :=
  match calls with
  | [] => []
  | (nr, nc, o) :: r => let i' := snd (step false (nr, nc, i) o) in i' :: history_trace i' r
  end.
Definition enc_info (i : info) := snd (enc_state (0, 0, i)).

(* every column index the self-description lists as added *)
Definition listed (i : info) : list Z :=
  let '(cb, cr, du, _, _, _) := i in
  map (fun e => snd e) cb ++ concat (map (fun e => snd (fst e)) cr) ++ concat (map snd du).

(* ------------------------------------------------------------------------------------------ *)
(* generate_labels *)

(* np.percentile(a, 100 q), default method 'linear', on the sorted data s:
   virtual index (N-1) q, j = floor, g = fractional part, s[j] + (s[min(j+1,N-1)] - s[j]) g *)
Definition percentile (s : list Z) (q : Q) : Q :=
  let N := lenZ s in
  let vi := (inject_Z (N - 1) * q)%Q in
  let j := Qfloor vi in
  let g := (vi - inject_Z j)%Q in
  let a := nthZ s j in
  let b := nthZ s (Z.min (j + 1) (N - 1)) in
  (inject_Z a + inject_Z (b - a) * g)%Q.

Inductive pspec := PScalar (p : Q) | PList (ps : list Q).
Definition qsum (l : list Q) : Q := fold_right Qplus 0%Q l.
Fixpoint prefix_sums (acc : Q) (l : list Q) : list Q :=
  match l with [] => [] | a :: r => (acc + a)%Q :: prefix_sums (acc + a)%Q r end.
Definition qlt_bool (a b : Q) : bool := negb (Qle_bool b a).

(* the percents (0..100) whose percentiles are the cut points actually compared; None = the call raises *)
Definition label_percents (n : Z) (p : pspec) : option (list Q) :=
  let valid := match p with
               | PList ps => Qle_bool (qsum ps) 1 && (lenZ ps <=? n)
               | PScalar q => Qle_bool q 1
               end in
  if negb valid then None else
  let pcs :=
    if 2 <? n then
      match p with
      | PScalar _ => Some (map (fun i => (inject_Z (i + 1) * ((1 # 1) / inject_Z n * 100))%Q) (zrange 0 (Z.to_nat (n - 1))))
      | PList ps => if lenZ ps =? n
                    then Some (prefix_sums 0%Q (map (fun x => (x * 100)%Q) (firstn (Z.to_nat (n - 1)) ps)))
                    else None                                   (* p_points[i] IndexError *)
      end
    else match p with
         | PScalar q => Some [(q * 100)%Q]
         | PList [] => None
         | PList (q :: _) => Some [(q * 100)%Q]
         end in
  match pcs with
  | Some l => if forallb (fun pc => Qle_bool 0 pc && Qle_bool pc 100) l then Some l else None
  | None => None
  end.

Definition cut_points (d : list Z) (percents : list Q) : list Q :=
  map (fun pc => percentile (sort d) (pc / 100)%Q) percents.
(* y_i = number of cut points strictly below d_i  (the code adds [decision_boundary > p_point]) *)
Definition labels_of (d : list Z) (cuts : list Q) : list Z :=
  map (fun di => lenZ (filter (fun c => qlt_bool c (inject_Z di)) cuts)) d.
(* the old spelling of one comparison, for the mutation documented in the notes: >= instead of > *)
Definition labels_of_ge (d : list Z) (cuts : list Q) : list Z :=
  map (fun di => lenZ (filter (fun c => Qle_bool c (inject_Z di)) cuts)) d.

Definition gen_labels (d : list Z) (n : Z) (p : pspec) : option (list Z) :=
  match d, label_percents n p with
  | _ :: _, Some pcs => Some (labels_of d (cut_points d pcs))
  | _, _ => None
  end.
(* class_relation = 'linear': decision value of a row = sum(2 x + 3) *)
Definition decision_linear (X : mat) : list Z := map (fun row => zsum (map (fun x => 2 * x + 3) row)) X.

(* ------------------------------------------------------------------------------------------ *)
(* oracles: recorded answers of library calls *)

Inductive ans :=
| AIdx (m : Z) (l : list Z)        (* np.random.choice(m, len l, replace=False) = l *)
| AVal (v : Z)                     (* np.random.choice(list(values)) = v *)
| AInt (hi k : Z)                  (* np.random.randint(hi) = k *)
| APerm (l : list Z)               (* np.random.shuffle(arange(len l)) left l *)
| ASample (m : Z) (l : list Z).    (* resample(population of m rows, n_samples = len l) returned rows l (witness indices) *)

Inductive res (A : Type) := Ok (a : A) | Raises | BadOracle.
Arguments Ok {A} a.
Arguments Raises {A}.
Arguments BadOracle {A}.

Definition is_perm (n : Z) (l : list Z) : bool := (lenZ l =? n) && forallb (in_range n) l && nodupb l.
Fixpoint upd (i : nat) (v : Z) (l : list Z) : list Z :=
  match l, i with
  | [], _ => []
  | _ :: r, O => v :: r
  | a :: r, S i' => a :: upd i' v r
  end.
Definition updZ (i v : Z) (l : list Z) : list Z := upd (Z.to_nat i) v l.
Definition nflip (n : Z) (p : Q) : Z := Qfloor (inject_Z n * p).    (* floor(n p), the count the property names *)
(* the call raises only when more cells than rows are requested (np.random.choice, replace=False); p >= 0 is a precondition *)
Definition p_ok (n : Z) (p : Q) : bool := Qle_bool 0 p && (nflip n p <=? n).
Definition eps9 : Q := 1 # 1000000000.
(* p is the exact value of the double passed in; n * p is exact in doubles when p has at most 20 fractional bits *)
Definition small_dyadic (n : Z) (p : Q) : bool :=
  let d := Zpos (Qden p) in (d <=? 2 ^ 20) && (2 ^ Z.log2 d =? d) && (n <? 2 ^ 30).
(* the code computes int(n * p) in DOUBLES; its value k is an oracle answer (the size it asks np.random.choice for).
   Contract: k = floor(n p), except that a product within 1e-9 of an integer may round to the other side of it. *)
Definition kflip_ok (n : Z) (p : Q) (k : Z) : bool :=
  let x := (inject_Z n * p)%Q in
  let f := Qfloor x in
  let g := (x - inject_Z f)%Q in
  if small_dyadic n p then k =? f
  else if qlt_bool g eps9 then (k =? f) || (k =? f - 1)
  else if qlt_bool (1 - eps9)%Q g then (k =? f) || (k =? f + 1)
  else k =? f.
Definition idx_answer_ok (n k : Z) (m : Z) (ixs : list Z) : bool :=
  (m =? n) && (lenZ ixs =? k) && forallb (in_range n) ixs && nodupb ixs.

(* ---- categorical noise, one feature (column) at a time; matrices are column-major here ---- *)

Definition pyslice (l : list Z) (a b : Z) : list Z := firstn (Z.to_nat (b - a)) (skipn (Z.to_nat a) l).
Definition dict := list (Z * list Z).
Fixpoint lookup (k : Z) (d : dict) : option (list Z) :=
  match d with [] => None | (k', s) :: r => if k =? k' then Some s else lookup k r end.
(* unique_per_label.  cum = false: the slices of the code as first read: [0, c_0) for the first label,
   [c_{i-1}, c_{i-1} + c_i - 1) for label i >= 1 of the label-sorted feature (previous count instead of the cumulative
   offset, last row dropped).  cum = true: the repaired slices [c_0 + .. + c_{i-1}, c_0 + .. + c_i).
   The harness determines which variant the code under test implements (one variant must explain every case of a run). *)
Definition upl (cum : bool) (fs lv lc : list Z) : dict :=
  map (fun i => let ci := nth i lc 0 in
                (nth i lv 0,
                 if cum then let off := zsum (firstn i lc) in dedup (pyslice fs off (off + ci))
                 else match i with
                      | O => dedup (pyslice fs 0 ci)
                      | S i' => let cp := nth i' lc 0 in dedup (pyslice fs cp (cp + ci - 1))
                      end)) (seq 0 (length lv)).
(* np.where(label_values != current_label)[0]: INDICES into label_values *)
Definition possible (lv : list Z) (lab : Z) : list Z :=
  map (fun i => Z.of_nat i) (filter (fun i => negb (nth i lv 0 =? lab)) (seq 0 (length lv))).
Fixpoint union_lookup (keys : list Z) (d : dict) : option (list Z) :=
  match keys with
  | [] => Some []
  | k :: r => match lookup k d, union_lookup r d with Some s, Some t => Some (s ++ t) | _, _ => None end
  end.

Definition flip1 (lv : list Z) (d : dict) (ysort inds : list Z) (ix : Z) (col : list Z) (st : list ans)
  : res (list Z * list ans) :=
  let lab := nthZ ysort ix in
  let poss := possible lv lab in
  match union_lookup poss d, lookup lab d with
  | Some vals, Some own =>
    match filter (fun v => negb (memZ v own)) vals with
    | (_ :: _) as vals' =>
      match st with
      | AVal v :: st' => if memZ v vals' then Ok (updZ (nthZ inds ix) v col, st') else BadOracle
      | _ => BadOracle
      end
    | [] =>
      match poss with
      | [] => Raises                                            (* randint(0) *)
      | _ =>
        match st with
        | AInt hi k :: st' =>
          if (hi =? lenZ poss) && in_range hi k then
            match lookup (nthZ poss k) d with
            | None => Raises                                    (* KeyError *)
            | Some [] => Raises                                 (* choice of an empty list *)
            | Some vs =>
              match st' with
              | AVal v :: st'' => if memZ v vs then Ok (updZ (nthZ inds ix) v col, st'') else BadOracle
              | _ => BadOracle
              end
            end
          else BadOracle
        | _ => BadOracle
        end
      end
    end
  | _, _ => Raises                                              (* KeyError: labels are not 0..k-1 *)
  end.

Fixpoint flips (lv : list Z) (d : dict) (ysort inds : list Z) (ixs : list Z) (col : list Z) (st : list ans)
  : res (list Z * list ans) :=
  match ixs with
  | [] => Ok (col, st)
  | ix :: r => match flip1 lv d ysort inds ix col st with
               | Ok (col', st') => flips lv d ysort inds r col' st'
               | Raises => Raises
               | BadOracle => BadOracle
               end
  end.

Definition noise_col_cat (cum : bool) (lv lc ysort inds : list Z) (n k : Z) (col : list Z) (st : list ans) : res (list Z * list ans) :=
  let fs := map (nthZ col) inds in
  let d := upl cum fs lv lc in
  match st with
  | AIdx m ixs :: st' => if idx_answer_ok n k m ixs then flips lv d ysort inds ixs col st' else BadOracle
  | _ => BadOracle
  end.

Fixpoint cols_loop (f : list Z -> list ans -> res (list Z * list ans)) (cols : mat) (st : list ans) : res (mat * list ans) :=
  match cols with
  | [] => Ok ([], st)
  | c :: r => match f c st with
              | Ok (c', st') => match cols_loop f r st' with
                                | Ok (r', st'') => Ok (c' :: r', st'')
                                | Raises => Raises
                                | BadOracle => BadOracle
                                end
              | Raises => Raises
              | BadOracle => BadOracle
              end
  end.

Definition finish {A} (r : res (A * list ans)) : res A :=
  match r with Ok (a, []) => Ok a | Ok (_, _ :: _) => BadOracle | Raises => Raises | BadOracle => BadOracle end.

(* inds = y.argsort() is an oracle answer too (numpy's default sort is not stable):
   it must be a permutation of 0..n-1 that sorts y *)
Definition noise_cat (cum : bool) (cols : mat) (y : list Z) (p : Q) (k : Z) (inds : list Z) (st : list ans) : res mat :=
  let n := lenZ y in
  if negb (is_perm n inds && sortedb (map (nthZ y) inds)) then BadOracle else
  if negb (p_ok n p) then Raises else
  if negb (kflip_ok n p k) then BadOracle else
  let lv := uniq y in
  let lc := map (fun v => countZ v y) lv in
  finish (cols_loop (noise_col_cat cum lv lc (map (nthZ y) inds) inds n k) cols st).

(* ---- missing-value noise ---- *)
Definition noise_col_missing (n k marker : Z) (col : list Z) (st : list ans) : res (list Z * list ans) :=
  match st with
  | AIdx m ixs :: st' => if idx_answer_ok n k m ixs
                         then Ok (fold_left (fun c ix => updZ ix marker c) ixs col, st') else BadOracle
  | _ => BadOracle
  end.
Definition noise_missing (cols : mat) (n : Z) (p : Q) (k : Z) (marker : Z) (st : list ans) : res mat :=
  if negb (p_ok n p) then Raises else
  if negb (kflip_ok n p k) then BadOracle else
  finish (cols_loop (noise_col_missing n k marker) cols st).

(* ---- down-sampling (row-major) ---- *)
Definition rows_of (X : mat) (y : list Z) (label : Z) : mat :=
  map fst (filter (fun ry => snd ry =? label) (combine X y)).
Definition zmin_list (l : list Z) : option Z :=
  match l with [] => None | a :: r => Some (fold_left Z.min r a) end.
Definition down_n (y : list Z) (n : option Z) : option Z :=
  match zmin_list (map (fun v => countZ v y) (uniq y)) with
  | None => None
  | Some mn => match n with
               | None => Some mn
               | Some k => if mn <? k then None else Some k
               end
  end.
Fixpoint down_loop (X : mat) (y : list Z) (n : Z) (labels : list Z) (st : list ans) : res ((mat * list Z) * list ans) :=
  match labels with
  | [] => Ok (([], []), st)
  | lab :: r =>
    let pop := rows_of X y lab in
    match st with
    | ASample m ixs :: st' =>
      if (m =? lenZ pop) && (lenZ ixs =? n) && forallb (in_range m) ixs then
        match down_loop X y n r st' with
        | Ok ((Xr, yr), st'') => Ok ((map (fun i => nth (Z.to_nat i) pop []) ixs ++ Xr, repeat lab (Z.to_nat n) ++ yr), st'')
        | Raises => Raises
        | BadOracle => BadOracle
        end
      else BadOracle
    | _ => BadOracle
    end
  end.
Definition downsample (X : mat) (y : list Z) (n : option Z) (reshuffle : bool) (st : list ans) : res (mat * list Z) :=
  match down_n y n with
  | None => Raises
  | Some k =>
    if k <? 0 then Raises else
    match down_loop X y k (uniq y) st with
    | Ok ((Xd, yd), st') =>
      if reshuffle then
        match st' with
        | [APerm perm] => if is_perm (lenZ Xd) perm
                          then Ok (map (fun i => nth (Z.to_nat i) Xd []) perm, map (nthZ yd) perm) else BadOracle
        | _ => BadOracle
        end
      else match st' with [] => Ok (Xd, yd) | _ => BadOracle end
    | Raises => Raises
    | BadOracle => BadOracle
    end
  end.

(* ---- generate_labels with np.percentile as an ORACLE -------------------------------------------------------
   The code computes its percent list in doubles (it ACCUMULATES the double 100/n for a scalar p and n > 2:
   33.33333333333333, 66.66666666666666, ...) and np.percentile computes the virtual index and the interpolation in
   doubles.  The recorded percent list and the recorded cut points (exact rationals of the doubles) are therefore
   answers; the model checks the contract:
     * every recorded percent is within 1e-9 of the requested cumulative proportion ([label_percents]);
     * every recorded cut point lies in the bracket [s_a, s_(a+1)) of the sorted decision values where a is the floor
       of the virtual index (N-1) pc / 100 -- or a neighbouring bracket when that index is within 1e-9 of an integer
       (double rounding may land on either side);
     * non-decreasing requested percents give non-decreasing cut points. *)
Definition qclose (a b : Q) : bool := Qle_bool (a - b) eps9 && Qle_bool (b - a) eps9.
(* two decision values that differ by a few units in the last place of a double (relative gap <= 1e-15) are a tie for the
   interpolation: the rounded cut point may coincide with the upper one *)
Definition near_tie (x y : Z) : bool := 10 ^ 15 * (y - x) <=? Z.abs x + Z.abs y.
Definition bracket (s : list Z) (a : Z) (c : Q) : bool :=
  let a' := Z.min (a + 1) (lenZ s - 1) in
  Qle_bool (inject_Z (nthZ s a)) c && Qle_bool c (inject_Z (nthZ s a')) &&
  (qlt_bool c (inject_Z (nthZ s a')) || (nthZ s a' <=? nthZ s a) || near_tie (nthZ s a) (nthZ s a')).
Definition cut_ok (s : list Z) (pc c : Q) : bool :=
  let vi := (inject_Z (lenZ s - 1) * (pc / 100))%Q in
  let j := Qfloor vi in
  let g := (vi - inject_Z j)%Q in
  Qle_bool 0 pc && Qle_bool pc 100 &&                      (* np.percentile rejects anything else *)
  (bracket s j c
   || (qlt_bool g eps9 && (1 <=? j) && bracket s (j - 1) c)
   || (qlt_bool (1 - eps9)%Q g && (j + 1 <=? lenZ s - 1) && bracket s (j + 1) c)).
Fixpoint forallb2 {A B} (f : A -> B -> bool) (l : list A) (m : list B) : bool :=
  match l, m with
  | [], [] => true
  | a :: r, b :: t => f a b && forallb2 f r t
  | _, _ => false
  end.
Fixpoint qsortedb (l : list Q) : bool :=
  match l with a :: ((b :: _) as r) => Qle_bool a b && qsortedb r | _ => true end.
(* which entries of the recorded arrays are cut points: the code may ask np.percentile for one extra leading level (the
   sequence path with n > 2 asks for the 0th percentile first and does not use it); the arrays are aligned by length *)
Definition used_part {A} (k : nat) (l : list A) : list A :=
  if Nat.eqb (length l) (S k) then tl l else l.

(* scalar p with n > 2.  honour = false: the code as first read ignores it (uniform 100/n steps).
   honour = true (proposed repair): p = 1/2 (the default) keeps the uniform split, any other p gives class 0 the
   proportion p and splits 1 - p evenly over the other n - 1 classes. *)
Definition requested_percents (honour : bool) (n : Z) (p : pspec) : option (list Q) :=
  match p with
  | PScalar q =>
    if honour && (2 <? n) && negb (Qeq_bool q (1 # 2))
    then label_percents n (PList (q :: repeat ((1 - q) / inject_Z (n - 1))%Q (Z.to_nat (n - 1))))
    else label_percents n p
  | PList _ => label_percents n p
  end.

Definition gen_labels_o (honour : bool) (d : list Z) (n : Z) (p : pspec) (rperc rcuts : list Q) : res (list Z) :=
  match d, requested_percents honour n p with
  | _ :: _, Some req =>
    let rp := used_part (length req) rperc in
    let rc := used_part (length req) rcuts in
    if forallb2 qclose rp req && forallb2 (cut_ok (sort d)) rp rc && (negb (qsortedb req) || qsortedb rc)
    then Ok (labels_of d rc) else BadOracle
  | _, _ => Raises
  end.

(* ------------------------------------------------------------------------------------------ *)
(* boolean validators of the property's clauses, evaluated on the IMPLEMENTATION's output
   (fallback when the oracle call pattern changes, and the failing-input search) *)

Fixpoint diff_count (a b : list Z) : Z :=
  match a, b with
  | x :: r, y :: s => (if x =? y then 0 else 1) + diff_count r s
  | _, _ => 0
  end.
Definition same_shape (a b : mat) : bool :=
  (length a =? length b)%nat && forallb (fun co => (length (fst co) =? length (snd co))%nat) (combine a b).

Definition noise_cat_check (cols : mat) (n : Z) (p : Q) (k : Z) (out : mat) : bool :=
  same_shape cols out && kflip_ok n p k &&
  forallb (fun co => (diff_count (fst co) (snd co) <=? k) && forallb (fun v => memZ v (fst co)) (snd co)) (combine cols out).

Definition noise_missing_check (cols : mat) (n : Z) (p : Q) (k : Z) (marker : Z) (out : mat) : bool :=
  same_shape cols out && kflip_ok n p k &&
  forallb (fun co => forallb (fun ab => (snd ab =? fst ab) || (snd ab =? marker)) (combine (fst co) (snd co))
                     && (memZ marker (fst co) || (countZ marker (snd co) =? k))) (combine cols out).

Definition downsample_check (X : mat) (y : list Z) (n : option Z) (Xd : mat) (yd : list Z) : bool :=
  match down_n y n with
  | None => false
  | Some k =>
    (length Xd =? length yd)%nat &&
    forallb (fun lab => countZ lab yd =? k) (uniq y) &&
    forallb (fun lab => memZ lab (uniq y)) yd &&
    forallb (fun ry => existsb (fun ry' => list_eqb (fst ry) (fst ry') && (snd ry =? snd ry')) (combine X y)) (combine Xd yd)
  end.

(* property-level validator for labels when np.percentile was not observed: the labels are a monotone step function of the
   decision value with values 0..#cuts and, on tie-free data, classes 0..m hold floor((N-1) req_m/100) + 1 items give or take
   one (what double rounding of the virtual index can change) *)
Definition labels_valid (d : list Z) (req : list Q) (y : list Z) : bool :=
  (length y =? length d)%nat &&
  forallb (fun a => forallb (fun b => negb (fst a <=? fst b) || (snd a <=? snd b)) (combine d y)) (combine d y) &&
  forallb (fun yi => (0 <=? yi) && (yi <=? lenZ req)) y &&
  (negb (nodupb d) ||
   forallb (fun m => let cnt := lenZ (filter (fun yi => yi <=? Z.of_nat m) y) in
                     let j := Qfloor (inject_Z (lenZ d - 1) * (nth m req 0%Q / 100)) in
                     (j <=? cnt) && (cnt <=? j + 2)) (seq 0 (length req))).

(* labels: monotone step function of the decision value, values 0..#cuts *)
Definition labels_check (d : list Z) (cuts : list Q) (y : list Z) : bool :=
  list_eqb y (labels_of d cuts).

(* transposition helper for the harness (row-major <-> column-major), total on rectangular input *)
Fixpoint transpose_n (k : nat) (X : mat) : mat :=
  match k with
  | O => []
  | S k' => map (fun r => hd 0 r) X :: transpose_n k' (map (fun r => tl r) X)
  end.
Definition transpose (X : mat) : mat := transpose_n (Z.to_nat (ncols X)) X.
