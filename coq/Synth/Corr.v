From Coq Require Import Reals List Lra Lia Arith Ratan R_sqrt.
From Outrank Require Import Common.RSum MI.MIineq.
Import ListNotations.
Open Scope R_scope.

Section Corr.
  Variable n : nat.
  Hypothesis Hn : (0 < n)%nat.
  Definition vec := nat -> R.
  Definition idx := seq 0 n.
  Definition dot (u v : vec) : R := rsum (fun i => u i * v i) idx.
  Definition vsum (u : vec) : R := rsum u idx.
  Definition mean (u : vec) : R := vsum u / INR n.
  Definition centre (u : vec) : vec := fun i => u i - mean u.
  Definition pearson (u v : vec) : R :=
    dot (centre u) (centre v) / sqrt (dot (centre u) (centre u) * dot (centre v) (centre v)).

  Lemma n_pos : 0 < INR n. Proof. apply lt_0_INR. exact Hn. Qed.

  Lemma dot_lin_l a b (u v w : vec) : dot (fun i => a * u i + b * v i) w = a * dot u w + b * dot v w.
  Proof.
    unfold dot. rewrite <- !rsum_scal, <- rsum_plus. apply rsum_ext_in. intros i _. lra.
  Qed.
  Lemma dot_comm u v : dot u v = dot v u.
  Proof. unfold dot. apply rsum_ext_in. intros i _. lra. Qed.
  Lemma vsum_lin a b (u v : vec) : vsum (fun i => a * u i + b * v i) = a * vsum u + b * vsum v.
  Proof. unfold vsum. rewrite <- !rsum_scal, <- rsum_plus. reflexivity. Qed.
  Lemma vsum_const k : vsum (fun _ => k) = INR n * k.
  Proof. unfold vsum, idx. rewrite rsum_const, seq_length. reflexivity. Qed.

  Variables u v : vec.
  Hypothesis Hu0 : vsum u = 0.
  Hypothesis Hv0 : vsum v = 0.
  Hypothesis Huu : dot u u = 1.
  Hypothesis Hvv : dot v v = 1.
  Hypothesis Huv : dot u v = 0.

  (* the generated feature and the (affinely rescaled) source *)
  Variables c a b : R.
  Hypothesis Ha : 0 < a.
  Definition w : vec := fun i => 1 * v i + c * u i.
  Definition t : vec := fun i => a * u i + b * 1.

  Lemma mean_w : mean w = 0.
  Proof. unfold mean, w. rewrite vsum_lin, Hu0, Hv0. field. pose proof n_pos; lra. Qed.
  Lemma mean_t : mean t = b.
  Proof.
    unfold mean, t. rewrite (vsum_lin a b u (fun _ => 1)), Hu0, vsum_const. field. pose proof n_pos; lra.
  Qed.
  Lemma centre_w_ext : forall f, dot (centre w) f = dot w f.
  Proof. intros f. unfold dot. apply rsum_ext_in. intros i _. unfold centre. rewrite mean_w. lra. Qed.

  Theorem pearson_wt : pearson w t = c / sqrt (1 + c * c).
  Proof.
    unfold pearson.
    assert (Ecw : forall i, centre w i = w i) by (intros i; unfold centre; rewrite mean_w; lra).
    assert (Ect : forall i, centre t i = a * u i) by (intros i; unfold centre; rewrite mean_t; unfold t; lra).
    assert (D1 : dot (centre w) (centre t) = a * c).
    { unfold dot. erewrite rsum_ext_in by (intros i _; rewrite Ecw, Ect; reflexivity).
      erewrite (rsum_ext_in _ (fun i => a * (w i * u i))) by (intros; lra). rewrite rsum_scal.
      change (rsum (fun i => w i * u i) idx) with (dot w u). unfold w. rewrite dot_lin_l, (dot_comm v u), Huv, Huu. lra. }
    assert (D2 : dot (centre w) (centre w) = 1 + c * c).
    { unfold dot. erewrite rsum_ext_in by (intros i _; rewrite Ecw; reflexivity).
      change (rsum (fun i => w i * w i) idx) with (dot w w). unfold w at 1. rewrite dot_lin_l.
      rewrite (dot_comm v w), (dot_comm u w). unfold w. rewrite !dot_lin_l, Hvv, Huu, Huv, (dot_comm v u), Huv. lra. }
    assert (D3 : dot (centre t) (centre t) = a * a).
    { unfold dot. erewrite rsum_ext_in by (intros i _; rewrite Ect; reflexivity).
      erewrite (rsum_ext_in _ (fun i => (a * a) * (u i * u i))) by (intros; lra). rewrite rsum_scal.
      change (rsum (fun i => u i * u i) idx) with (dot u u). rewrite Huu. lra. }
    rewrite D1, D2, D3.
    assert (Hpos : 0 < 1 + c * c) by nra.
    rewrite sqrt_mult by nra. rewrite sqrt_square by lra.
    assert (0 < sqrt (1 + c * c)) by (apply sqrt_lt_R0; exact Hpos).
    field. split; lra.
  Qed.
End Corr.

(* with c = cot (acos r) the correlation is exactly r *)
Lemma cot_acos r : -1 < r < 1 -> cos (acos r) / sin (acos r) = r / sqrt (1 - r * r).
Proof.
  intros H. rewrite cos_acos, sin_acos by lra. unfold Rsqr. reflexivity.
Qed.

Lemma corr_value r : -1 < r < 1 -> let c := r / sqrt (1 - r * r) in c / sqrt (1 + c * c) = r.
Proof.
  intros H c. assert (Hp : 0 < 1 - r * r) by nra.
  assert (Hs : 0 < sqrt (1 - r * r)) by (apply sqrt_lt_R0; exact Hp).
  assert (E : 1 + c * c = / (1 - r * r)).
  { replace (c * c) with (r * r / (sqrt (1 - r * r) * sqrt (1 - r * r))) by (unfold c; field; lra).
    rewrite sqrt_sqrt by lra. field. lra. }
  rewrite E, sqrt_inv. unfold c. field. lra.
Qed.
Print Assumptions pearson_wt.
