From Coq Require Import Reals List Lra Lia Arith Ratan R_sqrt.
From Outrank Require Import Common.RSum.
Import ListNotations.
Open Scope R_scope.

(* local copy (the MI library has the same lemma; C20 stays independent of it) *)
Lemma rsum_const_l {A} (k : R) (l : list A) : rsum (fun _ => k) l = INR (length l) * k.
Proof.
  induction l as [|a r IH]; [cbn; lra|]. rewrite rsum_cons, IH. cbn [length]. rewrite S_INR. lra.
Qed.

Section Corr.
  Variable n : nat.
  Hypothesis Hn : (0 < n)%nat.
  Definition vec := nat -> R.
  Definition idx := seq 0 n.
  Definition dot (u v : vec) : R := rsum (fun i => u i * v i) idx.
  Definition vsum (u : vec) : R := rsum u idx.
  Definition mean (u : vec) : R := vsum u / INR n.
  Definition centre (u : vec) : vec := fun i => u i - mean u.
  Definition pearson (u v : vec) : R :=
    dot (centre u) (centre v) / sqrt (dot (centre u) (centre u) * dot (centre v) (centre v)).

  Lemma n_pos : 0 < INR n. Proof. apply lt_0_INR. exact Hn. Qed.

  Lemma dot_lin_l a b (u v w : vec) : dot (fun i => a * u i + b * v i) w = a * dot u w + b * dot v w.
  Proof.
    unfold dot. rewrite <- !rsum_scal, <- rsum_plus. apply rsum_ext_in. intros i _. lra.
  Qed.
  Lemma dot_comm u v : dot u v = dot v u.
  Proof. unfold dot. apply rsum_ext_in. intros i _. lra. Qed.
  Lemma vsum_lin a b (u v : vec) : vsum (fun i => a * u i + b * v i) = a * vsum u + b * vsum v.
  Proof. unfold vsum. rewrite <- !rsum_scal, <- rsum_plus. reflexivity. Qed.
  Lemma vsum_const k : vsum (fun _ => k) = INR n * k.
  Proof. unfold vsum, idx. rewrite rsum_const_l, seq_length. reflexivity. Qed.

  Variables u v : vec.
  Hypothesis Hu0 : vsum u = 0.
  Hypothesis Hv0 : vsum v = 0.
  Hypothesis Huu : dot u u = 1.
  Hypothesis Hvv : dot v v = 1.
  Hypothesis Huv : dot u v = 0.

  (* the generated feature and the (affinely rescaled) source *)
  Variables c a b : R.
  Hypothesis Ha : 0 < a.
  Definition w : vec := fun i => 1 * v i + c * u i.
  Definition t : vec := fun i => a * u i + b * 1.

  Lemma mean_w : mean w = 0.
  Proof. unfold mean, w. rewrite vsum_lin, Hu0, Hv0. field. pose proof n_pos; lra. Qed.
  Lemma mean_t : mean t = b.
  Proof.
    unfold mean, t. rewrite (vsum_lin a b u (fun _ => 1)), Hu0, vsum_const. field. pose proof n_pos; lra.
  Qed.
  Lemma centre_w_ext : forall f, dot (centre w) f = dot w f.
  Proof. intros f. unfold dot. apply rsum_ext_in. intros i _. unfold centre. rewrite mean_w. lra. Qed.

  Theorem pearson_wt : pearson w t = c / sqrt (1 + c * c).
  Proof.
    unfold pearson.
    assert (Ecw : forall i, centre w i = w i) by (intros i; unfold centre; rewrite mean_w; lra).
    assert (Ect : forall i, centre t i = a * u i) by (intros i; unfold centre; rewrite mean_t; unfold t; lra).
    assert (D1 : dot (centre w) (centre t) = a * c).
    { unfold dot. erewrite rsum_ext_in by (intros i _; rewrite Ecw, Ect; reflexivity).
      erewrite (rsum_ext_in _ (fun i => a * (w i * u i))) by (intros; lra). rewrite rsum_scal.
      change (rsum (fun i => w i * u i) idx) with (dot w u). unfold w. rewrite dot_lin_l, (dot_comm v u), Huv, Huu. lra. }
    assert (D2 : dot (centre w) (centre w) = 1 + c * c).
    { unfold dot. erewrite rsum_ext_in by (intros i _; rewrite Ecw; reflexivity).
      change (rsum (fun i => w i * w i) idx) with (dot w w). unfold w at 1. rewrite dot_lin_l.
      rewrite (dot_comm v w), (dot_comm u w). unfold w. rewrite !dot_lin_l, Hvv, Huu, Huv, (dot_comm v u), Huv. lra. }
    assert (D3 : dot (centre t) (centre t) = a * a).
    { unfold dot. erewrite rsum_ext_in by (intros i _; rewrite Ect; reflexivity).
      erewrite (rsum_ext_in _ (fun i => (a * a) * (u i * u i))) by (intros; lra). rewrite rsum_scal.
      change (rsum (fun i => u i * u i) idx) with (dot u u). rewrite Huu. lra. }
    rewrite D1, D2, D3.
    assert (Hpos : 0 < 1 + c * c) by nra.
    rewrite sqrt_mult by nra. rewrite sqrt_square by lra.
    assert (0 < sqrt (1 + c * c)) by (apply sqrt_lt_R0; exact Hpos).
    field. split; lra.
  Qed.
End Corr.

(* with c = cot (acos r) the correlation is exactly r *)
Lemma cot_acos r : -1 < r < 1 -> cos (acos r) / sin (acos r) = r / sqrt (1 - r * r).
Proof.
  intros H. rewrite cos_acos, sin_acos by lra. unfold Rsqr. reflexivity.
Qed.

Lemma corr_value r : -1 < r < 1 -> let c := r / sqrt (1 - r * r) in c / sqrt (1 + c * c) = r.
Proof.
  intros H c. assert (Hp : 0 < 1 - r * r) by nra.
  assert (Hs : 0 < sqrt (1 - r * r)) by (apply sqrt_lt_R0; exact Hp).
  assert (E : 1 + c * c = / (1 - r * r)).
  { replace (c * c) with (r * r / (sqrt (1 - r * r) * sqrt (1 - r * r))) by (unfold c; field; lra).
    rewrite sqrt_sqrt by lra. field. lra. }
  rewrite E, sqrt_inv. unfold c. field. lra.
Qed.

(* pearson only looks at the entries 0..n-1 *)
Lemma vsum_ext n (u u' : vec) : (forall i, In i (idx n) -> u i = u' i) -> vsum n u = vsum n u'.
Proof. intros H. unfold vsum. apply rsum_ext_in. exact H. Qed.
Lemma dot_ext n (u u' v v' : vec) :
  (forall i, In i (idx n) -> u i = u' i) -> (forall i, In i (idx n) -> v i = v' i) -> dot n u v = dot n u' v'.
Proof. intros H1 H2. unfold dot. apply rsum_ext_in. intros i Hi. rewrite (H1 i Hi), (H2 i Hi). reflexivity. Qed.
Lemma centre_ext n (u u' : vec) : (forall i, In i (idx n) -> u i = u' i) -> forall i, In i (idx n) -> centre n u i = centre n u' i.
Proof. intros H i Hi. unfold centre, mean. rewrite (vsum_ext n u u' H), (H i Hi). reflexivity. Qed.
Lemma pearson_ext n (f f' g g' : vec) :
  (forall i, In i (idx n) -> f i = f' i) -> (forall i, In i (idx n) -> g i = g' i) -> pearson n f g = pearson n f' g'.
Proof.
  intros Hf Hg. unfold pearson.
  rewrite (dot_ext n (centre n f) (centre n f') (centre n g) (centre n g')) by (apply centre_ext; assumption).
  rewrite (dot_ext n (centre n f) (centre n f') (centre n f) (centre n f')) by (apply centre_ext; assumption).
  rewrite (dot_ext n (centre n g) (centre n g') (centre n g) (centre n g')) by (apply centre_ext; assumption).
  reflexivity.
Qed.

(* C20_corr: the algebra of the orthogonal-projection construction *)
Theorem corr_cot n (Hn : (0 < n)%nat) (u v : vec) r a b :
  vsum n u = 0 -> vsum n v = 0 -> dot n u u = 1 -> dot n v v = 1 -> dot n u v = 0 ->
  -1 < r < 1 -> 0 < a ->
  pearson n (fun i => v i + cos (acos r) / sin (acos r) * u i) (fun i => a * u i + b) = r.
Proof.
  intros Hu0 Hv0 Huu Hvv Huv Hr Ha.
  pose proof (pearson_wt n Hn u v Hu0 Hv0 Huu Hvv Huv (r / sqrt (1 - r * r)) a b Ha) as H.
  rewrite (corr_value r Hr) in H. rewrite (cot_acos r Hr).
  etransitivity; [|exact H]. apply pearson_ext; intros i _; unfold w, t; lra.
Qed.

(* the code writes 1 / tan(theta); for r <> 0 this is the cotangent *)
Lemma inv_tan_cot x : cos x <> 0 -> sin x <> 0 -> 1 / tan x = cos x / sin x.
Proof. intros Hc Hs. unfold tan. field. split; assumption. Qed.

Theorem corr_tan n (Hn : (0 < n)%nat) (u v : vec) r a b :
  vsum n u = 0 -> vsum n v = 0 -> dot n u u = 1 -> dot n v v = 1 -> dot n u v = 0 ->
  -1 < r < 1 -> r <> 0 -> 0 < a ->
  pearson n (fun i => v i + 1 / tan (acos r) * u i) (fun i => a * u i + b) = r.
Proof.
  intros Hu0 Hv0 Huu Hvv Huv Hr Hr0 Ha.
  assert (Hc : cos (acos r) <> 0) by (rewrite cos_acos by lra; exact Hr0).
  assert (Hs : sin (acos r) <> 0).
  { rewrite sin_acos by lra. assert (0 < sqrt (1 - Rsqr r)); [|lra]. apply sqrt_lt_R0. unfold Rsqr. nra. }
  rewrite (inv_tan_cot _ Hc Hs). apply corr_cot; assumption.
Qed.

(* ------------------------------------------------------------------------------------------ *)
(* The construction of generate_correlated over R, step by step as the code performs it:
     t_standard = (t - mean t) / kappa                  kappa = std(t) + 1e-10 > 0 (any positive number)
     z          = the (standardised) random vector      (any vector)
     M_centred  = [centre t_standard, centre z]
     Q          = first column / its norm               (QR of one column; the sign of Q cancels in Q Q^T)
     proj       = (I - Q Q^T) M_centred[:,1]
     Y          = columns of [M_centred[:,0], proj] scaled to unit norm
     corr       = Y[:,1] + cot(acos r) * Y[:,0]
   Hypotheses: the source is not constant and z is not an affine function of it (the two norms are non-zero). *)
Section Construct.
  Variable n : nat.
  Hypothesis Hn : (0 < n)%nat.
  Variables src z : vec.
  Variables kappa r : R.
  Hypothesis Hk : 0 < kappa.
  Hypothesis Hr : -1 < r < 1.

  Definition nrm (x : vec) : R := sqrt (dot n x x).
  Definition t_standard : vec := fun i => (src i - mean n src) / kappa.
  Definition m0 : vec := centre n t_standard.
  Definition m1 : vec := centre n z.
  Definition y0 : vec := fun i => m0 i / nrm m0.
  Definition proj : vec := fun i => m1 i - dot n y0 m1 * y0 i.
  Definition y1 : vec := fun i => proj i / nrm proj.
  Definition corr_feature : vec := fun i => y1 i + cos (acos r) / sin (acos r) * y0 i.

  Hypothesis Hsrc : 0 < dot n m0 m0.
  Hypothesis Hz : 0 < dot n proj proj.

  Lemma dot_scal_l k (u v : vec) : dot n (fun i => k * u i) v = k * dot n u v.
  Proof. unfold dot. rewrite <- rsum_scal. apply rsum_ext_in. intros; lra. Qed.
  Lemma dot_scal_r k (u v : vec) : dot n u (fun i => k * v i) = k * dot n u v.
  Proof. rewrite dot_comm, dot_scal_l, dot_comm. reflexivity. Qed.
  Lemma dot_sub_r (u v w : vec) : dot n u (fun i => v i - w i) = dot n u v - dot n u w.
  Proof. unfold dot. rewrite <- rsum_minus. apply rsum_ext_in. intros; lra. Qed.
  Lemma vsum_scal k (u : vec) : vsum n (fun i => k * u i) = k * vsum n u.
  Proof. unfold vsum. rewrite <- rsum_scal. reflexivity. Qed.
  Lemma vsum_sub (u v : vec) : vsum n (fun i => u i - v i) = vsum n u - vsum n v.
  Proof. unfold vsum. rewrite <- rsum_minus. reflexivity. Qed.
  Lemma vsum_centre (u : vec) : vsum n (centre n u) = 0.
  Proof.
    unfold centre. rewrite vsum_sub, vsum_const. unfold mean. field. pose proof (n_pos n Hn). lra.
  Qed.

  Lemma nrm_m0_pos : 0 < nrm m0. Proof. apply sqrt_lt_R0. exact Hsrc. Qed.
  Lemma nrm_proj_pos : 0 < nrm proj. Proof. apply sqrt_lt_R0. exact Hz. Qed.
  Lemma nrm_sq (x : vec) : 0 < dot n x x -> nrm x * nrm x = dot n x x.
  Proof. intros H. unfold nrm. apply sqrt_sqrt. lra. Qed.

  Lemma y0_sum : vsum n y0 = 0.
  Proof.
    unfold y0. erewrite vsum_ext by (intros i _; unfold Rdiv; rewrite Rmult_comm; reflexivity).
    rewrite vsum_scal. unfold m0. rewrite vsum_centre. lra.
  Qed.
  Lemma y0_unit : dot n y0 y0 = 1.
  Proof.
    unfold y0. erewrite dot_ext by (intros i _; unfold Rdiv; rewrite Rmult_comm; reflexivity).
    rewrite dot_scal_l, dot_scal_r. pose proof nrm_m0_pos. rewrite <- (nrm_sq m0 Hsrc). field. lra.
  Qed.
  Lemma proj_sum : vsum n proj = 0.
  Proof. unfold proj. rewrite vsum_sub, vsum_scal, y0_sum. unfold m1. rewrite vsum_centre. lra. Qed.
  Lemma y0_proj : dot n y0 proj = 0.
  Proof. unfold proj. rewrite dot_sub_r, dot_scal_r, y0_unit. lra. Qed.
  Lemma y1_sum : vsum n y1 = 0.
  Proof.
    unfold y1. erewrite vsum_ext by (intros i _; unfold Rdiv; rewrite Rmult_comm; reflexivity).
    rewrite vsum_scal, proj_sum. lra.
  Qed.
  Lemma y1_unit : dot n y1 y1 = 1.
  Proof.
    unfold y1. erewrite dot_ext by (intros i _; unfold Rdiv; rewrite Rmult_comm; reflexivity).
    rewrite dot_scal_l, dot_scal_r. pose proof nrm_proj_pos. rewrite <- (nrm_sq proj Hz). field. lra.
  Qed.
  Lemma y0_y1 : dot n y0 y1 = 0.
  Proof.
    unfold y1. rewrite (dot_ext n y0 y0 (fun i => proj i / nrm proj) (fun i => / nrm proj * proj i))
      by (intros i _; try reflexivity; unfold Rdiv; apply Rmult_comm).
    rewrite dot_scal_r, y0_proj. lra.
  Qed.

  (* the source is a positive affine image of Y[:,0]: the regulariser and both normalisations only rescale *)
  Lemma src_affine i : src i = (kappa * nrm m0) * y0 i + mean n src.
  Proof.
    assert (Hm : mean n t_standard = 0).
    { unfold mean, t_standard. erewrite vsum_ext by (intros j _; unfold Rdiv; rewrite Rmult_comm; reflexivity).
      rewrite vsum_scal. change (fun i0 => src i0 - mean n src) with (centre n src). rewrite vsum_centre. unfold Rdiv. ring. }
    assert (E : m0 i = (src i - mean n src) / kappa) by (unfold m0, centre; rewrite Hm; unfold t_standard; lra).
    pose proof nrm_m0_pos as HN. unfold y0. rewrite E. set (N := nrm m0) in *. field. split; lra.
  Qed.

  Theorem construction : pearson n corr_feature src = r.
  Proof.
    rewrite (pearson_ext n corr_feature (fun i => y1 i + cos (acos r) / sin (acos r) * y0 i)
                         src (fun i => (kappa * nrm m0) * y0 i + mean n src)).
    - apply corr_cot; try assumption.
      + exact y0_sum.
      + exact y1_sum.
      + exact y0_unit.
      + exact y1_unit.
      + exact y0_y1.
      + pose proof nrm_m0_pos. nra.
    - intros i _. reflexivity.
    - intros i _. apply src_affine.
  Qed.
End Construct.

(* non-vacuity of the hypotheses of corr_cot: two centred orthonormal vectors of length 4 *)
Example corr_hyp_sat :
  let u : vec := fun i => match i with 0%nat | 1%nat => 1 / 2 | _ => - (1 / 2) end in
  let v : vec := fun i => match i with 0%nat | 2%nat => 1 / 2 | _ => - (1 / 2) end in
  vsum 4 u = 0 /\ vsum 4 v = 0 /\ dot 4 u u = 1 /\ dot 4 v v = 1 /\ dot 4 u v = 0.
Proof. unfold vsum, dot, idx. cbn [seq rsum fold_right]. repeat split; lra. Qed.
