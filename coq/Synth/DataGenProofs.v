(* C19 — lemmas about the model of Synth/DataGen.v.  Statements used by Props/C19.v. *)
From Coq Require Import List Arith ZArith Bool Lia Permutation Sorted.
From Outrank Require Import Synth.DataGen.
Import ListNotations.
Open Scope Z_scope.

(* ---------------------------------------------------------------- boolean helpers *)

Lemma memZ_In v l : memZ v l = true <-> In v l.
Proof.
  unfold memZ. rewrite existsb_exists. split.
  - intros [x [H E]]. apply Z.eqb_eq in E. subst; auto.
  - intros H. exists v. split; auto. apply Z.eqb_refl.
Qed.

Lemma nodupb_NoDup l : nodupb l = true -> NoDup l.
Proof.
  induction l as [|x r IH]; cbn; intros H. constructor.
  apply andb_true_iff in H as [H1 H2]. constructor; auto.
  intro Hin. apply memZ_In in Hin. rewrite Hin in H1. discriminate.
Qed.

Lemma remove1_perm x l : forall l', remove1 x l = Some l' -> Permutation l (x :: l').
Proof.
  induction l as [|y r IH]; cbn; intros l' H. discriminate.
  destruct (Z.eqb_spec x y).
  - inversion H; subst. reflexivity.
  - destruct (remove1 x r) as [r'|] eqn:E; inversion H; subst.
    eapply perm_trans; [apply perm_skip, IH; reflexivity | apply perm_swap].
Qed.

Lemma permb_sound l1 : forall l2, permb l1 l2 = true -> Permutation l1 l2.
Proof.
  induction l1 as [|x r IH]; cbn; intros l2 H.
  - destruct l2; [constructor | discriminate].
  - destruct (remove1 x l2) as [l2'|] eqn:E; [|discriminate].
    apply remove1_perm in E. apply IH in H. symmetry in E.
    eapply perm_trans; [apply perm_skip, H | exact E].
Qed.

Lemma between_spec lo hi v : between lo hi v = true <-> lo <= v <= hi.
Proof. unfold between. rewrite andb_true_iff, !Z.leb_le. tauto. Qed.

Lemma arange_In lo c v : In v (arange lo c) <-> lo <= v < lo + Z.of_nat c.
Proof.
  unfold arange. rewrite in_map_iff. split.
  - intros [i [E Hi]]. apply in_seq in Hi. lia.
  - intros H. exists (Z.to_nat (v - lo)). split. lia. apply in_seq. lia.
Qed.

Lemma arange_length lo c : length (arange lo c) = c.
Proof. unfold arange. now rewrite map_length, seq_length. Qed.

(* ---------------------------------------------------------------- one feature *)

(* what "domain of a feature" means for each kind of declaration *)
Definition dom_ok (a : args) (sp : attrs) (vec : list Z) : Prop :=
  match sp with
  | ACard c =>
      if random_values a
      then length vec = c /\ NoDup vec /\ (forall v, In v vec -> low a <= v <= high a)
      else vec = arange (low a) c
  | AVals vs => vec = vs
  | AValsP vs _ => vec = vs
  end.

Definition feature_ok (cmp : nat -> nat -> bool) (a : args) (sp : attrs) (dc : list Z * list Z) : Prop :=
  let '(vec, col) := dc in
  dom_ok a sp vec /\
  length col = n_samples a /\
  (forall v, In v col -> In v vec) /\
  (forall v, In v col -> in_int32 v = true) /\
  (ensure_rep a = true -> cmp (length vec) (n_samples a) = true -> forall v, In v vec -> In v col).

Lemma get_domain_spec a sp s vec s' : get_domain a sp s = Ok (vec, s') -> dom_ok a sp vec.
Proof.
  unfold get_domain, dom_ok. destruct sp as [c|vs|vs ps]; intros H.
  - destruct (random_values a).
    + destruct s as [|[] s0]; try discriminate.
      destruct ((length l =? c)%nat && nodupb l && forallb (between (low a) (high a)) l) eqn:E; [|discriminate].
      inversion H; subst. apply andb_true_iff in E as [E E3]. apply andb_true_iff in E as [E1 E2].
      split. now apply Nat.eqb_eq. split. now apply nodupb_NoDup.
      intros v Hv. rewrite forallb_forall in E3. apply between_spec. auto.
    + now inversion H.
  - now inversion H.
  - now inversion H.
Qed.

Lemma gen_feature_gen_spec cmp a sp s vec col s' :
  (forall x y, cmp x y = true -> (x <= y)%nat) ->
  gen_feature_gen cmp a sp s = Ok (vec, col, s') -> feature_ok cmp a sp (vec, col).
Proof.
  intros Hc H. unfold gen_feature_gen in H.
  destruct (get_domain a sp s) as [[v1 s1]|] eqn:D; [|discriminate].
  destruct (get_weights sp v1 s1) as [s2|] eqn:W; [|discriminate].
  cbv zeta in H.
  remember (ensure_rep a && cmp (length v1) (n_samples a)) as rep eqn:Hrep.
  destruct s2 as [|[] s2]; try discriminate.
  destruct s2 as [|[] s3]; try discriminate.
  rename l into smp, l0 into sh.
  match type of H with (if ?c then _ else _) = _ => destruct c eqn:E1; [|discriminate] end.
  match type of H with (if ?c then _ else _) = _ => destruct c eqn:E2; [|discriminate] end.
  match type of H with (if ?c then _ else _) = _ => destruct c eqn:E3; [|discriminate] end.
  inversion H; subst vec col s'. clear H.
  apply andb_true_iff in E1 as [L1 M1]. apply Nat.eqb_eq in L1.
  apply permb_sound in E2. rewrite forallb_forall in M1, E3.
  apply get_domain_spec in D.
  unfold feature_ok. split; [exact D|]. split; [|split; [|split]].
  - rewrite <- (Permutation_length E2).
    destruct rep.
    + symmetry in Hrep. apply andb_true_iff in Hrep as [_ Hle]. apply Hc in Hle.
      rewrite app_length, L1. lia.
    + exact L1.
  - intros v Hv. apply (Permutation_in _ (Permutation_sym E2)) in Hv.
    destruct rep.
    + apply in_app_or in Hv as [Hv|Hv]; auto. apply memZ_In. auto.
    + apply memZ_In. auto.
  - intros v Hv. auto.
  - intros He Hcmp v Hv. rewrite He, Hcmp in Hrep. cbn in Hrep. subst rep.
    apply (Permutation_in _ E2). apply in_or_app. now right.
Qed.

Lemma gen_cols_gen_spec cmp a :
  (forall x y, cmp x y = true -> (x <= y)%nat) ->
  forall specs s dcs s', gen_cols_gen cmp a specs s = Ok (dcs, s') ->
  Forall2 (feature_ok cmp a) specs dcs.
Proof.
  intros Hc. induction specs as [|sp r IH]; cbn; intros s dcs s' H.
  - inversion H. constructor.
  - destruct (gen_feature_gen cmp a sp s) as [[[dom col] s1]|] eqn:F; [|discriminate].
    destruct (gen_cols_gen cmp a r s1) as [[cs s2]|] eqn:G; [|discriminate].
    inversion H; subst. constructor.
    + eapply gen_feature_gen_spec; eauto.
    + eapply IH; eauto.
Qed.

Lemma leb_le' x y : Nat.leb x y = true -> (x <= y)%nat.
Proof. apply Nat.leb_le. Qed.
Lemma ltb_le' x y : Nat.ltb x y = true -> (x <= y)%nat.
Proof. intros H. apply Nat.ltb_lt in H. lia. Qed.

(* ---------------------------------------------------------------- transpose *)

Lemma nth_nil_Z i : nth i (@nil Z) 0 = 0.
Proof. destruct i; reflexivity. Qed.

Lemma transpose_length n cols : length (transpose n cols) = n.
Proof. unfold transpose. now rewrite map_length, seq_length. Qed.

Lemma nth_map_seq {A} (f : nat -> A) n i d : (i < n)%nat -> nth i (map f (seq 0 n)) d = f i.
Proof.
  intros Hi. rewrite (nth_indep _ d (f O)) by (now rewrite map_length, seq_length).
  rewrite (map_nth f). now rewrite seq_nth.
Qed.

Lemma transpose_row n cols i : (i < n)%nat ->
  nth i (transpose n cols) [] = map (fun c => nth i c 0) cols.
Proof. intros Hi. unfold transpose. now rewrite nth_map_seq. Qed.

Lemma transpose_cell n cols i j : (i < n)%nat ->
  cell (transpose n cols) i j = nth i (nth j cols []) 0.
Proof.
  intros Hi. unfold cell. rewrite transpose_row by exact Hi.
  rewrite <- (nth_nil_Z i) at 1. apply (map_nth (fun c => nth i c 0)).
Qed.

Lemma transpose_rows_in n cols row : In row (transpose n cols) ->
  exists i, (i < n)%nat /\ row = map (fun c => nth i c 0) cols.
Proof.
  unfold transpose. rewrite in_map_iff. intros [i [E Hi]]. apply in_seq in Hi.
  exists i. split. lia. now symmetry.
Qed.

Lemma map_nth_seq (l : list Z) : map (fun i => nth i l 0) (seq 0 (length l)) = l.
Proof.
  apply (nth_ext _ _ 0 0).
  - now rewrite map_length, seq_length.
  - intros k Hk. rewrite map_length, seq_length in Hk. now rewrite nth_map_seq.
Qed.

Lemma transpose_column n cols j : length (nth j cols []) = n ->
  column (transpose n cols) j = nth j cols [].
Proof.
  intros L. unfold column, transpose. rewrite map_map.
  transitivity (map (fun i => nth i (nth j cols []) 0) (seq 0 n)).
  - apply map_ext_in. intros i Hi.
    rewrite <- (nth_nil_Z i) at 1. apply (map_nth (fun c => nth i c 0)).
  - rewrite <- L. apply map_nth_seq.
Qed.

(* ---------------------------------------------------------------- the whole run *)

(* inversion of a successful run *)
Lemma generate_full_gen_inv cmp a s X doms :
  generate_full_gen cmp a s = Ok (X, doms) ->
  exists specs dcs s1,
    s = RSeed (seed a) :: s1 /\
    layout a = Ok specs /\ gen_cols_gen cmp a specs s1 = Ok (dcs, []) /\
    X = transpose (n_samples a) (map snd dcs) /\ doms = map fst dcs.
Proof.
  unfold generate_full_gen. intros H.
  destruct s as [|[] s1]; try discriminate.
  destruct (Z.eqb_spec s (seed a)); [|discriminate]. subst s.
  destruct (layout a) as [specs|] eqn:L; [|discriminate].
  destruct (gen_cols_gen cmp a specs s1) as [[dcs rest]|] eqn:G; [|discriminate].
  destruct rest; [|discriminate]. inversion H; subst.
  exists specs, dcs, s1. auto.
Qed.

Lemma layout_length a specs : layout a = Ok specs -> length specs = n_features a.
Proof.
  unfold layout. intros H.
  destruct (nodup_nat (map fst (flat (structure a)))); [|discriminate].
  match type of H with (if ?c then _ else _) = _ => destruct c eqn:E; [|discriminate] end.
  inversion H; subst. now apply Nat.eqb_eq.
Qed.

Lemma Forall2_nth {A B} (R : A -> B -> Prop) l1 l2 d1 d2 j :
  Forall2 R l1 l2 -> (j < length l1)%nat -> R (nth j l1 d1) (nth j l2 d2).
Proof.
  intros H. revert j. induction H; cbn; intros j Hj. lia.
  destruct j; auto. apply IHForall2. lia.
Qed.

Lemma Forall2_len {A B} (R : A -> B -> Prop) l1 l2 : Forall2 R l1 l2 -> length l1 = length l2.
Proof. induction 1; cbn; auto. Qed.

Lemma Forall2_In_right {A B} (R : A -> B -> Prop) l1 l2 y :
  Forall2 R l1 l2 -> In y l2 -> exists x, In x l1 /\ R x y.
Proof.
  induction 1; cbn; intros Hy. contradiction.
  destruct Hy as [<-|Hy]. eauto. destruct (IHForall2 Hy) as [x' [? ?]]. eauto.
Qed.

Section Run.
  Variable cmp : nat -> nat -> bool.
  Hypothesis cmp_le : forall x y, cmp x y = true -> (x <= y)%nat.
  Variables (a : args) (s : list answer) (X doms : list (list Z)).
  Hypothesis RUN : generate_full_gen cmp a s = Ok (X, doms).

  Lemma run_cols : exists specs dcs,
      layout a = Ok specs /\ Forall2 (feature_ok cmp a) specs dcs /\
      length specs = n_features a /\ length dcs = n_features a /\
      X = transpose (n_samples a) (map snd dcs) /\ doms = map fst dcs.
  Proof.
    destruct (generate_full_gen_inv _ _ _ _ _ RUN) as (specs & dcs & s1 & _ & L & G & EX & ED).
    exists specs, dcs. pose proof (gen_cols_gen_spec cmp a cmp_le _ _ _ _ G) as F.
    pose proof (layout_length _ _ L) as LL.
    repeat split; auto. rewrite <- (Forall2_len _ _ _ F). exact LL.
  Qed.

  Lemma run_feature j : (j < n_features a)%nat -> exists specs,
      layout a = Ok specs /\
      feature_ok cmp a (nth j specs (dflt a)) (nth j doms [], column X j) /\
      (forall i, (i < n_samples a)%nat -> cell X i j = nth i (column X j) 0).
  Proof.
    intros Hj. destruct run_cols as (specs & dcs & L & F & LS & LD & EX & ED).
    exists specs. split; [exact L|].
    assert (FJ := Forall2_nth _ _ _ (dflt a) ([], []) j F ltac:(lia)).
    destruct (nth j dcs ([], [])) as [vec col] eqn:EJ.
    assert (Ed : nth j doms [] = vec).
    { subst doms. change (@nil Z) with (fst (@nil Z, @nil Z)). rewrite map_nth, EJ. reflexivity. }
    assert (Ec : nth j (map snd dcs) [] = col).
    { change (@nil Z) with (snd (@nil Z, @nil Z)). rewrite map_nth, EJ. reflexivity. }
    assert (Lc : length col = n_samples a) by (destruct FJ as (_ & Lc & _); exact Lc).
    assert (Ecol : column X j = col).
    { subst X. rewrite transpose_column; rewrite Ec; auto. }
    rewrite Ed, Ecol. split; [exact FJ|].
    intros i Hi. subst X. rewrite transpose_cell by exact Hi. now rewrite Ec.
  Qed.

  (* shape: n_samples rows of n_features cells, every cell an int32 *)
  Lemma run_shape :
    length X = n_samples a /\
    forall row, In row X -> length row = n_features a /\ forall v, In v row -> in_int32 v = true.
  Proof.
    destruct run_cols as (specs & dcs & L & F & LS & LD & EX & ED). subst X.
    split. apply transpose_length.
    intros row Hr. apply transpose_rows_in in Hr as [i [Hi ->]]. split.
    - now rewrite !map_length.
    - intros v Hv. apply in_map_iff in Hv as [c [<- Hc]].
      apply in_map_iff in Hc as [[vec col] [<- Hdc]]. cbn.
      destruct (Forall2_In_right _ _ _ _ F Hdc) as [sp [_ FO]]. destruct FO as (_ & Lc & _ & I32 & _).
      apply I32. apply nth_In. lia.
  Qed.

  (* every cell of column j is in domain j; domain j is what the layout's j-th declaration says *)
  Lemma run_domain : exists specs, layout a = Ok specs /\ length doms = n_features a /\
    forall j, (j < n_features a)%nat ->
      dom_ok a (nth j specs (dflt a)) (nth j doms []) /\
      forall i, (i < n_samples a)%nat -> In (cell X i j) (nth j doms []).
  Proof.
    destruct run_cols as (specs & dcs & L & F & LS & LD & EX & ED).
    exists specs. split; [exact L|]. split. { subst doms. now rewrite map_length. }
    intros j Hj. destruct (run_feature j Hj) as (specs' & L' & FO & CE).
    rewrite L in L'. inversion L'; subst specs'.
    destruct FO as (D & Lc & Iv & _). split; [exact D|].
    intros i Hi. rewrite CE by exact Hi. apply Iv. apply nth_In. lia.
  Qed.

  Lemma run_ensure_rep : ensure_rep a = true ->
    forall j, (j < n_features a)%nat -> cmp (length (nth j doms [])) (n_samples a) = true ->
    forall v, In v (nth j doms []) -> exists i, (i < n_samples a)%nat /\ cell X i j = v.
  Proof.
    intros He j Hj Hc v Hv. destruct (run_feature j Hj) as (specs & L & FO & CE).
    destruct FO as (_ & Lc & _ & _ & R). specialize (R He Hc v Hv).
    destruct (In_nth _ _ 0 R) as [i [Hi E]]. exists i. split. lia. rewrite CE by lia. exact E.
  Qed.
End Run.

Lemma run_ensure_rep_le a s X doms : generate_full a s = Ok (X, doms) -> ensure_rep a = true ->
  forall j, (j < n_features a)%nat -> (length (nth j doms []) <= n_samples a)%nat ->
  forall v, In v (nth j doms []) -> exists i, (i < n_samples a)%nat /\ cell X i j = v.
Proof.
  intros G He j Hj Hl. apply (run_ensure_rep Nat.leb leb_le' a s X doms G He j Hj).
  now apply Nat.leb_le.
Qed.

(* ---------------------------------------------------------------- positions *)

Lemma map_const_repeat {A B} (f : A -> B) d l : (forall x, In x l -> f x = d) -> map f l = repeat d (length l).
Proof.
  induction l as [|x r IH]; cbn; intros H. reflexivity.
  rewrite H by auto. f_equal. apply IH. auto.
Qed.

Lemma declared_in_below d : forall r lo j,
  increasing_from lo (map fst r) = true -> (j < lo)%nat -> declared_in d r j = d.
Proof.
  induction r as [|[i at_] r IH]; cbn; intros lo j H Hj. reflexivity.
  apply andb_true_iff in H as [H1 H2]. apply Nat.leb_le in H1.
  destruct (Nat.eqb_spec i j). lia. apply (IH (S i)); auto. lia.
Qed.

(* with every index described once, [declared_in] is the unique attribute listed for j ... *)
Lemma declared_in_In d : forall (l : list (nat * attrs)) j at_,
  NoDup (map fst l) -> In (j, at_) l -> declared_in d l j = at_.
Proof.
  induction l as [|[i b] r IH]; cbn; intros j at_ Hn Hin. contradiction.
  inversion Hn as [|x xs Hni Hn']; subst.
  destruct Hin as [E|Hin].
  - inversion E; subst. now rewrite Nat.eqb_refl.
  - destruct (Nat.eqb_spec i j).
    + subst i. exfalso. apply Hni. apply in_map_iff. exists (j, at_). auto.
    + apply IH; auto.
Qed.

(* ... and the default where j is not described *)
Lemma declared_in_notin d : forall (l : list (nat * attrs)) j,
  ~ In j (map fst l) -> declared_in d l j = d.
Proof.
  induction l as [|[i b] r IH]; cbn; intros j Hn. reflexivity.
  destruct (Nat.eqb_spec i j). exfalso; auto. apply IH. auto.
Qed.

Lemma declared_in_perm d l l' j : Permutation l l' -> NoDup (map fst l) ->
  declared_in d l j = declared_in d l' j.
Proof.
  intros P Hn.
  assert (Hn' : NoDup (map fst l')) by (eapply Permutation_NoDup; [apply Permutation_map, P | exact Hn]).
  destruct (in_dec Nat.eq_dec j (map fst l)) as [Hin|Hout].
  - apply in_map_iff in Hin as [[i at_] [E Hin]]. cbn in E. subst i.
    rewrite (declared_in_In d l j at_ Hn Hin).
    symmetry. apply declared_in_In; auto. eapply Permutation_in; eauto.
  - rewrite (declared_in_notin d l j Hout). symmetry. apply declared_in_notin.
    intro H. apply Hout. eapply Permutation_in; [apply Permutation_map, Permutation_sym, P | exact H].
Qed.

Lemma nodup_nat_NoDup l : nodup_nat l = true <-> NoDup l.
Proof.
  induction l as [|x r IH]; cbn. split; auto. constructor.
  rewrite andb_true_iff, IH, negb_true_iff. split.
  - intros [H1 H2]. constructor; auto. intro Hin.
    assert (existsb (Nat.eqb x) r = true) by (apply existsb_exists; exists x; split; auto; apply Nat.eqb_refl).
    congruence.
  - intros H. inversion H; subst. split; auto.
    destruct (existsb (Nat.eqb x) r) eqn:E; auto. apply existsb_exists in E as [y [Hy E]].
    apply Nat.eqb_eq in E. subst y. contradiction.
Qed.

(* the ordering step *)
Lemma insert_ix_perm p l : Permutation (insert_ix p l) (p :: l).
Proof.
  induction l as [|q r IH]; cbn. reflexivity.
  destruct (fst p <=? fst q)%nat. reflexivity.
  eapply perm_trans; [apply perm_skip, IH | apply perm_swap].
Qed.

Lemma sort_ix_perm l : Permutation (sort_ix l) l.
Proof.
  induction l as [|p r IH]; cbn. constructor.
  eapply perm_trans; [apply insert_ix_perm | apply perm_skip, IH].
Qed.

Lemma insert_ix_sorted p l :
  StronglySorted lt (map fst l) -> ~ In (fst p) (map fst l) ->
  StronglySorted lt (map fst (insert_ix p l)).
Proof.
  induction l as [|q r IH]; cbn; intros HS Hn.
  - constructor; constructor.
  - inversion HS as [|x xs HS' HF]; subst.
    destruct (Nat.leb_spec (fst p) (fst q)) as [Hle|Hgt]; cbn.
    + assert (fst p < fst q)%nat by (assert (fst q <> fst p) by tauto; lia).
      constructor. exact HS. constructor. assumption.
      eapply Forall_impl; [|exact HF]. cbn. intros. lia.
    + constructor. apply IH; auto.
      apply Forall_forall. intros k Hk.
      assert (Hk' : In k (map fst (p :: r))).
      { eapply Permutation_in; [apply Permutation_map, insert_ix_perm | exact Hk]. }
      cbn in Hk'. destruct Hk' as [<-|Hk']. exact Hgt. rewrite Forall_forall in HF. auto.
Qed.

Lemma sort_ix_sorted l : NoDup (map fst l) -> StronglySorted lt (map fst (sort_ix l)).
Proof.
  induction l as [|p r IH]; cbn; intros Hn. constructor.
  inversion Hn; subst. apply insert_ix_sorted. auto.
  intro H. apply H1. eapply Permutation_in; [apply Permutation_map, sort_ix_perm | exact H].
Qed.

Lemma sorted_increasing : forall ks lo, StronglySorted lt ks -> (forall k, In k ks -> (lo <= k)%nat) ->
  increasing_from lo ks = true.
Proof.
  induction ks as [|k r IH]; cbn; intros lo HS Hlo. reflexivity.
  inversion HS; subst. apply andb_true_iff. split. apply Nat.leb_le. auto.
  apply IH; auto. intros k' Hk'. rewrite Forall_forall in H2. specialize (H2 _ Hk'). lia.
Qed.

Lemma place_all_sorted d n : forall fl acc,
  increasing_from (length acc) (map fst fl) = true ->
  forallb (fun i => (i <? n)%nat) (map fst fl) = true ->
  (length acc <= n)%nat ->
  exists k, place_all d fl acc = acc ++ map (declared_in d fl) (seq (length acc) k) /\
            (length acc + k <= n)%nat /\
            (forall j, (length acc + k <= j)%nat -> declared_in d fl j = d).
Proof.
  induction fl as [|[i at_] r IH]; intros acc Hinc Hlt Hacc.
  - exists O. cbn. rewrite app_nil_r. repeat split; auto. lia.
  - cbn in Hinc, Hlt. apply andb_true_iff in Hinc as [H1 H2]. apply andb_true_iff in Hlt as [H3 H4].
    apply Nat.leb_le in H1. apply Nat.ltb_lt in H3.
    set (acc1 := place d acc i at_).
    assert (L1 : length acc1 = S i).
    { unfold acc1, place. rewrite !app_length, repeat_length. cbn. lia. }
    destruct (IH acc1) as (k1 & E & B & Hd).
    { now rewrite L1. } { exact H4. } { lia. }
    exists ((i - length acc) + 1 + k1)%nat. split; [|split].
    + change (place_all d ((i, at_) :: r) acc) with (place_all d r acc1). rewrite E.
      rewrite L1.
      assert (ES : seq (length acc) (i - length acc + 1 + k1)
                   = seq (length acc) (i - length acc) ++ [i] ++ seq (S i) k1).
      { rewrite !seq_app. rewrite <- app_assoc. cbn [seq].
        replace (length acc + (i - length acc))%nat with i by lia.
        replace (length acc + (i - length acc + 1))%nat with (S i) by lia. reflexivity. }
      rewrite ES, !map_app. unfold acc1, place. rewrite <- !app_assoc. f_equal.
      f_equal; [|f_equal].
      * rewrite <- (seq_length (i - length acc) (length acc)) at 1. symmetry.
        apply map_const_repeat. intros j Hj. apply in_seq in Hj. cbn.
        destruct (Nat.eqb_spec i j). lia. apply (declared_in_below d r (S i)); auto. lia.
      * cbn. now rewrite Nat.eqb_refl.
      * apply map_ext_in. intros j Hj. apply in_seq in Hj. cbn.
        destruct (Nat.eqb_spec i j). lia. reflexivity.
    + rewrite L1 in B. lia.
    + intros j Hj. cbn. destruct (Nat.eqb_spec i j). lia. apply Hd. rewrite L1. lia.
Qed.

Lemma wf_structure_spec a : wf_structure a = true ->
  NoDup (map fst (flat (structure a))) /\
  forall i, In i (map fst (flat (structure a))) -> (i < n_features a)%nat.
Proof.
  unfold wf_structure. intros H. apply andb_true_iff in H as [H1 H2]. split.
  - now apply nodup_nat_NoDup.
  - rewrite forallb_forall in H2. intros i Hi. apply Nat.ltb_lt. auto.
Qed.

(* every index described once and in range, IN ANY ORDER: column j carries the feature declared for j *)
Lemma layout_wf a : wf_structure a = true ->
  layout a = Ok (map (declared a) (seq 0 (n_features a))).
Proof.
  intros H. destruct (wf_structure_spec a H) as [Hn Hr].
  unfold wf_structure in H. apply andb_true_iff in H as [H1 _].
  unfold layout. rewrite H1.
  set (fl := flat (structure a)) in *. set (sl := sort_ix fl).
  assert (P : Permutation sl fl) by apply sort_ix_perm.
  assert (Hinc : increasing_from 0 (map fst sl) = true).
  { apply sorted_increasing. now apply sort_ix_sorted. intros; lia. }
  assert (Hlt : forallb (fun i => (i <? n_features a)%nat) (map fst sl) = true).
  { apply forallb_forall. intros i Hi. apply Nat.ltb_lt. apply Hr.
    eapply Permutation_in; [apply Permutation_map, P | exact Hi]. }
  destruct (place_all_sorted (dflt a) (n_features a) sl [] Hinc Hlt ltac:(cbn; lia)) as (k & E & B & Hd).
  cbn in E, B, Hd. rewrite E.
  assert (ED : forall j, declared_in (dflt a) sl j = declared a j).
  { intros j. unfold declared. symmetry. apply declared_in_perm. now apply Permutation_sym. exact Hn. }
  assert (EQ : map (declared_in (dflt a) sl) (seq 0 k) ++
               repeat (dflt a) (n_features a - length (map (declared_in (dflt a) sl) (seq 0 k)))
               = map (declared a) (seq 0 (n_features a))).
  { rewrite map_length, seq_length.
    replace (n_features a) with (k + (n_features a - k))%nat at 2 by lia.
    rewrite seq_app, map_app. f_equal.
    - apply map_ext. exact ED.
    - cbn. rewrite <- (seq_length (n_features a - k) k) at 1. symmetry.
      apply map_const_repeat. intros j Hj. apply in_seq in Hj. rewrite <- ED. apply Hd. lia. }
  rewrite EQ. rewrite map_length, seq_length, Nat.eqb_refl. reflexivity.
Qed.

Lemma layout_positions a i at_ : wf_structure a = true -> In (i, at_) (flat (structure a)) ->
  exists specs, layout a = Ok specs /\ (i < n_features a)%nat /\ nth i specs (dflt a) = at_.
Proof.
  intros H Hin. exists (map (declared a) (seq 0 (n_features a))). split. now apply layout_wf.
  destruct (wf_structure_spec a H) as [Hn Hr].
  assert (Hi : (i < n_features a)%nat).
  { apply Hr. apply in_map_iff. exists (i, at_). auto. }
  split; [exact Hi|]. rewrite nth_map_seq by exact Hi. unfold declared.
  now apply declared_in_In.
Qed.

Lemma layout_default a j : wf_structure a = true -> (j < n_features a)%nat ->
  ~ In j (map fst (flat (structure a))) ->
  exists specs, layout a = Ok specs /\ nth j specs (dflt a) = dflt a.
Proof.
  intros H Hj Hn. exists (map (declared a) (seq 0 (n_features a))). split. now apply layout_wf.
  rewrite nth_map_seq by exact Hj. unfold declared. now apply declared_in_notin.
Qed.

(* an index described twice: the code raises ValueError *)
Lemma layout_rejects_duplicates a : ~ NoDup (map fst (flat (structure a))) -> layout a = Err 21.
Proof.
  intros H. unfold layout. destruct (nodup_nat (map fst (flat (structure a)))) eqn:E; [|reflexivity].
  apply nodup_nat_NoDup in E. contradiction.
Qed.

(* before the ordering repair: the code placed a feature at the running counter, not at its index *)
Definition unsorted_witness : args :=
  mkArgs 4 3 5 (Some [SOne 2 (ACard 2); SOne 0 (AVals [5; 6])]) false false 0 1000 3.

Lemma positions_unsorted_prefix_refuted :
  exists a i at_ specs,
    In (i, at_) (flat (structure a)) /\ wf_structure a = true /\
    layout_old a = Ok specs /\ nth i specs (dflt a) <> at_.
Proof.
  exists unsorted_witness, O, (AVals [5; 6]), [ACard 5; ACard 5; ACard 2; AVals [5; 6]].
  split. cbn; auto. split. reflexivity. split. reflexivity. cbn. discriminate.
Qed.

Example unsorted_witness_now :
  layout unsorted_witness = Ok [AVals [5; 6]; ACard 5; ACard 2; ACard 5].
Proof. reflexivity. Qed.

(* ---------------------------------------------------------------- the validator *)

Definition listed_prop (a : args) (vs col : list Z) : Prop :=
  (forall v, In v col -> In v vs) /\
  (ensure_rep a = true -> (length vs <= n_samples a)%nat -> forall v, In v vs -> In v col).

Definition col_prop (a : args) (sp : attrs) (col : list Z) : Prop :=
  match sp with
  | ACard c =>
      if random_values a then
        (forall v, In v col -> low a <= v <= high a) /\ (length (distinct col) <= c)%nat /\
        (ensure_rep a = true -> (c <= n_samples a)%nat -> length (distinct col) = c)
      else listed_prop a (arange (low a) c) col
  | AVals vs => listed_prop a vs col
  | AValsP vs _ => listed_prop a vs col
  end.

Lemma listed_sound a vs col :
  forallb (fun v => memZ v vs) col &&
  (if ensure_rep a && (length vs <=? n_samples a)%nat then forallb (fun v => memZ v col) vs else true) = true ->
  listed_prop a vs col.
Proof.
  intros H. apply andb_true_iff in H as [H1 H2]. rewrite forallb_forall in H1. split.
  - intros v Hv. apply memZ_In. auto.
  - intros He Hl v Hv. rewrite He in H2. apply Nat.leb_le in Hl. rewrite Hl in H2. cbn in H2.
    rewrite forallb_forall in H2. apply memZ_In. auto.
Qed.

Lemma col_ok_sound a sp col : col_ok a sp col = true -> col_prop a sp col.
Proof.
  unfold col_ok, col_prop. destruct sp as [c|vs|vs ps]; try apply listed_sound.
  destruct (random_values a); [|apply listed_sound].
  intros H. apply andb_true_iff in H as [H H3]. apply andb_true_iff in H as [H1 H2].
  rewrite forallb_forall in H1. split; [|split].
  - intros v Hv. apply between_spec. auto.
  - now apply Nat.leb_le.
  - intros He Hc. rewrite He in H3. apply Nat.leb_le in Hc. rewrite Hc in H3. cbn in H3.
    now apply Nat.eqb_eq.
Qed.

Lemma shape_ok_sound a X : shape_ok a X = true ->
  length X = n_samples a /\
  forall row, In row X -> length row = n_features a /\ forall v, In v row -> in_int32 v = true.
Proof.
  unfold shape_ok. intros H. apply andb_true_iff in H as [H1 H2]. split. now apply Nat.eqb_eq.
  rewrite forallb_forall in H2. intros row Hr. specialize (H2 _ Hr).
  apply andb_true_iff in H2 as [H2 H3]. split. now apply Nat.eqb_eq. now rewrite forallb_forall in H3.
Qed.

Lemma valid_dataset_sound a X : valid_dataset a X = true ->
  length X = n_samples a /\
  (forall row, In row X -> length row = n_features a /\ forall v, In v row -> in_int32 v = true) /\
  exists specs, layout a = Ok specs /\
    (forall j, (j < n_features a)%nat -> col_prop a (nth j specs (dflt a)) (column X j)) /\
    (wf_structure a = true -> forall j, (j < n_features a)%nat -> nth j specs (dflt a) = declared a j).
Proof.
  unfold valid_dataset. intros H. apply andb_true_iff in H as [H1 H2].
  apply shape_ok_sound in H1 as [S1 S2]. split; [exact S1|]. split; [exact S2|].
  destruct (layout a) as [specs|] eqn:L; [|discriminate]. exists specs. split; [reflexivity|]. split.
  - intros j Hj. rewrite forallb_forall in H2. apply col_ok_sound. apply H2. apply in_seq. lia.
  - intros Hw j Hj. rewrite (layout_wf a Hw) in L. inversion L; subst specs. now rewrite nth_map_seq.
Qed.

Lemma listed_complete a vs col :
  (forall v, In v col -> In v vs) ->
  (ensure_rep a = true -> Nat.leb (length vs) (n_samples a) = true -> forall v, In v vs -> In v col) ->
  forallb (fun v => memZ v vs) col &&
  (if ensure_rep a && (length vs <=? n_samples a)%nat then forallb (fun v => memZ v col) vs else true) = true.
Proof.
  intros H1 H2. apply andb_true_iff. split.
  - apply forallb_forall. intros v Hv. apply memZ_In. auto.
  - destruct (ensure_rep a); cbn; [|reflexivity].
    destruct (length vs <=? n_samples a)%nat eqn:E; [|reflexivity].
    apply forallb_forall. intros v Hv. apply memZ_In. auto.
Qed.

Lemma col_ok_of_feature a sp vec col : feature_ok Nat.leb a sp (vec, col) -> col_ok a sp col = true.
Proof.
  intros (D & Lc & Iv & _ & R). unfold col_ok. unfold dom_ok in D.
  destruct sp as [c|vs|vs ps]; try (subst vec; now apply listed_complete).
  destruct (random_values a); [|subst vec; now apply listed_complete].
  destruct D as (Lv & Nd & Rg).
  assert (Hincl : incl (distinct col) vec).
  { intros v Hv. apply Iv. unfold distinct in Hv. now apply nodup_In in Hv. }
  assert (Hle : (length (distinct col) <= c)%nat).
  { rewrite <- Lv. apply NoDup_incl_length; auto. apply NoDup_nodup. }
  apply andb_true_iff. split. apply andb_true_iff. split.
  - apply forallb_forall. intros v Hv. apply between_spec. auto.
  - now apply Nat.leb_le.
  - destruct (ensure_rep a); cbn; [|reflexivity].
    destruct (c <=? n_samples a)%nat eqn:E; [|reflexivity].
    apply Nat.eqb_eq. apply Nat.le_antisymm; [exact Hle|].
    rewrite <- Lv. apply NoDup_incl_length; auto.
    intros v Hv. unfold distinct. apply nodup_In. apply R; auto. now rewrite Lv.
Qed.

Lemma model_passes_validator a s X : generate a s = Ok X -> valid_dataset a X = true.
Proof.
  intros H. unfold generate in H.
  destruct (generate_full a s) as [[X' doms]|] eqn:G; [|discriminate]. inversion H; subst X'. clear H.
  unfold generate_full in G. unfold valid_dataset. apply andb_true_iff. split.
  - destruct (run_shape Nat.leb leb_le' a s X doms G) as [S1 S2].
    unfold shape_ok. apply andb_true_iff. split. now apply Nat.eqb_eq.
    apply forallb_forall. intros row Hr. destruct (S2 _ Hr) as [L I]. apply andb_true_iff. split.
    now apply Nat.eqb_eq. now apply forallb_forall.
  - destruct (run_cols Nat.leb leb_le' a s X doms G) as (specs & dcs & L & _).
    rewrite L. apply forallb_forall. intros j Hj. apply in_seq in Hj.
    destruct (run_feature Nat.leb leb_le' a s X doms G j ltac:(lia)) as (specs' & L' & FO & _).
    rewrite L in L'. inversion L'; subst specs'. eapply col_ok_of_feature; eauto.
Qed.

(* ---------------------------------------------------------------- the RNG call pattern *)

Lemma gen_feature_pattern cmp a sp s vec col s' :
  gen_feature_gen cmp a sp s = Ok (vec, col, s') ->
  map kind_of s = feature_pattern a sp ++ map kind_of s'.
Proof.
  unfold gen_feature_gen, feature_pattern. intros H.
  destruct (get_domain a sp s) as [[v1 s1]|] eqn:D; [|discriminate].
  destruct (get_weights sp v1 s1) as [s2|] eqn:W; [|discriminate].
  cbv zeta in H.
  destruct s2 as [|[] s2]; try discriminate.
  destruct s2 as [|[] s3]; try discriminate.
  repeat match type of H with (if ?c then _ else _) = _ => destruct c; [|discriminate] end.
  inversion H; subst vec col s'. clear H.
  assert (ED : map kind_of s =
               (match sp with ACard _ => if random_values a then [1] else [] | _ => [] end) ++ map kind_of s1).
  { unfold get_domain in D. destruct sp as [c|vs|vs ps].
    - destruct (random_values a).
      + destruct s as [|[] s0]; try discriminate.
        match type of D with (if ?c then _ else _) = _ => destruct c; [|discriminate] end.
        inversion D; subst. reflexivity.
      + inversion D; subst. reflexivity.
    - inversion D; subst. reflexivity.
    - inversion D; subst. reflexivity. }
  assert (EW : map kind_of s1 = (match sp with AValsP _ _ => [] | _ => [2] end) ++ map kind_of (RChoice l :: RShuffle l0 :: s3)).
  { unfold get_weights in W. destruct sp as [c|vs|vs ps].
    - destruct s1 as [|[] s0]; try discriminate.
      match type of W with (if ?c then _ else _) = _ => destruct c; [|discriminate] end.
      inversion W; subst. reflexivity.
    - destruct s1 as [|[] s0]; try discriminate.
      match type of W with (if ?c then _ else _) = _ => destruct c; [|discriminate] end.
      inversion W; subst. reflexivity.
    - match type of W with (if ?c then _ else _) = _ => destruct c; [|discriminate] end.
      inversion W; subst. reflexivity. }
  rewrite ED, EW. cbn [map kind_of]. rewrite <- !app_assoc. reflexivity.
Qed.

Lemma gen_cols_pattern cmp a : forall specs s dcs rest,
  gen_cols_gen cmp a specs s = Ok (dcs, rest) ->
  map kind_of s = flat_map (feature_pattern a) specs ++ map kind_of rest.
Proof.
  induction specs as [|sp r IH]; cbn; intros s dcs rest H.
  - inversion H; subst. reflexivity.
  - destruct (gen_feature_gen cmp a sp s) as [[[dom col] s1]|] eqn:F; [|discriminate].
    destruct (gen_cols_gen cmp a r s1) as [[cs s2]|] eqn:G; [|discriminate].
    inversion H; subst. rewrite (gen_feature_pattern _ _ _ _ _ _ _ F), (IH _ _ _ G).
    now rewrite app_assoc.
Qed.

(* a successful run made exactly the calls of [call_pattern], in that order *)
Lemma run_pattern a s X doms : generate_full a s = Ok (X, doms) -> map kind_of s = call_pattern a.
Proof.
  intros G. destruct (generate_full_gen_inv _ _ _ _ _ G) as (specs & dcs & s1 & E & L & C & _).
  subst s. unfold call_pattern. rewrite L. cbn. f_equal.
  rewrite (gen_cols_pattern _ _ _ _ _ _ C). cbn. apply app_nil_r.
Qed.

(* ---------------------------------------------------------------- progress *)

Lemma nodupb_complete l : NoDup l -> nodupb l = true.
Proof.
  induction 1 as [|x r Hn _ IH]; cbn. reflexivity.
  rewrite IH, andb_true_r. destruct (memZ x r) eqn:E; [|reflexivity].
  apply memZ_In in E. contradiction.
Qed.

Lemma remove1_complete x l : In x l -> exists l', remove1 x l = Some l' /\ Permutation l (x :: l').
Proof.
  induction l as [|y r IH]; cbn; intros H. contradiction.
  destruct (Z.eqb_spec x y).
  - subst. exists r. split; reflexivity.
  - destruct H as [H|H]. congruence. destruct (IH H) as [r' [E P]]. rewrite E.
    exists (y :: r'). split. reflexivity.
    eapply perm_trans; [apply perm_skip, P | apply perm_swap].
Qed.

Lemma permb_complete l1 : forall l2, Permutation l1 l2 -> permb l1 l2 = true.
Proof.
  induction l1 as [|x r IH]; cbn; intros l2 P.
  - apply Permutation_nil in P. now subst.
  - assert (Hin : In x l2) by (eapply Permutation_in; [exact P | now left]).
    destruct (remove1_complete x l2 Hin) as [l2' [E P2]]. rewrite E. apply IH.
    apply (Permutation_cons_inv (a := x)). eapply perm_trans; eauto.
Qed.

(* numpy's contract for the calls of one feature.  [vec] is the feature's domain. *)
Definition domain_stream (a : args) (sp : attrs) (vec : list Z) (pre : list answer) : Prop :=
  match sp with
  | ACard c =>
      if random_values a
      then pre = [RChoice vec] /\ length vec = c /\ NoDup vec /\ (forall v, In v vec -> low a <= v <= high a)
      else pre = [] /\ vec = arange (low a) c
  | AVals vs => pre = [] /\ vec = vs
  | AValsP vs _ => pre = [] /\ vec = vs
  end.

(* frequencies given: np.random.choice accepts them; otherwise the centre is drawn with randint(len(vec)) *)
Definition weight_stream (sp : attrs) (vec : list Z) (w : list answer) : Prop :=
  match sp with
  | AValsP _ ps => w = [] /\ length ps = length vec /\ (forall p, In p ps -> 0 <= p) /\ 0 < sumZ ps
  | _ => exists r, w = [RRandint r] /\ 0 <= r < Z.of_nat (length vec)
  end.

Inductive feature_stream (a : args) (sp : attrs) (vec : list Z) : list answer -> Prop :=
| FS : forall pre w smp sh,
    domain_stream a sp vec pre ->
    weight_stream sp vec w ->
    length smp = (if ensure_rep a && (length vec <=? n_samples a)%nat
                  then n_samples a - length vec else n_samples a)%nat ->
    (forall v, In v smp -> In v vec) ->
    Permutation (if ensure_rep a && (length vec <=? n_samples a)%nat then smp ++ vec else smp) sh ->
    feature_stream a sp vec (pre ++ w ++ [RChoice smp; RShuffle sh]).

Inductive cols_stream (a : args) : list attrs -> list (list Z) -> list answer -> Prop :=
| CS_nil : cols_stream a [] [] []
| CS_cons : forall sp r vec doms s1 s2,
    feature_stream a sp vec s1 -> cols_stream a r doms s2 ->
    cols_stream a (sp :: r) (vec :: doms) (s1 ++ s2).

Lemma gen_feature_progress a sp vec s1 rest :
  feature_stream a sp vec s1 -> (forall v, In v vec -> in_int32 v = true) ->
  exists col, gen_feature a sp (s1 ++ rest) = Ok (vec, col, rest).
Proof.
  intros FSt I32. destruct FSt as [pre w smp sh D W L M P].
  exists sh. unfold gen_feature, gen_feature_gen. rewrite <- !app_assoc.
  assert (ED : get_domain a sp (pre ++ w ++ [RChoice smp; RShuffle sh] ++ rest)
               = Ok (vec, w ++ [RChoice smp; RShuffle sh] ++ rest)).
  { unfold get_domain, domain_stream in *. destruct sp as [c|vs|vs ps].
    - destruct (random_values a).
      + destruct D as (-> & Lv & Nd & Rg). cbn [app].
        rewrite Lv, Nat.eqb_refl, (nodupb_complete _ Nd). cbn [andb].
        assert (forallb (between (low a) (high a)) vec = true) as ->.
        { apply forallb_forall. intros v Hv. apply between_spec. auto. }
        reflexivity.
      + destruct D as (-> & ->). reflexivity.
    - destruct D as (-> & ->). reflexivity.
    - destruct D as (-> & ->). reflexivity. }
  rewrite ED.
  assert (EW : get_weights sp vec (w ++ [RChoice smp; RShuffle sh] ++ rest)
               = Ok ([RChoice smp; RShuffle sh] ++ rest)).
  { unfold get_weights, weight_stream in *. destruct sp as [c|vs|vs ps].
    - destruct W as (r & -> & Hr). cbn [app].
      assert ((0 <=? r) && (r <? Z.of_nat (length vec)) = true) as ->.
      { apply andb_true_iff. split. apply Z.leb_le; lia. apply Z.ltb_lt; lia. }
      reflexivity.
    - destruct W as (r & -> & Hr). cbn [app].
      assert ((0 <=? r) && (r <? Z.of_nat (length vec)) = true) as ->.
      { apply andb_true_iff. split. apply Z.leb_le; lia. apply Z.ltb_lt; lia. }
      reflexivity.
    - destruct W as (-> & Lp & Pp & Sp). cbn [app].
      rewrite Lp, Nat.eqb_refl. cbn [andb].
      assert (forallb (Z.leb 0) ps = true) as ->.
      { apply forallb_forall. intros q Hq. apply Z.leb_le. auto. }
      assert ((0 <? sumZ ps) = true) as -> by (apply Z.ltb_lt; lia).
      reflexivity. }
  rewrite EW. cbv zeta. cbn [app].
  set (rep := ensure_rep a && (length vec <=? n_samples a)%nat) in *.
  rewrite L, Nat.eqb_refl. cbn [andb].
  assert (forallb (fun v => memZ v vec) smp = true) as ->.
  { apply forallb_forall. intros v Hv. apply memZ_In. auto. }
  rewrite (permb_complete _ _ P).
  assert (forallb in_int32 sh = true) as ->.
  { apply forallb_forall. intros v Hv. apply I32.
    apply (Permutation_in _ (Permutation_sym P)) in Hv.
    destruct rep; [apply in_app_or in Hv as [Hv|Hv]|]; auto. }
  reflexivity.
Qed.

Lemma gen_cols_progress a : forall specs doms s1, cols_stream a specs doms s1 ->
  (forall dom, In dom doms -> forall v, In v dom -> in_int32 v = true) ->
  forall rest, exists dcs, gen_cols a specs (s1 ++ rest) = Ok (dcs, rest) /\ map fst dcs = doms.
Proof.
  induction 1 as [|sp r vec doms s1 s2 F C IH]; intros I32 rest.
  - exists []. split; reflexivity.
  - destruct (gen_feature_progress a sp vec s1 (s2 ++ rest) F) as [col Ef].
    { intros v Hv. apply (I32 vec); cbn; auto. }
    destruct (IH ltac:(intros d Hd; apply I32; cbn; auto) rest) as (dcs & Ec & Ed).
    exists ((vec, col) :: dcs). split.
    + unfold gen_cols in *. cbn [gen_cols_gen]. rewrite <- app_assoc.
      unfold gen_feature in Ef. rewrite Ef, Ec. reflexivity.
    + cbn. now rewrite Ed.
Qed.

(* valid arguments (layout defined) and a stream respecting numpy's contract, domains inside int32:
   the model succeeds, with exactly those domains *)
Lemma generate_progress a specs doms s1 :
  layout a = Ok specs -> cols_stream a specs doms s1 ->
  (forall dom, In dom doms -> forall v, In v dom -> in_int32 v = true) ->
  exists X, generate_full a (RSeed (seed a) :: s1) = Ok (X, doms).
Proof.
  intros L C I32. destruct (gen_cols_progress a specs doms s1 C I32 []) as (dcs & E & Ed).
  rewrite app_nil_r in E.
  exists (transpose (n_samples a) (map snd dcs)).
  unfold generate_full, generate_full_gen. rewrite Z.eqb_refl, L.
  unfold gen_cols in E. rewrite E, Ed. reflexivity.
Qed.

Lemma generate_progress_wf a doms s1 :
  wf_structure a = true ->
  cols_stream a (map (declared a) (seq 0 (n_features a))) doms s1 ->
  (forall dom, In dom doms -> forall v, In v dom -> in_int32 v = true) ->
  exists X, generate_full a (RSeed (seed a) :: s1) = Ok (X, doms).
Proof. intros H. apply generate_progress. now apply layout_wf. Qed.

(* ---------------------------------------------------------------- determinism *)

Lemma generate_seeded a s X : generate a s = Ok X -> exists s1, s = RSeed (seed a) :: s1.
Proof.
  unfold generate. destruct (generate_full a s) as [[X' doms]|] eqn:G; [|discriminate]. intros _.
  destruct (generate_full_gen_inv _ _ _ _ _ G) as (specs & dcs & s1 & E & _). eauto.
Qed.

(* ---------------------------------------------------------------- ensure_rep before the repair *)

Definition old_witness_args : args := mkArgs 1 2 2 None true false 0 1000 42.
Definition old_witness_stream : list answer := [RSeed 42; RRandint 0; RChoice [0; 0]; RShuffle [0; 0]].

Lemma ensure_rep_prefix_refuted :
  exists a s X doms,
    generate_full_old a s = Ok (X, doms) /\ ensure_rep a = true /\
    exists j v, (j < n_features a)%nat /\ (length (nth j doms []) <= n_samples a)%nat /\
                In v (nth j doms []) /\ forall i, (i < n_samples a)%nat -> cell X i j <> v.
Proof.
  exists old_witness_args, old_witness_stream, [[0]; [0]], [[0; 1]].
  split. reflexivity. split. reflexivity.
  exists O, 1. split. cbn; lia. split. cbn; lia. split. cbn; auto.
  intros i Hi. cbn in Hi. destruct i as [|[|i]]; cbn; try discriminate. lia.
Qed.

(* the repaired comparison rejects that stream: with size = cardinality nothing may be drawn *)
Lemma old_witness_rejected_now : generate old_witness_args old_witness_stream = Err 7.
Proof. reflexivity. Qed.

(* ---------------------------------------------------------------- naive generator *)

Lemma zip_with_length {A B C} (f : A -> B -> C) l1 : forall l2,
  length l1 = length l2 -> length (zip_with f l1 l2) = length l1.
Proof.
  induction l1 as [|x r IH]; destruct l2; cbn; intros H; try discriminate; auto.
Qed.

Lemma zip_with_nth {A B C} (f : A -> B -> C) d1 d2 d l1 : forall l2 i,
  length l1 = length l2 -> (i < length l1)%nat ->
  nth i (zip_with f l1 l2) d = f (nth i l1 d1) (nth i l2 d2).
Proof.
  induction l1 as [|x r IH]; destruct l2; cbn; intros i H Hi; try discriminate; try lia.
  destruct i. reflexivity. apply IH; lia.
Qed.

Lemma set_nth_length v l : forall k, length (set_nth k v l) = length l.
Proof. induction l as [|x r IH]; destruct k; cbn; auto. Qed.

Lemma set_nth_same v l : forall k, (k < length l)%nat -> nth k (set_nth k v l) 0 = v.
Proof.
  induction l as [|x r IH]; destruct k; cbn; intros H; try lia; try reflexivity. apply IH. lia.
Qed.

Lemma set_nth_other v l : forall k j, j <> k -> nth j (set_nth k v l) 0 = nth j l 0.
Proof.
  induction l as [|x r IH]; destruct k; destruct j; cbn; intros H; try reflexivity; try congruence.
  apply IH. congruence.
Qed.

(* the two masked assignments amount to one threshold test *)
Lemma label_formula v :
  (if 39 <? (if v <? 40 then 0 else v) then 1 else (if v <? 40 then 0 else v)) = (if 40 <=? v then 1 else 0).
Proof.
  destruct (Z.ltb_spec v 40); destruct (Z.leb_spec 40 v); try lia.
  - reflexivity.
  - destruct (Z.ltb_spec 39 v); [reflexivity | lia].
Qed.

Lemma naive_spec nf size s sample target :
  naive nf size s = Ok (sample, target) ->
  exists m, s = [RRandintMat m] /\ (needle < nf)%nat /\ length m = size /\
    target = map (fun r => if 40 <=? nth needle r 0 then 1 else 0) m /\
    length sample = size /\
    forall i, (i < size)%nat ->
      length (nth i sample []) = nf /\
      nth needle (nth i sample []) 0 = nth i target 0 /\
      forall j, j <> needle -> nth j (nth i sample []) 0 = nth j (nth i m []) 0.
Proof.
  unfold naive. intros H.
  destruct s as [|[] [|]]; try discriminate.
  match type of H with (if ?c then _ else _) = _ => destruct c eqn:E1; [|discriminate] end.
  destruct (Nat.ltb_spec needle nf) as [Hnf|]; [|discriminate].
  assert (ET : map (fun v => if 39 <? v then 1 else v)
                 (map (fun v => if v <? 40 then 0 else v) (map (fun r => nth needle r 0) m))
               = map (fun r => if 40 <=? nth needle r 0 then 1 else 0) m).
  { rewrite !map_map. apply map_ext. intros r. apply label_formula. }
  rewrite ET in H.
  set (t := map (fun r => if 40 <=? nth needle r 0 then 1 else 0) m) in *.
  remember (fun (r : list Z) (t : Z) => set_nth needle t r) as F eqn:EF.
  injection H as Hs Ht. subst sample target.
  apply andb_true_iff in E1 as [L1 R1]. apply Nat.eqb_eq in L1. rewrite forallb_forall in R1.
  exists m. split; [reflexivity|]. split; [exact Hnf|]. split; [exact L1|]. split; [reflexivity|].
  assert (Lt : length m = length t) by (unfold t; now rewrite map_length).
  split. { rewrite zip_with_length; auto. }
  intros i Hi. rewrite <- L1 in Hi.
  rewrite (zip_with_nth F [] 0 [] m t i Lt Hi). subst F. cbv beta.
  assert (Hr : length (nth i m []) = nf).
  { specialize (R1 (nth i m []) (nth_In _ _ Hi)). apply andb_true_iff in R1 as [R1 _]. now apply Nat.eqb_eq. }
  split. { now rewrite set_nth_length. }
  split. { apply set_nth_same. lia. }
  intros j Hj. now apply set_nth_other.
Qed.

Lemma naive_small nf size s : (nf <= needle)%nat -> exists e, naive nf size s = Err e.
Proof.
  intros Hn. unfold naive. destruct s as [|[] [|]]; eauto.
  match goal with |- context [if ?c then _ else _] => destruct c end; eauto.
  destruct (Nat.ltb_spec needle nf); [lia|eauto].
Qed.

Lemma naive_needle_only nf size nf' size' m m' sa t sa' t' :
  naive nf size [RRandintMat m] = Ok (sa, t) -> naive nf' size' [RRandintMat m'] = Ok (sa', t') ->
  map (fun r => nth needle r 0) m = map (fun r => nth needle r 0) m' -> t = t'.
Proof.
  intros H H' E.
  destruct (naive_spec _ _ _ _ _ H) as (m0 & E0 & _ & _ & T & _). inversion E0; subst m0.
  destruct (naive_spec _ _ _ _ _ H') as (m1 & E1 & _ & _ & T' & _). inversion E1; subst m1.
  subst t t'.
  change (fun r => if 40 <=? nth needle r 0 then 1 else 0)
    with (fun r : list Z => (fun v => if 40 <=? v then 1 else 0) ((fun r => nth needle r 0) r)).
  rewrite <- !(map_map (fun r => nth needle r 0) (fun v => if 40 <=? v then 1 else 0)). now rewrite E.
Qed.

Lemma csv_rows_spec sample target i : length sample = length target -> (i < length sample)%nat ->
  length (csv_rows sample target) = length sample /\
  nth i (csv_rows sample target) [] = nth i sample [] ++ [nth i target 0].
Proof.
  intros L Hi. unfold csv_rows. split. now apply zip_with_length.
  now rewrite (zip_with_nth (fun (r : list Z) (t : Z) => r ++ [t]) [] 0 [] sample target i L Hi).
Qed.

(* ---------------------------------------------------------------- non-vacuity *)

(* a recorded run of the real code: generate_data(5, 6, cardinality=3,
   structure=[(1, 4), ([2, 3], [[7,8,9],[1,2,3]]), (np.array([4]), [5, 6])],
   ensure_rep=True, random_values=True, low=10, high=20, seed=3) *)
Definition ex_args : args :=
  mkArgs 5 6 3 (Some [SOne 1 (ACard 4); SMany [2; 3]%nat (AValsP [7; 8; 9] [1; 2; 3]); SMany [4%nat] (AVals [5; 6])])
         true true 10 20 3.
Definition ex_stream : list answer :=
  [RSeed 3;
   RChoice [15; 14; 11]; RRandint 2; RChoice [11; 11; 11]; RShuffle [15; 14; 11; 11; 11; 11];
   RChoice [20; 10; 15; 18]; RRandint 2; RChoice [15; 15]; RShuffle [15; 20; 15; 18; 15; 10];
   RChoice [9; 8; 8]; RShuffle [8; 7; 8; 9; 8; 9];
   RChoice [9; 9; 8]; RShuffle [8; 8; 9; 7; 9; 9];
   RRandint 0; RChoice [5; 5; 5; 5]; RShuffle [5; 5; 5; 5; 6; 5]].
Definition ex_X : list (list Z) :=
  [[15; 15; 8; 8; 5]; [14; 20; 7; 8; 5]; [11; 15; 8; 9; 5]; [11; 18; 9; 7; 5]; [11; 15; 8; 9; 6]; [11; 10; 9; 9; 5]].

Example ex_generate : generate ex_args ex_stream = Ok ex_X.
Proof. vm_compute. reflexivity. Qed.
Example ex_wf : wf_structure ex_args = true.
Proof. reflexivity. Qed.
Example ex_valid : valid_dataset ex_args ex_X = true.
Proof. vm_compute. reflexivity. Qed.
Example ex_doms : exists X, generate_full ex_args ex_stream =
  Ok (X, [[15; 14; 11]; [20; 10; 15; 18]; [7; 8; 9]; [7; 8; 9]; [5; 6]]).
Proof. eexists. vm_compute. reflexivity. Qed.
(* a stream violating the assumed library behaviour is rejected (a shuffle that loses a value) *)
Example ex_bad_shuffle :
  generate (mkArgs 1 3 2 None false false 0 1000 7)
           [RSeed 7; RRandint 1; RChoice [0; 1; 1]; RShuffle [1; 1; 1]] = Err 8.
Proof. reflexivity. Qed.
(* outside the int32 precondition the model does not follow the code (which wraps silently) *)
Example ex_out_of_int32 :
  generate (mkArgs 1 2 5 (Some [SOne 0 (AVals [3000000000; 1])]) false false 0 1000 7)
           [RSeed 7; RRandint 0; RChoice [3000000000; 1]; RShuffle [1; 3000000000]] = Err 9.
Proof. reflexivity. Qed.
Example ex_pattern : call_pattern ex_args = [0; 1;2;1;3; 1;2;1;3; 1;3; 1;3; 2;1;3].
Proof. reflexivity. Qed.
Example ex_naive :
  let row v := repeat 10 30 ++ [v] ++ [99] in
  naive 32 3 [RRandintMat [row 39; row 40; row 10]] =
  Ok ([repeat 10 30 ++ [0; 99]; repeat 10 30 ++ [1; 99]; repeat 10 30 ++ [0; 99]], [0; 1; 0]).
Proof. vm_compute. reflexivity. Qed.
