(* C19 — lemmas about the model of Synth/DataGen.v.  Statements used by Props/C19.v. *)
From Coq Require Import List Arith ZArith Bool Lia Permutation.
From Outrank Require Import Synth.DataGen.
Import ListNotations.
Open Scope Z_scope.

(* ---------------------------------------------------------------- boolean helpers *)

Lemma memZ_In v l : memZ v l = true <-> In v l.
Proof.
  unfold memZ. rewrite existsb_exists. split.
  - intros [x [H E]]. apply Z.eqb_eq in E. subst; auto.
  - intros H. exists v. split; auto. apply Z.eqb_refl.
Qed.

Lemma nodupb_NoDup l : nodupb l = true -> NoDup l.
Proof.
  induction l as [|x r IH]; cbn; intros H. constructor.
  apply andb_true_iff in H as [H1 H2]. constructor; auto.
  intro Hin. apply memZ_In in Hin. rewrite Hin in H1. discriminate.
Qed.

Lemma remove1_perm x l : forall l', remove1 x l = Some l' -> Permutation l (x :: l').
Proof.
  induction l as [|y r IH]; cbn; intros l' H. discriminate.
  destruct (Z.eqb_spec x y).
  - inversion H; subst. reflexivity.
  - destruct (remove1 x r) as [r'|] eqn:E; inversion H; subst.
    eapply perm_trans; [apply perm_skip, IH; reflexivity | apply perm_swap].
Qed.

Lemma permb_sound l1 : forall l2, permb l1 l2 = true -> Permutation l1 l2.
Proof.
  induction l1 as [|x r IH]; cbn; intros l2 H.
  - destruct l2; [constructor | discriminate].
  - destruct (remove1 x l2) as [l2'|] eqn:E; [|discriminate].
    apply remove1_perm in E. apply IH in H. symmetry in E.
    eapply perm_trans; [apply perm_skip, H | exact E].
Qed.

Lemma between_spec lo hi v : between lo hi v = true <-> lo <= v <= hi.
Proof. unfold between. rewrite andb_true_iff, !Z.leb_le. tauto. Qed.

Lemma arange_In lo c v : In v (arange lo c) <-> lo <= v < lo + Z.of_nat c.
Proof.
  unfold arange. rewrite in_map_iff. split.
  - intros [i [E Hi]]. apply in_seq in Hi. lia.
  - intros H. exists (Z.to_nat (v - lo)). split. lia. apply in_seq. lia.
Qed.

Lemma arange_length lo c : length (arange lo c) = c.
Proof. unfold arange. now rewrite map_length, seq_length. Qed.

(* ---------------------------------------------------------------- one feature *)

(* what "domain of a feature" means for each kind of declaration *)
Definition dom_ok (a : args) (sp : attrs) (vec : list Z) : Prop :=
  match sp with
  | ACard c =>
      if random_values a
      then length vec = c /\ NoDup vec /\ (forall v, In v vec -> low a <= v <= high a)
      else vec = arange (low a) c
  | AVals vs => vec = vs
  | AValsP vs _ => vec = vs
  end.

Definition feature_ok (cmp : nat -> nat -> bool) (a : args) (sp : attrs) (dc : list Z * list Z) : Prop :=
  let '(vec, col) := dc in
  dom_ok a sp vec /\
  length col = n_samples a /\
  (forall v, In v col -> In v vec) /\
  (forall v, In v col -> in_int32 v = true) /\
  (ensure_rep a = true -> cmp (length vec) (n_samples a) = true -> forall v, In v vec -> In v col).

Lemma get_domain_spec a sp s vec s' : get_domain a sp s = Ok (vec, s') -> dom_ok a sp vec.
Proof.
  unfold get_domain, dom_ok. destruct sp as [c|vs|vs ps]; intros H.
  - destruct (random_values a).
    + destruct s as [|[] s0]; try discriminate.
      destruct ((length l =? c)%nat && nodupb l && forallb (between (low a) (high a)) l) eqn:E; [|discriminate].
      inversion H; subst. apply andb_true_iff in E as [E E3]. apply andb_true_iff in E as [E1 E2].
      split. now apply Nat.eqb_eq. split. now apply nodupb_NoDup.
      intros v Hv. rewrite forallb_forall in E3. apply between_spec. auto.
    + now inversion H.
  - now inversion H.
  - now inversion H.
Qed.

Lemma gen_feature_gen_spec cmp a sp s vec col s' :
  (forall x y, cmp x y = true -> (x <= y)%nat) ->
  gen_feature_gen cmp a sp s = Ok (vec, col, s') -> feature_ok cmp a sp (vec, col).
Proof.
  intros Hc H. unfold gen_feature_gen in H.
  destruct (get_domain a sp s) as [[v1 s1]|] eqn:D; [|discriminate].
  destruct (get_weights sp v1 s1) as [s2|] eqn:W; [|discriminate].
  cbv zeta in H.
  remember (ensure_rep a && cmp (length v1) (n_samples a)) as rep eqn:Hrep.
  destruct s2 as [|[] s2]; try discriminate.
  destruct s2 as [|[] s3]; try discriminate.
  rename l into smp, l0 into sh.
  match type of H with (if ?c then _ else _) = _ => destruct c eqn:E1; [|discriminate] end.
  match type of H with (if ?c then _ else _) = _ => destruct c eqn:E2; [|discriminate] end.
  match type of H with (if ?c then _ else _) = _ => destruct c eqn:E3; [|discriminate] end.
  inversion H; subst vec col s'. clear H.
  apply andb_true_iff in E1 as [L1 M1]. apply Nat.eqb_eq in L1.
  apply permb_sound in E2. rewrite forallb_forall in M1, E3.
  apply get_domain_spec in D.
  unfold feature_ok. split; [exact D|]. split; [|split; [|split]].
  - rewrite <- (Permutation_length E2).
    destruct rep.
    + symmetry in Hrep. apply andb_true_iff in Hrep as [_ Hle]. apply Hc in Hle.
      rewrite app_length, L1. lia.
    + exact L1.
  - intros v Hv. apply (Permutation_in _ (Permutation_sym E2)) in Hv.
    destruct rep.
    + apply in_app_or in Hv as [Hv|Hv]; auto. apply memZ_In. auto.
    + apply memZ_In. auto.
  - intros v Hv. auto.
  - intros He Hcmp v Hv. rewrite He, Hcmp in Hrep. cbn in Hrep. subst rep.
    apply (Permutation_in _ E2). apply in_or_app. now right.
Qed.

Lemma gen_cols_gen_spec cmp a :
  (forall x y, cmp x y = true -> (x <= y)%nat) ->
  forall specs s dcs s', gen_cols_gen cmp a specs s = Ok (dcs, s') ->
  Forall2 (feature_ok cmp a) specs dcs.
Proof.
  intros Hc. induction specs as [|sp r IH]; cbn; intros s dcs s' H.
  - inversion H. constructor.
  - destruct (gen_feature_gen cmp a sp s) as [[[dom col] s1]|] eqn:F; [|discriminate].
    destruct (gen_cols_gen cmp a r s1) as [[cs s2]|] eqn:G; [|discriminate].
    inversion H; subst. constructor.
    + eapply gen_feature_gen_spec; eauto.
    + eapply IH; eauto.
Qed.

Lemma leb_le' x y : Nat.leb x y = true -> (x <= y)%nat.
Proof. apply Nat.leb_le. Qed.
Lemma ltb_le' x y : Nat.ltb x y = true -> (x <= y)%nat.
Proof. intros H. apply Nat.ltb_lt in H. lia. Qed.

(* ---------------------------------------------------------------- transpose *)

Lemma nth_nil_Z i : nth i (@nil Z) 0 = 0.
Proof. destruct i; reflexivity. Qed.

Lemma transpose_length n cols : length (transpose n cols) = n.
Proof. unfold transpose. now rewrite map_length, seq_length. Qed.

Lemma nth_map_seq {A} (f : nat -> A) n i d : (i < n)%nat -> nth i (map f (seq 0 n)) d = f i.
Proof.
  intros Hi. rewrite (nth_indep _ d (f O)) by (now rewrite map_length, seq_length).
  rewrite (map_nth f). now rewrite seq_nth.
Qed.

Lemma transpose_row n cols i : (i < n)%nat ->
  nth i (transpose n cols) [] = map (fun c => nth i c 0) cols.
Proof. intros Hi. unfold transpose. now rewrite nth_map_seq. Qed.

Lemma transpose_cell n cols i j : (i < n)%nat ->
  cell (transpose n cols) i j = nth i (nth j cols []) 0.
Proof.
  intros Hi. unfold cell. rewrite transpose_row by exact Hi.
  rewrite <- (nth_nil_Z i) at 1. apply (map_nth (fun c => nth i c 0)).
Qed.

Lemma transpose_rows_in n cols row : In row (transpose n cols) ->
  exists i, (i < n)%nat /\ row = map (fun c => nth i c 0) cols.
Proof.
  unfold transpose. rewrite in_map_iff. intros [i [E Hi]]. apply in_seq in Hi.
  exists i. split. lia. now symmetry.
Qed.

Lemma map_nth_seq (l : list Z) : map (fun i => nth i l 0) (seq 0 (length l)) = l.
Proof.
  apply (nth_ext _ _ 0 0).
  - now rewrite map_length, seq_length.
  - intros k Hk. rewrite map_length, seq_length in Hk. now rewrite nth_map_seq.
Qed.

Lemma transpose_column n cols j : length (nth j cols []) = n ->
  column (transpose n cols) j = nth j cols [].
Proof.
  intros L. unfold column, transpose. rewrite map_map.
  transitivity (map (fun i => nth i (nth j cols []) 0) (seq 0 n)).
  - apply map_ext_in. intros i Hi.
    rewrite <- (nth_nil_Z i) at 1. apply (map_nth (fun c => nth i c 0)).
  - rewrite <- L. apply map_nth_seq.
Qed.

(* ---------------------------------------------------------------- the whole run *)

(* inversion of a successful run *)
Lemma generate_full_gen_inv cmp a s X doms :
  generate_full_gen cmp a s = Ok (X, doms) ->
  exists specs dcs s1,
    s = RSeed (seed a) :: s1 /\
    layout a = Ok specs /\ gen_cols_gen cmp a specs s1 = Ok (dcs, []) /\
    X = transpose (n_samples a) (map snd dcs) /\ doms = map fst dcs.
Proof.
  unfold generate_full_gen. intros H.
  destruct s as [|[] s1]; try discriminate.
  destruct (Z.eqb_spec s (seed a)); [|discriminate]. subst s.
  destruct (layout a) as [specs|] eqn:L; [|discriminate].
  destruct (gen_cols_gen cmp a specs s1) as [[dcs rest]|] eqn:G; [|discriminate].
  destruct rest; [|discriminate]. inversion H; subst.
  exists specs, dcs, s1. auto.
Qed.

Lemma layout_length a specs : layout a = Ok specs -> length specs = n_features a.
Proof.
  unfold layout. intros H.
  match type of H with (if ?c then _ else _) = _ => destruct c eqn:E; [|discriminate] end.
  inversion H; subst. now apply Nat.eqb_eq.
Qed.

Lemma Forall2_nth {A B} (R : A -> B -> Prop) l1 l2 d1 d2 j :
  Forall2 R l1 l2 -> (j < length l1)%nat -> R (nth j l1 d1) (nth j l2 d2).
Proof.
  intros H. revert j. induction H; cbn; intros j Hj. lia.
  destruct j; auto. apply IHForall2. lia.
Qed.

Lemma Forall2_len {A B} (R : A -> B -> Prop) l1 l2 : Forall2 R l1 l2 -> length l1 = length l2.
Proof. induction 1; cbn; auto. Qed.

Lemma Forall2_In_right {A B} (R : A -> B -> Prop) l1 l2 y :
  Forall2 R l1 l2 -> In y l2 -> exists x, In x l1 /\ R x y.
Proof.
  induction 1; cbn; intros Hy. contradiction.
  destruct Hy as [<-|Hy]. eauto. destruct (IHForall2 Hy) as [x' [? ?]]. eauto.
Qed.

Section Run.
  Variable cmp : nat -> nat -> bool.
  Hypothesis cmp_le : forall x y, cmp x y = true -> (x <= y)%nat.
  Variables (a : args) (s : list answer) (X doms : list (list Z)).
  Hypothesis RUN : generate_full_gen cmp a s = Ok (X, doms).

  Lemma run_cols : exists specs dcs,
      layout a = Ok specs /\ Forall2 (feature_ok cmp a) specs dcs /\
      length specs = n_features a /\ length dcs = n_features a /\
      X = transpose (n_samples a) (map snd dcs) /\ doms = map fst dcs.
  Proof.
    destruct (generate_full_gen_inv _ _ _ _ _ RUN) as (specs & dcs & s1 & _ & L & G & EX & ED).
    exists specs, dcs. pose proof (gen_cols_gen_spec cmp a cmp_le _ _ _ _ G) as F.
    pose proof (layout_length _ _ L) as LL.
    repeat split; auto. rewrite <- (Forall2_len _ _ _ F). exact LL.
  Qed.

  Lemma run_feature j : (j < n_features a)%nat -> exists specs,
      layout a = Ok specs /\
      feature_ok cmp a (nth j specs (dflt a)) (nth j doms [], column X j) /\
      (forall i, (i < n_samples a)%nat -> cell X i j = nth i (column X j) 0).
  Proof.
    intros Hj. destruct run_cols as (specs & dcs & L & F & LS & LD & EX & ED).
    exists specs. split; [exact L|].
    assert (FJ := Forall2_nth _ _ _ (dflt a) ([], []) j F ltac:(lia)).
    destruct (nth j dcs ([], [])) as [vec col] eqn:EJ.
    assert (Ed : nth j doms [] = vec).
    { subst doms. change (@nil Z) with (fst (@nil Z, @nil Z)). rewrite map_nth, EJ. reflexivity. }
    assert (Ec : nth j (map snd dcs) [] = col).
    { change (@nil Z) with (snd (@nil Z, @nil Z)). rewrite map_nth, EJ. reflexivity. }
    assert (Lc : length col = n_samples a) by (destruct FJ as (_ & Lc & _); exact Lc).
    assert (Ecol : column X j = col).
    { subst X. rewrite transpose_column; rewrite Ec; auto. }
    rewrite Ed, Ecol. split; [exact FJ|].
    intros i Hi. subst X. rewrite transpose_cell by exact Hi. now rewrite Ec.
  Qed.

  (* shape: n_samples rows of n_features cells, every cell an int32 *)
  Lemma run_shape :
    length X = n_samples a /\
    forall row, In row X -> length row = n_features a /\ forall v, In v row -> in_int32 v = true.
  Proof.
    destruct run_cols as (specs & dcs & L & F & LS & LD & EX & ED). subst X.
    split. apply transpose_length.
    intros row Hr. apply transpose_rows_in in Hr as [i [Hi ->]]. split.
    - now rewrite !map_length.
    - intros v Hv. apply in_map_iff in Hv as [c [<- Hc]].
      apply in_map_iff in Hc as [[vec col] [<- Hdc]]. cbn.
      destruct (Forall2_In_right _ _ _ _ F Hdc) as [sp [_ FO]]. destruct FO as (_ & Lc & _ & I32 & _).
      apply I32. apply nth_In. lia.
  Qed.

  (* every cell of column j is in domain j; domain j is what the layout's j-th declaration says *)
  Lemma run_domain : exists specs, layout a = Ok specs /\ length doms = n_features a /\
    forall j, (j < n_features a)%nat ->
      dom_ok a (nth j specs (dflt a)) (nth j doms []) /\
      forall i, (i < n_samples a)%nat -> In (cell X i j) (nth j doms []).
  Proof.
    destruct run_cols as (specs & dcs & L & F & LS & LD & EX & ED).
    exists specs. split; [exact L|]. split. { subst doms. now rewrite map_length. }
    intros j Hj. destruct (run_feature j Hj) as (specs' & L' & FO & CE).
    rewrite L in L'. inversion L'; subst specs'.
    destruct FO as (D & Lc & Iv & _). split; [exact D|].
    intros i Hi. rewrite CE by exact Hi. apply Iv. apply nth_In. lia.
  Qed.

  Lemma run_ensure_rep : ensure_rep a = true ->
    forall j, (j < n_features a)%nat -> cmp (length (nth j doms [])) (n_samples a) = true ->
    forall v, In v (nth j doms []) -> exists i, (i < n_samples a)%nat /\ cell X i j = v.
  Proof.
    intros He j Hj Hc v Hv. destruct (run_feature j Hj) as (specs & L & FO & CE).
    destruct FO as (_ & Lc & _ & _ & R). specialize (R He Hc v Hv).
    destruct (In_nth _ _ 0 R) as [i [Hi E]]. exists i. split. lia. rewrite CE by lia. exact E.
  Qed.
End Run.
