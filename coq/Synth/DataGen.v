(* C19 — executable model of CategoricalClassification.generate_data / _ordered_structure /
   _configure_generate_feature / _generate_feature (outrank/algorithms/synthetic_data_generators/cc_generator.py),
   of generator_naive.generate_random_matrix and of the CSV rows written by
   task_generators.outrank_task_generate_data_set.

   numpy's global RNG is an ANSWER-STREAM ORACLE: every np.random.seed / choice / randint / shuffle
   call of the code consumes the next element of a [list answer] given as an argument; the model
   checks the assumed library behaviour on each answer (kind of call, answer inside the domain,
   right length, distinctness for replace=False, a shuffle result is a permutation of its input)
   and returns [Err code] otherwise.

   Stated precondition: values inside int32.  The code does not raise outside it (astype('int32')
   wraps silently); the model returns [Err 9] there and is NOT a model of the code for such runs.
   No proofs here (Synth/DataGenProofs.v). *)
From Coq Require Import List Arith ZArith Bool.
Import ListNotations.
Open Scope Z_scope.

(* ---------------------------------------------------------------- arguments *)

(* feature_attributes of a structure entry: an int (cardinality), a list of values, or
   [values, frequencies].  Frequencies are non-negative weights (the code normalises p / p.sum()). *)
Inductive attrs :=
| ACard (c : nat)
| AVals (vs : list Z)
| AValsP (vs : list Z) (ps : list Z).

(* a structure entry: (index, attributes) or (list of indices, attributes) *)
Inductive sentry :=
| SOne (ix : nat) (a : attrs)
| SMany (ixs : list nat) (a : attrs).

Record args := mkArgs {
  n_features : nat;
  n_samples : nat;
  cardinality : nat;
  structure : option (list sentry);
  ensure_rep : bool;
  random_values : bool;
  low : Z;
  high : Z;
  seed : Z
}.
(* the parameter k (> 0) only shapes the probability vector handed to np.random.choice; it has no
   influence on the result once the answers are fixed and is not part of the model. *)

(* ---------------------------------------------------------------- the oracle *)

Inductive answer :=
| RSeed (s : Z)                      (* np.random.seed(s) *)
| RChoice (l : list Z)               (* np.random.choice(...) -> the array returned *)
| RRandint (r : Z)                   (* np.random.randint(n) -> the scalar returned *)
| RShuffle (l : list Z)              (* np.random.shuffle(x) -> x after the call *)
| RRandintMat (m : list (list Z))    (* np.random.randint(lo, hi, size=(r, c)) -> rows *)
| RPermutation (l : list Z).         (* np.random.permutation: never expected here *)

Inductive res (A : Type) := Ok (x : A) | Err (code : nat).
Arguments Ok {A} x.
Arguments Err {A} code.

(* ---------------------------------------------------------------- small helpers *)

Definition in_int32 (v : Z) : bool := (-2147483648 <=? v) && (v <=? 2147483647).
Definition memZ (v : Z) (l : list Z) : bool := existsb (Z.eqb v) l.
Fixpoint nodupb (l : list Z) : bool :=
  match l with [] => true | x :: r => negb (memZ x r) && nodupb r end.
Fixpoint remove1 (x : Z) (l : list Z) : option (list Z) :=
  match l with
  | [] => None
  | y :: r => if Z.eqb x y then Some r
              else match remove1 x r with Some r' => Some (y :: r') | None => None end
  end.
(* multiset equality *)
Fixpoint permb (l1 l2 : list Z) : bool :=
  match l1 with
  | [] => match l2 with [] => true | _ => false end
  | x :: r => match remove1 x l2 with Some l2' => permb r l2' | None => false end
  end.
Definition between (lo hi v : Z) : bool := (lo <=? v) && (v <=? hi).
Definition sumZ (l : list Z) : Z := fold_right Z.add 0 l.

(* np.arange(low, low + cardinality, 1) *)
Definition arange (lo : Z) (c : nat) : list Z := map (fun i => lo + Z.of_nat i) (seq 0 c).

(* ---------------------------------------------------------------- _generate_feature *)

(* first block: the value vector.  vec given -> np.array(vec); else random draw without
   replacement from range(low, high+1), or arange. *)
Definition get_domain (a : args) (sp : attrs) (s : list answer) : res (list Z * list answer) :=
  match sp with
  | ACard c =>
      if random_values a then
        match s with
        | RChoice d :: s' =>
            if (length d =? c)%nat && nodupb d && forallb (between (low a) (high a)) d
            then Ok (d, s') else Err 2
        | _ => Err 1
        end
      else Ok (arange (low a) c, s)
  | AVals vs => Ok (vs, s)
  | AValsP vs _ => Ok (vs, s)
  end.

(* second block: p.  p None -> vec[np.random.randint(len(vec))] is the centre of the bell;
   p given -> np.array(p) / p.sum(), which np.random.choice accepts iff it has the length of vec,
   is non-negative and does not sum to 0. *)
Definition get_weights (sp : attrs) (vec : list Z) (s : list answer) : res (list answer) :=
  match sp with
  | AValsP _ ps =>
      if (length ps =? length vec)%nat && forallb (Z.leb 0) ps && (0 <? sumZ ps) then Ok s else Err 3
  | _ =>
      match s with
      | RRandint r :: s' => if (0 <=? r) && (r <? Z.of_nat (length vec)) then Ok s' else Err 5
      | _ => Err 4
      end
  end.

(* [cmp] is the comparison of `ensure_rep and len(vec) <= size`: Nat.leb today,
   Nat.ltb before the repair (C19_ensure_rep_prefix_refuted). *)
Definition gen_feature_gen (cmp : nat -> nat -> bool) (a : args) (sp : attrs) (s : list answer)
  : res (list Z * list Z * list answer) :=
  match get_domain a sp s with
  | Err e => Err e
  | Ok (vec, s1) =>
    match get_weights sp vec s1 with
    | Err e => Err e
    | Ok s2 =>
      let n := n_samples a in
      let rep := ensure_rep a && cmp (length vec) n in
      let m := if rep then (n - length vec)%nat else n in
      match s2 with
      | RChoice smp :: RShuffle sh :: s3 =>
          if (length smp =? m)%nat && forallb (fun v => memZ v vec) smp then
            let pre := if rep then smp ++ vec else smp in      (* np.append(sampled_values, vec) *)
            if permb pre sh then
              (* astype('int32'): the code does NOT raise on values outside int32, numpy wraps them
                 silently; that is outside the modelled precondition (Err 9), see C19_int32_precondition *)
              if forallb in_int32 sh then Ok (vec, sh, s3)
              else Err 9
            else Err 8
          else Err 7
      | _ => Err 6
      end
    end
  end.

Fixpoint gen_cols_gen (cmp : nat -> nat -> bool) (a : args) (specs : list attrs) (s : list answer)
  : res (list (list Z * list Z) * list answer) :=
  match specs with
  | [] => Ok ([], s)
  | sp :: r =>
      match gen_feature_gen cmp a sp s with
      | Err e => Err e
      | Ok (dom, col, s') =>
          match gen_cols_gen cmp a r s' with
          | Err e => Err e
          | Ok (cs, s'') => Ok ((dom, col) :: cs, s'')
          end
      end
  end.

(* ---------------------------------------------------------------- generate_data: column layout *)

(* The code keeps a counter ix = number of columns written so far = length of [acc]. *)
Definition dflt (a : args) : attrs := ACard (cardinality a).

(* fill up to feature_ix with default features (only if ix < feature_ix), then the configured one *)
Definition place (d : attrs) (acc : list attrs) (fix_ : nat) (at_ : attrs) : list attrs :=
  acc ++ repeat d (fix_ - length acc) ++ [at_].

(* _ordered_structure: the entries flattened to (feature index, attributes) pairs ... *)
Definition flat_entry (e : sentry) : list (nat * attrs) :=
  match e with
  | SOne i at_ => [(i, at_)]
  | SMany ixs at_ => map (fun i => (i, at_)) ixs
  end.
Definition flat (st : option (list sentry)) : list (nat * attrs) :=
  match st with None => [] | Some l => flat_map flat_entry l end.

(* ... sorted by feature index (list.sort(key=index), stable) ... *)
Fixpoint insert_ix (p : nat * attrs) (l : list (nat * attrs)) : list (nat * attrs) :=
  match l with
  | [] => [p]
  | q :: r => if (fst p <=? fst q)%nat then p :: l else q :: insert_ix p r
  end.
Definition sort_ix (l : list (nat * attrs)) : list (nat * attrs) := fold_right insert_ix [] l.

(* ... ValueError when an index is described more than once *)
Fixpoint nodup_nat (l : list nat) : bool :=
  match l with [] => true | x :: r => negb (existsb (Nat.eqb x) r) && nodup_nat r end.

Definition place_all (d : attrs) (fl : list (nat * attrs)) (acc : list attrs) : list attrs :=
  fold_left (fun acc (p : nat * attrs) => place d acc (fst p) (snd p)) fl acc.

Definition layout (a : args) : res (list attrs) :=
  let d := dflt a in
  let fl := flat (structure a) in
  if nodup_nat (map fst fl) then
    let acc := place_all d (sort_ix fl) [] in
    let all := acc ++ repeat d (n_features a - length acc) in
    (* X has n_features rows: writing X[ix] with ix >= n_features raises IndexError *)
    if (length all =? n_features a)%nat then Ok all else Err 20
  else Err 21.

(* generate_data before the ordering repair: entries processed in the order given *)
Definition place_entry (d : attrs) (acc : list attrs) (e : sentry) : list attrs :=
  match e with
  | SOne i at_ => place d acc i at_
  | SMany ixs at_ => fold_left (fun acc i => place d acc i at_) ixs acc
  end.
Definition layout_old (a : args) : res (list attrs) :=
  let d := dflt a in
  let acc := match structure a with
             | None => []
             | Some st => fold_left (place_entry d) st []
             end in
  let all := acc ++ repeat d (n_features a - length acc) in
  if (length all =? n_features a)%nat then Ok all else Err 20.

(* X.T *)
Definition transpose (n : nat) (cols : list (list Z)) : list (list Z) :=
  map (fun i => map (fun c => nth i c 0) cols) (seq 0 n).

Definition generate_full_gen (cmp : nat -> nat -> bool) (a : args) (s : list answer)
  : res (list (list Z) * list (list Z)) :=
  match s with
  | RSeed sd :: s1 =>
      if sd =? seed a then
        match layout a with
        | Err e => Err e
        | Ok specs =>
            match gen_cols_gen cmp a specs s1 with
            | Err e => Err e
            | Ok (dcs, rest) =>
                match rest with
                | [] => Ok (transpose (n_samples a) (map snd dcs), map fst dcs)
                | _ => Err 30
                end
            end
        end
      else Err 31
  | _ => Err 32
  end.

Definition gen_feature := gen_feature_gen Nat.leb.
Definition gen_cols := gen_cols_gen Nat.leb.
Definition generate_full := generate_full_gen Nat.leb.     (* (X, per-column domains) *)
Definition generate_full_old := generate_full_gen Nat.ltb. (* before fix 31e7d2c *)

Definition generate (a : args) (s : list answer) : res (list (list Z)) :=
  match generate_full a s with Ok (X, _) => Ok X | Err e => Err e end.

Definition cell (X : list (list Z)) (i j : nat) : Z := nth j (nth i X []) 0.
Definition column (X : list (list Z)) (j : nat) : list Z := map (fun row => nth j row 0) X.

(* ---------------------------------------------------------------- declared positions *)

Fixpoint declared_in (d : attrs) (fl : list (nat * attrs)) (j : nat) : attrs :=
  match fl with
  | [] => d
  | (i, at_) :: r => if (i =? j)%nat then at_ else declared_in d r j
  end.
(* what the caller declared for column j *)
Definition declared (a : args) (j : nat) : attrs := declared_in (dflt a) (flat (structure a)) j.

Fixpoint increasing_from (lo : nat) (l : list nat) : bool :=
  match l with [] => true | i :: r => (lo <=? i)%nat && increasing_from (S i) r end.

(* every index is described once and is < n_features (any order) *)
Definition wf_structure (a : args) : bool :=
  let ixs := map fst (flat (structure a)) in
  nodup_nat ixs && forallb (fun i => (i <? n_features a)%nat) ixs.

(* ---------------------------------------------------------------- the validator (fallback tie) *)

Definition distinct (l : list Z) : list Z := nodup Z.eq_dec l.

Definition col_ok (a : args) (sp : attrs) (col : list Z) : bool :=
  let n := n_samples a in
  let listed (vs : list Z) :=
      forallb (fun v => memZ v vs) col &&
      (if ensure_rep a && (length vs <=? n)%nat then forallb (fun v => memZ v col) vs else true) in
  match sp with
  | ACard c =>
      if random_values a then
        forallb (between (low a) (high a)) col && (length (distinct col) <=? c)%nat &&
        (if ensure_rep a && (c <=? n)%nat then (length (distinct col) =? c)%nat else true)
      else listed (arange (low a) c)
  | AVals vs => listed vs
  | AValsP vs _ => listed vs
  end.

Definition shape_ok (a : args) (X : list (list Z)) : bool :=
  (length X =? n_samples a)%nat &&
  forallb (fun row => (length row =? n_features a)%nat && forallb in_int32 row) X.

(* shape, and per-column domain / ensure_rep of the feature the layout puts in column j (C19_positions: for
   every well-formed structure that is the feature DECLARED for column j) *)
Definition valid_dataset (a : args) (X : list (list Z)) : bool :=
  shape_ok a X &&
  match layout a with
  | Ok specs => forallb (fun j => col_ok a (nth j specs (dflt a)) (column X j)) (seq 0 (n_features a))
  | Err _ => false
  end.

(* ---------------------------------------------------------------- the RNG call pattern of a run *)

Definition kind_of (r : answer) : Z :=
  match r with
  | RSeed _ => 0 | RChoice _ => 1 | RRandint _ => 2 | RShuffle _ => 3 | RRandintMat _ => 4 | RPermutation _ => 5
  end.
Definition feature_pattern (a : args) (sp : attrs) : list Z :=
  (match sp with ACard _ => if random_values a then [1] else [] | _ => [] end) ++
  (match sp with AValsP _ _ => [] | _ => [2] end) ++ [1; 3].
(* kinds of the calls generate_data makes, in program order *)
Definition call_pattern (a : args) : list Z :=
  match layout a with
  | Ok specs => 0 :: flat_map (feature_pattern a) specs
  | Err _ => [0]
  end.

(* ---------------------------------------------------------------- naive generator *)

Fixpoint set_nth (k : nat) (v : Z) (l : list Z) : list Z :=
  match l, k with
  | [], _ => []
  | _ :: r, O => v :: r
  | x :: r, S k' => x :: set_nth k' v r
  end.

Fixpoint zip_with {A B C} (f : A -> B -> C) (l1 : list A) (l2 : list B) : list C :=
  match l1, l2 with
  | x :: r1, y :: r2 => f x y :: zip_with f r1 r2
  | _, _ => []
  end.

(* sample = randint(10, 100, size=(size, num_features)); target = sample[:, 30] is a VIEW, so the
   two masked assignments also rewrite column 30 of the returned sample. *)
Definition needle : nat := 30.
Definition naive (nf size : nat) (s : list answer) : res (list (list Z) * list Z) :=
  match s with
  | [RRandintMat m] =>
      if (length m =? size)%nat &&
         forallb (fun r => (length r =? nf)%nat && forallb (fun v => (10 <=? v) && (v <? 100)) r) m then
        if (needle <? nf)%nat then                                (* else sample[:, 30] raises IndexError *)
          let t0 := map (fun r => nth needle r 0) m in
          let t1 := map (fun v => if v <? 40 then 0 else v) t0 in   (* target[target < 40] = 0 *)
          let t2 := map (fun v => if 39 <? v then 1 else v) t1 in   (* target[target > 39] = 1 *)
          Ok (zip_with (fun r t => set_nth needle t r) m t2, t2)
        else Err 41
      else Err 42
  | _ => Err 40
  end.

(* data rows of data.csv written by outrank_task_generate_data_set: f0..f{n-1}, label *)
Definition csv_rows (sample : list (list Z)) (target : list Z) : list (list Z) :=
  zip_with (fun r t => r ++ [t]) sample target.

(* ---------------------------------------------------------------- harness interface *)

(* flattened observable: status (0 = Ok, else 1000 + error code) and the matrix *)
Definition C19_enc (r : res (list (list Z))) : Z * list (list Z) :=
  match r with Ok X => (0, X) | Err e => (1000 + Z.of_nat e, []) end.
Definition C19_enc_naive (r : res (list (list Z) * list Z)) : Z * list (list Z) * list Z :=
  match r with Ok (sa, t) => (0, sa, t) | Err e => (1000 + Z.of_nat e, [], []) end.
