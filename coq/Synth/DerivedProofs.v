(* C20 — lemmas about the models of Synth/Derived.v (statements re-exported by Props/C20.v). *)
From Coq Require Import List ZArith QArith Qround Bool Lia ZifyBool Permutation Sorting.Sorted Lqa.
From Outrank Require Import Synth.Derived.
Import ListNotations.
Open Scope Z_scope.

(* ------------------------------------------------------------------------------------------ *)
(* basics *)

Lemma memZ_In v l : memZ v l = true <-> In v l.
Proof.
  induction l as [|a r IH]; cbn [memZ In]; [split; [discriminate|tauto]|].
  rewrite orb_true_iff, IH, Z.eqb_eq. split; intros [H|H]; auto.
Qed.
Lemma memZ_false v l : memZ v l = false <-> ~ In v l.
Proof. rewrite <- memZ_In. destruct (memZ v l); split; congruence. Qed.

Lemma nodupb_NoDup l : nodupb l = true <-> NoDup l.
Proof.
  induction l as [|a r IH]; cbn [nodupb]; [split; [constructor|reflexivity]|].
  rewrite andb_true_iff, negb_true_iff, memZ_false, IH. split.
  - intros [H1 H2]. constructor; assumption.
  - intros H. inversion H; subst. split; assumption.
Qed.

Lemma lenZ_app {A} (a b : list A) : lenZ (a ++ b) = lenZ a + lenZ b.
Proof. unfold lenZ. rewrite app_length. lia. Qed.
Lemma lenZ_nonneg {A} (a : list A) : 0 <= lenZ a.
Proof. unfold lenZ. lia. Qed.
Lemma lenZ_map {A B} (f : A -> B) l : lenZ (map f l) = lenZ l.
Proof. unfold lenZ. rewrite map_length. reflexivity. Qed.

Lemma zrange_length a k : length (zrange a k) = k.
Proof. unfold zrange. rewrite map_length, seq_length. reflexivity. Qed.
Lemma zrange_In a k c : In c (zrange a k) <-> a <= c < a + Z.of_nat k.
Proof.
  unfold zrange. rewrite in_map_iff. split.
  - intros [t [E Ht]]. apply in_seq in Ht. lia.
  - intros H. exists (Z.to_nat (c - a)). split; [lia|]. apply in_seq. lia.
Qed.
Lemma zrange_NoDup a k : NoDup (zrange a k).
Proof.
  unfold zrange. apply FinFun.Injective_map_NoDup; [|apply seq_NoDup].
  intros x y H. lia.
Qed.
Lemma nth_map_dflt {A B} (f : A -> B) l t dA dB : (t < length l)%nat -> nth t (map f l) dB = f (nth t l dA).
Proof.
  revert t. induction l as [|a r IH]; intros t H; cbn [length] in H; [lia|].
  destruct t as [|t]; [reflexivity|]. cbn [map nth]. apply IH. lia.
Qed.
Lemma zrange_nth a k t : (t < k)%nat -> nth t (zrange a k) 0 = a + Z.of_nat t.
Proof.
  intros H. unfold zrange. rewrite (nth_map_dflt _ _ _ O) by (rewrite seq_length; exact H).
  rewrite seq_nth by exact H. reflexivity.
Qed.
Lemma map_seq_shift {B} (f : nat -> B) k s len : map f (seq (k + s) len) = map (fun t => f (k + t)%nat) (seq s len).
Proof.
  revert s. induction len as [|len IH]; intros s; [reflexivity|].
  cbn [seq map]. f_equal. rewrite <- IH. f_equal. f_equal. lia.
Qed.
Lemma zrange_app a k1 k2 : zrange a (k1 + k2) = zrange a k1 ++ zrange (a + Z.of_nat k1) k2.
Proof.
  unfold zrange. rewrite seq_app, map_app. f_equal. cbn [plus].
  replace k1 with (k1 + 0)%nat at 1 by lia. rewrite map_seq_shift. apply map_ext. intros t. lia.
Qed.

(* ------------------------------------------------------------------------------------------ *)
(* duplicates, combinations, self-description *)

Lemma nthZ_app_l row ext j : 0 <= j < lenZ row -> nthZ (row ++ ext) j = nthZ row j.
Proof. unfold nthZ, lenZ. intros H. apply app_nth1. lia. Qed.
Lemma nthZ_app_r row ext t : 0 <= t -> nthZ (row ++ ext) (lenZ row + t) = nthZ ext t.
Proof.
  unfold nthZ, lenZ. intros H. rewrite app_nth2 by lia. f_equal. lia.
Qed.
Lemma nthZ_select row idx t : (t < length idx)%nat ->
  nthZ (select row idx) (Z.of_nat t) = nthZ row (norm_idx (lenZ row) (nth t idx 0)).
Proof.
  intros H. unfold select, nthZ at 1. rewrite Nat2Z.id.
  rewrite (nth_map_dflt _ _ _ 0) by exact H. reflexivity.
Qed.

Lemma call_ok_rows X idx : call_ok X idx = true ->
  X <> [] /\ (forall row, In row X -> lenZ row = ncols X) /\ (forall j, In j idx -> - ncols X <= j < ncols X).
Proof.
  unfold call_ok. destruct X as [|r0 X']; [discriminate|]. rewrite andb_true_iff. intros [H1 H2].
  split; [discriminate|]. split.
  - unfold rect in H1. rewrite forallb_forall in H1. intros row Hr. apply Z.eqb_eq. apply H1. exact Hr.
  - rewrite forallb_forall in H2. intros j Hj. specialize (H2 j Hj). unfold idx_ok in H2. lia.
Qed.

(* C20_dup *)
Lemma dup_spec X idx X' fi di : gen_duplicates X idx = Some (X', (fi, di)) ->
  X' = map (fun row => row ++ select row idx) X /\
  forall row, In row X ->
    lenZ row = ncols X /\
    (forall j, 0 <= j < ncols X -> nthZ (row ++ select row idx) j = nthZ row j) /\
    (forall t, (t < length idx)%nat ->
       nthZ (row ++ select row idx) (ncols X + Z.of_nat t) = nthZ row (norm_idx (ncols X) (nth t idx 0)) /\
       0 <= norm_idx (ncols X) (nth t idx 0) < ncols X).
Proof.
  unfold gen_duplicates. destruct (call_ok X idx) eqn:E; [|discriminate]. intros H.
  injection H as E1 E2 E3. subst X' fi di.
  split; [reflexivity|]. intros row Hr. destruct (call_ok_rows _ _ E) as [_ [Hlen Hidx]].
  pose proof (Hlen row Hr) as Hl. split; [exact Hl|]. split.
  - intros j Hj. apply nthZ_app_l. lia.
  - intros t Ht. rewrite <- Hl at 1. rewrite nthZ_app_r by lia. rewrite nthZ_select by exact Ht. rewrite Hl.
    split; [reflexivity|]. assert (In (nth t idx 0) idx) by (apply nth_In; exact Ht).
    specialize (Hidx _ H). unfold norm_idx. destruct (Z.ltb_spec (nth t idx 0) 0); lia.
Qed.

Lemma dup_info X idx X' fi di : gen_duplicates X idx = Some (X', (fi, di)) ->
  fi = idx /\ di = zrange (ncols X) (length idx) /\ length di = length idx /\ NoDup di /\
  (forall c, In c di <-> ncols X <= c < ncols X + lenZ idx) /\
  (X <> [] -> ncols X' = ncols X + lenZ idx).
Proof.
  unfold gen_duplicates. destruct (call_ok X idx) eqn:E; [|discriminate]. intros H.
  injection H as E1 E2 E3. subst X' fi di.
  split; [reflexivity|]. split; [reflexivity|]. split; [apply zrange_length|]. split; [apply zrange_NoDup|].
  split; [intros c; apply zrange_In|].
  intros _. destruct X as [|r0 X0]; [discriminate|]. cbn [map ncols]. rewrite lenZ_app. unfold select. rewrite lenZ_map. reflexivity.
Qed.

Lemma dup_prefix_refuted : exists X idx X' fi di,
  gen_duplicates_old X idx = Some (X', (fi, di)) /\ ncols X' = ncols X + 2 /\ di = [ncols X] /\ ~ In (ncols X + 1) di.
Proof.
  exists [[1; 2; 3]; [4; 5; 6]], [0; 1], [[1; 2; 3; 1; 2]; [4; 5; 6; 4; 5]], [0; 1], [3].
  split; [vm_compute; reflexivity|]. split; [reflexivity|]. split; [reflexivity|].
  cbn. intros [H|[]]. discriminate.
Qed.

Lemma map_opt_Forall2 {A B} (f : A -> option B) l l' : map_opt f l = Some l' -> Forall2 (fun a b => f a = Some b) l l'.
Proof.
  revert l'. induction l as [|a r IH]; intros l' H; cbn [map_opt] in H.
  - inversion H. constructor.
  - destruct (f a) eqn:E; [|discriminate]. destruct (map_opt f r) eqn:E2; [|discriminate].
    inversion H; subst. constructor; [exact E|]. apply IH. reflexivity.
Qed.

(* C20_combo *)
Lemma combo_spec X f idx X' fi ct ix : gen_combinations X f idx = Some (X', (fi, ct, ix)) ->
  fi = idx /\ ct = f /\ ix = ncols X /\
  Forall2 (fun row row' => exists v, comb_val f (select row idx) = Some v /\ row' = row ++ [v] /\
                                      nthZ row' (ncols X) = v /\ forall j, 0 <= j < ncols X -> nthZ row' j = nthZ row j) X X'.
Proof.
  unfold gen_combinations. destruct (call_ok X idx) eqn:E; [|discriminate].
  destruct (map_opt _ X) as [X1|] eqn:E1; [|discriminate]. intros H.
  injection H as E2 E3 E4 E5. subst X' fi ct ix.
  split; [reflexivity|]. split; [reflexivity|]. split; [reflexivity|].
  destruct (call_ok_rows _ _ E) as [_ [Hlen _]].
  apply map_opt_Forall2 in E1. clear E. revert Hlen. generalize (ncols X) as nc. induction E1 as [|row row' r r' H1 _ IH]; intros nc Hlen; constructor.
  - destruct (comb_val f (select row idx)) as [v|] eqn:Ev; [|discriminate]. inversion H1; subst. exists v.
    assert (Hl : lenZ row = nc) by (apply Hlen; now left).
    split; [reflexivity|]. split; [reflexivity|]. split.
    + rewrite <- Hl. replace (lenZ row) with (lenZ row + 0) by lia. rewrite nthZ_app_r by lia. reflexivity.
    + intros j Hj. apply nthZ_app_l. lia.
  - apply IH. intros row0 H0. apply Hlen. now right.
Qed.

(* what the stated functions are *)
Lemma comb_val_linear vals : comb_val CLinear vals = Some (zsum vals). Proof. reflexivity. Qed.
Lemma comb_val_nonlinear vals : comb_val CNonlinear vals = Some (zsum vals). Proof. reflexivity. Qed.
Lemma comb_val_xor a b r : comb_val CXor (a :: b :: r) = Some (fold_left Z.lxor r (Z.lxor a b)). Proof. reflexivity. Qed.
Lemma comb_val_and a b r : comb_val CAnd (a :: b :: r) = Some (fold_left Z.land r (Z.land a b)). Proof. reflexivity. Qed.
Lemma comb_val_or a b r : comb_val COr (a :: b :: r) = Some (fold_left Z.lor r (Z.lor a b)). Proof. reflexivity. Qed.

(* C20_corr_info *)
Lemma corr_indices_spec nc idx : idx <> [] ->
  length (corr_indices nc idx) = length idx /\ NoDup (corr_indices nc idx) /\
  forall c, In c (corr_indices nc idx) <-> nc <= c < nc + lenZ idx.
Proof.
  intros Hne. unfold corr_indices. destruct (Z.ltb_spec 1 (lenZ idx)) as [H|H].
  - split; [apply zrange_length|]. split; [apply zrange_NoDup|]. intros c. apply zrange_In.
  - destruct idx as [|a [|b r]]; [congruence| |unfold lenZ in H; cbn [length] in H; lia].
    split; [reflexivity|]. split; [repeat constructor; intros []|]. intros c. unfold lenZ. cbn. lia.
Qed.
Lemma corr_indices_zrange nc idx : idx <> [] -> corr_indices nc idx = zrange nc (length idx).
Proof.
  intros Hne. unfold corr_indices. destruct (Z.ltb_spec 1 (lenZ idx)) as [H|H]; [reflexivity|].
  destruct idx as [|a [|b r]]; [congruence| |unfold lenZ in H; cbn [length] in H; lia].
  unfold zrange. cbn. f_equal. lia.
Qed.

(* ---- the self-description lists exactly the added columns, over any session of calls ---- *)
Definition st_nc (s : sstate) : Z := snd (fst s).
Definition st_info (s : sstate) : info := snd s.
Definition corr_ok (o : op) : Prop := match o with OCorr idx _ => idx <> [] | _ => True end.
Definition added (o : op) : Z :=
  match o with ODup idx => lenZ idx | OCombo _ _ => 1 | OCorr idx _ => lenZ idx | _ => 0 end.

Lemma concat_map_app {A B} (f : A -> list B) l1 l2 : concat (map f (l1 ++ l2)) = concat (map f l1) ++ concat (map f l2).
Proof. rewrite map_app, concat_app. reflexivity. Qed.

Lemma step_listed s o : corr_ok o ->
  st_nc (step false s o) = st_nc s + added o /\
  Permutation (listed (st_info (step false s o))) (listed (st_info s) ++ zrange (st_nc s) (Z.to_nat (added o))).
Proof.
  destruct s as [[nr nc] [[[[[cb cr] du] lb] no] dn]]. unfold st_nc, st_info.
  destruct o as [idx|f idx|idx r|rel n|m p|k n]; intros Hok; cbn [step fst snd added listed]; (split; [lia|]).
  - unfold lenZ. rewrite Nat2Z.id. rewrite concat_map_app. cbn [map concat snd]. rewrite app_nil_r, !app_assoc. reflexivity.
  - rewrite map_app. cbn [map snd]. change (Z.to_nat 1) with 1%nat. unfold zrange. cbn [seq map Z.of_nat]. rewrite Z.add_0_r.
    rewrite <- !app_assoc. apply Permutation_app_head. cbn [app].
    apply Permutation_sym. rewrite app_assoc. apply Permutation_sym. apply Permutation_cons_append.
  - cbn [corr_ok] in Hok. rewrite concat_map_app. cbn [map concat snd fst]. rewrite app_nil_r.
    rewrite (corr_indices_zrange nc idx Hok). unfold lenZ. rewrite Nat2Z.id.
    rewrite <- !app_assoc. apply Permutation_app_head. apply Permutation_app_head. apply Permutation_app_comm.
  - cbn [Z.to_nat]. unfold zrange. cbn [seq map]. rewrite app_nil_r. reflexivity.
  - cbn [Z.to_nat]. unfold zrange. cbn [seq map]. rewrite app_nil_r. reflexivity.
  - cbn [Z.to_nat]. unfold zrange. cbn [seq map]. rewrite app_nil_r. reflexivity.
Qed.

Lemma added_nonneg o : 0 <= added o.
Proof. destruct o; cbn [added]; try lia; apply lenZ_nonneg. Qed.

Lemma run_listed ops : forall s, Forall corr_ok ops ->
  st_nc (fold_left (step false) ops s) = st_nc s + zsum (map added ops) /\
  Permutation (listed (st_info (fold_left (step false) ops s)))
              (listed (st_info s) ++ zrange (st_nc s) (Z.to_nat (zsum (map added ops)))).
Proof.
  induction ops as [|o r IH]; intros s H.
  - cbn [fold_left map zsum fold_right]. split; [lia|]. unfold zrange. cbn [Z.to_nat seq map]. rewrite app_nil_r. reflexivity.
  - inversion H as [|? ? Ho Hr]; subst. cbn [fold_left map]. destruct (step_listed s o Ho) as [E1 P1].
    destruct (IH (step false s o) Hr) as [E2 P2]. split.
    + rewrite E2, E1. unfold zsum. cbn [fold_right]. lia.
    + rewrite P2, P1, E1. rewrite <- app_assoc. apply Permutation_app_head.
      assert (Hs : 0 <= zsum (map added r)).
      { clear. induction r as [|a r IH]; cbn [map zsum fold_right]; [lia|]. pose proof (added_nonneg a). unfold zsum in IH. lia. }
      pose proof (added_nonneg o) as Ha.
      change (zsum (added o :: map added r)) with (added o + zsum (map added r)).
      rewrite Z2Nat.inj_add by lia. rewrite zrange_app. rewrite Z2Nat.id by lia. reflexivity.
Qed.

(* C20_info_exact *)
Lemma info_exact nr nc ops : Forall corr_ok ops ->
  st_nc (session nr nc ops) = nc + zsum (map added ops) /\
  Permutation (listed (st_info (session nr nc ops))) (zrange nc (Z.to_nat (st_nc (session nr nc ops) - nc))).
Proof.
  intros H. unfold session. destruct (run_listed ops (nr, nc, info0) H) as [E P]. split; [exact E|].
  rewrite P, E. unfold st_info, st_nc, info0, listed. cbn [fst snd map concat app].
  replace (nc + zsum (map added ops) - nc) with (zsum (map added ops)) by lia. reflexivity.
Qed.

Lemma info_old_refuted : exists nr nc ops, Forall corr_ok ops /\
  st_nc (session_old nr nc ops) = nc + 2 /\ listed (st_info (session_old nr nc ops)) = [nc] /\
  ~ In (nc + 1) (listed (st_info (session_old nr nc ops))).
Proof.
  exists 4, 3, [ODup [0; 1]]. split; [repeat constructor|]. split; [reflexivity|]. split; [reflexivity|].
  cbn. intros [H|[]]. discriminate.
Qed.

(* ------------------------------------------------------------------------------------------ *)
(* labels *)

Lemma qlt_bool_iff a b : qlt_bool a b = true <-> (a < b)%Q.
Proof.
  unfold qlt_bool. rewrite negb_true_iff. split.
  - intros H. apply Qnot_le_lt. intros Hle. apply Qle_bool_iff in Hle. congruence.
  - intros H. destruct (Qle_bool b a) eqn:E; [|reflexivity]. apply Qle_bool_iff in E. exfalso. eapply Qlt_not_le; eassumption.
Qed.

(* the label of a decision value: number of cut points strictly below it *)
Definition label (cuts : list Q) (x : Z) : Z := lenZ (filter (fun c => qlt_bool c (inject_Z x)) cuts).

Lemma labels_of_label d cuts : labels_of d cuts = map (label cuts) d.
Proof. reflexivity. Qed.

Lemma label_range cuts x : 0 <= label cuts x <= lenZ cuts.
Proof.
  unfold label, lenZ. split; [lia|]. apply inj_le. induction cuts as [|c r IH]; cbn [filter length]; [lia|].
  destruct (qlt_bool c (inject_Z x)); cbn [length]; lia.
Qed.

Lemma label_mono cuts a b : a <= b -> label cuts a <= label cuts b.
Proof.
  intros Hab. unfold label, lenZ. apply inj_le. induction cuts as [|c r IH]; cbn [filter length]; [lia|].
  destruct (qlt_bool c (inject_Z a)) eqn:Ea.
  - assert (Eb : qlt_bool c (inject_Z b) = true).
    { apply qlt_bool_iff. apply qlt_bool_iff in Ea. eapply Qlt_le_trans; [exact Ea|]. rewrite <- Zle_Qle. exact Hab. }
    rewrite Eb. cbn [length]. lia.
  - destruct (qlt_bool c (inject_Z b)); cbn [length]; lia.
Qed.

(* C20_labels_mono, on positions *)
Lemma labels_mono d cuts i j : (i < length d)%nat -> (j < length d)%nat ->
  nth i d 0 <= nth j d 0 -> nth i (labels_of d cuts) 0 <= nth j (labels_of d cuts) 0.
Proof.
  intros Hi Hj H. rewrite labels_of_label. rewrite !(nth_map_dflt _ _ _ 0) by assumption. apply label_mono. exact H.
Qed.

(* sorting *)
Lemma insert_perm x l : Permutation (insert x l) (x :: l).
Proof.
  induction l as [|y r IH]; [reflexivity|]. cbn [insert]. destruct (x <=? y); [reflexivity|].
  rewrite IH. apply perm_swap.
Qed.
Lemma sort_perm l : Permutation (sort l) l.
Proof. induction l as [|x r IH]; [reflexivity|]. cbn [sort fold_right]. fold (sort r). rewrite insert_perm, IH. reflexivity. Qed.
Lemma insert_sorted x l : StronglySorted Z.le l -> StronglySorted Z.le (insert x l).
Proof.
  induction l as [|y r IH]; intros H; [repeat constructor|]. cbn [insert].
  inversion H as [|? ? Hr Hall]; subst. destruct (Z.leb_spec x y) as [E|E].
  - constructor; [exact H|]. constructor; [exact E|]. eapply Forall_impl; [|exact Hall]. intros z Hz; lia.
  - constructor; [apply IH; exact Hr|].
    eapply Permutation_Forall; [symmetry; apply insert_perm|]. constructor; [lia|exact Hall].
Qed.
Lemma sort_sorted l : StronglySorted Z.le (sort l).
Proof. induction l as [|x r IH]; [constructor|]. cbn [sort fold_right]. apply insert_sorted. exact IH. Qed.
Lemma sort_length l : length (sort l) = length l.
Proof. apply Permutation_length. apply sort_perm. Qed.
Lemma sort_In x l : In x (sort l) <-> In x l.
Proof. split; apply Permutation_in; [|symmetry]; apply sort_perm. Qed.

Lemma sorted_le_lt l : NoDup l -> StronglySorted Z.le l -> StronglySorted Z.lt l.
Proof.
  induction l as [|x r IH]; intros Hn Hs; [constructor|]. inversion Hn; subst. inversion Hs as [|? ? Hr Hall]; subst.
  constructor; [apply IH; assumption|]. rewrite Forall_forall in *. intros y Hy. specialize (Hall y Hy).
  assert (x <> y) by (intros ->; contradiction). lia.
Qed.

Lemma filter_length_perm {A} (f : A -> bool) l l' : Permutation l l' -> length (filter f l) = length (filter f l').
Proof.
  induction 1 as [|x l l' _ IH|x y l|l l' l'' _ IH1 _ IH2]; cbn [filter]; try reflexivity.
  - destruct (f x); cbn [length]; lia.
  - destruct (f x), (f y); reflexivity.
  - congruence.
Qed.

Lemma sorted_head_le r y : StronglySorted Z.lt r -> In y r -> nth 0 r 0 <= y.
Proof.
  intros Hs Hy. destruct r as [|h t]; [destruct Hy|]. cbn [nth]. destruct Hy as [->|Hy]; [lia|].
  inversion Hs as [|? ? _ Hall]; subst. rewrite Forall_forall in Hall. specialize (Hall y Hy). lia.
Qed.

Lemma count_sorted (P : Z -> bool) s : forall j, StronglySorted Z.lt s -> (j < length s)%nat ->
  (forall x, x <= nth j s 0 -> P x = true) ->
  (forall x, (S j < length s)%nat -> nth (S j) s 0 <= x -> P x = false) ->
  length (filter P s) = S j.
Proof.
  induction s as [|x r IH]; intros j Hs Hj Ht Hf; cbn [length] in Hj; [lia|].
  inversion Hs as [|? ? Hr Hall]; subst. rewrite Forall_forall in Hall.
  destruct j as [|j'].
  - cbn [filter]. rewrite (Ht x) by (cbn [nth]; lia). cbn [length]. f_equal.
    assert (E : filter P r = []).
    { clear IH. assert (Hall' : forall y, In y r -> P y = false).
      { intros y Hy. apply Hf; [cbn [length]; destruct r; [destruct Hy|cbn [length]; lia]|].
        cbn [nth]. apply sorted_head_le; assumption. }
      clear -Hall'. induction r as [|y t IH]; [reflexivity|]. cbn [filter]. rewrite (Hall' y) by now left.
      apply IH. intros z Hz. apply Hall'. now right. }
    rewrite E. reflexivity.
  - cbn [filter]. assert (Hjr : (j' < length r)%nat) by lia.
    rewrite (Ht x) by (cbn [nth]; assert (x < nth j' r 0) by (apply Hall; apply nth_In; exact Hjr); lia).
    cbn [length]. f_equal. apply IH; [exact Hr|exact Hjr| |].
    + intros y Hy. apply Ht. cbn [nth]. exact Hy.
    + intros y Hl Hy. apply Hf; [cbn [length]; lia|]. cbn [nth]. exact Hy.
Qed.

Lemma sorted_nth_lt s : StronglySorted Z.lt s -> forall i k, (i < k)%nat -> (k < length s)%nat -> nth i s 0 < nth k s 0.
Proof.
  induction 1 as [|x r Hr IH Hall]; intros i k Hik Hk; cbn [length] in Hk; [lia|].
  destruct k as [|k]; [lia|]. destruct i as [|i]; cbn [nth].
  - rewrite Forall_forall in Hall. apply Hall. apply nth_In. lia.
  - apply IH; lia.
Qed.

Lemma inject_Z_sub a b : inject_Z (a - b) = (inject_Z a - inject_Z b)%Q.
Proof. unfold Z.sub, Qminus. rewrite inject_Z_plus, inject_Z_opp. reflexivity. Qed.

(* where the linear-interpolated percentile of tie-free sorted data sits *)
Lemma percentile_bracket s q : StronglySorted Z.lt s -> s <> [] -> (0 <= q)%Q -> (q <= 1)%Q ->
  let j := Qfloor (inject_Z (lenZ s - 1) * q) in
  0 <= j <= lenZ s - 1 /\
  (inject_Z (nthZ s j) <= percentile s q)%Q /\
  (j + 1 <= lenZ s - 1 -> (percentile s q < inject_Z (nthZ s (j + 1)))%Q).
Proof.
  intros Hs Hne Hq0 Hq1 j.
  assert (HN : 1 <= lenZ s) by (destruct s; [congruence|unfold lenZ; cbn [length]; lia]).
  set (vi := (inject_Z (lenZ s - 1) * q)%Q) in *.
  assert (HM : (0 <= inject_Z (lenZ s - 1))%Q) by (rewrite <- (Zle_Qle 0); lia).
  assert (Hv0 : (0 <= vi)%Q) by (unfold vi; nra).
  assert (Hv1 : (vi <= inject_Z (lenZ s - 1))%Q) by (unfold vi; nra).
  assert (Hj : 0 <= j <= lenZ s - 1).
  { split.
    - change 0 with (Qfloor (inject_Z 0)). apply Qfloor_resp_le. exact Hv0.
    - rewrite <- (Qfloor_Z (lenZ s - 1)). apply Qfloor_resp_le. exact Hv1. }
  split; [exact Hj|].
  pose proof (Qfloor_le vi) as Hg0. pose proof (Qlt_floor vi) as Hg1. fold j in Hg0, Hg1.
  rewrite inject_Z_plus in Hg1. change (inject_Z 1) with 1%Q in Hg1.
  unfold percentile. fold vi. fold j.
  set (g := (vi - inject_Z j)%Q).
  assert (Hg : (0 <= g)%Q /\ (g < 1)%Q) by (unfold g; split; lra).
  destruct (Z.le_gt_cases (j + 1) (lenZ s - 1)) as [Hlt|Hge].
  - rewrite Z.min_l by lia.
    assert (Hab : nthZ s j < nthZ s (j + 1)).
    { unfold nthZ. apply sorted_nth_lt; [exact Hs|lia|unfold lenZ in *; lia]. }
    rewrite Zlt_Qlt in Hab. rewrite (inject_Z_sub (nthZ s (j + 1)) (nthZ s j)).
    split; [|intros _]; nra.
  - rewrite Z.min_r by lia. replace (lenZ s - 1) with j by lia. rewrite Z.sub_diag.
    split; [|lia]. change (inject_Z 0) with 0%Q. lra.
Qed.

Lemma filter_compl_length {A} (f : A -> bool) l : (length (filter f l) + length (filter (fun x => negb (f x)) l) = length l)%nat.
Proof. induction l as [|a r IH]; [reflexivity|]. cbn [filter]. destruct (f a); cbn [negb length]; lia. Qed.

(* C20_labels_prop: tie-free decision values, cut = percentile q  ->  #{d <= cut} = floor((N-1) q) + 1 *)
Lemma labels_prop d q : NoDup d -> d <> [] -> (0 <= q)%Q -> (q <= 1)%Q ->
  lenZ (filter (fun x => Qle_bool (inject_Z x) (percentile (sort d) q)) d) = Qfloor (inject_Z (lenZ d - 1) * q) + 1.
Proof.
  intros Hnd Hne Hq0 Hq1.
  assert (Hs : StronglySorted Z.lt (sort d)).
  { apply sorted_le_lt; [|apply sort_sorted]. eapply Permutation_NoDup; [symmetry; apply sort_perm|exact Hnd]. }
  assert (Hne' : sort d <> []).
  { intros E. apply Hne. apply Permutation_nil. rewrite <- E. apply sort_perm. }
  assert (HL : lenZ (sort d) = lenZ d) by (unfold lenZ; rewrite sort_length; reflexivity).
  destruct (percentile_bracket (sort d) q Hs Hne' Hq0 Hq1) as [Hj [Hlo Hhi]]. rewrite HL in *.
  set (j := Qfloor (inject_Z (lenZ d - 1) * q)) in *.
  unfold lenZ at 1. rewrite (filter_length_perm _ d (sort d)) by (symmetry; apply sort_perm).
  rewrite (count_sorted _ (sort d) (Z.to_nat j) Hs).
  - lia.
  - rewrite sort_length. unfold lenZ in Hj. lia.
  - intros x Hx. apply Qle_bool_iff. eapply Qle_trans; [|exact Hlo]. rewrite <- Zle_Qle. exact Hx.
  - intros x Hl Hx. rewrite sort_length in Hl. unfold lenZ in Hj.
    destruct (Qle_bool (inject_Z x) (percentile (sort d) q)) eqn:E; [|reflexivity]. apply Qle_bool_iff in E. exfalso.
    assert (H1 : j + 1 <= lenZ d - 1) by (unfold lenZ; lia). specialize (Hhi H1).
    assert (H2 : (inject_Z (nthZ (sort d) (j + 1)) <= inject_Z x)%Q).
    { rewrite <- Zle_Qle. unfold nthZ. replace (Z.to_nat (j + 1)) with (S (Z.to_nat j)) by lia. exact Hx. }
    lra.
Qed.

Lemma labels_above d q : NoDup d -> d <> [] -> (0 <= q)%Q -> (q <= 1)%Q ->
  lenZ (filter (fun x => qlt_bool (percentile (sort d) q) (inject_Z x)) d) = lenZ d - 1 - Qfloor (inject_Z (lenZ d - 1) * q).
Proof.
  intros Hnd Hne Hq0 Hq1. pose proof (labels_prop d q Hnd Hne Hq0 Hq1) as H.
  pose proof (filter_compl_length (fun x => Qle_bool (inject_Z x) (percentile (sort d) q)) d) as Hc.
  unfold qlt_bool. unfold lenZ in *. lia.
Qed.

(* ------------------------------------------------------------------------------------------ *)
(* noise *)

Lemma upd_length i v l : length (upd i v l) = length l.
Proof. revert i. induction l as [|a r IH]; intros [|i]; cbn [upd length]; auto. Qed.
Lemma upd_In i v l x : In x (upd i v l) -> x = v \/ In x l.
Proof.
  revert i. induction l as [|a r IH]; intros [|i]; cbn [upd In]; try tauto.
  - intros [H|H]; auto.
  - intros [H|H]; auto. destruct (IH _ H); auto.
Qed.
Lemma diff_count_refl c : diff_count c c = 0.
Proof. induction c as [|a r IH]; [reflexivity|]. cbn [diff_count]. rewrite Z.eqb_refl, IH. reflexivity. Qed.
Lemma diff_count_nonneg a b : 0 <= diff_count a b.
Proof. revert b. induction a as [|x r IH]; intros [|y s]; cbn [diff_count]; try lia. specialize (IH s). destruct (x =? y); lia. Qed.
Lemma diff_upd c0 i v c : diff_count c0 (upd i v c) <= diff_count c0 c + 1.
Proof.
  revert i c. induction c0 as [|x r IH]; intros i c; [cbn [diff_count]; lia|].
  destruct c as [|y s]; [destruct i; cbn [upd diff_count]; lia|].
  destruct i as [|i]; cbn [upd diff_count].
  - destruct (x =? v), (x =? y); lia.
  - specialize (IH i s). lia.
Qed.
Lemma nth_upd_same i v l d : (i < length l)%nat -> nth i (upd i v l) d = v.
Proof. revert i. induction l as [|a r IH]; intros [|i] H; cbn [length] in H; cbn [upd nth]; try lia; auto. apply IH. lia. Qed.
Lemma nth_upd_other i k v l d : i <> k -> nth k (upd i v l) d = nth k l d.
Proof.
  revert i k. induction l as [|a r IH]; intros [|i] [|k] H; cbn [upd nth]; try reflexivity; try lia. apply IH. lia.
Qed.

Lemma dedup_incl l x : In x (dedup l) -> In x l.
Proof.
  induction l as [|a r IH]; cbn [dedup]; [tauto|]. destruct (memZ a r); cbn [In]; intros H; [right; auto|].
  destruct H; auto.
Qed.
Lemma dedup_In l x : In x (dedup l) <-> In x l.
Proof.
  split; [apply dedup_incl|]. induction l as [|a r IH]; cbn [dedup In]; [tauto|].
  intros [->|H].
  - destruct (memZ x r) eqn:E; [apply IH; apply memZ_In; exact E|now left].
  - destruct (memZ a r); [auto|right; auto].
Qed.
Lemma dedup_NoDup l : NoDup (dedup l).
Proof.
  induction l as [|a r IH]; cbn [dedup]; [constructor|]. destruct (memZ a r) eqn:E; [exact IH|].
  constructor; [|exact IH]. rewrite dedup_In. apply memZ_false. exact E.
Qed.
Lemma uniq_In y x : In x (uniq y) <-> In x y.
Proof. unfold uniq. rewrite dedup_In. apply sort_In. Qed.
Lemma uniq_NoDup y : NoDup (uniq y).
Proof. apply dedup_NoDup. Qed.

Lemma firstn_incl {A} n (l : list A) x : In x (firstn n l) -> In x l.
Proof. intros H. rewrite <- (firstn_skipn n l). apply in_or_app. now left. Qed.
Lemma skipn_incl {A} n (l : list A) x : In x (skipn n l) -> In x l.
Proof. intros H. rewrite <- (firstn_skipn n l). apply in_or_app. now right. Qed.
Lemma pyslice_incl l a b x : In x (pyslice l a b) -> In x l.
Proof. unfold pyslice. intros H. apply firstn_incl in H. apply skipn_incl in H. exact H. Qed.

Lemma lookup_map_In {A} (F : A -> Z * list Z) L k s : lookup k (map F L) = Some s -> exists i, In i L /\ s = snd (F i).
Proof.
  induction L as [|a r IH]; cbn [map lookup]; [discriminate|].
  destruct (F a) as [k' s'] eqn:E. destruct (k =? k').
  - intros H. inversion H; subst. exists a. split; [now left|]. rewrite E. reflexivity.
  - intros H. destruct (IH H) as [i [Hi Hs]]. exists i. split; [now right|exact Hs].
Qed.

Lemma upl_incl cum fs lv lc k s : lookup k (upl cum fs lv lc) = Some s -> incl s fs.
Proof.
  unfold upl. intros H. apply lookup_map_In in H. destruct H as [i [_ ->]]. cbn [snd].
  intros x Hx. destruct cum; [|destruct i as [|i']]; apply dedup_incl in Hx; eapply pyslice_incl; exact Hx.
Qed.

Lemma union_lookup_incl cum fs lv lc keys vals : union_lookup keys (upl cum fs lv lc) = Some vals -> incl vals fs.
Proof.
  revert vals. induction keys as [|k r IH]; intros vals H; cbn [union_lookup] in H.
  - inversion H. intros x [].
  - destruct (lookup k (upl cum fs lv lc)) as [s|] eqn:E; [|discriminate].
    destruct (union_lookup r (upl cum fs lv lc)) as [t|] eqn:E2; [|discriminate]. inversion H; subst.
    intros x Hx. apply in_app_or in Hx. destruct Hx as [Hx|Hx]; [eapply upl_incl; eassumption|apply (IH t eq_refl); exact Hx].
Qed.

Lemma flip1_spec cum fs lv lc ysort inds ix col st col' st' :
  flip1 lv (upl cum fs lv lc) ysort inds ix col st = Ok (col', st') ->
  exists pos v, col' = upd pos v col /\ In v fs.
Proof.
  unfold flip1. set (d := upl cum fs lv lc).
  destruct (union_lookup (possible lv (nthZ ysort ix)) d) as [vals|] eqn:Ev; [|discriminate].
  destruct (lookup (nthZ ysort ix) d) as [own|] eqn:Eo; [|discriminate].
  destruct (filter (fun v => negb (memZ v own)) vals) as [|w vals'] eqn:Ef.
  - destruct (possible lv (nthZ ysort ix)) as [|p0 pr] eqn:Ep; [discriminate|].
    destruct st as [|[m l|v|hi k|l|m l] st1]; try discriminate.
    destruct ((hi =? lenZ (p0 :: pr)) && in_range hi k); [|discriminate].
    destruct (lookup (nthZ (p0 :: pr) k) d) as [[|v0 vs]|] eqn:El; try discriminate.
    destruct st1 as [|[m l|v|hi' k'|l|m l] st2]; try discriminate.
    destruct (memZ v (v0 :: vs)) eqn:Em; [|discriminate]. intros H. inversion H; subst.
    exists (Z.to_nat (nthZ inds ix)), v. split; [reflexivity|].
    apply memZ_In in Em. eapply upl_incl; [exact El|exact Em].
  - destruct st as [|[m l|v|hi k|l|m l] st1]; try discriminate.
    destruct (memZ v (w :: vals')) eqn:Em; [|discriminate]. intros H. inversion H; subst.
    exists (Z.to_nat (nthZ inds ix)), v. split; [reflexivity|].
    apply memZ_In in Em. rewrite <- Ef in Em. apply filter_In in Em. destruct Em as [Em _].
    eapply union_lookup_incl; eassumption.
Qed.

Lemma flips_spec cum fs lv lc ysort inds c0 ixs : forall col st col' st',
  flips lv (upl cum fs lv lc) ysort inds ixs col st = Ok (col', st') ->
  length col' = length col /\
  (forall x, In x col' -> In x col \/ In x fs) /\
  diff_count c0 col' <= diff_count c0 col + lenZ ixs.
Proof.
  induction ixs as [|ix r IH]; intros col st col' st' H; cbn [flips] in H.
  - inversion H; subst. split; [reflexivity|]. split; [auto|]. unfold lenZ. cbn [length]. lia.
  - destruct (flip1 lv (upl cum fs lv lc) ysort inds ix col st) as [[col1 st1]| |] eqn:E1; try discriminate.
    destruct (flip1_spec _ _ _ _ _ _ _ _ _ _ _ E1) as [pos [v [-> Hv]]].
    destruct (IH _ _ _ _ H) as [HL [HI HD]]. split; [rewrite HL; apply upd_length|]. split.
    + intros x Hx. destruct (HI x Hx) as [Hx'|Hx']; [|auto]. apply upd_In in Hx'. destruct Hx' as [->|Hx']; auto.
    + pose proof (diff_upd c0 pos v col). unfold lenZ in *. cbn [length]. lia.
Qed.

Definition col_cat_ok (k : Z) (c o : list Z) : Prop :=
  length o = length c /\ diff_count c o <= k /\ forall v, In v o -> In v c.

Lemma noise_col_cat_spec cum lv lc ysort inds n k col st col' st' :
  forallb (in_range n) inds = true -> lenZ col = n ->
  noise_col_cat cum lv lc ysort inds n k col st = Ok (col', st') -> col_cat_ok k col col'.
Proof.
  intros Hin Hlen. unfold noise_col_cat.
  destruct st as [|[m ixs|v|hi k'|l|m l] st1]; try discriminate.
  destruct (idx_answer_ok n k m ixs) eqn:Ea; [|discriminate]. intros H.
  destruct (flips_spec _ _ _ _ _ _ col _ _ _ _ _ H) as [HL [HI HD]].
  assert (Hfs : incl (map (nthZ col) inds) col).
  { intros x Hx. apply in_map_iff in Hx. destruct Hx as [i [<- Hi]]. rewrite forallb_forall in Hin. specialize (Hin i Hi).
    unfold in_range in Hin. unfold nthZ. apply nth_In. unfold lenZ in Hlen. lia. }
  unfold idx_answer_ok in Ea. rewrite diff_count_refl in HD.
  split; [exact HL|]. split; [rewrite !andb_true_iff in Ea; destruct Ea as [[[_ Ek] _] _]; apply Z.eqb_eq in Ek; lia|]. intros v Hv. destruct (HI v Hv) as [H1|H1]; [exact H1|apply Hfs; exact H1].
Qed.

Lemma cols_loop_Forall2 (f : list Z -> list ans -> res (list Z * list ans)) (Q P : list Z -> Prop) (R : list Z -> list Z -> Prop) :
  (forall c st c' st', Q c -> f c st = Ok (c', st') -> R c c') ->
  forall cols st out st', Forall Q cols -> cols_loop f cols st = Ok (out, st') -> Forall2 R cols out.
Proof.
  intros Hf. induction cols as [|c r IH]; intros st out st' HQ H; cbn [cols_loop] in H.
  - inversion H. constructor.
  - inversion HQ; subst. destruct (f c st) as [[c1 st1]| |] eqn:E1; try discriminate.
    destruct (cols_loop f r st1) as [[r1 st2]| |] eqn:E2; try discriminate. inversion H; subst.
    constructor; [eapply Hf; eassumption|eapply IH; eassumption].
Qed.

Lemma finish_Ok {A} (r : res (A * list ans)) a : finish r = Ok a -> r = Ok (a, []).
Proof. destruct r as [[a' [|x st]]| |]; cbn [finish]; intros H; inversion H; reflexivity. Qed.

Lemma nflip_nonneg n p : 0 <= n -> p_ok n p = true -> 0 <= nflip n p <= n.
Proof.
  intros Hn Hp. unfold p_ok in Hp. apply andb_true_iff in Hp. destruct Hp as [H0 H1].
  apply Qle_bool_iff in H0. unfold nflip in *.
  assert (Hn' : (0 <= inject_Z n)%Q) by (rewrite <- (Zle_Qle 0); exact Hn).
  split; [|lia].
  change 0 with (Qfloor (inject_Z 0)). apply Qfloor_resp_le. change (inject_Z 0) with 0%Q. nra.
Qed.

(* what the oracle check on the code's int(n*p) guarantees *)
Definition kflip_spec (n : Z) (p : Q) (k : Z) : Prop :=
  nflip n p - 1 <= k <= nflip n p + 1 /\
  (let g := (inject_Z n * p - inject_Z (nflip n p))%Q in
   small_dyadic n p = true \/ ((eps9 <= g)%Q /\ (g <= 1 - eps9)%Q) -> k = nflip n p).
Lemma kflip_ok_spec n p k : kflip_ok n p k = true -> kflip_spec n p k.
Proof.
  unfold kflip_ok, kflip_spec, nflip. set (x := (inject_Z n * p)%Q). set (f := Qfloor x).
  destruct (small_dyadic n p) eqn:Es.
  - intros H. apply Z.eqb_eq in H. split; [lia|]. intros _. exact H.
  - destruct (qlt_bool (x - inject_Z f) eps9) eqn:E1.
    + intros H. apply qlt_bool_iff in E1. split; [lia|]. intros [Hd|[Hg _]]; [discriminate|]. exfalso. lra.
    + destruct (qlt_bool (1 - eps9) (x - inject_Z f)) eqn:E2.
      * intros H. apply qlt_bool_iff in E2. split; [lia|]. intros [Hd|[_ Hg]]; [discriminate|]. exfalso. lra.
      * intros H. apply Z.eqb_eq in H. split; [lia|]. intros _. exact H.
Qed.

(* C20_noise_cat *)
Lemma noise_cat_spec cum cols y p k inds st out :
  Forall (fun c => lenZ c = lenZ y) cols ->
  noise_cat cum cols y p k inds st = Ok out ->
  Forall2 (col_cat_ok k) cols out /\ kflip_spec (lenZ y) p k.
Proof.
  intros Hc. unfold noise_cat.
  destruct (is_perm (lenZ y) inds && sortedb (map (nthZ y) inds)) eqn:E1; cbn [negb]; [|discriminate].
  destruct (p_ok (lenZ y) p) eqn:E2; cbn [negb]; [|discriminate].
  destruct (kflip_ok (lenZ y) p k) eqn:E3; cbn [negb]; [|discriminate]. intros H. apply finish_Ok in H.
  split; [|apply kflip_ok_spec; exact E3].
  apply andb_true_iff in E1. destruct E1 as [E1 _]. unfold is_perm in E1.
  apply andb_true_iff in E1. destruct E1 as [E1 _]. apply andb_true_iff in E1. destruct E1 as [_ Hin].
  eapply (cols_loop_Forall2 _ (fun c => lenZ c = lenZ y) (fun _ => True)); [|exact Hc|exact H].
  intros c st0 c' st0' Hl Hf. eapply noise_col_cat_spec; [exact Hin|exact Hl|exact Hf].
Qed.

Lemma forallb_combine_Forall2 {A B} (g : A * B -> bool) a b :
  length a = length b -> forallb g (combine a b) = true -> Forall2 (fun x y => g (x, y) = true) a b.
Proof.
  revert b. induction a as [|x r IH]; intros [|y s] HL H; cbn [length] in HL; try lia; [constructor|].
  cbn [combine forallb] in H. apply andb_true_iff in H. destruct H as [H1 H2]. constructor; [exact H1|]. apply IH; [lia|exact H2].
Qed.

Lemma noise_cat_check_sound cols n p k out : noise_cat_check cols n p k out = true ->
  Forall2 (col_cat_ok k) cols out /\ kflip_spec n p k.
Proof.
  unfold noise_cat_check, same_shape. rewrite !andb_true_iff. intros [[[HL HS] HK] HC].
  split; [|apply kflip_ok_spec; exact HK].
  apply Nat.eqb_eq in HL. apply forallb_combine_Forall2 in HC; [|exact HL]. apply forallb_combine_Forall2 in HS; [|exact HL].
  clear HL. induction HC as [|c o r s H1 _ IH]; [constructor|]. inversion HS; subst. constructor; [|apply IH; assumption].
  cbn [fst snd] in *. apply andb_true_iff in H1. destruct H1 as [Hd Hm].
  split; [symmetry; apply Nat.eqb_eq; assumption|]. split; [lia|].
  rewrite forallb_forall in Hm. intros v Hv. apply memZ_In. apply Hm. exact Hv.
Qed.

(* ---- missing-value noise ---- *)
Lemma countZ_cons v a l : countZ v (a :: l) = (if v =? a then 1 else 0) + countZ v l.
Proof. unfold countZ, lenZ. cbn [filter]. destruct (v =? a); cbn [length]; lia. Qed.
Lemma countZ_nonneg v l : 0 <= countZ v l.
Proof. apply lenZ_nonneg. Qed.
Lemma countZ_zero v l : ~ In v l -> countZ v l = 0.
Proof.
  induction l as [|a r IH]; intros H; [reflexivity|]. rewrite countZ_cons. cbn [In] in H.
  destruct (Z.eqb_spec v a); [exfalso; apply H; left; congruence|]. rewrite IH by tauto. reflexivity.
Qed.
Lemma countZ_pos v l : In v l -> 0 < countZ v l.
Proof.
  induction l as [|a r IH]; intros H; [destruct H|]. rewrite countZ_cons. pose proof (countZ_nonneg v r).
  destruct H as [->|H]; [rewrite Z.eqb_refl; lia|]. specialize (IH H). destruct (v =? a); lia.
Qed.
Lemma countZ_upd m i l : (i < length l)%nat -> nth i l 0 <> m -> countZ m (upd i m l) = countZ m l + 1.
Proof.
  revert i. induction l as [|a r IH]; intros [|i] Hi Hn; cbn [length] in Hi; try lia; cbn [upd nth] in *; rewrite !countZ_cons.
  - rewrite Z.eqb_refl. destruct (Z.eqb_spec m a); [congruence|]. lia.
  - rewrite IH by (try lia; exact Hn). lia.
Qed.

Lemma missing_fold_count m ixs : forall col,
  NoDup ixs -> (forall i, In i ixs -> 0 <= i < lenZ col) -> (forall i, In i ixs -> nthZ col i <> m) ->
  countZ m (fold_left (fun c ix => updZ ix m c) ixs col) = countZ m col + lenZ ixs.
Proof.
  induction ixs as [|ix r IH]; intros col Hnd Hr Hm; cbn [fold_left].
  - unfold lenZ. cbn [length]. lia.
  - inversion Hnd; subst. rewrite IH.
    + unfold updZ. rewrite countZ_upd.
      * unfold lenZ. cbn [length]. lia.
      * specialize (Hr ix (or_introl eq_refl)). unfold lenZ in Hr. lia.
      * apply (Hm ix). now left.
    + assumption.
    + intros i Hi. unfold updZ, lenZ. rewrite upd_length. apply Hr. now right.
    + intros i Hi. unfold updZ, nthZ. rewrite nth_upd_other.
      * apply (Hm i). now right.
      * intros E. assert (ix = i).
        { pose proof (Hr ix (or_introl eq_refl)). pose proof (Hr i (or_intror Hi)). lia. }
        subst i. contradiction.
Qed.

Lemma upd_Forall2 (R : Z -> Z -> Prop) m : (forall a, R a m) ->
  forall c o i, Forall2 R c o -> Forall2 R c (upd i m o).
Proof.
  intros HR c o i H. revert i. induction H as [|a b c o Hab Hco IH]; intros [|i]; cbn [upd]; constructor; auto.
Qed.
Lemma Forall2_refl_eq (R : Z -> Z -> Prop) : (forall a, R a a) -> forall c, Forall2 R c c.
Proof. intros HR c. induction c; constructor; auto. Qed.

Lemma Forall2_weaken {A B} (R R' : A -> B -> Prop) a b : (forall x y, R x y -> R' x y) -> Forall2 R a b -> Forall2 R' a b.
Proof. intros HR H. induction H; constructor; auto. Qed.

Definition col_missing_ok (n k marker : Z) (c o : list Z) : Prop :=
  Forall2 (fun a b => b = a \/ b = marker) c o /\ (~ In marker c -> countZ marker o = k).

Lemma noise_col_missing_spec n k marker col st col' st' : lenZ col = n ->
  noise_col_missing n k marker col st = Ok (col', st') -> col_missing_ok n k marker col col'.
Proof.
  intros Hlen. unfold noise_col_missing.
  destruct st as [|[m ixs|v|hi k'|l|m l] st1]; try discriminate.
  destruct (idx_answer_ok n k m ixs) eqn:Ea; [|discriminate]. intros H. inversion H; subst col' st'. clear H.
  unfold idx_answer_ok in Ea. rewrite !andb_true_iff in Ea. destruct Ea as [[[_ Hk] Hr] Hnd].
  split.
  - assert (G : forall js c o, Forall2 (fun a b => b = a \/ b = marker) c o ->
        Forall2 (fun a b => b = a \/ b = marker) c (fold_left (fun c ix => updZ ix marker c) js o)).
    { intros js. induction js as [|ix r IH]; intros c o Hco; cbn [fold_left]; [exact Hco|]. apply IH. unfold updZ. apply upd_Forall2; [auto|exact Hco]. }
    apply G. apply Forall2_refl_eq. auto.
  - intros Hnm. rewrite missing_fold_count.
    + rewrite (countZ_zero _ _ Hnm). lia.
    + apply nodupb_NoDup. exact Hnd.
    + intros i Hi. rewrite forallb_forall in Hr. specialize (Hr i Hi). unfold in_range in Hr. lia.
    + intros i Hi E. apply Hnm. rewrite <- E. unfold nthZ. apply nth_In.
      rewrite forallb_forall in Hr. specialize (Hr i Hi). unfold in_range, lenZ in *. lia.
Qed.

(* C20_noise_missing *)
Lemma noise_missing_spec cols n p k marker st out :
  Forall (fun c => lenZ c = n) cols ->
  noise_missing cols n p k marker st = Ok out ->
  Forall2 (col_missing_ok n k marker) cols out /\ kflip_spec n p k.
Proof.
  intros Hc. unfold noise_missing. destruct (p_ok n p); cbn [negb]; [|discriminate].
  destruct (kflip_ok n p k) eqn:E3; cbn [negb]; [|discriminate]. intros H. apply finish_Ok in H.
  split; [|apply kflip_ok_spec; exact E3].
  eapply (cols_loop_Forall2 _ (fun c => lenZ c = n) (fun _ => True)); [|exact Hc|exact H].
  intros c st0 c' st0' Hl Hf. eapply noise_col_missing_spec; eassumption.
Qed.

Lemma noise_missing_check_sound cols n p k marker out :
  noise_missing_check cols n p k marker out = true -> Forall2 (col_missing_ok n k marker) cols out /\ kflip_spec n p k.
Proof.
  unfold noise_missing_check, same_shape. rewrite !andb_true_iff. intros [[[HL HS] HK] HC].
  split; [|apply kflip_ok_spec; exact HK].
  apply Nat.eqb_eq in HL. apply forallb_combine_Forall2 in HC; [|exact HL]. apply forallb_combine_Forall2 in HS; [|exact HL].
  clear HL. induction HC as [|c o r s H1 _ IH]; [constructor|]. inversion HS; subst. constructor; [|apply IH; assumption].
  cbn [fst snd] in *. apply andb_true_iff in H1. destruct H1 as [Hp Hm]. split.
  - apply forallb_combine_Forall2 in Hp; [|apply Nat.eqb_eq; assumption].
    eapply Forall2_weaken; [|exact Hp]. cbn [fst snd]. intros a b Hab. apply orb_true_iff in Hab. destruct Hab as [E|E]; apply Z.eqb_eq in E; auto.
  - intros Hn. apply orb_true_iff in Hm. destruct Hm as [Hm|Hm]; [apply memZ_In in Hm; contradiction|apply Z.eqb_eq; exact Hm].
Qed.

(* ------------------------------------------------------------------------------------------ *)
(* down-sampling *)

Definition down_ok (X : mat) (y : list Z) (k : Z) (Xd : mat) (yd : list Z) : Prop :=
  length Xd = length yd /\
  (forall lab, In lab (uniq y) -> countZ lab yd = k) /\
  (forall lab, In lab yd -> In lab y) /\
  Forall (fun ry => In ry (combine X y)) (combine Xd yd).

Lemma countZ_app v a b : countZ v (a ++ b) = countZ v a + countZ v b.
Proof. unfold countZ. rewrite filter_app, lenZ_app. reflexivity. Qed.
Lemma countZ_repeat_same v k : countZ v (repeat v k) = Z.of_nat k.
Proof. induction k as [|k IH]; [reflexivity|]. cbn [repeat]. rewrite countZ_cons, Z.eqb_refl, IH. lia. Qed.
Lemma countZ_repeat_other v w k : v <> w -> countZ v (repeat w k) = 0.
Proof. intros H. apply countZ_zero. intros Hin. apply repeat_spec in Hin. congruence. Qed.

Lemma combine_app {A B} (a a' : list A) (b b' : list B) : length a = length b ->
  combine (a ++ a') (b ++ b') = combine a b ++ combine a' b'.
Proof.
  revert b. induction a as [|x r IH]; intros [|y s] H; cbn [length] in H; try lia; [reflexivity|].
  cbn [app combine]. f_equal. apply IH. lia.
Qed.

Lemma Forall_combine_map_repeat {A} (P : A * Z -> Prop) (f : Z -> A) lab ixs : forall k,
  (forall i, In i ixs -> P (f i, lab)) -> Forall P (combine (map f ixs) (repeat lab k)).
Proof.
  induction ixs as [|i r IH]; intros k H; [constructor|]. destruct k as [|k]; [constructor|].
  cbn [map repeat combine]. constructor; [apply H; now left|]. apply IH. intros j Hj. apply H. now right.
Qed.

Lemma rows_of_In X y lab row : In row (rows_of X y lab) -> In (row, lab) (combine X y).
Proof.
  unfold rows_of. intros H. apply in_map_iff in H. destruct H as [[r l] [E H]]. cbn [fst] in E. subst r.
  apply filter_In in H. destruct H as [H E]. cbn [snd] in E. apply Z.eqb_eq in E. subst l. exact H.
Qed.

Lemma down_loop_spec X y n labels : forall st Xd yd st', NoDup labels -> 0 <= n ->
  down_loop X y n labels st = Ok ((Xd, yd), st') ->
  length Xd = length yd /\
  (forall lab, In lab labels -> countZ lab yd = n) /\
  (forall lab, In lab yd -> In lab labels) /\
  Forall (fun ry => In ry (combine X y)) (combine Xd yd).
Proof.
  induction labels as [|lab r IH]; intros st Xd yd st' Hnd Hn H; cbn [down_loop] in H.
  - inversion H; subst. split; [reflexivity|]. split; [intros ? []|]. split; [intros ? []|]. constructor.
  - destruct st as [|[m l|v|hi k'|l|m ixs] st1]; try discriminate.
    destruct ((m =? lenZ (rows_of X y lab)) && (lenZ ixs =? n) && forallb (in_range m) ixs) eqn:Ea; [|discriminate].
    destruct (down_loop X y n r st1) as [[[Xr yr] st2]| |] eqn:Er; try discriminate.
    inversion H; subst Xd yd st'. clear H. inversion Hnd as [|? ? Hnotin Hnd']; subst.
    destruct (IH _ _ _ _ Hnd' Hn Er) as [HL [HC [HI HF]]].
    rewrite !andb_true_iff in Ea. destruct Ea as [[Em Ek] Hr]. apply Z.eqb_eq in Em, Ek.
    assert (HLa : length (map (fun i => nth (Z.to_nat i) (rows_of X y lab) []) ixs) = length (repeat lab (Z.to_nat n))).
    { rewrite map_length, repeat_length. unfold lenZ in Ek. lia. }
    split; [rewrite !app_length; lia|]. split; [|split].
    + intros lab' [<-|Hl]; rewrite countZ_app.
      * rewrite countZ_repeat_same. rewrite (countZ_zero lab yr); [lia|]. intros Hin. apply Hnotin. apply HI. exact Hin.
      * rewrite countZ_repeat_other; [rewrite HC by exact Hl; lia|]. intros ->. contradiction.
    + intros lab' Hin. apply in_app_or in Hin. destruct Hin as [Hin|Hin]; [apply repeat_spec in Hin; left; congruence|right; apply HI; exact Hin].
    + rewrite combine_app by exact HLa. apply Forall_app. split; [|exact HF].
      apply Forall_combine_map_repeat. intros i Hi. apply rows_of_In. apply nth_In.
      rewrite forallb_forall in Hr. specialize (Hr i Hi). unfold in_range, lenZ in *. lia.
Qed.

Lemma map_nth_seq {A} (l : list A) d : map (fun i => nth i l d) (seq 0 (length l)) = l.
Proof.
  induction l as [|a r IH]; [reflexivity|]. cbn [length seq map nth]. f_equal.
  rewrite <- seq_shift, map_map. cbn [nth]. exact IH.
Qed.

Lemma NoDup_map_to_nat l : (forall z, In z l -> 0 <= z) -> NoDup l -> NoDup (map Z.to_nat l).
Proof.
  induction l as [|a r IH]; intros Hp Hnd; [constructor|]. inversion Hnd; subst. cbn [map]. constructor.
  - intros Hin. apply in_map_iff in Hin. destruct Hin as [b [E Hb]].
    assert (a = b) by (pose proof (Hp a (or_introl eq_refl)); pose proof (Hp b (or_intror Hb)); lia). subst b. contradiction.
  - apply IH; [intros z Hz; apply Hp; now right|assumption].
Qed.

Lemma is_perm_Permutation n perm : is_perm (Z.of_nat n) perm = true -> Permutation (map Z.to_nat perm) (seq 0 n).
Proof.
  unfold is_perm. rewrite !andb_true_iff. intros [[HL Hr] Hnd]. apply Z.eqb_eq in HL. apply nodupb_NoDup in Hnd.
  rewrite forallb_forall in Hr.
  apply NoDup_Permutation_bis.
  - apply NoDup_map_to_nat; [|exact Hnd]. intros z Hz. specialize (Hr z Hz). unfold in_range in Hr. lia.
  - rewrite map_length, seq_length. unfold lenZ in HL. lia.
  - intros k Hk. apply in_map_iff in Hk. destruct Hk as [z [<- Hz]]. specialize (Hr z Hz). unfold in_range in Hr. apply in_seq. lia.
Qed.

Lemma perm_map_nth {A} (l : list A) d perm : is_perm (lenZ l) perm = true ->
  Permutation (map (fun i => nth (Z.to_nat i) l d) perm) l.
Proof.
  intros H. apply is_perm_Permutation in H.
  transitivity (map (fun i => nth i l d) (seq 0 (length l))); [|rewrite map_nth_seq; reflexivity].
  rewrite <- (map_map Z.to_nat (fun i => nth i l d)). apply Permutation_map. exact H.
Qed.

Lemma countZ_perm v l l' : Permutation l l' -> countZ v l = countZ v l'.
Proof. intros H. unfold countZ, lenZ. rewrite (filter_length_perm _ l l' H). reflexivity. Qed.

Lemma combine_map_map {A B C} (f : C -> A) (g : C -> B) l : combine (map f l) (map g l) = map (fun i => (f i, g i)) l.
Proof. induction l as [|a r IH]; [reflexivity|]. cbn [map combine]. f_equal. exact IH. Qed.

(* C20_downsample *)
Lemma downsample_spec X y n reshuffle st Xd yd :
  downsample X y n reshuffle st = Ok (Xd, yd) ->
  exists k, down_n y n = Some k /\ 0 <= k /\ down_ok X y k Xd yd /\ lenZ Xd = k * lenZ (uniq y).
Proof.
  unfold downsample. destruct (down_n y n) as [k|] eqn:Ek; [|discriminate].
  destruct (Z.ltb_spec k 0) as [Hk|Hk]; [discriminate|].
  destruct (down_loop X y k (uniq y) st) as [[[X1 y1] st1]| |] eqn:El; try discriminate.
  destruct (down_loop_spec X y k (uniq y) _ _ _ _ (uniq_NoDup y) Hk El) as [HL [HC [HI HF]]].
  assert (Hlen : lenZ y1 = k * lenZ (uniq y)).
  { clear -El Hk. revert st X1 y1 st1 El. induction (uniq y) as [|lab r IH]; intros st X1 y1 st1 El; cbn [down_loop] in El.
    - inversion El; subst. unfold lenZ. cbn [length]. lia.
    - destruct st as [|[m l|v|hi k'|l|m ixs] st0]; try discriminate.
      destruct ((m =? lenZ (rows_of X y lab)) && (lenZ ixs =? k) && forallb (in_range m) ixs); [|discriminate].
      destruct (down_loop X y k r st0) as [[[Xr yr] st2]| |] eqn:Er; try discriminate. inversion El; subst.
      rewrite lenZ_app. rewrite (IH _ _ _ _ Er). unfold lenZ. rewrite repeat_length. cbn [length]. lia. }
  intros H. exists k. split; [reflexivity|]. split; [exact Hk|].
  destruct reshuffle.
  - destruct st1 as [|[m l|v|hi k'|perm|m l] [|a st2]]; try discriminate.
    destruct (is_perm (lenZ X1) perm) eqn:Ep; [|discriminate]. inversion H; subst Xd yd. clear H.
    assert (Ep' : is_perm (lenZ y1) perm = true) by (unfold lenZ in *; rewrite <- HL; exact Ep).
    pose proof (perm_map_nth y1 0 perm Ep') as Py.
    split; [|unfold is_perm in Ep; rewrite !andb_true_iff in Ep; destruct Ep as [[Ep _] _]; apply Z.eqb_eq in Ep; unfold lenZ in *; rewrite map_length; lia].
    split; [rewrite !map_length; reflexivity|]. split; [|split].
    + intros lab Hl. change (map (nthZ y1) perm) with (map (fun i => nth (Z.to_nat i) y1 0) perm).
      rewrite (countZ_perm lab _ _ Py). apply HC. exact Hl.
    + intros lab Hl. apply uniq_In. apply HI. eapply Permutation_in; [exact Py|exact Hl].
    + unfold nthZ. rewrite combine_map_map. apply Forall_forall. intros ry Hry. apply in_map_iff in Hry. destruct Hry as [i [<- Hi]].
      rewrite Forall_forall in HF. apply HF. rewrite <- combine_nth by exact HL. apply nth_In.
      rewrite combine_length, <- HL, Nat.min_id.
      unfold is_perm in Ep. rewrite !andb_true_iff in Ep. destruct Ep as [[_ Hr] _]. rewrite forallb_forall in Hr.
      specialize (Hr i Hi). unfold in_range, lenZ in Hr. lia.
  - destruct st1; [|discriminate]. inversion H; subst Xd yd.
    split; [|unfold lenZ in *; lia]. split; [exact HL|]. split; [exact HC|]. split; [|exact HF].
    intros lab Hl. apply uniq_In. apply HI. exact Hl.
Qed.

Lemma list_eqb_eq a b : list_eqb a b = true -> a = b.
Proof.
  revert b. induction a as [|x r IH]; intros [|y s]; cbn [list_eqb]; try discriminate; [reflexivity|].
  rewrite andb_true_iff. intros [E H]. apply Z.eqb_eq in E. f_equal; auto.
Qed.

Lemma downsample_check_sound X y n Xd yd : downsample_check X y n Xd yd = true ->
  exists k, down_n y n = Some k /\ down_ok X y k Xd yd.
Proof.
  unfold downsample_check. destruct (down_n y n) as [k|]; [|discriminate]. rewrite !andb_true_iff.
  intros [[[HL HC] HI] HF]. exists k. split; [reflexivity|]. split; [apply Nat.eqb_eq; exact HL|]. split; [|split].
  - rewrite forallb_forall in HC. intros lab Hl. apply Z.eqb_eq. apply HC. exact Hl.
  - rewrite forallb_forall in HI. intros lab Hl. apply uniq_In. apply memZ_In. apply HI. exact Hl.
  - apply Forall_forall. intros [r l] Hrl. rewrite forallb_forall in HF. specialize (HF _ Hrl). apply existsb_exists in HF.
    destruct HF as [[r' l'] [Hin E]]. cbn [fst snd] in E. apply andb_true_iff in E. destruct E as [E1 E2].
    apply list_eqb_eq in E1. apply Z.eqb_eq in E2. subst. exact Hin.
Qed.

(* ------------------------------------------------------------------------------------------ *)
(* labels: what generate_labels returns *)

Lemma label_percents_range n p pcs : label_percents n p = Some pcs -> Forall (fun pc => (0 <= pc)%Q /\ (pc <= 100)%Q) pcs.
Proof.
  unfold label_percents. destruct (negb _); [discriminate|].
  match goal with |- match ?e with _ => _ end = _ -> _ => destruct e as [l|]; [|discriminate] end.
  destruct (forallb _ l) eqn:E; [|discriminate]. intros H. inversion H; subst.
  rewrite forallb_forall in E. apply Forall_forall. intros pc Hpc. specialize (E pc Hpc).
  apply andb_true_iff in E. destruct E as [E1 E2]. split; apply Qle_bool_iff; assumption.
Qed.

(* fix b9eb3ad: a class distribution given as a sequence (list or ndarray alike) with n > 2 classes is honoured:
   the cut percents are the cumulative sums of the first n-1 requested proportions, not multiples of 100/n *)
Lemma label_percents_list n ps :
  2 < n -> lenZ ps = n -> Qle_bool (qsum ps) 1 = true ->
  forallb (fun pc => Qle_bool 0 pc && Qle_bool pc 100) (prefix_sums 0%Q (map (fun x => (x * 100)%Q) (firstn (Z.to_nat (n - 1)) ps))) = true ->
  label_percents n (PList ps) = Some (prefix_sums 0%Q (map (fun x => (x * 100)%Q) (firstn (Z.to_nat (n - 1)) ps))).
Proof.
  intros Hn HL Hs Hr. unfold label_percents. rewrite Hs, HL, Z.leb_refl. cbn [andb negb].
  destruct (Z.ltb_spec 2 n); [|lia]. rewrite Z.eqb_refl. rewrite Hr. reflexivity.
Qed.

Lemma gen_labels_spec d n p y : gen_labels d n p = Some y ->
  exists pcs, label_percents n p = Some pcs /\ d <> [] /\ y = map (label (cut_points d pcs)) d /\ length y = length d.
Proof.
  unfold gen_labels. destruct d as [|d0 dr]; [discriminate|]. destruct (label_percents n p) as [pcs|]; [|discriminate].
  intros H. injection H as <-. exists pcs. split; [reflexivity|]. split; [discriminate|]. split; [reflexivity|].
  exact (map_length _ (d0 :: dr)).
Qed.

(* C20_labels_class_sizes: tie-free decision values; for every cut percent pc the code uses,
   exactly N - 1 - floor((N-1) pc/100) items lie above that cut point *)
Lemma labels_class_sizes d n p y : gen_labels d n p = Some y -> NoDup d ->
  exists pcs, label_percents n p = Some pcs /\ y = map (label (cut_points d pcs)) d /\
    forall pc, In pc pcs ->
      lenZ (filter (fun x => qlt_bool (percentile (sort d) (pc / 100)) (inject_Z x)) d)
      = lenZ d - 1 - Qfloor (inject_Z (lenZ d - 1) * (pc / 100)).
Proof.
  intros H Hnd. destruct (gen_labels_spec _ _ _ _ H) as [pcs [Hp [Hne [Hy _]]]]. exists pcs. split; [exact Hp|]. split; [exact Hy|].
  intros pc Hpc. pose proof (label_percents_range _ _ _ Hp) as Hr. rewrite Forall_forall in Hr. destruct (Hr pc Hpc) as [H0 H1].
  apply labels_above; try assumption.
  - apply Qle_shift_div_l; [reflexivity|]. lra.
  - apply Qle_shift_div_r; [reflexivity|]. lra.
Qed.

(* ------------------------------------------------------------------------------------------ *)
(* class sizes: cumulative counts of the labels on tie-free data *)

Lemma percentile_mono s q q' : StronglySorted Z.lt s -> s <> [] -> (0 <= q)%Q -> (q <= q')%Q -> (q' <= 1)%Q ->
  (percentile s q <= percentile s q')%Q.
Proof.
  intros Hs Hne H0 Hqq H1.
  assert (Hq1 : (q <= 1)%Q) by lra. assert (Hq0' : (0 <= q')%Q) by lra.
  destruct (percentile_bracket s q Hs Hne H0 Hq1) as [Hj [Hlo Hhi]].
  destruct (percentile_bracket s q' Hs Hne Hq0' H1) as [Hj' [Hlo' Hhi']].
  set (j := Qfloor (inject_Z (lenZ s - 1) * q)) in *. set (j' := Qfloor (inject_Z (lenZ s - 1) * q')) in *.
  assert (HM : (0 <= inject_Z (lenZ s - 1))%Q) by (rewrite <- (Zle_Qle 0); lia).
  assert (Hjj : j <= j') by (apply Qfloor_resp_le; nra).
  destruct (Z.eq_dec j j') as [E|NE].
  - unfold percentile. fold j. fold j'. rewrite <- E.
    set (a := nthZ s j). set (b := nthZ s (Z.min (j + 1) (lenZ s - 1))).
    assert (Hab : a <= b).
    { unfold a, b. destruct (Z.le_gt_cases (j + 1) (lenZ s - 1)).
      - rewrite Z.min_l by lia. unfold nthZ. apply Z.lt_le_incl. apply sorted_nth_lt; [exact Hs|lia|unfold lenZ in *; lia].
      - rewrite Z.min_r by lia. replace (lenZ s - 1) with j by lia. lia. }
    rewrite Zle_Qle in Hab. rewrite (inject_Z_sub b a).
    assert (Hv : (inject_Z (lenZ s - 1) * q <= inject_Z (lenZ s - 1) * q')%Q) by nra.
    set (vi := (inject_Z (lenZ s - 1) * q)%Q) in *. set (vi' := (inject_Z (lenZ s - 1) * q')%Q) in *. nra.
  - assert (H2 : j + 1 <= lenZ s - 1) by lia. specialize (Hhi H2).
    assert (H3 : (inject_Z (nthZ s (j + 1)) <= inject_Z (nthZ s j'))%Q).
    { rewrite <- Zle_Qle. destruct (Z.eq_dec (j + 1) j') as [->|N2]; [lia|].
      unfold nthZ. apply Z.lt_le_incl. apply sorted_nth_lt; [exact Hs|lia|unfold lenZ in *; lia]. }
    lra.
Qed.

Lemma label_cons c cuts x : label (c :: cuts) x = (if qlt_bool c (inject_Z x) then 1 else 0) + label cuts x.
Proof. unfold label, lenZ. cbn [filter]. destruct (qlt_bool c (inject_Z x)); cbn [length]; lia. Qed.

Lemma label_zero cuts x : (forall c, In c cuts -> ~ (c < inject_Z x)%Q) -> label cuts x = 0.
Proof.
  induction cuts as [|c r IH]; intros H; [reflexivity|]. rewrite label_cons.
  destruct (qlt_bool c (inject_Z x)) eqn:E; [apply qlt_bool_iff in E; exfalso; apply (H c); [now left|exact E]|].
  rewrite IH; [lia|]. intros c' Hc'. apply H. now right.
Qed.

(* for non-decreasing cut points: more than m cut points lie below x iff the m-th one does *)
Lemma label_gt_iff cuts x : StronglySorted Qle cuts -> forall m, (m < length cuts)%nat ->
  (Z.of_nat m < label cuts x <-> (nth m cuts 0%Q < inject_Z x)%Q).
Proof.
  induction 1 as [|c r Hr IH Hall]; intros m Hm; cbn [length] in Hm; [lia|]. rewrite label_cons.
  rewrite Forall_forall in Hall.
  destruct (qlt_bool c (inject_Z x)) eqn:E.
  - apply qlt_bool_iff in E. destruct m as [|m]; cbn [nth].
    + pose proof (label_range r x). split; [intros _; exact E|intros _; lia].
    + rewrite <- (IH m) by lia. lia.
  - assert (Hn : ~ (c < inject_Z x)%Q) by (intros Hc; apply qlt_bool_iff in Hc; congruence).
    assert (Hz : label r x = 0).
    { apply label_zero. intros c' Hc' Hlt. apply Hn. eapply Qle_lt_trans; [apply Hall; exact Hc'|exact Hlt]. }
    rewrite Hz. split; [lia|]. intros Hlt. exfalso. destruct m as [|m]; cbn [nth] in Hlt; [contradiction|].
    apply Hn. eapply Qle_lt_trans; [|exact Hlt]. apply Hall. apply nth_In. lia.
Qed.

Lemma sorted_map {A B} (R : A -> A -> Prop) (R' : B -> B -> Prop) (f : A -> B) l :
  (forall a b, In a l -> In b l -> R a b -> R' (f a) (f b)) -> StronglySorted R l -> StronglySorted R' (map f l).
Proof.
  intros Hf H. induction H as [|a r Hr IH Hall]; [constructor|]. cbn [map]. constructor.
  - apply IH. intros x y Hx Hy. apply Hf; now right.
  - rewrite Forall_forall in *. intros y Hy. apply in_map_iff in Hy. destruct Hy as [x [<- Hx]].
    apply Hf; [now left|now right|apply Hall; exact Hx].
Qed.

Lemma filter_map_length {A B} (f : A -> B) (P : B -> bool) l : length (filter P (map f l)) = length (filter (fun a => P (f a)) l).
Proof. induction l as [|a r IH]; [reflexivity|]. cbn [map filter]. destruct (P (f a)); cbn [length]; lia. Qed.
Lemma filter_ext_length {A} (P P' : A -> bool) l : (forall a, In a l -> P a = P' a) -> length (filter P l) = length (filter P' l).
Proof.
  induction l as [|a r IH]; intros H; [reflexivity|]. cbn [filter]. rewrite (H a) by now left.
  assert (E : length (filter P r) = length (filter P' r)) by (apply IH; intros b Hb; apply H; now right).
  destruct (P' a); cbn [length]; lia.
Qed.

(* C20_labels_class_sizes (cumulative form): tie-free decision values, non-decreasing cut percents pcs in [0,100]:
   the classes 0..m together hold exactly floor((N-1) pcs_m / 100) + 1 items *)
Lemma labels_cumulative d pcs m : NoDup d -> d <> [] ->
  Forall (fun pc => (0 <= pc)%Q /\ (pc <= 100)%Q) pcs -> StronglySorted Qle pcs -> (m < length pcs)%nat ->
  lenZ (filter (fun yi => yi <=? Z.of_nat m) (labels_of d (cut_points d pcs)))
  = Qfloor (inject_Z (lenZ d - 1) * (nth m pcs 0%Q / 100)) + 1.
Proof.
  intros Hnd Hne Hr Hsrt Hm.
  assert (Hs : StronglySorted Z.lt (sort d)).
  { apply sorted_le_lt; [|apply sort_sorted]. eapply Permutation_NoDup; [symmetry; apply sort_perm|exact Hnd]. }
  assert (Hne' : sort d <> []).
  { intros E. apply Hne. apply Permutation_nil. rewrite <- E. apply sort_perm. }
  rewrite Forall_forall in Hr.
  assert (Hq : forall pc, In pc pcs -> (0 <= pc / 100)%Q /\ (pc / 100 <= 1)%Q).
  { intros pc Hpc. destruct (Hr pc Hpc). split; [apply Qle_shift_div_l; [reflexivity|lra]|apply Qle_shift_div_r; [reflexivity|lra]]. }
  assert (Hcs : StronglySorted Qle (cut_points d pcs)).
  { unfold cut_points. eapply sorted_map; [|exact Hsrt]. intros a b Ha Hb Hab. cbv beta.
    destruct (Hq a Ha), (Hq b Hb). apply percentile_mono; try assumption.
    apply Qmult_le_compat_r; [exact Hab|]. discriminate. }
  rewrite labels_of_label. unfold lenZ at 1. rewrite filter_map_length.
  rewrite (filter_ext_length _ (fun x => Qle_bool (inject_Z x) (percentile (sort d) (nth m pcs 0%Q / 100))) d).
  - destruct (Hq (nth m pcs 0%Q) (nth_In _ _ Hm)). apply labels_prop; assumption.
  - intros x _.
    assert (Hm' : (m < length (cut_points d pcs))%nat) by (unfold cut_points; rewrite map_length; exact Hm).
    pose proof (label_gt_iff (cut_points d pcs) x Hcs m Hm') as Hiff.
    assert (En : nth m (cut_points d pcs) 0%Q = percentile (sort d) (nth m pcs 0%Q / 100)).
    { unfold cut_points. apply (nth_map_dflt (fun pc => percentile (sort d) (pc / 100))). exact Hm. }
    rewrite En in Hiff.
    destruct (Z.leb_spec (label (cut_points d pcs) x) (Z.of_nat m)) as [Hle|Hgt].
    + symmetry. apply Qle_bool_iff. apply Qnot_lt_le. intros Hlt. apply Hiff in Hlt. lia.
    + symmetry. destruct (Qle_bool (inject_Z x) (percentile (sort d) (nth m pcs 0%Q / 100))) eqn:E; [|reflexivity].
      apply Qle_bool_iff in E. apply Hiff in Hgt. exfalso. eapply Qlt_not_le; eassumption.
Qed.

(* ------------------------------------------------------------------------------------------ *)
(* labels_mono in one statement: the label is the number of cut points strictly below the decision value *)
Lemma labels_count d cuts :
  labels_of d cuts = map (label cuts) d /\
  (forall x, label cuts x = lenZ (filter (fun c => qlt_bool c (inject_Z x)) cuts)) /\
  (forall c x, qlt_bool c x = true <-> (c < x)%Q) /\
  (forall x, 0 <= label cuts x <= lenZ cuts) /\
  (forall a b, a <= b -> label cuts a <= label cuts b).
Proof.
  split; [reflexivity|]. split; [reflexivity|]. split; [apply qlt_bool_iff|]. split; [apply label_range|apply label_mono].
Qed.

(* the comparison at a cut point is strict: a decision value equal to the cut stays in the lower class;
   the >= variant (a plausible rewrite) differs exactly there *)
Lemma labels_strict_matters : exists d cuts, labels_of d cuts <> labels_of_ge d cuts.
Proof. exists [1; 2; 3], [inject_Z 2]. vm_compute. discriminate. Qed.

(* categorical noise on labels that are not 0..k-1: the per-label dictionary is indexed by position -> KeyError *)
Lemma noise_cat_needs_standard_labels :
  forall cum, noise_cat cum [[1; 4; 7; 0; 3; 9]; [20; 50; 80; 10; 30; 90]] [1; 2; 1; 2; 2; 1] (1 # 2) 3 [0; 2; 5; 1; 3; 4] [AIdx 6 [5; 2; 4]] = Raises.
Proof. intros [|]; vm_compute; reflexivity. Qed.

(* ------------------------------------------------------------------------------------------ *)
(* non-vacuity: each theorem's hypotheses are satisfied by concrete inputs (recorded from real runs where an oracle is involved) *)
Example ex_dup : gen_duplicates [[1; 2; 3]; [4; 5; 6]] [0; -1] = Some ([[1; 2; 3; 1; 3]; [4; 5; 6; 4; 6]], ([0; -1], [3; 4])).
Proof. vm_compute. reflexivity. Qed.
Example ex_combo : gen_combinations [[1; 2; 3]; [4; 5; 6]] CXor [0; 1; -1] = Some ([[1; 2; 3; 0]; [4; 5; 6; 7]], ([0; 1; -1], CXor, 3)).
Proof. vm_compute. reflexivity. Qed.
Example ex_session :
  let s := session 4 3 [ODup [0; 2]; OCombo CXor [0; 1; -1]; ODup [1]; OCorr [2] (1 # 2); ONoise true (1 # 3); OCorr [0; 1] (1 # 4)] in
  st_nc s = 10 /\ listed (st_info s) = [5; 7; 8; 9; 3; 4; 6].
Proof. vm_compute. split; reflexivity. Qed.
Example ex_labels_prop :
  let d := [50; 10; 90; 30; 70; 110; 20; 80; 60; 100; 40] in
  NoDup d /\ lenZ (filter (fun x => Qle_bool (inject_Z x) (percentile (sort d) (3 # 10))) d) = 4
  /\ Qfloor (inject_Z (lenZ d - 1) * (3 # 10)) + 1 = 4.
Proof. split; [apply nodupb_NoDup; vm_compute; reflexivity|]. vm_compute. split; reflexivity. Qed.
(* b9eb3ad: 11 tie-free values, distribution (0.2, 0.3, 0.5) -> classes of 3, 3, 5; the uniform cut points would give 4, 3, 4 *)
Example ex_labels_ndarray :
  let d := [50; 10; 90; 30; 70; 110; 20; 80; 60; 100; 40] in
  gen_labels d 3 (PList [1 # 5; 3 # 10; 1 # 2]) = Some [1; 0; 2; 0; 2; 2; 0; 2; 1; 2; 1] /\
  gen_labels d 3 (PScalar (1 # 2)) = Some [1; 0; 2; 0; 1; 2; 0; 2; 1; 2; 0].
Proof. vm_compute. split; reflexivity. Qed.
Example ex_noise_cat :
  noise_cat false [[1; 4; 7; 0; 3; 9]; [20; 50; 80; 10; 30; 90]; [3; 6; 10; 5; 3; 9]] [0; 1; 0; 1; 2; 2] (1 # 2) 3 [0; 2; 1; 3; 4; 5]
    [AIdx 6 [5; 2; 4]; AVal 7; AVal 1; AVal 7; AIdx 6 [2; 1; 4]; AVal 20; AVal 50; AVal 20; AIdx 6 [4; 2; 1]; AVal 3; AVal 3; AVal 6]
  = Ok [[1; 1; 7; 0; 7; 7]; [20; 20; 50; 10; 20; 90]; [3; 3; 6; 5; 3; 9]].
Proof. vm_compute. reflexivity. Qed.
Example ex_noise_missing :
  noise_missing [[1; 4; 7; 0; 3; 9]; [20; 50; 80; 10; 30; 90]] 6 (1 # 2) 3 (-1) [AIdx 6 [5; 2; 4]; AIdx 6 [5; 1; 4]]
  = Ok [[1; 4; -1; 0; -1; -1]; [20; -1; 80; 10; -1; -1]].
Proof. vm_compute. reflexivity. Qed.
Example ex_downsample :
  downsample [[1; 20; 3]; [4; 50; 6]; [7; 80; 10]; [0; 10; 5]; [3; 30; 3]; [9; 90; 9]; [1; 1; 1]] [0; 1; 0; 1; 2; 2; 0] None true
    [ASample 3 [0; 1]; ASample 2 [1; 0]; ASample 2 [1; 0]; APerm [2; 1; 4; 0; 3; 5]]
  = Ok ([[0; 10; 5]; [7; 80; 10]; [9; 90; 9]; [1; 20; 3]; [4; 50; 6]; [3; 30; 3]], [1; 0; 2; 0; 1; 2]).
Proof. vm_compute. reflexivity. Qed.
Example ex_labels_cumulative :
  let d := [50; 10; 90; 30; 70; 110; 20; 80; 60; 100; 40] in
  let y := labels_of d (cut_points d [20 # 1; 50 # 1]) in
  y = [1; 0; 2; 0; 2; 2; 0; 2; 1; 2; 1] /\
  lenZ (filter (fun yi => yi <=? 0) y) = 3 /\ lenZ (filter (fun yi => yi <=? 1) y) = 6 /\
  Qfloor (inject_Z 10 * ((20 # 1) / 100)) + 1 = 3 /\ Qfloor (inject_Z 10 * ((50 # 1) / 100)) + 1 = 6.
Proof. vm_compute. repeat split; reflexivity. Qed.

(* ------------------------------------------------------------------------------------------ *)
(* labels with np.percentile as an oracle: what is true of the code, doubles included *)

Lemma vindex_range N q : 1 <= N -> (0 <= q)%Q -> (q <= 1)%Q -> 0 <= Qfloor (inject_Z (N - 1) * q) <= N - 1.
Proof.
  intros HN H0 H1. assert (HM : (0 <= inject_Z (N - 1))%Q) by (rewrite <- (Zle_Qle 0); lia). split.
  - change 0 with (Qfloor (inject_Z 0)). apply Qfloor_resp_le. change (inject_Z 0) with 0%Q. nra.
  - rewrite <- (Qfloor_Z (N - 1)) at 2. apply Qfloor_resp_le. nra.
Qed.

(* tie-free up to double rounding: distinct decision values differ by more than 1e-15 relative
   (automatic for integers below 5e14) *)
Definition separated (d : list Z) : Prop :=
  forall x y, In x d -> In y d -> x < y -> Z.abs x + Z.abs y < 10 ^ 15 * (y - x).

Lemma bracket_count s a c : StronglySorted Z.lt s -> separated s -> 0 <= a <= lenZ s - 1 -> bracket s a c = true ->
  lenZ (filter (fun x => Qle_bool (inject_Z x) c) s) = a + 1.
Proof.
  intros Hs Hsep Ha Hb. unfold bracket in Hb. rewrite !andb_true_iff in Hb. destruct Hb as [[Hlo _] Hhi].
  apply Qle_bool_iff in Hlo. unfold lenZ at 1. rewrite (count_sorted _ s (Z.to_nat a) Hs).
  - lia.
  - unfold lenZ in Ha. lia.
  - intros x Hx. apply Qle_bool_iff. eapply Qle_trans; [|exact Hlo]. rewrite <- Zle_Qle. exact Hx.
  - intros x Hl Hx. unfold lenZ in Ha.
    assert (E : Z.min (a + 1) (lenZ s - 1) = a + 1) by (unfold lenZ; lia). rewrite E in Hhi.
    assert (Hlt : nthZ s a < nthZ s (a + 1)).
    { unfold nthZ. apply sorted_nth_lt; [exact Hs|lia|lia]. }
    rewrite !orb_true_iff in Hhi. destruct Hhi as [[Hhi|Hhi]|Hhi]; [|lia|].
    2:{ exfalso. unfold near_tie in Hhi. apply Z.leb_le in Hhi.
        assert (Hx1 : In (nthZ s a) s) by (unfold nthZ; apply nth_In; lia).
        assert (Hx2 : In (nthZ s (a + 1)) s) by (unfold nthZ; apply nth_In; lia).
        pose proof (Hsep _ _ Hx1 Hx2 Hlt). lia. }
    apply qlt_bool_iff in Hhi.
    destruct (Qle_bool (inject_Z x) c) eqn:E2; [|reflexivity]. apply Qle_bool_iff in E2. exfalso.
    assert (H2 : (inject_Z (nthZ s (a + 1)) <= inject_Z x)%Q).
    { rewrite <- Zle_Qle. unfold nthZ. replace (Z.to_nat (a + 1)) with (S (Z.to_nat a)) by lia. exact Hx. }
    lra.
Qed.

(* the count the oracle contract pins down: floor+1, or one off when the virtual index is within 1e-9 of an integer *)
Definition count_near (N : Z) (pc : Q) (cnt : Z) : Prop :=
  let vi := (inject_Z (N - 1) * (pc / 100))%Q in
  let j := Qfloor vi in
  j <= cnt <= j + 2 /\ ((eps9 <= vi - inject_Z j)%Q /\ (vi - inject_Z j <= 1 - eps9)%Q -> cnt = j + 1).

Lemma pc_unit pc : (0 <= pc)%Q -> (pc <= 100)%Q -> (0 <= pc / 100)%Q /\ (pc / 100 <= 1)%Q.
Proof. intros H0 H1. split; [apply Qle_shift_div_l; [reflexivity|lra]|apply Qle_shift_div_r; [reflexivity|lra]]. Qed.

Lemma cut_ok_count s pc c : StronglySorted Z.lt s -> separated s -> s <> [] -> cut_ok s pc c = true ->
  count_near (lenZ s) pc (lenZ (filter (fun x => Qle_bool (inject_Z x) c) s)).
Proof.
  intros Hs Hsep Hne H. unfold cut_ok in H. rewrite !andb_true_iff in H. destruct H as [[H0 H1] H].
  apply Qle_bool_iff in H0, H1. destruct (pc_unit pc H0 H1) as [Hq0 Hq1].
  assert (HN : 1 <= lenZ s) by (destruct s; [congruence|unfold lenZ; cbn [length]; lia]).
  pose proof (vindex_range (lenZ s) (pc / 100) HN Hq0 Hq1) as Hj.
  unfold count_near. set (vi := (inject_Z (lenZ s - 1) * (pc / 100))%Q) in *. set (j := Qfloor vi) in *.
  rewrite !orb_true_iff in H. destruct H as [[H|H]|H].
  - rewrite (bracket_count s j c Hs Hsep Hj H). split; [lia|]. intros _. reflexivity.
  - rewrite !andb_true_iff in H. destruct H as [[Hg Hj1] Hb]. apply qlt_bool_iff in Hg.
    rewrite (bracket_count s (j - 1) c Hs Hsep) by (try exact Hb; lia). split; [lia|]. intros [Hg1 _]. exfalso. lra.
  - rewrite !andb_true_iff in H. destruct H as [[Hg Hj1] Hb]. apply qlt_bool_iff in Hg.
    rewrite (bracket_count s (j + 1) c Hs Hsep) by (try exact Hb; lia). split; [lia|]. intros [_ Hg1]. exfalso. lra.
Qed.

Lemma forallb2_Forall2 {A B} (f : A -> B -> bool) l m : forallb2 f l m = true -> Forall2 (fun a b => f a b = true) l m.
Proof.
  revert m. induction l as [|a r IH]; intros [|b t] H; cbn [forallb2] in H; try discriminate; [constructor|].
  apply andb_true_iff in H. destruct H as [H1 H2]. constructor; [exact H1|apply IH; exact H2].
Qed.

Lemma qsortedb_sorted l : qsortedb l = true -> StronglySorted Qle l.
Proof.
  induction l as [|a r IH]; intros H; [constructor|]. destruct r as [|b t]; [repeat constructor|].
  cbn [qsortedb] in H. apply andb_true_iff in H. destruct H as [Hab Hr]. apply Qle_bool_iff in Hab.
  specialize (IH Hr). constructor; [exact IH|]. inversion IH as [|? ? _ Hall]; subst.
  constructor; [exact Hab|]. eapply Forall_impl; [|exact Hall]. intros z Hz. eapply Qle_trans; eassumption.
Qed.

(* C20_labels_class_sizes_partial: what generate_labels returns, for every answer of np.percentile within its contract *)
Lemma gen_labels_o_spec honour d n p rperc rcuts y : gen_labels_o honour d n p rperc rcuts = Ok y -> NoDup d -> separated d ->
  exists req rp rc, requested_percents honour n p = Some req /\
    rp = used_part (length req) rperc /\ rc = used_part (length req) rcuts /\
    y = map (label rc) d /\
    Forall2 (fun a b => qclose a b = true) rp req /\
    Forall2 (fun pc c => count_near (lenZ d) pc (lenZ (filter (fun x => Qle_bool (inject_Z x) c) d))) rp rc /\
    (qsortedb req = true -> StronglySorted Qle rc).
Proof.
  unfold gen_labels_o. destruct d as [|d0 dr] eqn:Ed; [discriminate|]. rewrite <- Ed.
  destruct (requested_percents honour n p) as [req|]; [|discriminate].
  set (rp := used_part (length req) rperc). set (rc := used_part (length req) rcuts).
  destruct (forallb2 qclose rp req && forallb2 (cut_ok (sort d)) rp rc && (negb (qsortedb req) || qsortedb rc)) eqn:E; [|discriminate].
  intros H Hnd Hsep. injection H as <-. rewrite !andb_true_iff in E. destruct E as [[E1 E2] E3].
  exists req, rp, rc. split; [reflexivity|]. split; [reflexivity|]. split; [reflexivity|]. split; [reflexivity|].
  split; [apply forallb2_Forall2; exact E1|]. split.
  - apply forallb2_Forall2 in E2.
    assert (Hs : StronglySorted Z.lt (sort d)).
    { apply sorted_le_lt; [|apply sort_sorted]. eapply Permutation_NoDup; [symmetry; apply sort_perm|exact Hnd]. }
    assert (Hne : sort d <> []).
    { intros E. assert (Hp : Permutation (sort d) d) by apply sort_perm. rewrite E in Hp. apply Permutation_nil in Hp. subst d. discriminate. }
    assert (HL : lenZ (sort d) = lenZ d) by (unfold lenZ; rewrite sort_length; reflexivity).
    eapply Forall2_weaken; [|exact E2]. cbv beta. intros pc c Hc.
    assert (Hsep' : separated (sort d)) by (intros x y Hx Hy; apply Hsep; apply sort_In; assumption).
    pose proof (cut_ok_count (sort d) pc c Hs Hsep' Hne Hc) as Hcn. rewrite HL in Hcn.
    unfold lenZ at 2. rewrite (filter_length_perm _ d (sort d)) by (symmetry; apply sort_perm). exact Hcn.
  - intros Hq. rewrite Hq in E3. cbn [negb orb] in E3. apply qsortedb_sorted. exact E3.
Qed.

(* cumulative form: with non-decreasing cut points the classes 0..m hold exactly the items not above cut m *)
Lemma labels_cumulative_count d rc m : StronglySorted Qle rc -> (m < length rc)%nat ->
  lenZ (filter (fun yi => yi <=? Z.of_nat m) (map (label rc) d))
  = lenZ (filter (fun x => Qle_bool (inject_Z x) (nth m rc 0%Q)) d).
Proof.
  intros Hs Hm. unfold lenZ. rewrite filter_map_length. f_equal. apply filter_ext_length. intros x _.
  pose proof (label_gt_iff rc x Hs m Hm) as Hiff.
  destruct (Z.leb_spec (label rc x) (Z.of_nat m)) as [Hle|Hgt].
  - symmetry. apply Qle_bool_iff. apply Qnot_lt_le. intros Hlt. apply Hiff in Hlt. lia.
  - symmetry. destruct (Qle_bool (inject_Z x) (nth m rc 0%Q)) eqn:E; [|reflexivity].
    apply Qle_bool_iff in E. apply Hiff in Hgt. exfalso. eapply Qlt_not_le; eassumption.
Qed.

Lemma Forall2_nth {A B} (R : A -> B -> Prop) l m i da db : Forall2 R l m -> (i < length l)%nat -> R (nth i l da) (nth i m db).
Proof.
  intros H. revert i. induction H as [|a b l m Hab _ IH]; intros i Hi; cbn [length] in Hi; [lia|].
  destruct i as [|i]; cbn [nth]; [exact Hab|apply IH; lia].
Qed.

Lemma Forall2_len {A B} (R : A -> B -> Prop) l m : Forall2 R l m -> length l = length m.
Proof. induction 1; cbn [length]; congruence. Qed.

(* C20_labels_cumulative_partial *)
Lemma gen_labels_o_cumulative honour d n p rperc rcuts y : gen_labels_o honour d n p rperc rcuts = Ok y -> NoDup d -> separated d ->
  exists req rp, requested_percents honour n p = Some req /\ Forall2 (fun a b => qclose a b = true) rp req /\
    (qsortedb req = true -> forall m, (m < length rp)%nat ->
       count_near (lenZ d) (nth m rp 0%Q) (lenZ (filter (fun yi => yi <=? Z.of_nat m) y))).
Proof.
  intros H Hnd Hsep. destruct (gen_labels_o_spec _ _ _ _ _ _ _ H Hnd Hsep) as [req [rp [rc [Hreq [_ [_ [Hy [Hcl [Hcn Hsrt]]]]]]]]].
  exists req, rp. split; [exact Hreq|]. split; [exact Hcl|]. intros Hq m Hm. specialize (Hsrt Hq).
  assert (Hlen : length rc = length rp) by (symmetry; eapply Forall2_len; exact Hcn).
  rewrite Hy. rewrite labels_cumulative_count by (try exact Hsrt; lia).
  exact (Forall2_nth _ rp rc m 0%Q 0%Q Hcn Hm).
Qed.

(* ------------------------------------------------------------------------------------------ *)
(* "class proportions match the requested distribution", literally *)

Lemma div_bounds (cnt N : Z) (q k : Q) : 0 < N ->
  (inject_Z cnt - inject_Z N * q <= k)%Q -> (- k <= inject_Z cnt - inject_Z N * q)%Q ->
  (q - k / inject_Z N <= inject_Z cnt / inject_Z N)%Q /\ (inject_Z cnt / inject_Z N <= q + k / inject_Z N)%Q.
Proof.
  intros HN Hu Hl. assert (HNq : (0 < inject_Z N)%Q) by (rewrite <- (Zlt_Qlt 0); exact HN).
  split.
  - apply Qle_shift_div_l; [exact HNq|].
    setoid_replace ((q - k / inject_Z N) * inject_Z N)%Q with (inject_Z N * q - k)%Q by (field; lra). lra.
  - apply Qle_shift_div_r; [exact HNq|].
    setoid_replace ((q + k / inject_Z N) * inject_Z N)%Q with (inject_Z N * q + k)%Q by (field; lra). lra.
Qed.

(* C20_labels_proportion: exact linear-interpolated percentile on tie-free data: the fraction of items not above the cut
   differs from q by at most one element *)
Lemma labels_proportion d q : NoDup d -> d <> [] -> (0 <= q)%Q -> (q <= 1)%Q ->
  let cnt := lenZ (filter (fun x => Qle_bool (inject_Z x) (percentile (sort d) q)) d) in
  (q - 1 / inject_Z (lenZ d) <= inject_Z cnt / inject_Z (lenZ d))%Q /\
  (inject_Z cnt / inject_Z (lenZ d) <= q + 1 / inject_Z (lenZ d))%Q.
Proof.
  intros Hnd Hne H0 H1 cnt. unfold cnt. rewrite (labels_prop d q Hnd Hne H0 H1).
  assert (HN : 1 <= lenZ d) by (destruct d; [congruence|unfold lenZ; cbn [length]; lia]).
  set (N := lenZ d) in *. set (vi := (inject_Z (N - 1) * q)%Q).
  pose proof (Qfloor_le vi) as Hf0. pose proof (Qlt_floor vi) as Hf1.
  rewrite inject_Z_plus in Hf1. change (inject_Z 1) with 1%Q in Hf1.
  assert (Evi : (vi == inject_Z N * q - q)%Q) by (unfold vi; rewrite inject_Z_sub; change (inject_Z 1) with 1%Q; ring).
  apply div_bounds; [lia| |]; rewrite inject_Z_plus; change (inject_Z 1) with 1%Q; lra.
Qed.

(* C20_labels_proportion_partial: the same for the code (doubles), in terms of the percent np.percentile was asked for *)
Lemma count_near_proportion N pc cnt : 1 <= N -> (0 <= pc)%Q -> (pc <= 100)%Q -> count_near N pc cnt ->
  (pc / 100 - 2 / inject_Z N <= inject_Z cnt / inject_Z N)%Q /\ (inject_Z cnt / inject_Z N <= pc / 100 + 2 / inject_Z N)%Q.
Proof.
  intros HN H0 H1 [Hc _]. destruct (pc_unit pc H0 H1) as [Hq0 Hq1]. set (q := (pc / 100)%Q) in *.
  set (vi := (inject_Z (N - 1) * q)%Q) in *.
  pose proof (Qfloor_le vi) as Hf0. pose proof (Qlt_floor vi) as Hf1.
  rewrite inject_Z_plus in Hf1. change (inject_Z 1) with 1%Q in Hf1.
  assert (Evi : (vi == inject_Z N * q - q)%Q) by (unfold vi; rewrite inject_Z_sub; change (inject_Z 1) with 1%Q; ring).
  destruct Hc as [Hc1 Hc2]. rewrite Zle_Qle in Hc1, Hc2. rewrite inject_Z_plus in Hc2. change (inject_Z 2) with 2%Q in Hc2.
  apply div_bounds; [lia| |]; lra.
Qed.

(* ------------------------------------------------------------------------------------------ *)
(* progress: when does categorical noise NOT raise (so that C20_noise_cat is not vacuous) *)

Lemma res_cols_loop_not_raises (f : list Z -> list ans -> res (list Z * list ans)) (Q : list Z -> Prop) :
  (forall c st, Q c -> f c st <> Raises) -> forall cols st, Forall Q cols -> cols_loop f cols st <> Raises.
Proof.
  intros Hf. induction cols as [|c r IH]; intros st HQ; cbn [cols_loop]; [discriminate|].
  inversion HQ; subst. destruct (f c st) as [[c1 st1]| |] eqn:E1; [|exfalso; eapply Hf; eassumption|discriminate].
  destruct (cols_loop f r st1) as [[r1 st2]| |] eqn:E2; [discriminate|exfalso; eapply IH; eassumption|discriminate].
Qed.
Lemma finish_not_raises {A} (r : res (A * list ans)) : r <> Raises -> finish r <> Raises.
Proof. destruct r as [[a [|x st]]| |]; cbn [finish]; congruence. Qed.

Lemma lookup_map_seq (F : nat -> Z * list Z) len : forall s i,
  (forall j, (s <= j < s + len)%nat -> fst (F j) = Z.of_nat j) -> (s <= i < s + len)%nat ->
  lookup (Z.of_nat i) (map F (seq s len)) = Some (snd (F i)).
Proof.
  induction len as [|len IH]; intros s i HF Hi; [lia|]. cbn [seq map lookup].
  destruct (F s) as [k0 s0] eqn:E. assert (Hk : k0 = Z.of_nat s) by (specialize (HF s ltac:(lia)); rewrite E in HF; exact HF).
  subst k0. destruct (Z.eqb_spec (Z.of_nat i) (Z.of_nat s)) as [Heq|Hne].
  - assert (i = s) by lia. subst i. rewrite E. reflexivity.
  - apply IH; [intros j Hj; apply HF; lia|lia].
Qed.

Lemma pyslice_nonempty l a b : 0 <= a -> a < b -> a < lenZ l -> pyslice l a b <> [].
Proof.
  intros Ha Hab Hl. unfold pyslice. unfold lenZ in Hl.
  destruct (skipn (Z.to_nat a) l) as [|x r] eqn:E.
  - exfalso. assert (Hlen : length (skipn (Z.to_nat a) l) = (length l - Z.to_nat a)%nat) by apply skipn_length.
    rewrite E in Hlen. cbn [length] in Hlen. lia.
  - destruct (Z.to_nat (b - a)) as [|k] eqn:Ek; [lia|]. cbn [firstn]. discriminate.
Qed.
Lemma dedup_nonempty l : l <> [] -> dedup l <> [].
Proof.
  destruct l as [|x r]; [congruence|]. intros _ E. assert (H : In x (dedup (x :: r))) by (apply dedup_In; now left).
  rewrite E in H. destruct H.
Qed.

Lemma count_indicator_le1 x L : NoDup L -> zsum (map (fun v => if v =? x then 1 else 0) L) <= 1.
Proof.
  induction 1 as [|a r Hnotin Hnd IH]; cbn [map zsum fold_right]; [lia|]. fold (zsum (map (fun v => if v =? x then 1 else 0) r)).
  destruct (Z.eqb_spec a x) as [->|Hne]; [|lia].
  assert (E : zsum (map (fun v => if v =? x then 1 else 0) r) = 0).
  { clear IH Hnd. induction r as [|b t IHt]; [reflexivity|]. cbn [map zsum fold_right]. fold (zsum (map (fun v => if v =? x then 1 else 0) t)).
    destruct (Z.eqb_spec b x) as [->|_]; [exfalso; apply Hnotin; now left|]. rewrite IHt; [lia|]. intros H. apply Hnotin. now right. }
  lia.
Qed.
Lemma counts_sum_le y : forall L, NoDup L -> zsum (map (fun v => countZ v y) L) <= lenZ y.
Proof.
  induction y as [|x r IH]; intros L HL.
  - unfold lenZ. cbn [length]. induction L as [|a t IHt]; [cbn; lia|]. inversion HL; subst. cbn [map zsum fold_right].
    fold (zsum (map (fun v => countZ v []) t)). specialize (IHt H2). unfold lenZ in IHt. cbn [length] in IHt.
    change (countZ a []) with 0. lia.
  - assert (E : zsum (map (fun v => countZ v (x :: r)) L) = zsum (map (fun v => if v =? x then 1 else 0) L) + zsum (map (fun v => countZ v r) L)).
    { clear. induction L as [|a t IHt]; [reflexivity|]. cbn [map zsum fold_right].
      fold (zsum (map (fun v => countZ v (x :: r)) t)). fold (zsum (map (fun v => if v =? x then 1 else 0) t)). fold (zsum (map (fun v => countZ v r) t)).
      rewrite IHt, countZ_cons. lia. }
    rewrite E. pose proof (count_indicator_le1 x L HL). specialize (IH L HL). unfold lenZ in *. cbn [length]. lia.
Qed.

Lemma zsum_firstn_S l : forall i, (i < length l)%nat -> zsum (firstn (S i) l) = zsum (firstn i l) + nth i l 0.
Proof.
  induction l as [|a r IH]; intros i Hi; cbn [length] in Hi; [lia|]. destruct i as [|i].
  - cbn. lia.
  - change (firstn (S (S i)) (a :: r)) with (a :: firstn (S i) r). change (firstn (S i) (a :: r)) with (a :: firstn i r).
    cbn [zsum fold_right nth]. fold (zsum (firstn (S i) r)). fold (zsum (firstn i r)). rewrite IH by lia. lia.
Qed.
Lemma zsum_counts_nonneg y L : 0 <= zsum (map (fun v => countZ v y) L).
Proof. induction L as [|a r IH]; cbn [map zsum fold_right]; [lia|]. fold (zsum (map (fun v => countZ v y) r)). pose proof (countZ_nonneg a y). lia. Qed.
Lemma NoDup_firstn {A} k (l : list A) : NoDup l -> NoDup (firstn k l).
Proof.
  revert l. induction k as [|k IH]; intros l H; [constructor|]. destruct l as [|a r]; [constructor|].
  inversion H; subst. cbn [firstn]. constructor; [|apply IH; assumption].
  intros Hin. apply firstn_incl in Hin. contradiction.
Qed.
Lemma firstn_map_c {A B} (f : A -> B) k l : firstn k (map f l) = map f (firstn k l).
Proof. revert l. induction k as [|k IH]; intros [|a r]; cbn [firstn map]; try reflexivity. f_equal. apply IH. Qed.

(* the per-label dictionary of a feature when the labels are exactly 0 .. K-1 *)
Lemma upl_lookup cum fs y K i :
  uniq y = zrange 0 K -> lenZ fs = lenZ y -> (i < K)%nat ->
  (cum = false -> forall lab, In lab (uniq y) -> 2 <= countZ lab y) ->
  exists s, lookup (Z.of_nat i) (upl cum fs (uniq y) (map (fun v => countZ v y) (uniq y))) = Some s /\ s <> [].
Proof.
  intros Hu Hfs Hi H2. set (lv := uniq y) in *. set (lc := map (fun v => countZ v y) lv).
  assert (HK : length lv = K) by (rewrite Hu; apply zrange_length).
  assert (Hnth : forall j, (j < K)%nat -> nth j lv 0 = Z.of_nat j) by (intros j Hj; rewrite Hu, zrange_nth by exact Hj; lia).
  assert (Hc : forall j, (j < K)%nat -> nth j lc 0 = countZ (Z.of_nat j) y).
  { intros j Hj. unfold lc. rewrite (nth_map_dflt _ _ _ 0) by lia. rewrite Hnth by exact Hj. reflexivity. }
  assert (Hin : forall j, (j < K)%nat -> In (Z.of_nat j) lv) by (intros j Hj; rewrite <- Hnth by exact Hj; apply nth_In; lia).
  assert (Hpos : forall j, (j < K)%nat -> 1 <= countZ (Z.of_nat j) y).
  { intros j Hj. assert (0 < countZ (Z.of_nat j) y); [|lia]. apply countZ_pos. apply uniq_In. apply Hin. exact Hj. }
  unfold upl. rewrite HK.
  rewrite (lookup_map_seq _ K 0 i) by (try lia; intros j Hj; cbn [fst]; apply Hnth; lia).
  eexists. split; [reflexivity|]. cbn [snd]. rewrite (Hc i Hi).
  destruct cum.
  - (* repaired slices *)
    apply dedup_nonempty.
    assert (Hlen : (i < length lc)%nat) by (unfold lc; rewrite map_length; lia).
    pose proof (zsum_firstn_S lc i Hlen) as ES. rewrite (Hc i Hi) in ES.
    assert (Hle : zsum (firstn (S i) lc) <= lenZ y).
    { unfold lc. rewrite firstn_map_c. apply counts_sum_le. apply NoDup_firstn. apply uniq_NoDup. }
    assert (H0 : 0 <= zsum (firstn i lc)) by (unfold lc; rewrite firstn_map_c; apply zsum_counts_nonneg).
    pose proof (Hpos i Hi). apply pyslice_nonempty; lia.
  - (* slices as first read *)
    specialize (H2 eq_refl). destruct i as [|i']; apply dedup_nonempty.
    + pose proof (Hpos 0%nat Hi) as Hp.
      assert (Hle : countZ 0 y <= lenZ y).
      { pose proof (counts_sum_le y [0] ltac:(repeat constructor; intros [])) as Hs. cbn [map zsum fold_right] in Hs. lia. }
      change (Z.of_nat 0) with 0 in *. apply pyslice_nonempty; lia.
    + assert (Hi' : (i' < K)%nat) by lia. rewrite (Hc i' Hi').
      pose proof (H2 _ (Hin (S i') Hi)) as Hc2. pose proof (Hpos i' Hi') as Hp.
      assert (Hle : countZ (Z.of_nat i') y + countZ (Z.of_nat (S i')) y <= lenZ y).
      { pose proof (counts_sum_le y [Z.of_nat i'; Z.of_nat (S i')]) as Hs. cbn [map zsum fold_right] in Hs.
        assert (Hnd : NoDup [Z.of_nat i'; Z.of_nat (S i')]) by (constructor; [intros [H|[]]; lia|repeat constructor; intros []]).
        specialize (Hs Hnd). lia. }
      apply pyslice_nonempty; lia.
Qed.

Lemma possible_spec lv lab x : In x (possible lv lab) -> exists i, (i < length lv)%nat /\ x = Z.of_nat i.
Proof.
  unfold possible. intros H. apply in_map_iff in H. destruct H as [i [<- Hi]]. apply filter_In in Hi. destruct Hi as [Hi _].
  apply in_seq in Hi. exists i. split; [lia|reflexivity].
Qed.
Lemma possible_nonempty K lab : (2 <= K)%nat -> possible (zrange 0 K) lab <> [].
Proof.
  intros HK E. unfold possible in E. rewrite zrange_length in E.
  assert (H : forall i, (i < K)%nat -> nth i (zrange 0 K) 0 <> lab -> False).
  { intros i Hi Hne. assert (Hin : In (Z.of_nat i) (map (fun i => Z.of_nat i) (filter (fun i => negb (nth i (zrange 0 K) 0 =? lab)) (seq 0 K)))).
    { apply in_map. apply filter_In. split; [apply in_seq; lia|]. apply negb_true_iff. apply Z.eqb_neq. exact Hne. }
    rewrite E in Hin. destruct Hin. }
  destruct (Z.eq_dec lab 0) as [->|Hn0].
  - apply (H 1%nat); [lia|]. rewrite zrange_nth by lia. lia.
  - apply (H 0%nat); [lia|]. rewrite zrange_nth by lia. lia.
Qed.
Lemma union_lookup_some keys d : (forall x, In x keys -> exists s, lookup x d = Some s) -> exists vals, union_lookup keys d = Some vals.
Proof.
  induction keys as [|k r IH]; intros H; [exists []; reflexivity|]. cbn [union_lookup].
  destruct (H k (or_introl eq_refl)) as [s Hs]. rewrite Hs.
  destruct IH as [t Ht]; [intros x Hx; apply H; now right|]. rewrite Ht. eexists. reflexivity.
Qed.

Lemma flip1_not_raises K d ysort inds ix col st :
  (2 <= K)%nat ->
  (forall i, (i < K)%nat -> exists s, lookup (Z.of_nat i) d = Some s /\ s <> []) ->
  (exists i, (i < K)%nat /\ nthZ ysort ix = Z.of_nat i) ->
  flip1 (zrange 0 K) d ysort inds ix col st <> Raises.
Proof.
  intros HK HD [i0 [Hi0 Hlab]]. unfold flip1.
  set (poss := possible (zrange 0 K) (nthZ ysort ix)).
  assert (Hposs : forall x, In x poss -> exists i, (i < K)%nat /\ x = Z.of_nat i).
  { intros x Hx. destruct (possible_spec _ _ _ Hx) as [i [Hi ->]]. rewrite zrange_length in Hi. eauto. }
  destruct (union_lookup_some poss d) as [vals Hv].
  { intros x Hx. destruct (Hposs x Hx) as [i [Hi ->]]. destruct (HD i Hi) as [s [Hs _]]. eauto. }
  rewrite Hv. rewrite Hlab. destruct (HD i0 Hi0) as [own [Ho _]]. rewrite Ho.
  destruct (filter (fun v => negb (memZ v own)) vals) as [|w vals'].
  - destruct poss as [|p0 pr] eqn:Ep; [exfalso; eapply possible_nonempty; [exact HK|exact Ep]|].
    destruct st as [|[m l|v|hi k|l|m l] st1]; try discriminate.
    destruct ((hi =? lenZ (p0 :: pr)) && in_range hi k) eqn:Ec; [|discriminate].
    apply andb_true_iff in Ec. destruct Ec as [Eh Er]. apply Z.eqb_eq in Eh. unfold in_range in Er.
    assert (Hin : In (nthZ (p0 :: pr) k) (p0 :: pr)) by (unfold nthZ; apply nth_In; unfold lenZ in Eh; lia).
    destruct (Hposs _ Hin) as [i [Hi Ei]]. rewrite Ei. destruct (HD i Hi) as [s [Hs Hne]]. rewrite Hs.
    destruct s as [|v0 vs]; [congruence|].
    destruct st1 as [|[m l|v|hi' k'|l|m l] st2]; try discriminate. destruct (memZ v (v0 :: vs)); discriminate.
  - destruct st as [|[m l|v|hi k|l|m l] st1]; try discriminate. destruct (memZ v (w :: vals')); discriminate.
Qed.

Lemma flips_not_raises K d ysort inds ixs : forall col st,
  (2 <= K)%nat ->
  (forall i, (i < K)%nat -> exists s, lookup (Z.of_nat i) d = Some s /\ s <> []) ->
  (forall ix, In ix ixs -> exists i, (i < K)%nat /\ nthZ ysort ix = Z.of_nat i) ->
  flips (zrange 0 K) d ysort inds ixs col st <> Raises.
Proof.
  induction ixs as [|ix r IH]; intros col st HK HD Hl; cbn [flips]; [discriminate|].
  destruct (flip1 (zrange 0 K) d ysort inds ix col st) as [[col1 st1]| |] eqn:E1.
  - apply IH; [exact HK|exact HD|intros x Hx; apply Hl; now right].
  - exfalso. eapply flip1_not_raises; [exact HK|exact HD|apply Hl; now left|exact E1].
  - discriminate.
Qed.

(* C20_noise_cat_progress: labels exactly 0..K-1 with K >= 2, the noise level admissible, and (for the slices as first read)
   every class with at least two members: the call does not raise, whatever the RNG answers *)
Lemma noise_cat_progress cum cols y p k inds st K :
  uniq y = zrange 0 K -> (2 <= K)%nat -> p_ok (lenZ y) p = true ->
  (cum = false -> forall lab, In lab (uniq y) -> 2 <= countZ lab y) ->
  noise_cat cum cols y p k inds st <> Raises.
Proof.
  intros Hu HK Hp H2. unfold noise_cat. rewrite Hp. cbn [negb].
  destruct (is_perm (lenZ y) inds && sortedb (map (nthZ y) inds)) eqn:E1; cbn [negb]; [|discriminate].
  destruct (kflip_ok (lenZ y) p k); cbn [negb]; [|discriminate].
  apply finish_not_raises. apply (res_cols_loop_not_raises _ (fun _ => True)); [|apply Forall_forall; auto].
  intros c st0 _. unfold noise_col_cat.
  destruct st0 as [|[m ixs|v|hi k'|l|m l] st1]; try discriminate.
  destruct (idx_answer_ok (lenZ y) k m ixs) eqn:Ea; [|discriminate].
  apply andb_true_iff in E1. destruct E1 as [E1 _]. unfold is_perm in E1. rewrite !andb_true_iff in E1. destruct E1 as [[EL Hin] _].
  apply Z.eqb_eq in EL. rewrite forallb_forall in Hin.
  unfold idx_answer_ok in Ea. rewrite !andb_true_iff in Ea. destruct Ea as [[_ Hr] _]. rewrite forallb_forall in Hr.
  rewrite Hu at 1. apply flips_not_raises; [exact HK| |].
  - intros i Hi. apply (upl_lookup cum _ y K i); [exact Hu|rewrite lenZ_map; exact EL|exact Hi|exact H2].
  - intros ix Hix. specialize (Hr ix Hix). unfold in_range in Hr.
    assert (Hy : In (nthZ (map (nthZ y) inds) ix) (uniq y)).
    { apply uniq_In. unfold nthZ at 1. rewrite (nth_map_dflt _ _ _ 0) by (unfold lenZ in *; lia).
      assert (Hii : In (nth (Z.to_nat ix) inds 0) inds) by (apply nth_In; unfold lenZ in *; lia).
      specialize (Hin _ Hii). unfold in_range in Hin. unfold nthZ. apply nth_In. unfold lenZ in *. lia. }
    rewrite Hu in Hy. apply zrange_In in Hy. exists (Z.to_nat (nthZ (map (nthZ y) inds) ix)). split; lia.
Qed.

(* the accumulated double 100/3 (audit finding): 10 tie-free values, n = 3, scalar p.  The recorded percents are
   33.33333333333333 and 66.66666666666666, the virtual index 9 * 0.3333333333333333 falls just below 3, so the code's classes
   are 3/3/4 where exact arithmetic (gen_labels) gives 4/3/3.  Both are within one element of 10/3. *)
Example ex_labels_oracle :
  let d := [10; 20; 30; 40; 50; 60; 70; 80; 90; 100] in
  gen_labels_o false d 3 (PScalar (1 # 2))
    [2345624805922133 # 70368744177664; 2345624805922133 # 35184372088832]
    [5629499534213119 # 140737488355328; 4925812092436479 # 70368744177664] = Ok [0; 0; 0; 1; 1; 1; 2; 2; 2; 2] /\
  gen_labels d 3 (PScalar (1 # 2)) = Some [0; 0; 0; 0; 1; 1; 1; 2; 2; 2].
Proof. vm_compute. split; reflexivity. Qed.

(* scalar p with n > 2 (audit finding): as first read the code ignores it; the proposed repair gives class 0 the proportion p *)
Example ex_scalar_p_ignored :
  requested_percents false 3 (PScalar (1 # 5)) = requested_percents false 3 (PScalar (1 # 2)) /\
  (match requested_percents true 3 (PScalar (1 # 5)) with Some [a; b] => Qeq_bool a 20 && Qeq_bool b 60 | _ => false end) = true.
Proof. vm_compute. split; reflexivity. Qed.

Example ex_noise_progress_nonvacuous :
  uniq [0; 1; 0; 1; 2; 2] = zrange 0 3 /\ p_ok 6 (1 # 2) = true /\ (forall lab, In lab (uniq [0; 1; 0; 1; 2; 2]) -> 2 <= countZ lab [0; 1; 0; 1; 2; 2]).
Proof. split; [reflexivity|]. split; [reflexivity|]. intros lab H. cbn in H. destruct H as [<-|[<-|[<-|[]]]]; vm_compute; discriminate. Qed.

(* fix 501d3c0 (cumulative per-label offsets).  The slices as first read (previous count instead of the cumulative offset, last
   row dropped) leave a one-member class with an empty value set: the recorded run of the old code raises, the repaired
   slices return a noised column within the clauses (1 <= floor(4/4) change, a value of the feature). *)
Lemma noise_slices_prefix_refuted :
  noise_cat false [[0; 4; 2; 1]] [0; 0; 1; 0] (1 # 4) 1 [0; 1; 3; 2] [AIdx 4 [1]; AInt 1 0] = Raises /\
  noise_cat true [[0; 4; 2; 1]] [0; 0; 1; 0] (1 # 4) 1 [0; 1; 3; 2] [AIdx 4 [1]; AVal 2] = Ok [[0; 2; 2; 1]].
Proof. vm_compute. split; reflexivity. Qed.

(* the labels validator: monotone in the decision value (the clause that needs no cut points) *)
Lemma labels_valid_mono d req y : labels_valid d req y = true ->
  length y = length d /\
  forall a b, In a (combine d y) -> In b (combine d y) -> fst a <= fst b -> snd a <= snd b.
Proof.
  unfold labels_valid. rewrite !andb_true_iff. intros [[[HL HM] _] _]. split; [apply Nat.eqb_eq; exact HL|].
  intros a b Ha Hb Hab. rewrite forallb_forall in HM. specialize (HM a Ha). rewrite forallb_forall in HM. specialize (HM b Hb).
  apply orb_true_iff in HM. destruct HM as [HM|HM]; [apply negb_true_iff in HM; lia|lia].
Qed.
