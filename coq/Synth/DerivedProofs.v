(* C20 — lemmas about the models of Synth/Derived.v (statements re-exported by Props/C20.v). *)
From Coq Require Import List ZArith QArith Qround Bool Lia ZifyBool Permutation Sorting.Sorted.
From Outrank Require Import Synth.Derived.
Import ListNotations.
Open Scope Z_scope.

(* ------------------------------------------------------------------------------------------ *)
(* basics *)

Lemma memZ_In v l : memZ v l = true <-> In v l.
Proof.
  induction l as [|a r IH]; cbn [memZ In]; [split; [discriminate|tauto]|].
  rewrite orb_true_iff, IH, Z.eqb_eq. split; intros [H|H]; auto.
Qed.
Lemma memZ_false v l : memZ v l = false <-> ~ In v l.
Proof. rewrite <- memZ_In. destruct (memZ v l); split; congruence. Qed.

Lemma nodupb_NoDup l : nodupb l = true <-> NoDup l.
Proof.
  induction l as [|a r IH]; cbn [nodupb]; [split; [constructor|reflexivity]|].
  rewrite andb_true_iff, negb_true_iff, memZ_false, IH. split.
  - intros [H1 H2]. constructor; assumption.
  - intros H. inversion H; subst. split; assumption.
Qed.

Lemma lenZ_app {A} (a b : list A) : lenZ (a ++ b) = lenZ a + lenZ b.
Proof. unfold lenZ. rewrite app_length. lia. Qed.
Lemma lenZ_nonneg {A} (a : list A) : 0 <= lenZ a.
Proof. unfold lenZ. lia. Qed.
Lemma lenZ_map {A B} (f : A -> B) l : lenZ (map f l) = lenZ l.
Proof. unfold lenZ. rewrite map_length. reflexivity. Qed.

Lemma zrange_length a k : length (zrange a k) = k.
Proof. unfold zrange. rewrite map_length, seq_length. reflexivity. Qed.
Lemma zrange_In a k c : In c (zrange a k) <-> a <= c < a + Z.of_nat k.
Proof.
  unfold zrange. rewrite in_map_iff. split.
  - intros [t [E Ht]]. apply in_seq in Ht. lia.
  - intros H. exists (Z.to_nat (c - a)). split; [lia|]. apply in_seq. lia.
Qed.
Lemma zrange_NoDup a k : NoDup (zrange a k).
Proof.
  unfold zrange. apply FinFun.Injective_map_NoDup; [|apply seq_NoDup].
  intros x y H. lia.
Qed.
Lemma nth_map_dflt {A B} (f : A -> B) l t dA dB : (t < length l)%nat -> nth t (map f l) dB = f (nth t l dA).
Proof.
  revert t. induction l as [|a r IH]; intros t H; cbn [length] in H; [lia|].
  destruct t as [|t]; [reflexivity|]. cbn [map nth]. apply IH. lia.
Qed.
Lemma zrange_nth a k t : (t < k)%nat -> nth t (zrange a k) 0 = a + Z.of_nat t.
Proof.
  intros H. unfold zrange. rewrite (nth_map_dflt _ _ _ O) by (rewrite seq_length; exact H).
  rewrite seq_nth by exact H. reflexivity.
Qed.
Lemma map_seq_shift {B} (f : nat -> B) k s len : map f (seq (k + s) len) = map (fun t => f (k + t)%nat) (seq s len).
Proof.
  revert s. induction len as [|len IH]; intros s; [reflexivity|].
  cbn [seq map]. f_equal. rewrite <- IH. f_equal. f_equal. lia.
Qed.
Lemma zrange_app a k1 k2 : zrange a (k1 + k2) = zrange a k1 ++ zrange (a + Z.of_nat k1) k2.
Proof.
  unfold zrange. rewrite seq_app, map_app. f_equal. cbn [plus].
  replace k1 with (k1 + 0)%nat at 1 by lia. rewrite map_seq_shift. apply map_ext. intros t. lia.
Qed.

(* ------------------------------------------------------------------------------------------ *)
(* duplicates, combinations, self-description *)

Lemma nthZ_app_l row ext j : 0 <= j < lenZ row -> nthZ (row ++ ext) j = nthZ row j.
Proof. unfold nthZ, lenZ. intros H. apply app_nth1. lia. Qed.
Lemma nthZ_app_r row ext t : 0 <= t -> nthZ (row ++ ext) (lenZ row + t) = nthZ ext t.
Proof.
  unfold nthZ, lenZ. intros H. rewrite app_nth2 by lia. f_equal. lia.
Qed.
Lemma nthZ_select row idx t : (t < length idx)%nat ->
  nthZ (select row idx) (Z.of_nat t) = nthZ row (norm_idx (lenZ row) (nth t idx 0)).
Proof.
  intros H. unfold select, nthZ at 1. rewrite Nat2Z.id.
  rewrite (nth_map_dflt _ _ _ 0) by exact H. reflexivity.
Qed.

Lemma call_ok_rows X idx : call_ok X idx = true ->
  X <> [] /\ (forall row, In row X -> lenZ row = ncols X) /\ (forall j, In j idx -> - ncols X <= j < ncols X).
Proof.
  unfold call_ok. destruct X as [|r0 X']; [discriminate|]. rewrite andb_true_iff. intros [H1 H2].
  split; [discriminate|]. split.
  - unfold rect in H1. rewrite forallb_forall in H1. intros row Hr. apply Z.eqb_eq. apply H1. exact Hr.
  - rewrite forallb_forall in H2. intros j Hj. specialize (H2 j Hj). unfold idx_ok in H2. lia.
Qed.

(* C20_dup *)
Lemma dup_spec X idx X' fi di : gen_duplicates X idx = Some (X', (fi, di)) ->
  X' = map (fun row => row ++ select row idx) X /\
  forall row, In row X ->
    lenZ row = ncols X /\
    (forall j, 0 <= j < ncols X -> nthZ (row ++ select row idx) j = nthZ row j) /\
    (forall t, (t < length idx)%nat ->
       nthZ (row ++ select row idx) (ncols X + Z.of_nat t) = nthZ row (norm_idx (ncols X) (nth t idx 0)) /\
       0 <= norm_idx (ncols X) (nth t idx 0) < ncols X).
Proof.
  unfold gen_duplicates. destruct (call_ok X idx) eqn:E; [|discriminate]. intros H.
  injection H as E1 E2 E3. subst X' fi di.
  split; [reflexivity|]. intros row Hr. destruct (call_ok_rows _ _ E) as [_ [Hlen Hidx]].
  pose proof (Hlen row Hr) as Hl. split; [exact Hl|]. split.
  - intros j Hj. apply nthZ_app_l. lia.
  - intros t Ht. rewrite <- Hl at 1. rewrite nthZ_app_r by lia. rewrite nthZ_select by exact Ht. rewrite Hl.
    split; [reflexivity|]. assert (In (nth t idx 0) idx) by (apply nth_In; exact Ht).
    specialize (Hidx _ H). unfold norm_idx. destruct (Z.ltb_spec (nth t idx 0) 0); lia.
Qed.

Lemma dup_info X idx X' fi di : gen_duplicates X idx = Some (X', (fi, di)) ->
  fi = idx /\ di = zrange (ncols X) (length idx) /\ length di = length idx /\ NoDup di /\
  (forall c, In c di <-> ncols X <= c < ncols X + lenZ idx) /\
  (X <> [] -> ncols X' = ncols X + lenZ idx).
Proof.
  unfold gen_duplicates. destruct (call_ok X idx) eqn:E; [|discriminate]. intros H.
  injection H as E1 E2 E3. subst X' fi di.
  split; [reflexivity|]. split; [reflexivity|]. split; [apply zrange_length|]. split; [apply zrange_NoDup|].
  split; [intros c; apply zrange_In|].
  intros _. destruct X as [|r0 X0]; [discriminate|]. cbn [map ncols]. rewrite lenZ_app. unfold select. rewrite lenZ_map. reflexivity.
Qed.

Lemma dup_prefix_refuted : exists X idx X' fi di,
  gen_duplicates_old X idx = Some (X', (fi, di)) /\ ncols X' = ncols X + 2 /\ di = [ncols X] /\ ~ In (ncols X + 1) di.
Proof.
  exists [[1; 2; 3]; [4; 5; 6]], [0; 1], [[1; 2; 3; 1; 2]; [4; 5; 6; 4; 5]], [0; 1], [3].
  split; [vm_compute; reflexivity|]. split; [reflexivity|]. split; [reflexivity|].
  cbn. intros [H|[]]. discriminate.
Qed.

Lemma map_opt_Forall2 {A B} (f : A -> option B) l l' : map_opt f l = Some l' -> Forall2 (fun a b => f a = Some b) l l'.
Proof.
  revert l'. induction l as [|a r IH]; intros l' H; cbn [map_opt] in H.
  - inversion H. constructor.
  - destruct (f a) eqn:E; [|discriminate]. destruct (map_opt f r) eqn:E2; [|discriminate].
    inversion H; subst. constructor; [exact E|]. apply IH. reflexivity.
Qed.

(* C20_combo *)
Lemma combo_spec X f idx X' fi ct ix : gen_combinations X f idx = Some (X', (fi, ct, ix)) ->
  fi = idx /\ ct = f /\ ix = ncols X /\
  Forall2 (fun row row' => exists v, comb_val f (select row idx) = Some v /\ row' = row ++ [v] /\
                                      nthZ row' (ncols X) = v /\ forall j, 0 <= j < ncols X -> nthZ row' j = nthZ row j) X X'.
Proof.
  unfold gen_combinations. destruct (call_ok X idx) eqn:E; [|discriminate].
  destruct (map_opt _ X) as [X1|] eqn:E1; [|discriminate]. intros H.
  injection H as E2 E3 E4 E5. subst X' fi ct ix.
  split; [reflexivity|]. split; [reflexivity|]. split; [reflexivity|].
  destruct (call_ok_rows _ _ E) as [_ [Hlen _]].
  apply map_opt_Forall2 in E1. clear E. revert Hlen. generalize (ncols X) as nc. induction E1 as [|row row' r r' H1 _ IH]; intros nc Hlen; constructor.
  - destruct (comb_val f (select row idx)) as [v|] eqn:Ev; [|discriminate]. inversion H1; subst. exists v.
    assert (Hl : lenZ row = nc) by (apply Hlen; now left).
    split; [reflexivity|]. split; [reflexivity|]. split.
    + rewrite <- Hl. replace (lenZ row) with (lenZ row + 0) by lia. rewrite nthZ_app_r by lia. reflexivity.
    + intros j Hj. apply nthZ_app_l. lia.
  - apply IH. intros row0 H0. apply Hlen. now right.
Qed.

(* what the stated functions are *)
Lemma comb_val_linear vals : comb_val CLinear vals = Some (zsum vals). Proof. reflexivity. Qed.
Lemma comb_val_nonlinear vals : comb_val CNonlinear vals = Some (zsum vals). Proof. reflexivity. Qed.
Lemma comb_val_xor a b r : comb_val CXor (a :: b :: r) = Some (fold_left Z.lxor r (Z.lxor a b)). Proof. reflexivity. Qed.
Lemma comb_val_and a b r : comb_val CAnd (a :: b :: r) = Some (fold_left Z.land r (Z.land a b)). Proof. reflexivity. Qed.
Lemma comb_val_or a b r : comb_val COr (a :: b :: r) = Some (fold_left Z.lor r (Z.lor a b)). Proof. reflexivity. Qed.

(* C20_corr_info *)
Lemma corr_indices_spec nc idx : idx <> [] ->
  length (corr_indices nc idx) = length idx /\ NoDup (corr_indices nc idx) /\
  forall c, In c (corr_indices nc idx) <-> nc <= c < nc + lenZ idx.
Proof.
  intros Hne. unfold corr_indices. destruct (Z.ltb_spec 1 (lenZ idx)) as [H|H].
  - split; [apply zrange_length|]. split; [apply zrange_NoDup|]. intros c. apply zrange_In.
  - destruct idx as [|a [|b r]]; [congruence| |unfold lenZ in H; cbn [length] in H; lia].
    split; [reflexivity|]. split; [repeat constructor; intros []|]. intros c. unfold lenZ. cbn. lia.
Qed.
Lemma corr_indices_zrange nc idx : idx <> [] -> corr_indices nc idx = zrange nc (length idx).
Proof.
  intros Hne. unfold corr_indices. destruct (Z.ltb_spec 1 (lenZ idx)) as [H|H]; [reflexivity|].
  destruct idx as [|a [|b r]]; [congruence| |unfold lenZ in H; cbn [length] in H; lia].
  unfold zrange. cbn. f_equal. lia.
Qed.
