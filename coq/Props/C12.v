(* C12 — transformations compute what their names say; degenerate ones are dropped.
   Only statements here; each is closed by [exact] of a lemma of Features/TransformProofs.v.

   [default_table], [minimal_table], [fw_table], [registry], [resolution_range], [greater_than_range]
   (Gen/Presets.v) and the keep/drop operators and constants inside [keep_code], [parse_cell], [select]
   (Gen/TransformConstants.v) are regenerated from /repo by tools/translate_presets.py on every run, so
   these theorems are re-proved about the formulas and constants of the current source.
   [den e xs x] is the value in R of the formula e at the element x of the column xs ([None] = not a
   finite real number: numpy gives nan or +-inf); [rhe] is rounding half to even. *)
From Coq Require Import List NArith ZArith QArith Reals.
From Outrank Require Import Features.Transform Features.Transform3 Gen.Presets Gen.TransformConstants
  Features.TransformTables Features.TransformProofs Features.Transform3Proofs.
Import ListNotations.
Local Close Scope Q_scope.
Local Open Scope R_scope.

(* SCOPE OF THE FORMULA THEOREMS.  C12_fw_* and C12_named_* are exact statements over the real numbers.  The property's
   "up to floating-point rounding" is NOT proved (no floating-point error theorem; clause reported as PARTIAL): the
   check compares the implementation's doubles with an independent IEEE evaluation of the same translated tree and
   counts the cells where the doubles leave the real value.  Known divergence: _tr_log(x + sqrt(pow(x,2), 1) -- over R
   it is arcsinh x for all x (C12_named_arcsinh), in doubles it is +inf for |x| >= 1.35e154 (x^2 overflows), loses more
   than 1e-9 relative accuracy for x <= -8e3 and is -inf for x <= -3e8 (cancellation in x + sqrt(x^2+1)).  The other
   nine default formulas and the fw family involve no overflow below 1e154 and no cancellation. *)

(* ---- the fw family: the two numbers in the name determine the function ------------------- *)

(* for every kind and every (resolution, threshold) of the grids of fw_transformers.py, the table has
   an entry under the name built from the two numbers; it is the expected expression, and its meaning
   is the function [fw_named_fun kind res gt], which mentions nothing but res and gt *)
Theorem C12_fw_family : forall k res gt,
  In res resolution_range -> In gt greater_than_range ->
  exists e, lookup (fw_name k res gt) fw_table = Some e
            /\ expr_eqb e (fw_expr k res gt) = true
            /\ forall xs x, den e xs x = Some (fw_named_fun k res gt x).
Proof. exact fw_family. Qed.

(* ... spelled out: below the threshold the identity, at the threshold 0, above it
   round-half-even (f (x - thr) * res) with f = sqrt or ln; never nan *)
Theorem C12_fw_function : forall is_sqrt res thr xs x,
  den (fw_body is_sqrt res thr) xs x =
  Some (if Rltb x (Q2R thr) then x
        else if Rltb (Q2R thr) x
             then IZR (rhe ((if is_sqrt then sqrt (x - Q2R thr) else ln (x - Q2R thr)) * Q2R res))
             else 0).
Proof. exact fw_body_den. Qed.

(* the fw preset contains nothing else: default entries and the generated grid *)
Theorem C12_fw_closed : forall n e, In (n, e) fw_table ->
  (exists e', lookup n default_table = Some e' /\ expr_eqb e' e = true)
  \/ (exists k res gt, In res resolution_range /\ In gt greater_than_range
                       /\ n = fw_name k res gt /\ expr_eqb (fw_expr k res gt) e = true).
Proof. exact fw_closed. Qed.

(* ---- the names of the default preset (readings rd_* are written by hand in Transform.v) ---- *)

Theorem C12_named_sqrt : exists e, lookup nm_sqrt default_table = Some e
  /\ forall xs x, den e xs x = (if Rltb x 0 then None else Some (sqrt x)).
Proof. exact named_sqrt. Qed.

Theorem C12_named_log_x1 : exists e, lookup nm_log_x1 default_table = Some e
  /\ forall xs x, den e xs x = (if Rltb (-1) x then Some (ln (x + 1)) else None).
Proof. exact named_log_x1. Qed.

Theorem C12_named_sqrt_abs : exists e, lookup nm_sqrt_abs default_table = Some e
  /\ forall xs x, den e xs x = Some (sqrt (Rabs x)).
Proof. exact named_sqrt_abs. Qed.

Theorem C12_named_log_abs1 : exists e, lookup nm_log_abs1 default_table = Some e
  /\ forall xs x, den e xs x = Some (ln (Rabs x + 1)).
Proof. exact named_log_abs1. Qed.

(* div(x,abs(x))*log(abs(x)) = sign(x) * ln|x|, undefined at 0 *)
Theorem C12_named_sign_log : exists e, lookup nm_sign_log default_table = Some e
  /\ forall xs x, den e xs x = (if Reqb x 0 then None else Some (if Rltb 0 x then ln x else - ln (- x))).
Proof. exact named_sign_log. Qed.

(* log(x + sqrt(pow(x,2) + 1)) = arcsinh x, defined on all of R.  Over R only: the doubles agree with this (to 1e-9
   relative) for -8e3 <= x < 1.35e154 and diverge outside (see SCOPE above); the check counts those cells. *)
Theorem C12_named_arcsinh : exists e, lookup nm_arcsinh default_table = Some e
  /\ forall xs x, den e xs x = Some (arcsinh x).
Proof. exact named_arcsinh. Qed.

Theorem C12_named_log_sqrt : exists e, lookup nm_log_sqrt default_table = Some e
  /\ forall xs x, den e xs x = (if Rltb x 0 then None else Some (ln (x + 1) * sqrt x)).
Proof. exact named_log_sqrt. Qed.

Theorem C12_named_log100 : exists e, lookup nm_log100 default_table = Some e
  /\ forall xs x, den e xs x = (if Rltb (-1) x then Some (IZR (rhe (ln (x + 1) * 100))) else None).
Proof. exact named_log100. Qed.

Theorem C12_named_nonzero : exists e, lookup nm_nonzero default_table = Some e
  /\ forall xs x, den e xs x = Some (if Reqb x 0 then 0 else 1).
Proof. exact named_nonzero. Qed.

Theorem C12_named_round_div_max : exists e, lookup nm_round_div_max default_table = Some e
  /\ forall xs x, den e xs x =
       match list_max xs with
       | None => None
       | Some m => if Reqb m 0 then None else Some (IZR (rhe (x / m)))
       end.
Proof. exact named_round_div_max. Qed.

(* every name of the default preset is one of the ten above *)
Theorem C12_named_cover : forallb (fun n => mem n (map fst readings)) (names default_table) = true
                          /\ length readings = length default_table.
Proof. exact readings_cover. Qed.

(* minimal within default within fw-transformers, with the same meaning under the same name *)
Theorem C12_presets_nested :
  (forall n e, In (n, e) minimal_table ->
     exists e', lookup n default_table = Some e' /\ forall xs x, den e' xs x = den e xs x)
  /\ (forall n e, In (n, e) default_table ->
     exists e', lookup n fw_table = Some e' /\ forall xs x, den e' xs x = den e xs x).
Proof. exact presets_nested. Qed.

(* what [rhe] and [list_max] are *)
Theorem C12_round_half_even : forall r,
  Rabs (r - IZR (rhe r)) <= 1 / 2 /\ (Rabs (r - IZR (rhe r)) = 1 / 2 -> Z.even (rhe r) = true).
Proof. exact rhe_spec. Qed.

Theorem C12_column_max : forall xs m, list_max xs = Some m -> In m xs /\ (forall z, In z xs -> z <= m).
Proof. exact list_max_spec. Qed.

(* the conditions of np.where in the three presets compare finite quantities only, so [None] never
   has to stand for a particular one of nan / +inf / -inf *)
Theorem C12_conditions_total :
  forallb (fun kv => simple_conds (snd kv)) fw_table = true
  /\ forall e, total_expr e = true -> forall xs x, exists v, den e xs x = Some v.
Proof. exact (conj conds_simple total_den). Qed.

Local Close Scope R_scope.

(* ---- sizes (tests/fw_transformers_test.py: 138, tests/ranking_module_test.py: 10) ---------- *)
Theorem C12_sizes :
  length minimal_table = 4%nat /\ length default_table = 10%nat /\ length fw_table = 138%nat
  /\ NoDup (names minimal_table) /\ NoDup (names default_table) /\ NoDup (names fw_table).
Proof. exact sizes. Qed.

(* ---- keep / drop: the rule of the source (operators and thresholds read from it) is the rule of the
   property, in integers: more than one distinct value, most frequent value < 80 % of the rows,
   'nan' < 75 % of the rows.  (The code compares the float quotients max/n and nan/n with the doubles
   0.8 and 0.75; for n < 2^50 the correctly rounded quotient is < resp. >= the double exactly when the
   rational is: 3/4 is a double, and k/n < 4/5 implies 4/5 - k/n >= 1/(5n) > 2^-53.) *)
Theorem C12_keep : forall l, keep_code l = true <->
  (1 < distinct l /\ 5 * maxcount l < 4 * length l /\ 4 * count nan_str l < 3 * length l)%nat.
Proof. exact keep_code_iff. Qed.

Theorem C12_keep_meaning : forall l,
  NoDup (dedup l) /\ (forall x, In x (dedup l) <-> In x l)
  /\ (forall s, In s l -> count s l <= maxcount l)%nat
  /\ (l <> [] -> exists s, In s l /\ count s l = maxcount l).
Proof.
  exact (fun l => conj (dedup_NoDup l) (conj (dedup_In l) (conj (maxcount_ge l) (maxcount_attained l)))).
Qed.

(* ---- numeric parse: the parse of the source (stripped character and value of the empty cell read from
   get_vals) is the parse of the property: the double quote is removed, the empty cell is 0, anything
   else is read as a decimal numeral ------------------------------------------------------------------ *)
Theorem C12_parse : forall s, oQeq (parse_cell s) (parse_cell_spec s).
Proof. exact parse_cell_is_spec. Qed.

Theorem C12_parse_quotes : forall s,
  parse_cell s = parse_cell (strip strip_char s)
  /\ parse_cell_spec [] = Some 0%Q
  /\ ((forall c, In c s -> c = 34%N) -> parse_cell_spec s = Some 0%Q).
Proof. exact (fun s => conj (parse_cell_strip s) (conj parse_cell_spec_empty (parse_cell_only_quotes s))). Qed.

Theorem C12_parse_digits : forall c ds, forallb is_digit (c :: ds) = true ->
  parse_float (c :: ds) = Some (inject_Z (digits_val 0 (c :: ds))).
Proof. exact parse_float_digits. Qed.

(* ---- preset lists: the union, later presets overriding ---------------------------------------- *)
Theorem C12_union : forall s tabs,
  Forall2 (fun ns t => lookup ns registry = Some t /\ t <> []) (split_on preset_separator s) tabs ->
  select s = Some (union tabs)
  /\ (forall k, lookup k (union tabs) = lookup_last k tabs)
  /\ (forall k, In k (names (union tabs)) <-> exists t, In t tabs /\ In k (names t)).
Proof. exact select_registered. Qed.

Theorem C12_union_last_wins : forall A k (ps qs : list (list (str * A))) p v,
  lookup k p = Some v -> (forall q, In q qs -> lookup k q = None) ->
  lookup k (union (ps ++ p :: qs)) = Some v.
Proof. exact union_last_wins. Qed.

Theorem C12_union_nodup : forall A (ps : list (list (str * A))),
  (forall p, In p ps -> NoDup (names p)) -> NoDup (names (union ps)).
Proof. exact NoDup_names_union. Qed.

Theorem C12_split_join : forall sep l, l <> [] -> (forall w, In w l -> ~ In sep w) ->
  split_on sep (join sep l) = l.
Proof. exact split_on_join. Qed.

(* ---- the checker the harness evaluates on the implementation's output ------------------------- *)
Theorem C12_check_sound : forall c o, C12_check c o = true -> forall n, In n o <-> In n (C12_model c).
Proof. exact check_sound. Qed.

Theorem C12_model_emitted : forall preset col rendered sel, select preset = Some sel ->
  forall n, In n (C12_model (preset, col, rendered)) <->
            exists k e l, In ((k, e), l) (combine sel rendered)
                          /\ (1 < distinct l /\ 5 * maxcount l < 4 * length l /\ 4 * count nan_str l < 3 * length l)%nat
                          /\ n = col ++ k.
Proof. exact model_emitted. Qed.

(* ---- the composition: raw cells -> numeric parse -> named formula -> text -> keep rule ---------------------- *)
(* [construct render id sel col cells]: parse every raw cell as get_vals does ([parse_cell3]: quote removed, empty = 0,
   otherwise Python's float(): blanks, sign, underscores, nan, inf), evaluate every selected formula on the parsed
   column with [den3] (real arithmetic on finite values, IEEE rules for signed zeros, nan, +-inf; no rounding, no
   overflow), turn every value into text with [render] (numpy's astype(str), abstract) and apply the keep rule to the
   text.  The property's sentence: *)
Theorem C12_emitted_iff : forall (render : gval R -> str) (sel : list (str * expr)) col cells out,
  construct render (fun e => e) sel col cells = Some out ->
  exists xs, parse_column OpsR cells = Some xs /\
  forall n, In n out <->
    exists k e txt, In (k, e) sel /\ n = col ++ k
      /\ rendered_column render e xs = Some txt
      /\ (1 < distinct txt /\ 5 * maxcount txt < 4 * length txt /\ 4 * count nan_str txt < 3 * length txt)%nat.
Proof. exact emitted_iff. Qed.

(* the statistics of the text are the statistics of the value classes (same finite number with the same zero sign /
   nan / same infinity), provided [render] is faithful on the set D of values that occur: equal text iff same class,
   "nan" iff nan.  ASSUMPTION about numpy's astype(str) on doubles (shortest round-trip repr); it cannot hold on all of
   R (countably many strings), hence the explicit domain D. *)
Theorem C12_text_classes : forall (render : gval R -> str) (D : gval R -> Prop),
  (forall a b, D a -> D b -> str_eqb (render a) (render b) = gsame OpsR a b) ->
  (forall a, D a -> str_eqb nan_str (render a) = gisnan a) ->
  forall vs, Forall D vs -> keep_spec (map render vs) = keep_by (gsame OpsR) (@gisnan R) vs.
Proof. exact keep_text_iff_classes. Qed.

(* the executable instance (arithmetic in Q; sqrt of rational squares, ln 1) computes the specification wherever it
   answers, and so does the keep decision [keepQ] the harness evaluates on raw columns *)
Theorem C12_denQ_sound : forall e xs x v,
  denQ e xs x = Some v -> den3 e (map (gmap Q2R) xs) (gmap Q2R x) = Some (gmap Q2R v).
Proof. exact denQ_sound. Qed.

Theorem C12_exact_model_sound : forall (render : gval R -> str) (D : gval R -> Prop),
  (forall a b, D a -> D b -> str_eqb (render a) (render b) = gsame OpsR a b) ->
  (forall a, D a -> str_eqb nan_str (render a) = gisnan a) ->
  forall e cells b, keepQ e cells = Some b ->
  exists xs vs, parse_column OpsR cells = Some xs
    /\ map (den3 e xs) xs = map Some vs
    /\ rendered_column render e xs = Some (map render vs)
    /\ (Forall D vs -> keep_spec (map render vs) = b).
Proof. exact keepQ_sound. Qed.

(* on finite data den3 refines den: where the formula has a real value in the sense of the C12_named / C12_fw theorems
   (every intermediate result finite), den3 yields that finite value (with some zero sign) *)
Theorem C12_den3_refines_den : forall e xs xs3 x x3 r,
  Forall2 isfin xs3 xs -> isfin x3 x -> den e xs x = Some r -> exists g, den3 e xs3 x3 = Some g /\ isfin g r.
Proof. exact den_den3. Qed.

(* ---- numeric parse, four-way (value / nan / inf / ValueError) ------------------------------------------------- *)
(* the parse with the constants of the source = the parse of the property *)
Theorem C12_parse3 : forall s, pres_eq (parse_cell_code s) (parse_cell3 s).
Proof. exact parse_cell_code_spec. Qed.

(* a specification of the parser that is not the parser: it reads every decimal numeral as Coq's own number notation
   does (N.of_uint), and it inverts the decimal printer *)
Theorem C12_parse_numeral : forall u, u <> Decimal.Nil ->
  parse_py (uint_codes u) = PVal (inject_Z (Z.of_N (N.of_uint u))) false.
Proof. exact parse_py_numeral. Qed.

Theorem C12_parse_print : forall n, parse_py (dec n) = PVal (inject_Z (Z.of_N n)) false.
Proof. exact parse_py_print. Qed.

(* ---- doubles vs integers in the keep rule --------------------------------------------------------------------- *)
(* for ANY rounding rn of the quotient that is monotone and has relative error <= 2^-53 (IEEE division and the
   literals 0.80, 0.75 rounded to nearest are such), and n < 2^50 rows: the float tests of the source decide exactly as
   the integer inequalities of C12_keep *)
Theorem C12_float_thresholds : forall rn : R -> R,
  (forall x y, (x <= y)%R -> (rn x <= rn y)%R) ->
  (forall x, (0 <= x)%R -> (x * (1 - / 2 ^ 53) <= rn x <= x * (1 + / 2 ^ 53))%R) ->
  forall k n : Z, (0 <= k)%Z -> (0 < n)%Z -> (n < 2 ^ 50)%Z ->
    ((rn (IZR k / IZR n) < rn (4 / 5))%R <-> (5 * k < 4 * n)%Z)
    /\ ((rn (IZR k / IZR n) < rn (3 / 4))%R <-> (4 * k < 3 * n)%Z).
Proof. exact float_thresholds. Qed.

(* the three modelled presets are keys of the vault's registry; C12_union speaks about lists over these three only
   (the registry's other keys -- extended, verbose, extended_rounded -- are outside the property and not modelled) *)
Theorem C12_registry_subset : forallb (fun n => mem n vault_registry_keys) (names registry) = true.
Proof. exact registry_subset. Qed.

Print Assumptions C12_fw_family.
Print Assumptions C12_named_arcsinh.
Print Assumptions C12_keep.
Print Assumptions C12_union.
Print Assumptions C12_emitted_iff.
Print Assumptions C12_exact_model_sound.
