(* C09 — results independent of worker count and scheduling, and reproducible.
   Only statements here; each is closed by [exact] of a lemma of Pipeline/PoolProofs.v / AggregateProofs.v.

   Vocabulary (Pipeline/Pool.v): [amap f tasks sched] = what results.get() returns after the completion events
   [sched] (task indices in completion order; results are stored by task index), None while some task has not
   completed; [interleave ws sched] = sched is an interleaving of the workers' sequences ws; [assignment n ws] =
   every task index below n is owned by exactly one worker; [collect_unordered] = results in completion order;
   [mirror] = the (B, A, s), (A, B, s) doubling of mixed_rank_graph; [final_table] = sorted median aggregate.

   HONEST READING.  [C09_schedule], [C09_schedule_any], [C09_not_ready], [C09_pool_size] hold BY CONSTRUCTION of the pool
   model: [complete] writes [f (nth tasks i)] into slot i and [f] is a pure Gallina function, so they say "filling every
   slot fills every slot", for any order / worker count.  They do not prove anything about pathos; they STATE THE CONTRACT
   (results by task index, nothing before the last completion) that the harness pool objects are held to on every
   recorded call ([C09_schedule_check_sound]) and under which the real code is then run.  The risk the property names -
   a scheduling-dependent pairing of results with combinations - is excluded by assumption in the model and is TESTED by
   the harness (adversarial pools, real pools of 1..16 workers, fresh processes).  The theorems with content are
   [C09_unordered_same] / [C09_unordered_same_final] (the aggregate is a function of the multiset of triplets: names travel
   inside each triplet, the median is a function of the multiset) and their run-level corollaries.  "Identical across
   fresh runs" has no theorem: in the model the table is a function of its inputs; hash seeds, process state and time
   are outside it.  Level: proof (aggregation) + test (pool, reproducibility).

   PARTIAL with respect to the property text: the operating-system scheduler, pathos/multiprocess/dill and the purity
   of the per-pair scorer are not modelled (the scorer is a Gallina function [f]); the harness tests them. *)
From Coq Require Import List Arith NArith ZArith Bool Permutation.
From Outrank Require Import Pipeline.Aggregate Pipeline.AggregateProofs Pipeline.Pool Pipeline.PoolProofs.
Import ListNotations.
Local Open Scope nat_scope.

(* [contract, true by construction of the model] any completion order: once every task has completed (in whatever
   order), the collected results are map f tasks *)
Theorem C09_schedule : forall (T R : Type) (f : T -> R) tasks sched,
  Permutation sched (seq 0 (length tasks)) -> amap f tasks sched = Some (map f tasks).
Proof. exact @amap_schedule. Qed.

(* ... even if some completions are reported twice or refer to no task *)
Theorem C09_schedule_any : forall (T R : Type) (f : T -> R) tasks sched,
  (forall j, j < length tasks -> In j sched) -> collect f tasks sched = map (fun t => Some (f t)) tasks.
Proof. exact @collect_complete. Qed.

(* ... and nothing is returned before the last task completed *)
Theorem C09_not_ready : forall (T R : Type) (f : T -> R) tasks sched j,
  j < length tasks -> ~ In j sched -> amap f tasks sched = None.
Proof. exact @amap_not_ready. Qed.

(* [contract, true by construction; w and w' only name the lengths] any two pool sizes w, w', any assignment of the
   tasks to the workers, any interleaving of the workers *)
Theorem C09_pool_size : forall (T R : Type) (f : T -> R) tasks (w w' : nat) ws ws' s s',
  length ws = w -> length ws' = w' ->
  assignment (length tasks) ws -> assignment (length tasks) ws' ->
  interleave ws s -> interleave ws' s' ->
  amap f tasks s = Some (map f tasks) /\ amap f tasks s' = Some (map f tasks).
Proof. exact @pool_size_independent. Qed.

Theorem C09_interleave_perm : forall (A : Type) (ws : list (list A)) s, interleave ws s -> Permutation s (concat ws).
Proof. exact @interleave_perm. Qed.

(* the hypotheses are satisfiable for every w, chunk size and task count: chunks dealt round-robin *)
Theorem C09_split_assignment : forall w c n,
  assignment n (split_workers w c n) /\ length (split_workers w c n) = Nat.max 1 w.
Proof. exact (fun w c n => conj (split_workers_assignment w c n) (split_workers_length w c n)). Qed.

(* the aggregate table is a function of the multiset of triplets: names travel inside each triplet and the median
   is a function of the multiset of a pair's scores *)
Theorem C09_unordered_same : forall rows rows', Permutation rows rows' -> aggregate rows = aggregate rows'.
Proof. exact aggregate_perm. Qed.
Theorem C09_unordered_same_final : forall rows rows', Permutation rows rows' -> final_table rows = final_table rows'.
Proof. exact final_table_perm. Qed.

(* a collection in completion order yields a permutation of the serial results *)
Theorem C09_unordered_collection : forall (T R : Type) (f : T -> R) tasks sched,
  Permutation sched (seq 0 (length tasks)) -> Permutation (collect_unordered f tasks sched) (map f tasks).
Proof. exact @unordered_perm. Qed.

(* a whole run (one scorer, combination list and schedule per batch): with the order-preserving map every batch
   yields exactly the serial rows; with a completion-ordered collection the final table is still the serial one *)
Theorem C09_run_ordered : forall (T : Type) (bs : list (@batch T)) ss,
  Forall2 valid_sched bs ss -> rows_ordered bs ss = map Some (rows_serial bs).
Proof. exact @run_ordered. Qed.
Theorem C09_run_unordered : forall (T : Type) (bs : list (@batch T)) ss,
  Forall2 valid_sched bs ss -> final_table (concat (rows_unordered bs ss)) = final_table (concat (rows_serial bs)).
Proof. exact @run_unordered_table. Qed.
Theorem C09_run_schedule_independent : forall (T : Type) (bs : list (@batch T)) ss ss',
  Forall2 valid_sched bs ss -> Forall2 valid_sched bs ss' ->
  rows_ordered bs ss = rows_ordered bs ss' /\
  final_table (concat (rows_unordered bs ss)) = final_table (concat (rows_unordered bs ss')).
Proof. exact @run_schedule_independent. Qed.

(* the checkers run on recorded schedules / recorded rows are sound *)
Theorem C09_schedule_check_sound : forall n ws sched, schedule_okb n ws sched = true ->
  assignment n ws /\ interleave ws sched /\ Permutation sched (seq 0 n).
Proof. exact schedule_okb_sound. Qed.
Theorem C09_multiset_check_sound : forall rowsA rowsB,
  same_multisetb rowsA rowsB = true -> final_table rowsA = final_table rowsB.
Proof. exact same_multiset_same_table. Qed.

Print Assumptions C09_schedule.
Print Assumptions C09_schedule_any.
Print Assumptions C09_not_ready.
Print Assumptions C09_pool_size.
Print Assumptions C09_interleave_perm.
Print Assumptions C09_split_assignment.
Print Assumptions C09_unordered_same.
Print Assumptions C09_unordered_same_final.
Print Assumptions C09_unordered_collection.
Print Assumptions C09_run_ordered.
Print Assumptions C09_run_unordered.
Print Assumptions C09_run_schedule_independent.
Print Assumptions C09_schedule_check_sound.
Print Assumptions C09_multiset_check_sound.
