(* C05 — each emitted score is the selected heuristic applied to the two category-coded columns.
   Only statements here; each is closed by [exact] of a lemma of Pipeline/RankGraphProofs.v or
   Pipeline/DispatchProofs.v.

   [dispatch] (Gen/Dispatch.v) and [doc_names] (Gen/DocNames.v) are regenerated from the repo's source
   on every run by tools/translate_dispatch.py; [codes], [orient], [maxcov], [rank_rows] are the
   hand-written model of Pipeline/RankGraph.v, held to the code by the correspondence check.  Strings
   are lists of code points; [s_of "MI"] is the literal [77; 73]. *)
From Coq Require Import String Ascii.
From Coq Require Import List NArith ZArith QArith Bool Arith.
From Outrank Require Import Pipeline.RankGraph Pipeline.RankGraphProofs Pipeline.DispatchProofs
  Gen.Dispatch Gen.DocNames.
Import ListNotations.
Close Scope Q_scope.
Open Scope string_scope.

(* ---- the dispatch, as it stands in the source today -------------------------------------------- *)

Theorem C05_table :
  dispatch (s_of "MI") = SkMI /\
  dispatch (s_of "MI-numba-3mr") = NumbaMI false /\
  dispatch (s_of "MI-numba") = NumbaMI false /\
  dispatch (s_of "MI-numba-randomized") = NumbaMI true /\
  dispatch (s_of "max-value-coverage") = MaxCov /\
  dispatch (s_of "correlation-Pearson") = Pearson /\
  dispatch (s_of "AMI") = AMI /\
  dispatch (s_of "Constant") = Const.
Proof. exact dispatch_table. Qed.

(* no heuristic name used by the project's own docs / examples / scripts / benchmarks silently degrades
   to the constant fallback (what fix 9278e7c repaired for MI-numba-3mr) *)
Theorem C05_no_silent_constant : forall name, In name doc_names -> surrogate_name name = false ->
  dispatch name <> Fallback.
Proof. exact no_silent_constant. Qed.

Theorem C05_doc_names_nonvacuous :
  In (s_of "MI-numba-randomized") doc_names /\ surrogate_name (s_of "MI-numba-randomized") = false /\
  existsb (fun h => negb (surrogate_name h)) doc_names = true.
Proof. exact doc_names_nonvacuous. Qed.

(* for ALL strings: the cardinality correction is on for exactly one name *)
Theorem C05_flag_only_randomized : forall h, dispatch h = NumbaMI true -> h = s_of "MI-numba-randomized".
Proof. exact flag_only_randomized. Qed.

(* ---- category coding (unbounded columns) ------------------------------------------------------- *)

(* two cells get the same code iff they hold the same string *)
Theorem C05_codes_inj : forall l i j, (i < length l)%nat -> (j < length l)%nat ->
  (nth i (codes l) 0%N = nth j (codes l) 0%N <-> nth i l [] = nth j l []).
Proof. exact codes_inj. Qed.

(* codes follow the code-point order of the strings (this is what fixes Pearson's value) ... *)
Theorem C05_codes_order : forall l i j, (i < length l)%nat -> (j < length l)%nat ->
  ((nth i (codes l) 0 < nth j (codes l) 0)%N <-> scmp (nth i l []) (nth j l []) = Lt).
Proof. exact codes_order. Qed.

(* ... and are exactly 0 .. k-1, k = number of distinct cells: together with the two theorems above this
   determines the coding uniquely (pandas astype('category').cat.codes) *)
Theorem C05_codes_dense : forall l,
  (forall i, (i < length l)%nat -> (nth i (codes l) 0 < N.of_nat (length (cats l)))%N) /\
  (forall k, (k < length (cats l))%nat -> exists i, (i < length l)%nat /\ nth i (codes l) 0%N = N.of_nat k).
Proof. exact codes_dense. Qed.

Theorem C05_cats_distinct_values : forall l, NoDup (cats l) /\ forall x, In x (cats l) <-> In x l.
Proof. intros l. split; [exact (cats_nodup l)|exact (cats_in l)]. Qed.

Example C05_codes_example :
  codes [s_of "b"; s_of ""; s_of "a"; s_of "b"; s_of "10"; s_of "9"; s_of "B"] = [5; 0; 4; 5; 1; 2; 3]%N.
Proof. vm_compute. reflexivity. Qed.

(* ---- orientation: the label is the conditioning (second) side whenever it is in the pair -------- *)

Theorem C05_orientation : forall lbl a b,
  (a = lbl \/ b = lbl ->
     snd (orient lbl (a, b)) = lbl /\ fst (orient lbl (a, b)) = (if seqb a lbl then b else a)) /\
  (a <> lbl -> orient lbl (a, b) = (a, b)) /\
  (orient lbl (a, b) = (a, b) \/ orient lbl (a, b) = (b, a)).
Proof.
  intros lbl a b. split; [exact (orient_label lbl a b)|split; [exact (orient_other lbl a b)|exact (orient_same_columns lbl a b)]].
Qed.

Example C05_orientation_example :
  orient (s_of "label") (s_of "label", s_of "f1") = (s_of "f1", s_of "label") /\
  orient (s_of "label") (s_of "f1", s_of "label") = (s_of "f1", s_of "label") /\
  orient (s_of "label") (s_of "f1", s_of "f2") = (s_of "f1", s_of "f2").
Proof. vm_compute. repeat split; reflexivity. Qed.

(* ---- largest joint-value frequency -------------------------------------------------------------- *)

(* [joint a b u v] = number of rows with (a_i, b_i) = (u, v); [frac c n] = c / n.
   The model value is attained by a joint value that occurs, bounds every joint frequency, and lies
   in [1/n, 1]. *)
Theorem C05_maxcov_exact : forall a b : list N, length a = length b -> a <> [] ->
  (exists u v, In (u, v) (combine a b) /\ maxcov a b = frac (joint a b u v) (length a)) /\
  (forall u v, (frac (joint a b u v) (length a) <= maxcov a b)%Q) /\
  (frac 1 (length a) <= maxcov a b)%Q /\ (maxcov a b <= 1)%Q.
Proof. exact maxcov_exact. Qed.

Example C05_maxcov_example :
  maxcov [1; 1; 2; 3; 1; 1; 1; 5]%N [0; 0; 5; 5; 3; 0; 0; 0]%N = (4 # 8)%Q.
Proof. vm_compute. reflexivity. Qed.

(* the bucketed version before fix bf8a920 is not the largest joint frequency: (0,0) and (17,12831)
   share a bucket; only an upper estimate is true of it *)
Theorem C05_maxcov_prefix_refuted :
  exists a b, length a = length b /\ (maxcov_old a b == 1)%Q /\ (maxcov a b == 1 # 2)%Q /\
              ~ (maxcov_old a b == maxcov a b)%Q.
Proof. exact maxcov_prefix_refuted. Qed.

Theorem C05_maxcov_old_only_upper : forall a b, (maxcov a b <= maxcov_old a b)%Q.
Proof. exact maxcov_old_ge. Qed.

(* ---- rows: every emitted triplet carries the scorer's value on the two coded columns ------------ *)

(* [sc] is the selected scorer (an oracle for this theorem); [pairs] the evaluated combinations *)
Theorem C05_rows : forall (score : Type) (sc : list N -> list N -> score) f lbl pairs row,
  In row (rank_rows sc f lbl pairs) ->
  exists a b, In (a, b) pairs /\
    (row = (a, b, eval_pair sc f lbl (a, b)) \/ row = (b, a, eval_pair sc f lbl (a, b))) /\
    eval_pair sc f lbl (a, b)
      = sc (codes (col f (fst (orient lbl (a, b))))) (codes (col f (snd (orient lbl (a, b))))) /\
    (a = lbl \/ b = lbl -> snd (orient lbl (a, b)) = lbl).
Proof. exact (@rank_rows_spec). Qed.

Theorem C05_rows_complete : forall (score : Type) (sc : list N -> list N -> score) f lbl pairs a b,
  In (a, b) pairs ->
  In (a, b, eval_pair sc f lbl (a, b)) (rank_rows sc f lbl pairs) /\
  In (b, a, eval_pair sc f lbl (a, b)) (rank_rows sc f lbl pairs).
Proof. exact (@rank_rows_complete). Qed.

Print Assumptions C05_table.
Print Assumptions C05_no_silent_constant.
Print Assumptions C05_doc_names_nonvacuous.
Print Assumptions C05_flag_only_randomized.
Print Assumptions C05_codes_inj.
Print Assumptions C05_codes_order.
Print Assumptions C05_codes_dense.
Print Assumptions C05_cats_distinct_values.
Print Assumptions C05_orientation.
Print Assumptions C05_maxcov_exact.
Print Assumptions C05_maxcov_prefix_refuted.
Print Assumptions C05_maxcov_old_only_upper.
Print Assumptions C05_rows.
Print Assumptions C05_rows_complete.
