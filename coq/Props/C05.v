(* C05 — each emitted score is the selected heuristic applied to the two category-coded columns.
   Only statements here; each is closed by [exact] of a lemma of Pipeline/RankGraphProofs.v or
   Pipeline/DispatchProofs.v.

   [dispatch] (Gen/Dispatch.v) and [doc_names] (Gen/DocNames.v) are regenerated from the repo's source
   on every run by tools/translate_dispatch.py; [codes], [orient], [maxcov], [rank_rows] are the
   hand-written model of Pipeline/RankGraph.v, held to the code by the correspondence check.  Strings
   are lists of code points; [s_of "MI"] is the literal [77; 73]. *)
From Coq Require Import String Ascii.
From Coq Require Import Reals List NArith ZArith QArith Qreals Bool Arith.
From Outrank Require Import Common.RSum MI.Model MI.Spec.
From Outrank Require Import Pipeline.RankGraph Pipeline.RankGraphProofs Pipeline.Scorers Pipeline.ScorersProofs
  Pipeline.DispatchProofs Gen.Dispatch Gen.DocNames.
Import ListNotations.
Close Scope Q_scope.
Open Scope string_scope.

(* ---- the dispatch, as it stands in the source today -------------------------------------------- *)

Theorem C05_table :
  dispatch (s_of "MI") = SkMI /\
  dispatch (s_of "MI-numba-3mr") = NumbaMI false /\
  dispatch (s_of "MI-numba") = NumbaMI false /\
  dispatch (s_of "MI-numba-randomized") = NumbaMI true /\
  dispatch (s_of "max-value-coverage") = MaxCov /\
  dispatch (s_of "correlation-Pearson") = Pearson /\
  dispatch (s_of "AMI") = AMI /\
  dispatch (s_of "Constant") = Const.
Proof. exact dispatch_table. Qed.

(* NO heuristic name used by the project's own docs / examples / scripts / benchmarks falls through to the warning +
   constant-0 branch — no exemption (what fixes 9278e7c and 71517fc repaired); surrogate names reach the surrogate scorer *)
Theorem C05_no_silent_constant : forall name, In name doc_names -> dispatch name <> Fallback.
Proof. exact no_silent_constant. Qed.

Theorem C05_doc_names_nonvacuous :
  In (s_of "MI-numba-randomized") doc_names /\ (2 <= length doc_names)%nat.
Proof. exact doc_names_nonvacuous. Qed.

(* the other two tests of the name on the scoring path (regenerated from core_ranking.py): the no-scoring shortcut is
   taken exactly for the name dispatched to Const (ALL strings); '3mr' only goes with the plain numba estimator *)
Theorem C05_const_branch_iff : forall h, is_const_name h = true <-> dispatch h = Const.
Proof. exact const_branch_iff. Qed.

Theorem C05_3mr_names_plain :
  (forall name, In name doc_names -> is_3mr_name name = true -> dispatch name = NumbaMI false) /\
  is_3mr_name (s_of "MI-numba-3mr") = true /\ is_3mr_name (s_of "MI-numba-randomized") = false /\
  is_3mr_name (s_of "MI") = false /\ is_3mr_name (s_of "Constant") = false.
Proof. exact three_mr_names_plain. Qed.

(* for ALL strings: the cardinality correction is on for exactly one name *)
Theorem C05_flag_only_randomized : forall h, dispatch h = NumbaMI true -> h = s_of "MI-numba-randomized".
Proof. exact flag_only_randomized. Qed.

(* ---- category coding (unbounded columns) ------------------------------------------------------- *)

(* two cells get the same code iff they hold the same string *)
Theorem C05_codes_inj : forall l i j, (i < length l)%nat -> (j < length l)%nat ->
  (nth i (codes l) 0%N = nth j (codes l) 0%N <-> nth i l [] = nth j l []).
Proof. exact codes_inj. Qed.

(* codes follow the code-point order of the strings (this is what fixes Pearson's value) ... *)
Theorem C05_codes_order : forall l i j, (i < length l)%nat -> (j < length l)%nat ->
  ((nth i (codes l) 0 < nth j (codes l) 0)%N <-> scmp (nth i l []) (nth j l []) = Lt).
Proof. exact codes_order. Qed.

(* ... and are exactly 0 .. k-1, k = number of distinct cells: together with the two theorems above this
   determines the coding uniquely (pandas astype('category').cat.codes) *)
Theorem C05_codes_dense : forall l,
  (forall i, (i < length l)%nat -> (nth i (codes l) 0 < N.of_nat (length (cats l)))%N) /\
  (forall k, (k < length (cats l))%nat -> exists i, (i < length l)%nat /\ nth i (codes l) 0%N = N.of_nat k).
Proof. exact codes_dense. Qed.

Theorem C05_cats_distinct_values : forall l, NoDup (cats l) /\ forall x, In x (cats l) <-> In x l.
Proof. intros l. split; [exact (cats_nodup l)|exact (cats_in l)]. Qed.

Example C05_codes_example :
  codes [s_of "b"; s_of ""; s_of "a"; s_of "b"; s_of "10"; s_of "9"; s_of "B"] = [5; 0; 4; 5; 1; 2; 3]%N.
Proof. vm_compute. reflexivity. Qed.

(* ---- orientation: the label is the conditioning (second) side whenever it is in the pair -------- *)

Theorem C05_orientation : forall lbl a b,
  (a = lbl \/ b = lbl ->
     snd (orient lbl (a, b)) = lbl /\ fst (orient lbl (a, b)) = (if seqb a lbl then b else a)) /\
  (a <> lbl -> orient lbl (a, b) = (a, b)) /\
  (orient lbl (a, b) = (a, b) \/ orient lbl (a, b) = (b, a)).
Proof.
  intros lbl a b. split; [exact (orient_label lbl a b)|split; [exact (orient_other lbl a b)|exact (orient_same_columns lbl a b)]].
Qed.

Example C05_orientation_example :
  orient (s_of "label") (s_of "label", s_of "f1") = (s_of "f1", s_of "label") /\
  orient (s_of "label") (s_of "f1", s_of "label") = (s_of "f1", s_of "label") /\
  orient (s_of "label") (s_of "f1", s_of "f2") = (s_of "f1", s_of "f2").
Proof. vm_compute. repeat split; reflexivity. Qed.

(* ---- largest joint-value frequency -------------------------------------------------------------- *)

(* [joint a b u v] = number of rows with (a_i, b_i) = (u, v); [frac c n] = c / n.
   The model value is attained by a joint value that occurs, bounds every joint frequency, and lies
   in [1/n, 1]. *)
Theorem C05_maxcov_exact : forall a b : list N, length a = length b -> a <> [] ->
  (exists u v, In (u, v) (combine a b) /\ maxcov a b = frac (joint a b u v) (length a)) /\
  (forall u v, (frac (joint a b u v) (length a) <= maxcov a b)%Q) /\
  (frac 1 (length a) <= maxcov a b)%Q /\ (maxcov a b <= 1)%Q.
Proof. exact maxcov_exact. Qed.

Example C05_maxcov_example :
  maxcov [1; 1; 2; 3; 1; 1; 1; 5]%N [0; 0; 5; 5; 3; 0; 0; 0]%N = (4 # 8)%Q.
Proof. vm_compute. reflexivity. Qed.

(* the bucketed version before fix bf8a920 is not the largest joint frequency: (0,0) and (17,12831)
   share a bucket; only an upper estimate is true of it *)
Theorem C05_maxcov_prefix_refuted :
  exists a b, length a = length b /\ (maxcov_old a b == 1)%Q /\ (maxcov a b == 1 # 2)%Q /\
              ~ (maxcov_old a b == maxcov a b)%Q.
Proof. exact maxcov_prefix_refuted. Qed.

Theorem C05_maxcov_old_only_upper : forall a b, (maxcov a b <= maxcov_old a b)%Q.
Proof. exact maxcov_old_ge. Qed.

(* ---- rows: the value of every emitted triplet, per heuristic NAME --------------------------------- *)

(* [rows_for dispatch is_const_name h f lbl pairs] = the triplets of one batch for the heuristic name [h] over the
   evaluated combinations [pairs]: generated dispatch + generated Constant test + hand model (codes, orient, mirror).
   [sem s F T] (Pipeline/Scorers.v) = the real number scorer tag [s] is specified to return on code vectors F (input)
   and T (conditioning); None for the library oracles (Pearson, AMI, surrogates).
   [wf_frame f n]: distinct column names, every column of length n > 0; [pairs_in f pairs]: the pairs name columns of f. *)
Definition batch_rows := rows_for dispatch is_const_name.

(* every row of a scored batch is an evaluated pair or its mirror and carries the meaning of the dispatched scorer on
   the codes of the two oriented columns; the label is the conditioning side whenever it is in the pair *)
Theorem C05_row_value : forall h f n lbl pairs a b x,
  wf_frame f n -> pairs_in f pairs -> is_const_name h = false ->
  In (a, b, x) (batch_rows h f lbl pairs) ->
  exists p F T cF cT,
    In p pairs /\ ((a, b) = p \/ (a, b) = (snd p, fst p)) /\
    (F, T) = orient lbl p /\ In (F, cF) f /\ In (T, cT) f /\ length cF = n /\ length cT = n /\
    (fst p = lbl \/ snd p = lbl -> T = lbl) /\
    x = sem (dispatch h) (codes cF) (codes cT).
Proof. exact (row_value dispatch is_const_name). Qed.

(* the row SET, per branch.  Scored heuristics: each evaluated pair yields the triplet and its mirror ... *)
Theorem C05_rows_scored : forall h f lbl pairs, is_const_name h = false ->
  batch_rows h f lbl pairs = rank_rows (sem (dispatch h)) f lbl pairs /\
  forall a b, In (a, b) pairs ->
    In (a, b, eval_pair (sem (dispatch h)) f lbl (a, b)) (batch_rows h f lbl pairs) /\
    In (b, a, eval_pair (sem (dispatch h)) f lbl (a, b)) (batch_rows h f lbl pairs).
Proof.
  intros h f lbl pairs E. unfold batch_rows. rewrite (rows_for_scored dispatch is_const_name) by exact E.
  split; [reflexivity|]. intros a b Hin. exact (rank_rows_complete (sem (dispatch h)) f lbl pairs a b Hin).
Qed.

(* ... Constant: exactly ONE row per evaluated combination, in the listed orientation, NO mirror, score 0 *)
Theorem C05_rows_constant : forall h f lbl pairs, is_const_name h = true ->
  batch_rows h f lbl pairs = map (fun p => (fst p, snd p, Some 0%R)) pairs.
Proof. exact (rows_for_const dispatch is_const_name). Qed.

Theorem C05_value_constant : forall f lbl pairs a b x,
  In (a, b, x) (batch_rows (s_of "Constant") f lbl pairs) -> In (a, b) pairs /\ x = Some 0%R.
Proof.
  intros f lbl pairs a b x Hin.
  rewrite (rows_for_const dispatch is_const_name) in Hin by (vm_compute; reflexivity).
  apply in_map_iff in Hin. destruct Hin as [[a0 b0] [E Hp]]. simpl in E. injection E as -> -> <-. auto.
Qed.

(* the words of the property.  Names MI, MI-numba, MI-numba-3mr: plug-in mutual information of the two coded columns
   (C01_plugin for the numba estimator; sklearn's estimator is specified as the plug-in value) *)
Theorem C05_value_plugin : forall h F T,
  h = s_of "MI" \/ h = s_of "MI-numba" \/ h = s_of "MI-numba-3mr" ->
  length F = length T -> (0 < length T)%nat ->
  is_const_name h = false /\
  sem (dispatch h) (codes F) (codes T) = Some (MI_plugin (zc (codes F)) (zc (codes T))).
Proof.
  intros h F T Hh HL Hp.
  assert (Hs : dispatch h = SkMI \/ dispatch h = NumbaMI false).
  { destruct Hh as [-> | [-> | ->]]; vm_compute; auto. }
  split; [destruct Hh as [-> | [-> | ->]]; vm_compute; reflexivity|].
  apply sem_plugin; [exact Hs| |]; rewrite !codes_length; assumption.
Qed.

(* MI-numba-randomized: the cardinality-corrected score = displaced-copy noise floor minus conditional entropy
   (C03_identity) when the two code vectors differ, the entropy (C03_self) when they coincide *)
Theorem C05_value_randomized : forall F T, length F = length T -> (0 < length T)%nat ->
  dispatch (s_of "MI-numba-randomized") = NumbaMI true /\ is_const_name (s_of "MI-numba-randomized") = false /\
  (codes F <> codes T ->
     sem (NumbaMI true) (codes F) (codes T)
     = Some (Hcond (displace (zc (codes F)) (zc (codes T))) (zc (codes T)) - Hcond (zc (codes F)) (zc (codes T)))%R) /\
  (codes F = codes T -> sem (NumbaMI true) (codes F) (codes T) = Some (Spec.H (zc (codes F)))).
Proof.
  intros F T HL Hp. split; [vm_compute; reflexivity|]. split; [vm_compute; reflexivity|].
  apply sem_corrected; rewrite !codes_length; assumption.
Qed.

(* max-value-coverage: the largest joint-value frequency (characterised by C05_maxcov_exact), as a real *)
Theorem C05_value_maxcov : forall F T,
  dispatch (s_of "max-value-coverage") = MaxCov /\ is_const_name (s_of "max-value-coverage") = false /\
  sem MaxCov (codes F) (codes T) = Some (Q2R (maxcov (codes F) (codes T))).
Proof. intros F T. split; [vm_compute; reflexivity|]. split; [vm_compute; reflexivity|]. reflexivity. Qed.

(* the library scorers are oracles: the model assigns them no value (the check compares them with the library called
   on the model's codes) *)
Theorem C05_oracles : forall F T, sem Pearson F T = None /\ sem AMI F T = None /\ sem Surrogate F T = None.
Proof. intros. repeat split. Qed.

(* non-vacuity of the row theorems: a 2-column frame, one evaluated pair *)
Example C05_rows_example :
  let f := [(s_of "a", [s_of "x"; s_of "y"; s_of "x"]); (s_of "label", [s_of "1"; s_of "0"; s_of "1"])] in
  wf_frame f 3 /\ pairs_in f [(s_of "label", s_of "a")] /\
  map fst (batch_rows (s_of "MI-numba-randomized") f (s_of "label") [(s_of "label", s_of "a")])
    = [(s_of "a", s_of "label"); (s_of "label", s_of "a")] /\
  map fst (batch_rows (s_of "Constant") f (s_of "label") [(s_of "label", s_of "a")]) = [(s_of "label", s_of "a")].
Proof.
  cbv zeta. split; [|split; [|split; reflexivity]].
  - split; [|split; [repeat constructor|]].
    + simpl. constructor; [intros [E|[]]; discriminate E|constructor; [intros []|constructor]].
    + intros c [<-|[<-|[]]]; reflexivity.
  - intros p [<-|[]]. simpl. split; [right; left; reflexivity|left; reflexivity].
Qed.

Print Assumptions C05_table.
Print Assumptions C05_no_silent_constant.
Print Assumptions C05_doc_names_nonvacuous.
Print Assumptions C05_flag_only_randomized.
Print Assumptions C05_codes_inj.
Print Assumptions C05_codes_order.
Print Assumptions C05_codes_dense.
Print Assumptions C05_cats_distinct_values.
Print Assumptions C05_orientation.
Print Assumptions C05_maxcov_exact.
Print Assumptions C05_maxcov_prefix_refuted.
Print Assumptions C05_maxcov_old_only_upper.
Print Assumptions C05_const_branch_iff.
Print Assumptions C05_3mr_names_plain.
Print Assumptions C05_row_value.
Print Assumptions C05_rows_scored.
Print Assumptions C05_rows_constant.
Print Assumptions C05_value_constant.
Print Assumptions C05_value_plugin.
Print Assumptions C05_value_randomized.
Print Assumptions C05_value_maxcov.
Print Assumptions C05_oracles.
