(* C18 — feature summary = per-feature median of the feature-label scores, sorted, (min-max) normalised;
   aggregated table = per-constituent median over the table just written.
   Only statements here; each is closed by [exact] of a lemma of Summary/SummaryProofs.v.

   [singles_cells heur lbl T] = feature_singles.tsv and [aggregated_cells heur lbl T] = feature_singles_aggregated.tsv for the
   triplet table T read from pairwise_ranks.tsv; a cell is [Some q] or [None] (= NaN, an empty cell).  [nan_table] holds exactly
   when the heuristic name contains 'MI' and the non-empty table of medians has min = max: the code then computes 0/0.  On all
   other inputs the cells are [Some] of [singles] (the rational-valued table) — the theorems about values carry the hypothesis
   (or conclusion) min < max, so nothing rests on Coq's x/0 = 0.
   [label_partner lbl (A, B, s)] is the code's rule: if the name of A before the first '-' is the label the row scores B, else if
   that of B is the label it scores A. *)
From Coq Require Import List QArith Qabs ZArith NArith Permutation Sorting.Sorted.
From Outrank Require Import Rank.QMedian Rank.QMedianProofs Summary.Summary Summary.SummaryProofs.
Import ListNotations.
Open Scope Q_scope.

(* each feature that was scored against the label appears exactly once, and nothing else appears (NaN table or not) *)
Theorem C18_once : forall heur lbl T,
  NoDup (map fst (singles_cells heur lbl T)) /\
  forall f, In f (map fst (singles_cells heur lbl T)) <-> exists t s, In t T /\ label_partner lbl t = Some (f, s).
Proof. exact cells_once. Qed.

(* a numeric cell is the median of the feature's label scores, min-max normalised for 'MI' heuristics — and then min < max *)
Theorem C18_median : forall heur lbl T f v, In (f, Some v) (singles_cells heur lbl T) ->
  let m := qmedian (label_scores lbl T f) in
  let lo := qmin (map snd (pre lbl T)) in
  let hi := qmax (map snd (pre lbl T)) in
  (has_MI heur = true -> lo < hi) /\
  v = if has_MI heur then minmax lo hi m else m.
Proof. exact cells_median. Qed.

(* NaN cells: exactly the 'MI' heuristics over a non-empty table whose medians all coincide (e.g. one listed feature);
   then every cell is NaN.  The property's "best 1, worst 0" cannot hold there (recorded as an observation / finding candidate). *)
Theorem C18_nan_table : forall heur lbl T, nan_table heur lbl T = true <->
  has_MI heur = true /\ pre lbl T <> [] /\ qmin (map snd (pre lbl T)) == qmax (map snd (pre lbl T)).
Proof. exact nan_table_true. Qed.
Theorem C18_nan_cells : forall heur lbl T f, In (f, None) (singles_cells heur lbl T) ->
  has_MI heur = true /\ (forall g w, In (g, w) (pre lbl T) -> w == qmin (map snd (pre lbl T))) /\
  (forall g c, In (g, c) (singles_cells heur lbl T) -> c = None).
Proof. exact cells_none. Qed.

(* where the feature-label scores of f are exactly the scores of the rows the label rule selects for f *)
Theorem C18_label_scores : forall lbl T f s,
  In s (label_scores lbl T f) <-> exists t, In t T /\ label_partner lbl t = Some (f, s).
Proof. exact label_scores_in. Qed.

(* the row order of pairwise_ranks.tsv (and hence the code's initial sort by Score) does not matter *)
Theorem C18_row_order : forall lbl T T' f, Permutation T T' -> Forall (fun t => reduced (snd t)) T ->
  qmedian (label_scores lbl T f) = qmedian (label_scores lbl T' f).
Proof. exact row_order_irrelevant. Qed.

(* outside the NaN table all cells are numbers, in descending order; for an 'MI' heuristic over a non-empty table min < max *)
Theorem C18_sorted_desc : forall heur lbl T, nan_table heur lbl T = false ->
  singles_cells heur lbl T = some_cells (singles heur lbl T) /\
  StronglySorted (fun a b => snd b <= snd a) (singles heur lbl T) /\
  (has_MI heur = true -> pre lbl T <> [] -> qmin (map snd (pre lbl T)) < qmax (map snd (pre lbl T))).
Proof. exact cells_sorted. Qed.

(* 'MI' in the heuristic name and at least two distinct medians: numeric cells, same feature order as the table of medians, every
   score in [0,1], the best (first) feature gets 1 and the worst (last) gets 0, and the order of the scores is preserved *)
Theorem C18_minmax : forall heur lbl T,
  has_MI heur = true ->
  let m := pre lbl T in
  let lo := qmin (map snd m) in
  let hi := qmax (map snd m) in
  (exists f g v w, In (f, v) m /\ In (g, w) m /\ ~ v == w) ->
  singles heur lbl T = map (fun r => (fst r, minmax lo hi (snd r))) m
  /\ lo < hi
  /\ (forall f v, In (f, v) m -> (0 <= minmax lo hi v /\ minmax lo hi v <= 1)
                              /\ (v == hi -> minmax lo hi v == 1) /\ (v == lo -> minmax lo hi v == 0))
  /\ (exists f, In (f, hi) m) /\ (exists f, In (f, lo) m)
  /\ (forall f v rest, m = (f, v) :: rest -> minmax lo hi v == 1)
  /\ (forall f v front, m = front ++ [(f, v)] -> minmax lo hi v == 0)
  /\ (forall v w, v < w -> minmax lo hi v < minmax lo hi w)
  /\ (forall v w, v <= w -> minmax lo hi v <= minmax lo hi w).
Proof. exact singles_minmax. Qed.
Theorem C18_minmax_cells : forall heur lbl T,
  (exists f g v w, In (f, v) (pre lbl T) /\ In (g, w) (pre lbl T) /\ ~ v == w) ->
  nan_table heur lbl T = false /\ singles_cells heur lbl T = some_cells (singles heur lbl T).
Proof.
  intros heur lbl T H. pose proof (nan_table_distinct heur lbl T H) as E. split; [exact E|].
  unfold singles_cells. rewrite E. reflexivity.
Qed.

(* a heuristic without 'MI' is not normalised and never yields NaN cells *)
Theorem C18_no_minmax : forall heur lbl T, has_MI heur = false ->
  singles_cells heur lbl T = some_cells (pre lbl T).
Proof. intros heur lbl T H. unfold singles_cells, nan_table, singles. rewrite H. reflexivity. Qed.

(* the aggregated table is computed from the singles table just written, only for interaction order > 1 *)
Theorem C18_aggregated_of_singles : forall heur lbl order T,
  summary heur lbl order T =
  (singles_cells heur lbl T, if (1 <? order)%Z then Some (aggregated_cells heur lbl T) else None) /\
  aggregated_cells heur lbl T =
  if nan_table heur lbl T then nan_cells (aggregated (pre lbl T)) else some_cells (aggregated (singles heur lbl T)).
Proof. intros. split; reflexivity. Qed.

(* per constituent (once each): the median of the scores of the rows whose name contains the joiner ' AND ' and lists it *)
Theorem C18_aggregated : forall final,
  NoDup (map fst (aggregated final)) /\
  (forall c, In c (map fst (aggregated final)) <->
             exists f s, In (f, s) final /\ contains SEP_ f = true /\ In c (constituents f)) /\
  (forall c v, In (c, v) (aggregated final) -> v = qmedian (scores_of c (feature_store final))) /\
  (forall c s, In (c, s) (feature_store final) <->
               exists f, In (f, s) final /\ contains SEP_ f = true /\ In c (constituents f)).
Proof.
  intros final. destruct (aggregated_spec final) as [A [B C]]. repeat split; try assumption; try apply B; try apply feature_store_in.
Qed.

(* names  c1 AND ... AND ck  optionally followed by '-annotation'.  Hypotheses that remain:
     nodash  : constituents contain no '-'            (necessary: C18_dash_constituent_refuted, C18_dash_label_refuted)
     sepfree : c ++ " AND" contains no ' AND ', i.e. c neither contains the joiner nor ends in ' AND'
                                                      (necessary: C18_sep_suffix_refuted)
     annot_ok: the annotation contains no ' AND '
   No hypothesis about the substring AND: BRAND, AND, "x AND" + ... are fine as single names.
   Then the scores collected for the constituents are exactly those of the interactions (k >= 2) they take part in. *)
Theorem C18_aggregated_wellformed : forall rows : list wf_row,
  (forall cs a s, In (cs, a, s) rows -> cs <> [] /\ Forall nodash cs /\ Forall sepfree cs /\ annot_ok a) ->
  feature_store (map render_row rows) =
  flat_map (fun r => let '(cs, a, s) := r in if (2 <=? length cs)%nat then map (fun c => (c, s)) cs else []) rows.
Proof. exact feature_store_wellformed. Qed.

(* the label rule on that domain: a (possibly annotated) name is the label iff its un-annotated part is *)
Theorem C18_label_rule : forall lbl cs annot, Forall nodash cs ->
  (is_label lbl (render cs annot) = true <-> join_and cs = lbl).
Proof. exact label_rule. Qed.

Theorem C18_constituents : forall cs annot, cs <> [] -> Forall nodash cs -> Forall sepfree cs ->
  constituents (render cs annot) = cs.
Proof. exact constituents_render. Qed.

(* --- witnesses --- *)
(* the rule before /repo baf07bf ('AND' in fname) aggregated the plain feature BRAND as its own constituent; the repaired rule does not *)
Theorem C18_and_substring_prefix_refuted : exists final,
  map fst (group_median (feature_store_old final)) = [BRAND] /\ aggregated final = [].
Proof. exists [(BRAND, 1 # 2)]. exact and_substring_old_rule. Qed.

(* a label containing '-' (here "my-l") matches no row — "name before the first '-'" is the property's own rule, so this stays
   an observation; it shows that nodash on the label is necessary for C18_label_rule *)
Theorem C18_dash_label_refuted : exists heur lbl f s, singles_cells heur lbl [(f, lbl, s)] = [].
Proof. exists [65]%N, [109; 121; 45; 108]%N, [102]%N, (1 # 2). exact dash_label_empty. Qed.

Theorem C18_dash_constituent_refuted : exists cs, constituents (render cs None) <> cs.
Proof. exists [[97; 45; 98]%N; [99]%N]. vm_compute. discriminate. Qed.

(* "no ' AND ' inside a constituent" alone is not enough: "x AND" joined with "y" is split as "x", "AND y" *)
Theorem C18_sep_suffix_refuted : exists c d, contains SEP_ c = false /\ contains SEP_ d = false /\
  constituents (render [c; d] None) <> [c; d].
Proof.
  exists [120; 32; 65; 78; 68]%N, [121]%N. split; [reflexivity|]. split; [reflexivity|]. vm_compute. discriminate.
Qed.

(* the executable checkers evaluated on the implementation's files: sound for the clauses, and they accept the model *)
Theorem C18_check_sound : forall tol heur lbl T obs, cells_okb tol heur lbl T obs = true ->
  NoDup (map fst obs)
  /\ (forall f, In f (map fst obs) <-> exists t s, In t T /\ label_partner lbl t = Some (f, s))
  /\ (if nan_table heur lbl T then forall f c, In (f, c) obs -> c = None
      else exists o, obs = some_cells o /\ adjacent_desc tol (map snd o)
                     /\ forall f x, In (f, x) o -> Qabs (x - expected heur lbl T f) <= tol).
Proof. exact cells_okb_sound. Qed.

Theorem C18_check_aggregated_sound : forall tol final obs, aggregated_okb tol final obs = true ->
  NoDup (map fst obs)
  /\ (forall c, In c (map fst obs) <-> exists f s, In (f, s) final /\ contains SEP_ f = true /\ In c (constituents f))
  /\ (forall c x, In (c, x) obs -> Qabs (x - qmedian (scores_of c (feature_store final))) <= tol).
Proof. exact aggregated_okb_sound. Qed.

Theorem C18_check_aggregated_cells_sound : forall tol final obs, aggregated_cells_okb tol final obs = true ->
  (exists f o, final = some_cells f /\ obs = some_cells o /\ aggregated_okb tol f o = true)
  \/ ((forall g c, In (g, c) final -> c = None) /\ (forall g c, In (g, c) obs -> c = None) /\ NoDup (map fst obs) /\
      forall k, In k (map fst obs) <-> In k (map fst (aggregated (map (fun r => (fst r, 0)) final)))).
Proof. exact aggregated_cells_okb_sound. Qed.

Theorem C18_model_ok : forall heur lbl T,
  cells_okb 0 heur lbl T (singles_cells heur lbl T) = true /\
  aggregated_cells_okb 0 (singles_cells heur lbl T) (aggregated_cells heur lbl T) = true.
Proof. intros. split; [apply cells_model_ok|apply aggregated_cells_model_ok]. Qed.

Print Assumptions C18_once.
Print Assumptions C18_median.
Print Assumptions C18_nan_table.
Print Assumptions C18_nan_cells.
Print Assumptions C18_label_scores.
Print Assumptions C18_row_order.
Print Assumptions C18_sorted_desc.
Print Assumptions C18_minmax.
Print Assumptions C18_minmax_cells.
Print Assumptions C18_no_minmax.
Print Assumptions C18_aggregated_of_singles.
Print Assumptions C18_aggregated.
Print Assumptions C18_aggregated_wellformed.
Print Assumptions C18_label_rule.
Print Assumptions C18_constituents.
Print Assumptions C18_and_substring_prefix_refuted.
Print Assumptions C18_dash_label_refuted.
Print Assumptions C18_dash_constituent_refuted.
Print Assumptions C18_sep_suffix_refuted.
Print Assumptions C18_check_sound.
Print Assumptions C18_check_aggregated_sound.
Print Assumptions C18_check_aggregated_cells_sound.
Print Assumptions C18_model_ok.
