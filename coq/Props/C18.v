(* C18 — feature summary = per-feature median of the feature-label scores, sorted, (min-max) normalised;
   aggregated table = per-constituent median over the table just written.
   Only statements here; each is closed by [exact] of a lemma of Summary/SummaryProofs.v.
   [singles heur lbl T] = feature_singles.tsv, [aggregated final] = feature_singles_aggregated.tsv computed from a
   singles table, [summary] = both (the second only when interaction_order > 1), for a triplet table T read from
   pairwise_ranks.tsv.  [label_partner lbl (A, B, s)] is the code's rule: if the name of A before the first '-' is the
   label the row scores B, else if that of B is the label it scores A. *)
From Coq Require Import List QArith Qabs ZArith NArith Permutation Sorting.Sorted.
From Outrank Require Import Rank.QMedian Summary.Summary Summary.SummaryProofs.
Import ListNotations.
Open Scope Q_scope.

(* each feature that was scored against the label appears exactly once, and nothing else appears *)
Theorem C18_once : forall heur lbl T,
  NoDup (map fst (singles heur lbl T)) /\
  forall f, In f (map fst (singles heur lbl T)) <-> exists t s, In t T /\ label_partner lbl t = Some (f, s).
Proof. exact singles_once. Qed.

(* its score is the median of its feature-label scores, min-max normalised over the table for 'MI' heuristics *)
Theorem C18_median : forall heur lbl T f v, In (f, v) (singles heur lbl T) ->
  let m := qmedian (label_scores lbl T f) in
  v = if has_MI heur then minmax (qmin (map snd (pre lbl T))) (qmax (map snd (pre lbl T))) m else m.
Proof. exact singles_median. Qed.

(* where the feature-label scores of f are exactly the scores of the rows the label rule selects for f *)
Theorem C18_label_scores : forall lbl T f s,
  In s (label_scores lbl T f) <-> exists t, In t T /\ label_partner lbl t = Some (f, s).
Proof. exact label_scores_in. Qed.

(* the row order of pairwise_ranks.tsv (and hence the code's initial sort by Score) does not matter *)
Theorem C18_row_order : forall lbl T T' f, Permutation T T' -> Forall (fun t => reduced (snd t)) T ->
  qmedian (label_scores lbl T f) = qmedian (label_scores lbl T' f).
Proof. exact row_order_irrelevant. Qed.

(* descending score order, normalised or not *)
Theorem C18_sorted_desc : forall heur lbl T, StronglySorted (fun a b => snd b <= snd a) (singles heur lbl T).
Proof. exact singles_sorted. Qed.

(* 'MI' in the heuristic name and at least two distinct medians: same feature order as the table of medians, every score in
   [0,1], the best (first) feature gets 1 and the worst (last) gets 0, and the order of the scores is preserved *)
Theorem C18_minmax : forall heur lbl T,
  has_MI heur = true ->
  let m := pre lbl T in
  let lo := qmin (map snd m) in
  let hi := qmax (map snd m) in
  (exists f g v w, In (f, v) m /\ In (g, w) m /\ ~ v == w) ->
  singles heur lbl T = map (fun r => (fst r, minmax lo hi (snd r))) m
  /\ lo < hi
  /\ (forall f v, In (f, v) m -> (0 <= minmax lo hi v /\ minmax lo hi v <= 1)
                              /\ (v == hi -> minmax lo hi v == 1) /\ (v == lo -> minmax lo hi v == 0))
  /\ (exists f, In (f, hi) m) /\ (exists f, In (f, lo) m)
  /\ (forall f v rest, m = (f, v) :: rest -> minmax lo hi v == 1)
  /\ (forall f v front, m = front ++ [(f, v)] -> minmax lo hi v == 0)
  /\ (forall v w, v < w -> minmax lo hi v < minmax lo hi w)
  /\ (forall v w, v <= w -> minmax lo hi v <= minmax lo hi w).
Proof. exact singles_minmax. Qed.

(* a heuristic without 'MI' is not normalised *)
Theorem C18_no_minmax : forall heur lbl T, has_MI heur = false -> singles heur lbl T = pre lbl T.
Proof. intros heur lbl T H. rewrite singles_def, H. reflexivity. Qed.

(* the aggregated table is computed from the singles table just written, only for interaction order > 1 *)
Theorem C18_aggregated_of_singles : forall heur lbl order T,
  summary heur lbl order T =
  (singles heur lbl T, if (1 <? order)%Z then Some (aggregated (singles heur lbl T)) else None).
Proof. reflexivity. Qed.

(* per constituent (once each): the median of the scores of the rows whose name contains "AND" and lists it *)
Theorem C18_aggregated : forall final,
  NoDup (map fst (aggregated final)) /\
  (forall c, In c (map fst (aggregated final)) <->
             exists f s, In (f, s) final /\ contains AND_ f = true /\ In c (constituents f)) /\
  (forall c v, In (c, v) (aggregated final) -> v = qmedian (scores_of c (feature_store final))) /\
  (forall c s, In (c, s) (feature_store final) <->
               exists f, In (f, s) final /\ contains AND_ f = true /\ In c (constituents f)).
Proof.
  intros final. destruct (aggregated_spec final) as [A [B C]]. repeat split; try assumption; try apply B; try apply feature_store_in.
Qed.

(* on the stated domain — names are  c1 AND ... AND ck  optionally followed by '-annotation', constituents contain neither '-'
   nor a blank, and single names do not contain "AND" — the scores collected for the constituents are exactly those of the
   interactions (k >= 2) they take part in *)
Theorem C18_aggregated_wellformed : forall rows : list wf_row,
  (forall cs a s, In (cs, a, s) rows -> cs <> [] /\ Forall nodash cs /\ Forall noblank cs) ->
  (forall c a s, In ([c], a, s) rows -> contains AND_ (render [c] a) = false) ->
  feature_store (map render_row rows) =
  flat_map (fun r => let '(cs, a, s) := r in if (2 <=? length cs)%nat then map (fun c => (c, s)) cs else []) rows.
Proof. exact feature_store_wellformed. Qed.

(* the label rule on that domain: a (possibly annotated) name is the label iff its un-annotated part is *)
Theorem C18_label_rule : forall lbl cs annot, Forall nodash cs ->
  (is_label lbl (render cs annot) = true <-> join_and cs = lbl).
Proof. exact label_rule. Qed.

Theorem C18_constituents : forall cs annot, cs <> [] -> Forall nodash cs -> Forall noblank cs ->
  constituents (render cs annot) = cs.
Proof. exact constituents_render. Qed.

(* the executable checkers evaluated on the implementation's files: sound for the clauses, and they accept the model *)
Theorem C18_check_sound : forall tol heur lbl T obs, singles_okb tol heur lbl T obs = true ->
  NoDup (map fst obs)
  /\ (forall f, In f (map fst obs) <-> exists t s, In t T /\ label_partner lbl t = Some (f, s))
  /\ adjacent_desc tol (map snd obs)
  /\ (forall f x, In (f, x) obs -> Qabs (x - expected heur lbl T f) <= tol).
Proof. exact singles_okb_sound. Qed.

Theorem C18_check_aggregated_sound : forall tol final obs, aggregated_okb tol final obs = true ->
  NoDup (map fst obs)
  /\ (forall c, In c (map fst obs) <-> exists f s, In (f, s) final /\ contains AND_ f = true /\ In c (constituents f))
  /\ (forall c x, In (c, x) obs -> Qabs (x - qmedian (scores_of c (feature_store final))) <= tol).
Proof. exact aggregated_okb_sound. Qed.

Theorem C18_model_ok : forall heur lbl T,
  singles_okb 0 heur lbl T (singles heur lbl T) = true /\
  aggregated_okb 0 (singles heur lbl T) (aggregated (singles heur lbl T)) = true.
Proof. intros. split; [apply singles_model_ok|apply aggregated_model_ok]. Qed.

Print Assumptions C18_once.
Print Assumptions C18_median.
Print Assumptions C18_label_scores.
Print Assumptions C18_row_order.
Print Assumptions C18_sorted_desc.
Print Assumptions C18_minmax.
Print Assumptions C18_no_minmax.
Print Assumptions C18_aggregated_of_singles.
Print Assumptions C18_aggregated.
Print Assumptions C18_aggregated_wellformed.
Print Assumptions C18_label_rule.
Print Assumptions C18_constituents.
Print Assumptions C18_check_sound.
Print Assumptions C18_check_aggregated_sound.
Print Assumptions C18_model_ok.
