(* E2E — the ranking task end to end, for the exact heuristic `max-value-coverage` and for `Constant`.
   Only statements here; each is closed by [exact] of a lemma of E2E/*Proofs.v.  The model E2E/Compose.v is a
   COMPOSITION of the layer models, imported unchanged:

     text --phys_lines, csv_raw_header, Csv.parse (C16)--> header, parsed lines
          --Stream.batches: every s-th line, field-count test, batches of B, tail rule (C08)--> batches of rows
          --RankGraph.codes / orient / eval_pair (C05), Combos.candidates / build_rows (C06)--> rows per batch
          --Aggregate.aggregate = median2 per ordered pair, final_sort (C08)--> table

   Vocabulary (E2E/Compose.v, RowsProofs.v, CovProofs.v, ComposeProofs.v):
   [e2e_run c text] / [e2e_core c header ps]   the table, or None (outside the fragment / no batch processed);
   [batch_tables c header ps]                  the parsed rows of every processed batch, in order;
   [common_den ...] = D                        lcm of the batch sizes (scores are kept as numerators over D);
   [column header rows x]                      the cells of column x of a batch (header position of x);
   [pair_num header D rows a b]                the batch score of (a, b) as a numerator over D;
   [cells_cov xs ys]                           max joint-value frequency / n as a rational (C05's maxcov on the codes);
   [is_max_cov xs ys q]                        q is attained by an occurring joint value (u, v) as n_uv / n and bounds all of them
                                               (n_uv counted positionally on the CELLS);
   [requested c header a b]                    a, b header columns and, in target-only mode, one of them is the label;
   [median2]                                   twice the median (Common/Median.v, C08_median2_meaning);
   emitted score                               median2 (numerators) # (2 * D). *)
From Coq Require Import List NArith ZArith QArith Bool Arith Permutation Sorting.Sorted.
From Outrank Require Import IO.Str IO.StrProofs.
From Outrank Require IO.Csv IO.CsvProofs IO.Accept.
From Outrank Require Import Common.Median.
From Outrank Require Pipeline.Stream.
From Outrank Require Import Pipeline.Aggregate Pipeline.RankGraph.
From Outrank Require Pipeline.Sampler Pipeline.Combos Pipeline.CombosProofs.
From Outrank Require Import E2E.Compose E2E.CovProofs E2E.MedianRep E2E.RowsProofs E2E.ComposeProofs E2E.FileProofs
  E2E.ShuffleProofs E2E.SpecProofs E2E.Examples.
Import ListNotations.

(* ---------------------------------------------------------------------------------------------------------- *)
(* THE composition theorem.  If the task produces a table for max-value-coverage, then:
   at least one batch was processed; the table is ascending in score; it has one row per ordered pair; its pairs
   are EXACTLY the pairs requested by the mode, in both orientations, and nothing else; the score of (a, b) is the
   median over the processed batches of the batch scores; and each batch score is the exact maximal joint-value
   frequency n_uv / n of the two columns of cells of THAT batch (the rows of the batches: E2E_batches). *)
Theorem E2E_spec : forall c header ps t,
  e2e_core c header ps = Some t -> Combos.is_const (g_heur c) = false ->
  let tables := batch_tables c header ps in
  let D := common_den (e2e_batches c header ps) in
  tables <> [] /\ D <> 0%N /\ Forall (fun rows => rows <> [] /\ (N.of_nat (length rows) | D)%N) tables /\
  StronglySorted (fun r1 r2 : list N * list N * Q => Qle (snd r1) (snd r2)) t /\
  NoDup (map fst t) /\
  (forall a b q, In (a, b, q) t <->
     requested c header a b /\
     q = Qmake (median2 (map (fun rows => Z.of_N (pair_num header D rows a b)) tables)) (den_pos D)) /\
  (forall a b, requested c header a b -> requested c header b a) /\
  (forall rows a b, In rows tables ->
     Qeq (Z.of_N (pair_num header D rows a b) # npos D) (cells_cov (column header rows a) (column header rows b)) /\
     is_max_cov (column header rows a) (column header rows b) (cells_cov (column header rows a) (column header rows b))).
Proof. exact e2e_spec. Qed.

(* Constant: exactly C06's candidate list (each pair once, in the listed orientation, which covers exactly the
   requested unordered pairs), every score 0 *)
Theorem E2E_spec_constant : forall c header ps t,
  e2e_core c header ps = Some t -> Combos.is_const (g_heur c) = true ->
  batch_tables c header ps <> [] /\
  NoDup (map fst t) /\
  (forall a b q, In (a, b, q) t <->
     In (a, b) (cands_of c header) /\ q = Qmake 0 (den_pos (common_den (e2e_batches c header ps)))) /\
  (forall a b, CombosProofs.uin (a, b) (cands_of c header) <-> requested c header a b).
Proof. exact e2e_spec_constant. Qed.

(* the two modes (C06_target_only, C06_pairwise) *)
Theorem E2E_requested_pairs : forall c header a b,
  (Combos.is_tonly (g_tro c) = true ->
     (requested c header a b <-> In a header /\ In b header /\ (a = g_label c \/ b = g_label c))) /\
  (Combos.is_tonly (g_tro c) = false -> (requested c header a b <-> In a header /\ In b header)).
Proof. exact requested_pairs. Qed.

(* which rows make up the batches (C08_batches instantiated; C16's validity test): with
   sel_lines = the lines at 1-based positions divisible by s, good_lines = those whose field count is the header's,
   the batches are the full chunks of B good lines plus the remainder iff it has MORE than 1024 lines; every line of a
   batch was parsed without error, has the header's field count, and contributes its parsed cells *)
Theorem E2E_batches : forall c header ps, (0 < g_B c)%N ->
  e2e_batches c header ps =
    (let g := good_lines c header ps in let B := N.to_nat (g_B c) in
     fst (Stream.chunks B g) ++
     (if (Stream.tail_min <? length (snd (Stream.chunks B g)))%nat then [snd (Stream.chunks B g)] else [])) /\
  (crashes c ps = false -> forall b l, In b (e2e_batches c header ps) -> In l b ->
     N.modulo (fst l) (g_s c) = 0%N /\ (1 <= fst l)%N /\
     exists fs, nth (N.to_nat (N.pred (fst l))) ps None = Some fs /\ length fs = length header /\ row_at ps (fst l) = fs).
Proof. exact e2e_batches_rows. Qed.

(* the composition IS C08's loop run with the composed scorer: the rows the model aggregates are the rows the
   transcribed streaming loop accumulates *)
Theorem E2E_loop : forall c header ps, (0 < g_B c)%N ->
  let D := common_den (e2e_batches c header ps) in
  all_rows c header ps =
  Stream.all_rows (fun b => map (to_agg header) (batch_triplets c header D (batch_rows ps b))) (fun _ => tt)
                  (stream_cfg c header) (abs_lines ps).
Proof. exact all_rows_is_loop. Qed.

(* the rows of one batch are C05's rank_rows (orientation, scorer applied to the codes) on C06's candidates *)
Theorem E2E_batch_rows : forall c header D rows, Combos.is_const (g_heur c) = false ->
  batch_triplets c header D rows = rank_rows (cov_num D) (frame_of header rows) (g_label c) (cands_of c header).
Proof. exact batch_triplets_rank_rows. Qed.

(* one batch, one pair: the score is the exact coverage of the two cell columns (any admissible scaling D) *)
Theorem E2E_batch_score_exact : forall header D rows a b,
  rows <> [] -> (N.of_nat (length rows) | D)%N -> D <> 0%N ->
  Qeq (Z.of_N (pair_num header D rows a b) # npos D) (cells_cov (column header rows a) (column header rows b)) /\
  is_max_cov (column header rows a) (column header rows b) (cells_cov (column header rows a) (column header rows b)).
Proof. exact batch_score_exact. Qed.

(* the specification determines the value, and the conditioning side does not matter for the coverage *)
Theorem E2E_max_cov_unique : forall xs ys q1 q2, is_max_cov xs ys q1 -> is_max_cov xs ys q2 -> Qeq q1 q2.
Proof. exact is_max_cov_unique. Qed.
Theorem E2E_max_cov_symmetric : forall xs ys q, length xs = length ys -> is_max_cov xs ys q -> is_max_cov ys xs q.
Proof. exact is_max_cov_sym. Qed.

(* each batch's score depends only on that batch's rows *)
Theorem E2E_batch_split_scores : forall header rows a b D1 D2,
  rows <> [] -> (N.of_nat (length rows) | D1)%N -> D1 <> 0%N -> (N.of_nat (length rows) | D2)%N -> D2 <> 0%N ->
  Qeq (Z.of_N (pair_num header D1 rows a b) # npos D1) (Z.of_N (pair_num header D2 rows a b) # npos D2).
Proof. exact batch_split_scores. Qed.

(* a score recorded m times per batch has the same median (today m = 1, and m = 2 for a self pair, whose mirror row carries
   the same ordered pair; the lemma does not depend on the candidate list's multiplicities) *)
Theorem E2E_median_replicate : forall m l, (0 < m)%nat -> median2 (replicate m l) = median2 l.
Proof. exact median2_replicate. Qed.

(* the model's linear-time maximum is C05's maxfreq *)
Theorem E2E_maxfreq_fast : forall l, maxfreq_fast l = maxfreq peqb l.
Proof. exact maxfreq_fast_eq. Qed.

(* ---------------------------------------------------------------------------------------------------------- *)
(* the text layer *)

(* the run on a text is the run on (header, parsed physical lines), and csv.reader never raises on a physical line of at
   most csv.field_size_limit() = 131072 characters (terminator included; a longer FIELD raises, C16_csv_limit_exceeded:
   such files are outside the fragment, the model then answers None = "the task raises") *)
Theorem E2E_text_run : forall c text,
  e2e_run c text = e2e_core c (Accept.csv_raw_header text) (map Csv.parse (tl (phys_lines text))) /\
  (Forall (fun ln => (N.of_nat (length ln) <= Csv.field_limit)%N) (tl (phys_lines text)) ->
   crashes c (map Csv.parse (tl (phys_lines text))) = false).
Proof. exact text_run. Qed.

Theorem E2E_no_csv_error : forall c text, short_lines text -> crashes c (parse_lines text) = false.
Proof. exact no_csv_error. Qed.

(* a file rendered by the model's writer from a header and a table of cells without line breaks, each of at most
   csv.field_size_limit() characters (flen_ok), is read back as exactly that header and that table (malformed rows
   included: they are rows of another length) *)
Theorem E2E_wellformed_file : forall (names : list (list N)) (rows : list (list (list N))),
  names <> [] ->
  Forall (none (fun ch => (ch =? COMMA)%N || is_nl ch)) names ->
  edge_clean (join_with [COMMA] names) ->
  Forall (fun r => r <> [] /\ Forall (none is_nl) r) rows ->
  Forall (Forall CsvProofs.flen_ok) rows ->
  header_of (render_file names rows) = names /\ parse_lines (render_file names rows) = map Some rows.
Proof. exact wellformed_file. Qed.

(* ... so the run, and with it E2E_spec, is a statement about the TABLE *)
Theorem E2E_wellformed_run : forall c (names : list (list N)) (rows : list (list (list N))),
  names <> [] -> Forall (none (fun ch => (ch =? COMMA)%N || is_nl ch)) names -> edge_clean (join_with [COMMA] names) ->
  Forall (fun r => r <> [] /\ Forall (none is_nl) r) rows -> Forall (Forall CsvProofs.flen_ok) rows ->
  e2e_run c (render_file names rows) = e2e_core c names (map Some rows).
Proof. exact wellformed_run. Qed.

(* ---------------------------------------------------------------------------------------------------------- *)
(* determinism: the sampler's counter and random.shuffle do not reach the table *)

(* cap not binding: ANY selection allowed by C06/C07's relation is the whole candidate list up to order *)
Theorem E2E_cap_nonbinding : forall cands cap,
  (Z.of_nat (length cands) <= cap)%Z ->
  (forall sel, CombosProofs.selected_ok cands cap sel -> Permutation sel cands) /\
  (forall s : Sampler.al, Permutation (fst (Combos.select s cands cap)) cands).
Proof. exact (fun cands cap H => conj (fun sel => cap_nonbinding_sel cands cap sel H) (fun s => cap_nonbinding cands cap s H)). Qed.

(* whatever the sampler states and the shuffles of the individual batches, the aggregated sorted table is the model's *)
Theorem E2E_shuffle_sampler_independent : forall c header ps (states : list Sampler.al) (evl : list (list Combos.pair)),
  (Z.of_nat (length (cands_of c header)) <= g_cap c)%Z ->
  length evl = length (e2e_batches c header ps) ->
  Forall2 (fun s ev => Permutation ev (fst (Combos.select s (cands_of c header) (g_cap c)))) states evl ->
  final_table (all_rows_ev c header ps evl) = final_table (all_rows c header ps).
Proof. exact sampler_shuffle_independent. Qed.

Theorem E2E_deterministic : forall c header ps (st1 st2 : list Sampler.al) (evl1 evl2 : list (list Combos.pair)),
  (Z.of_nat (length (cands_of c header)) <= g_cap c)%Z ->
  length evl1 = length (e2e_batches c header ps) -> length evl2 = length (e2e_batches c header ps) ->
  Forall2 (fun s ev => Permutation ev (fst (Combos.select s (cands_of c header) (g_cap c)))) st1 evl1 ->
  Forall2 (fun s ev => Permutation ev (fst (Combos.select s (cands_of c header) (g_cap c)))) st2 evl2 ->
  final_table (all_rows_ev c header ps evl1) = final_table (all_rows_ev c header ps evl2).
Proof. exact deterministic. Qed.

(* non-vacuity: a small file with a quoted comma and a malformed line, both modes, Constant, the tail rule at
   1024 / 1025 rows, sub-sampling; the hypotheses of E2E_spec and E2E_wellformed_file are satisfiable *)
Definition E2E_examples := (ex_text_is_rendered, ex_run, ex_run_pairwise, ex_run_cap_binding, ex_run_const, ex_wellformed,
                            ex_run_over_table, ex_spec_hypotheses, tail_1024_no_batch, tail_1025_one_batch, subsample_2).

Print Assumptions E2E_spec.
Print Assumptions E2E_spec_constant.
Print Assumptions E2E_requested_pairs.
Print Assumptions E2E_batches.
Print Assumptions E2E_loop.
Print Assumptions E2E_batch_rows.
Print Assumptions E2E_batch_score_exact.
Print Assumptions E2E_max_cov_unique.
Print Assumptions E2E_max_cov_symmetric.
Print Assumptions E2E_batch_split_scores.
Print Assumptions E2E_median_replicate.
Print Assumptions E2E_maxfreq_fast.
Print Assumptions E2E_text_run.
Print Assumptions E2E_no_csv_error.
Print Assumptions E2E_wellformed_file.
Print Assumptions E2E_wellformed_run.
Print Assumptions E2E_cap_nonbinding.
Print Assumptions E2E_shuffle_sampler_independent.
Print Assumptions E2E_deterministic.
Print Assumptions E2E_examples.
