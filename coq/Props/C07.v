(* C07 — capped combination sampling is fair over any sequence of batches.
   Only statements here; each is closed by [exact] of a lemma of Pipeline/SamplerProofs.v.
   [valid_step st L cap sel st'] is the relation a sampler call must satisfy whatever its
   tie-breaking; [step] is the transcription of prior_combinations_sample; [valid_stepb] is the
   boolean checker the harness evaluates on what the implementation returned. *)
From Coq Require Import List Arith ZArith.
From Outrank Require Import Pipeline.Sampler Pipeline.SamplerProofs.
Import ListNotations.

(* the transcription of the code is an instance of the relation *)
Theorem C07_step_valid : forall s L cap,
  valid_step (get s) L cap (fst (step s L cap)) (get (snd (step s L cap))).
Proof. exact step_valid. Qed.

(* the checker run on implementation histories is sound for the relation *)
Theorem C07_checker_sound : forall s L cap sel s',
  valid_stepb s L cap sel s' = true -> valid_step (get s) L cap sel (get s').
Proof. exact valid_stepb_sound. Qed.

(* every returned combination is one of the candidates *)
Theorem C07_subset : forall st L cap sel st', valid_step st L cap sel st' -> incl sel L.
Proof. exact vs_incl. Qed.

(* more candidates than the cap: exactly cap distinct candidates *)
Theorem C07_exact : forall st L cap sel st',
  NoDup L -> (0 <= cap < Z.of_nat (length L))%Z -> valid_step st L cap sel st' ->
  Z.of_nat (length sel) = cap /\ NoDup sel.
Proof. exact vs_exact. Qed.

(* ... taken from the least-evaluated ones *)
Theorem C07_least_first : forall st L cap sel st',
  NoDup L -> valid_step st L cap sel st' ->
  forall a b, In a sel -> In b L -> ~ In b sel -> st a <= st b.
Proof. exact vs_least_first. Qed.

(* after any number of batches over a stable duplicate-free list, with caps changing arbitrarily
   and any tie-breaking, two candidates' evaluation counts differ by at most one *)
Theorem C07_fair : forall L st, NoDup L -> reach L st ->
  forall a b, In a L -> In b L -> st a <= S (st b).
Proof. exact reach_fair. Qed.

(* the same when the storage is shared with other candidate lists that are DISJOINT from L (their steps may do
   anything to counts outside L) and does not start empty outside L *)
Theorem C07_fair_interleaved : forall L st, NoDup L -> reach_i L st ->
  forall a b, In a L -> In b L -> st a <= S (st b).
Proof. exact reach_i_fair. Qed.

(* two call sites sharing one storage keyed by the bare tuple (pre-fix 45d13a2) break fairness of L *)
Theorem C07_shared_counter_refuted :
  exists (L : list key) (st st' st'' : state),
    NoDup L /\ reach L st /\ (st' 0 = st 0 + 2) /\ valid_step st' L 0 [] st'' /\ ~ (st'' 0 <= S (st'' 1)).
Proof. exact shared_counter_refuted. Qed.

(* the reported counts are the numbers of selections, for arbitrary histories *)
Theorem C07_counts_are_selections : forall sels st, hist sels st ->
  forall k, st k = list_sum (map (fun sel => count_occ Nat.eq_dec sel k) sels).
Proof. exact hist_counts. Qed.

(* fairness of the transcription itself, and of any implementation history the checker accepted *)
Theorem C07_model_fair : forall L caps, NoDup L ->
  forall a b, In a L -> In b L -> get (run_state L caps) a <= S (get (run_state L caps) b).
Proof. exact model_fair. Qed.

Theorem C07_checked_history_fair : forall L caps obs, NoDup L ->
  valid_runb [] (map (fun c => (L, c)) caps) obs = true ->
  forall a b, In a L -> In b L ->
  get (last (map snd obs) []) a <= S (get (last (map snd obs) []) b).
Proof. exact checked_history_fair. Qed.

(* a call site judged by the selections it actually made (whatever it stored): if every step is valid against the counts the
   selections themselves imply, the numbers of selections of two candidates differ by at most one *)
Theorem C07_selection_history_fair : forall L caps sels, NoDup L ->
  valid_runb [] (map (fun c => (L, c)) caps) (derived_obs [] sels) = true ->
  forall a b, In a L -> In b L -> sel_count sels a <= S (sel_count sels b).
Proof. exact selection_history_fair. Qed.

(* a reported table accepted by [reportb] gives every combination the number of batches' selections it occurs in *)
Theorem C07_report_sound : forall sels rep, reportb sels rep = true ->
  forall k, get rep k = list_sum (map (fun sel => count_occ Nat.eq_dec sel k) sels).
Proof. exact reportb_sound. Qed.

(* the transcription with the source's constants as parameters (sort direction, cap offset, increment, initial count; read
   from core_ranking.py on every run and re-checked against this statement by a generated proof obligation) is [step] at
   the values (ascending, 0, 1, 0), and each of the four matters *)
Theorem C07_source_constants : forall s L cap, pstep false 0 1 0 s L cap = step s L cap.
Proof. exact pstep_default. Qed.

Theorem C07_source_constants_matter :
  let ops := map (fun c => ([0; 1; 2], c)) [2; 2; 2]%Z in
  valid_runb [] ops (prun false 0 1 0 [] ops) = true /\
  valid_runb [] ops (prun true 0 1 0 [] ops) = false /\
  valid_runb [] ops (prun false 1 1 0 [] ops) = false /\
  valid_runb [] ops (prun false (-1) 1 0 [] ops) = false /\
  valid_runb [] ops (prun false 0 2 0 [] ops) = false /\
  valid_runb [] ops (prun false 0 0 0 [] ops) = false /\
  valid_runb [] ops (prun false 0 1 1 [] ops) = false.
Proof. exact source_constants_matter. Qed.

Print Assumptions C07_step_valid.
Print Assumptions C07_checker_sound.
Print Assumptions C07_subset.
Print Assumptions C07_exact.
Print Assumptions C07_least_first.
Print Assumptions C07_fair.
Print Assumptions C07_fair_interleaved.
Print Assumptions C07_shared_counter_refuted.
Print Assumptions C07_counts_are_selections.
Print Assumptions C07_model_fair.
Print Assumptions C07_checked_history_fair.
Print Assumptions C07_selection_history_fair.
Print Assumptions C07_report_sound.
Print Assumptions C07_source_constants.
Print Assumptions C07_source_constants_matter.
