(* C17 — the 3MR ranking is a greedy-optimal permutation of the features.
   Only statements here; each is closed by [exact] of a lemma of Rank/ThreeMRProofs.v.
   [inst] = the three dictionaries + strategy + alpha + beta (all universally quantified, so every theorem
   holds for each of median / mean / sum and for every alpha, beta, in particular alpha, beta >= 0);
   [ranking] = transcription of rank_features_3MR; [ranking_df] = its (Feature, 3MR_Ranking) data frame;
   [spec_3mr d r] = the property's four clauses for an arbitrary data frame r (whatever the tie-breaking);
   [valid_3mr] = the boolean validator the harness evaluates on the implementation's data frame. *)
From Coq Require Import List QArith ZArith NArith Permutation Sorting.Sorted.
From Outrank Require Import Rank.QMedian Rank.QMedianProofs Rank.ThreeMR Rank.ThreeMRProofs.
Import ListNotations.
Open Scope Q_scope.

(* every feature exactly once *)
Theorem C17_perm : forall d, Permutation (ranking d) (feats d) /\ NoDup (ranking d).
Proof. exact ranking_perm. Qed.

(* ... where the features are the keys of the relevance dictionary *)
Theorem C17_feats_are_keys : forall d,
  (forall f, In f (feats d) <-> In f (map fst (rel d))) /\
  (NoDup (map fst (rel d)) -> feats d = map fst (rel d)).
Proof. intros d. split; [apply feats_keys|apply feats_no_dup_keys]. Qed.

(* starts with a feature of maximal relevance *)
Theorem C17_first_max : forall d f0, nth_error (ranking d) 0 = Some f0 ->
  forall g, In g (feats d) -> relv d g <= relv d f0.
Proof. exact ranking_head. Qed.

(* at every later position k the placed feature maximises
   relevance - alpha * agg(redundancy with the prefix) + beta * agg(relation with the prefix) over the remaining ones *)
Theorem C17_step : forall d k f, (0 < k)%nat -> nth_error (ranking d) k = Some f ->
  forall g, In g (feats d) -> ~ In g (firstn k (ranking d)) ->
  score d (firstn k (ranking d)) g <= score d (firstn k (ranking d)) f.
Proof. exact ranking_step. Qed.

(* ranks are 1..n in list order *)
Theorem C17_ranks : forall d,
  map fst (ranking_df d) = ranking d /\
  map snd (ranking_df d) = ranks (length (ranking_df d)) /\
  forall k f z, nth_error (ranking_df d) k = Some (f, z) -> z = Z.of_nat (S k).
Proof. intros d. split; [apply ranking_df_fst|]. split; [apply ranking_df_snd|apply model_ranks]. Qed.

(* the validator decides exactly the four clauses ... *)
Theorem C17_valid_iff : forall d r, valid_3mr d r = true <-> spec_3mr d r.
Proof. exact valid_3mr_iff. Qed.

(* ... and accepts the transcription's output, for every instance *)
Theorem C17_model_valid : forall d, valid_3mr d (ranking_df d) = true.
Proof. exact model_valid. Qed.

(* Appendix C names *)
Theorem C17_check_sound : forall c o, C17_check c o = true -> spec_3mr c o.
Proof. intros c o. apply valid_3mr_iff. Qed.
Theorem C17_model_ok : forall c, C17_check c (C17_model c) = true.
Proof. exact model_valid. Qed.

(* what the ingredients of [score] mean *)
Theorem C17_score_def : forall d p f,
  score d p f = relv d f - alpha d * agg (strat d) (map (fun r => get2 (red d) r f) p)
                         + beta d * agg (strat d) (map (fun r => get2 (rln d) r f) p).
Proof. reflexivity. Qed.

Theorem C17_agg_sum : forall l, agg Sum l = fold_right Qplus 0 l.
Proof. exact agg_sum. Qed.
Theorem C17_agg_mean : forall l, agg Mean l = fold_right Qplus 0 l / inject_Z (Z.of_nat (length l)).
Proof. exact agg_mean. Qed.
Theorem C17_agg_median : forall l, exists s, Permutation s l /\ StronglySorted Qle s /\
  agg Median l = if Nat.even (length l) then (nth (length l / 2 - 1) s 0 + nth (length l / 2) s 0) / 2
                 else nth (length l / 2) s 0.
Proof. exact agg_median. Qed.

(* missing pairs count as 0, present ones give their value (looked up as (ranked, candidate)) *)
Theorem C17_missing_zero : forall t a b,
  (forall a' b' v, In (a', b', v) t -> a' <> a \/ b' <> b) -> get2 t a b = 0.
Proof. exact get2_missing. Qed.
Theorem C17_present : forall t a b v, NoDup (map fst t) -> In (a, b, v) t -> get2 t a b = v.
Proof. exact get2_present. Qed.

(* the caller (task_ranking.py): [build_inst lbl T = Some d] iff no non-empty table (relevance / relation / redundancy rows of
   the triplets) has min = max — there the code's float normalisation is 0/0 = NaN and no instance exists.  When it exists it is
   an instance like any other, so the ranking written to 3mr_ranks.tsv satisfies the clauses; the ranked features are exactly
   the plain (non AND_REL) columns other than the label that have a (feature, label) triplet *)
Theorem C17_caller_valid : forall lbl T d, build_inst lbl T = Some d -> spec_3mr d (ranking_df d).
Proof. intros. apply model_spec. Qed.
Theorem C17_caller_feats : forall lbl T d f, build_inst lbl T = Some d ->
  (In f (feats d) <-> f <> lbl /\ exists s, In (Plain f, Plain lbl, s) T).
Proof. exact caller_feats. Qed.
Theorem C17_caller_degenerate : forall lbl T, build_inst lbl T = None <->
  degenerate (map snd (relevance_rows lbl T)) = true \/ degenerate (map snd (relation_rows lbl T)) = true
  \/ degenerate (map snd (redundancy_rows lbl T)) = true.
Proof. exact caller_none. Qed.
Theorem C17_degenerate_iff : forall l, degenerate l = true <-> l <> [] /\ qmin l == qmax l.
Proof. exact degenerate_iff. Qed.

Print Assumptions C17_perm.
Print Assumptions C17_feats_are_keys.
Print Assumptions C17_first_max.
Print Assumptions C17_step.
Print Assumptions C17_ranks.
Print Assumptions C17_valid_iff.
Print Assumptions C17_model_valid.
Print Assumptions C17_check_sound.
Print Assumptions C17_model_ok.
Print Assumptions C17_score_def.
Print Assumptions C17_agg_sum.
Print Assumptions C17_agg_mean.
Print Assumptions C17_agg_median.
Print Assumptions C17_missing_zero.
Print Assumptions C17_present.
Print Assumptions C17_caller_valid.
Print Assumptions C17_caller_feats.
Print Assumptions C17_caller_degenerate.
Print Assumptions C17_degenerate_iff.
