(* C14 — cardinality sketch: exact while warm, estimate beyond, duplicate-blind.
   Only statements here; each is closed by [exact] of a lemma of Sketch/HLLProofs.v / Sketch/HLLReal.v.

   [run p W width hash l] is the state of HyperLogLogWCache after inserting the values of [l] in order
   (p index bits, warm-up capacity W = warmup_size, width constant, hash oracle: ANY function).
   [len] is what __len__ returns: [Exact n] while warm, [Est z] (the linear-counting value of z empty
   registers, int(ceil(m ln(m/z))) - 1, or 2^p for z = 0) once cold.  For the code p = 19, W = 2^18,
   width = 45 and hash = xxh32(seed = 19); nothing below depends on those values. *)
From Coq Require Import List NArith ZArith Arith Bool Permutation Reals.
From Outrank Require Import Sketch.HLL Sketch.HLLProofs Sketch.HLLReal.
Import ListNotations.

(* exact while the number of distinct values is at most the warm-up capacity *)
Theorem C14_exact : forall p W width hash l, (distinct l <= W)%nat ->
  len (run p W width hash l) = Exact (distinct l).
Proof. exact exact_len. Qed.

(* re-adding a value seen before changes nothing (the whole state, hence len), in both phases and
   exactly at the conversion boundary *)
Theorem C14_dup_blind : forall p W width hash l v, In v l ->
  len (run p W width hash (l ++ [v])) = len (run p W width hash l).
Proof. intros p W width hash l v H. now rewrite (dup_state p W width hash l v H). Qed.

Theorem C14_dup_blind_state : forall p W width hash l v, In v l ->
  run p W width hash (l ++ [v]) = run p W width hash l.
Proof. exact dup_state. Qed.

(* order of insertion is irrelevant in the exact range ... *)
Theorem C14_order_exact : forall p W width hash l l', Permutation l l' -> (distinct l <= W)%nat ->
  len (run p W width hash l) = len (run p W width hash l').
Proof. intros p W width hash l l' HP _. exact (order_len p W width hash l l' HP). Qed.

(* ... and in fact len is a function of the SET of inserted values in both phases *)
Theorem C14_len_set : forall p W width hash l l', (forall v, In v l <-> In v l') ->
  len (run p W width hash l) = len (run p W width hash l').
Proof. exact len_set. Qed.

(* after the conversion the register array is a function of the set of inserted values: the per-bucket
   maximum rank; hence order-blind and duplicate-blind there too *)
Theorem C14_regs_set : forall p W width hash l l', (forall v, In v l <-> In v l') -> (W < distinct l)%nat ->
  run p W width hash l = run p W width hash l'.
Proof. exact regs_set. Qed.

Theorem C14_regs_max : forall p W width hash l, (W < distinct l)%nat ->
  exists r, run p W width hash l = Cold r /\ length r = mn p /\
            forall j, nth j r 0%N = maxrank p width hash j l.
Proof. exact cold_regs. Qed.

(* the sketch is cold exactly when more than W distinct values were inserted *)
Theorem C14_phase : forall p W width hash l r, run p W width hash l = Cold r -> (W < distinct l)%nat.
Proof. exact cold_phase. Qed.

(* a register is non-zero iff some inserted value falls in its bucket (needs rank >= 1) *)
Theorem C14_touched : forall p W width hash l r j, (forall v, (0 < rho p width hash v)%N) ->
  run p W width hash l = Cold r ->
  (nth j r 0%N <> 0%N <-> exists v, In v l /\ bucket p hash v = j).
Proof. exact touched_iff. Qed.

(* rank >= 1 holds for every 32-bit hash when width + p > 32 (the code: width = 64 - p, p = 19) *)
Theorem C14_rank_pos : forall p width hash, (p <= 32)%N -> (32 < width + p)%N ->
  (forall v, (hash v < 2 ^ 32)%N) -> forall v, (0 < rho p width hash v)%N.
Proof. exact rho_pos_32. Qed.

(* cold phase: len is the linear-counting term of  m - #touched buckets *)
Theorem C14_estimate : forall p W width hash l, (forall v, (0 < rho p width hash v)%N) ->
  (W < distinct l)%nat ->
  len (run p W width hash l) = Est (m p - N.of_nat (touched p hash l))%N.
Proof. exact estimate. Qed.

(* the machine before fix 79c2775 violates exactness and duplicate-blindness at the boundary *)
Theorem C14_prefix_refuted : exists p W width hash l v,
  In v l /\ (distinct l <= W)%nat /\ len (run_old p W width hash (l ++ [v])) <> Exact (distinct l).
Proof. exact prefix_refuted_exact. Qed.

Theorem C14_prefix_refuted_dup : exists p W width hash l v,
  In v l /\ len (run_old p W width hash (l ++ [v])) <> len (run_old p W width hash l).
Proof. exact prefix_refuted_dup. Qed.

(* "within 2 %" is a statement about the hash: for some hash (a constant one) and whatever integer
   reading [lc] of the estimate, some set of more than W values is off by more than 2 % *)
Theorem C14_hash_matters : forall p W width (lc : N -> Z), exists hash l,
  (W < distinct l)%nat /\
  ~ (50 * Z.abs (lenZ lc (run p W width hash l) - Z.of_nat (distinct l)) <= Z.of_nat (distinct l))%Z.
Proof. exact hash_matters. Qed.

(* the conditional form that IS provable: if the number of empty registers lies in the window
   m e^(-1.02 n/m) <= z <= m e^(-(0.98 n + 1)/m)  then  |len - n| <= 0.02 n  *)
Theorem C14_2pct_conditional : forall p W width hash l,
  (forall v, (0 < rho p width hash v)%N) -> (W < distinct l)%nat ->
  let n := INR (distinct l) in
  let mR := IZR (Z.of_N (2 ^ p)) in
  let z := IZR (Z.of_N (2 ^ p - N.of_nat (touched p hash l))) in
  (0 < z)%R ->
  (mR * exp (- (102 / 100 * n) / mR) <= z)%R -> (z <= mR * exp (- (98 / 100 * n + 1) / mR))%R ->
  (Rabs (lenR p (len (run p W width hash l)) - n) <= 2 / 100 * n)%R.
Proof. exact window_2pct. Qed.

(* the checker evaluated on the implementation's len() values is sound, and the model passes it *)
Theorem C14_check_sound : forall W l o, forallb (fun b => b) (checkb W [] 0%Z l o) = true ->
  forall l1 v l2 o1 x o2, l = l1 ++ v :: l2 -> o = o1 ++ x :: o2 -> length o1 = length l1 ->
    clause W l1 v o1 x 0%Z.
Proof. exact check_sound. Qed.

Theorem C14_model_ok : forall p W width hash (lc : N -> Z) l,
  forallb (fun b => b) (checkb W [] 0%Z l (map (lenZ lc) (trace p W width hash (Warm []) l))) = true.
Proof. exact model_ok. Qed.

(* ---- non-vacuity: p = 3 (8 registers), capacity 4, a hash with collisions ---- *)
Definition ex_hash (v : N) : N := (v * 2654435761 mod 2 ^ 32)%N.

(* exact up to and at the boundary, also when the boundary is hit by a repeat; then cold *)
Example C14_ex_boundary :
  map (enc_len) (trace 3 4 61 ex_hash (Warm []) [5; 6; 5; 7; 8; 5; 8; 9; 9; 5; 10]%N)
  = [(0, 1); (0, 2); (0, 2); (0, 3); (0, 4); (0, 4); (0, 4); (1, 3); (1, 3); (1, 3); (1, 2)]%Z.
Proof. vm_compute. reflexivity. Qed.

(* the rank hypothesis holds for the constants of the code *)
Example C14_ex_rank : (19 <= 32)%N /\ (32 < 45 + 19)%N.
Proof. split; vm_compute; congruence. Qed.

Print Assumptions C14_exact.
Print Assumptions C14_dup_blind.
Print Assumptions C14_regs_set.
Print Assumptions C14_estimate.
Print Assumptions C14_hash_matters.
Print Assumptions C14_2pct_conditional.
