(* C01 — the plain estimator equals the plug-in Shannon mutual information.
   Only statements; each is closed by [exact] of a lemma of MI/Proofs.v.

   [entry Y X c]  : transcription of mutual_info_estimator_numba(Y, X, 1.0, c) (MI/Model.v); its value is the
                    term structure of integers the numba code feeds into log;
   [eval_R]       : meaning of a term structure in R (mirrors the code's arithmetic term by term);
   [MI_plugin], [H], [Hcond] : textbook plug-in quantities in nats over the occurring values (MI/Spec.v).
   No bound on n, on the codes or on the cardinalities; the model is total over Z (the real code needs codes >= 0).
   "Up to single-precision rounding" is carried by the tolerance of the correspondence check, not by a theorem. *)
From Coq Require Import Reals List ZArith.
From Outrank Require Import Common.RSum MI.Model MI.Spec MI.Proofs.
Import ListNotations.
Open Scope R_scope.

Definition C01_case : Type := list Z * list Z.                       (* (Y, X) *)
Definition C01_model (c : C01_case) : terms := entry (fst c) (snd c) false.

Theorem C01_plugin : forall Y X, length Y = length X -> (0 < length X)%nat ->
  eval_R (entry Y X false) = MI_plugin Y X.
Proof. exact plugin_identity. Qed.

Theorem C01_symm : forall Y X, length Y = length X -> (0 < length X)%nat ->
  eval_R (entry Y X false) = eval_R (entry X Y false).
Proof. exact entry_symm. Qed.

Theorem C01_symm_spec : forall Y X, length Y = length X -> (0 < length X)%nat -> MI_plugin Y X = MI_plugin X Y.
Proof. exact plugin_symm. Qed.

Theorem C01_nonneg : forall Y X, length Y = length X -> (0 < length X)%nat -> 0 <= MI_plugin Y X.
Proof. exact plugin_nonneg. Qed.

Theorem C01_const_l : forall Y X a, length Y = length X -> (0 < length X)%nat ->
  (forall v, In v Y -> v = a) -> MI_plugin Y X = 0.
Proof. exact plugin_const_l. Qed.

Theorem C01_const_r : forall Y X a, length Y = length X -> (0 < length X)%nat ->
  (forall v, In v X -> v = a) -> MI_plugin Y X = 0.
Proof. exact plugin_const_r. Qed.

Theorem C01_le_min : forall Y X, length Y = length X -> (0 < length X)%nat ->
  MI_plugin Y X <= Rmin (H Y) (H X).
Proof. exact plugin_le_min. Qed.

Theorem C01_self : forall Y, (0 < length Y)%nat -> MI_plugin Y Y = H Y.
Proof. exact plugin_self. Qed.

(* the same consequences stated about the SCORE itself, as the property words them ("the score is symmetric, never
   negative, zero when either vector is constant, at most the smaller entropy, the entropy on a self pair");
   one-line compositions of C01_plugin with the facts about MI_plugin above *)
Theorem C01_score_nonneg : forall Y X, length Y = length X -> (0 < length X)%nat -> 0 <= eval_R (entry Y X false).
Proof. exact score_nonneg. Qed.

Theorem C01_score_const_l : forall Y X a, length Y = length X -> (0 < length X)%nat ->
  (forall v, In v Y -> v = a) -> eval_R (entry Y X false) = 0.
Proof. exact score_const_l. Qed.

Theorem C01_score_const_r : forall Y X a, length Y = length X -> (0 < length X)%nat ->
  (forall v, In v X -> v = a) -> eval_R (entry Y X false) = 0.
Proof. exact score_const_r. Qed.

Theorem C01_score_le_min : forall Y X, length Y = length X -> (0 < length X)%nat ->
  eval_R (entry Y X false) <= Rmin (H Y) (H X).
Proof. exact score_le_min. Qed.

Theorem C01_score_self : forall Y, (0 < length Y)%nat -> eval_R (entry Y Y false) = H Y.
Proof. exact score_self. Qed.

(* the chain rule in the form the code computes it: marginal entropy minus conditional entropy *)
Theorem C01_chain : forall Y X, length Y = length X -> (0 < length X)%nat ->
  MI_plugin Y X = H Y - Hcond Y X.
Proof. exact plugin_chain. Qed.

(* non-vacuity: a 3 x 4-valued pair with a singleton stratum, a skipped zero count and a pure stratum *)
Definition exY : list Z := [0; 1; 2; 0; 1; 2; 0; 0; 1; 2]%Z.
Definition exX : list Z := [5; 5; 9; 9; 7; 7; 5; 3; 9; 9]%Z.
Example C01_nonvacuous :
  length exY = length exX /\ (0 < length exX)%nat /\
  enc (entry exY exX false)
  = (10%Z, [4; 3; 3]%Z, [(3%Z, [2; 1]%Z, [1; 1; 1]%Z); (2%Z, [1; 1]%Z, [2]%Z); (4%Z, [1; 1; 2]%Z, [3; 1]%Z)], false).
Proof. repeat split. vm_compute. repeat constructor. Qed.

Print Assumptions C01_plugin.
Print Assumptions C01_symm.
Print Assumptions C01_symm_spec.
Print Assumptions C01_nonneg.
Print Assumptions C01_const_l.
Print Assumptions C01_const_r.
Print Assumptions C01_le_min.
Print Assumptions C01_self.
Print Assumptions C01_chain.
Print Assumptions C01_score_nonneg.
Print Assumptions C01_score_const_l.
Print Assumptions C01_score_const_r.
Print Assumptions C01_score_le_min.
Print Assumptions C01_score_self.
