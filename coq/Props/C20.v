(* C20 — derived synthetic structure (correlation, duplicates, combinations, labels, noise, down-sampling,
   self-description) is as declared.  Only statements here; each is closed by [exact] of a lemma of
   Synth/Corr.v (over R) or Synth/DerivedProofs.v (combinatorial, axiom-free).
   Models: Synth/Derived.v (transcription of cc_generator.py; RNG / argsort / sklearn.resample are answer-stream
   oracles whose assumed behaviour the model checks on every answer; [Ok] = the call returns, [Raises] = the real
   call raises, [BadOracle] = an answer violates the assumed library behaviour or the call pattern). *)
From Coq Require Import List ZArith QArith Qround Reals Permutation Sorting.Sorted.
From Outrank Require Import Synth.Corr Synth.Derived Synth.DerivedProofs.
Import ListNotations.

(* ---- correlation (over R) ---- *)

(* u = Y[:,0], v = Y[:,1] of the code: centred, unit norm, orthogonal; the source is a positive affine image of u.
   Then the generated feature v + cot(acos r) u has Pearson correlation exactly r with the source. *)
Theorem C20_corr : forall n, (0 < n)%nat -> forall (u v : vec) (r a b : R),
  vsum n u = 0%R -> vsum n v = 0%R -> dot n u u = 1%R -> dot n v v = 1%R -> dot n u v = 0%R ->
  (-1 < r < 1)%R -> (0 < a)%R ->
  pearson n (fun i => v i + cos (acos r) / sin (acos r) * u i)%R (fun i => a * u i + b)%R = r.
Proof. exact corr_cot. Qed.

(* the code's spelling 1 / tan(theta), for r <> 0 (at r = 0 numpy's tan(pi/2) is 1.6e16, i.e. the factor is 6e-17) *)
Theorem C20_corr_tan : forall n, (0 < n)%nat -> forall (u v : vec) (r a b : R),
  vsum n u = 0%R -> vsum n v = 0%R -> dot n u u = 1%R -> dot n v v = 1%R -> dot n u v = 0%R ->
  (-1 < r < 1)%R -> r <> 0%R -> (0 < a)%R ->
  pearson n (fun i => v i + 1 / tan (acos r) * u i)%R (fun i => a * u i + b)%R = r.
Proof. exact corr_tan. Qed.

(* the whole construction of generate_correlated over R (standardisation with any regulariser kappa > 0, centring,
   one-column QR, orthogonal projection, normalisation): for a non-constant source and a random vector that is not an
   affine function of it, the feature has correlation exactly r with the source *)
Theorem C20_corr_construction : forall n, (0 < n)%nat -> forall (src z : vec) (kappa r : R),
  (0 < kappa)%R -> (-1 < r < 1)%R ->
  (0 < dot n (m0 n src kappa) (m0 n src kappa))%R ->
  (0 < dot n (proj n src z kappa) (proj n src z kappa))%R ->
  pearson n (corr_feature n src z kappa r) src = r.
Proof. exact construction. Qed.

Open Scope Z_scope.

(* ---- duplicates ---- *)

(* added columns are exact copies of the selected ones, existing columns are kept *)
Theorem C20_dup : forall X idx X' fi di, gen_duplicates X idx = Some (X', (fi, di)) ->
  X' = map (fun row => row ++ select row idx) X /\
  forall row, In row X ->
    lenZ row = ncols X /\
    (forall j, 0 <= j < ncols X -> nthZ (row ++ select row idx) j = nthZ row j) /\
    (forall t, (t < length idx)%nat ->
       nthZ (row ++ select row idx) (ncols X + Z.of_nat t) = nthZ row (norm_idx (ncols X) (nth t idx 0)) /\
       0 <= norm_idx (ncols X) (nth t idx 0) < ncols X).
Proof. exact dup_spec. Qed.

(* the self-description lists exactly ncols .. ncols + k - 1 (fix 40bb872) *)
Theorem C20_dup_info : forall X idx X' fi di, gen_duplicates X idx = Some (X', (fi, di)) ->
  fi = idx /\ di = zrange (ncols X) (length idx) /\ length di = length idx /\ NoDup di /\
  (forall c, In c di <-> ncols X <= c < ncols X + lenZ idx) /\
  (X <> [] -> ncols X' = ncols X + lenZ idx).
Proof. exact dup_info. Qed.

(* the old arange(ncols, ncols + k - 1): two columns added, one listed *)
Theorem C20_dup_prefix_refuted : exists X idx X' fi di,
  gen_duplicates_old X idx = Some (X', (fi, di)) /\ ncols X' = ncols X + 2 /\ di = [ncols X] /\ ~ In (ncols X + 1) di.
Proof. exact dup_prefix_refuted. Qed.

(* ---- combinations ---- *)

(* the appended cell is the stated function (comb_val: sum for 'linear', the argument of sin for 'nonlinear',
   left fold of xor / and / or for the class's bitwise helpers) of the selected cells; recorded index = old ncols *)
Theorem C20_combo : forall X f idx X' fi ct ix, gen_combinations X f idx = Some (X', (fi, ct, ix)) ->
  fi = idx /\ ct = f /\ ix = ncols X /\
  Forall2 (fun row row' => exists v, comb_val f (select row idx) = Some v /\ row' = row ++ [v] /\
                                      nthZ row' (ncols X) = v /\ forall j, 0 <= j < ncols X -> nthZ row' j = nthZ row j) X X'.
Proof. exact combo_spec. Qed.

(* ---- correlated features: recorded indices ---- *)
Theorem C20_corr_info : forall nc idx, idx <> [] ->
  length (corr_indices nc idx) = length idx /\ NoDup (corr_indices nc idx) /\
  forall c, In c (corr_indices nc idx) <-> nc <= c < nc + lenZ idx.
Proof. exact corr_indices_spec. Qed.

(* ---- the self-description over any session of calls lists exactly the added columns ---- *)
Theorem C20_info_exact : forall nr nc ops, Forall corr_ok ops ->
  st_nc (session nr nc ops) = nc + zsum (map added ops) /\
  Permutation (listed (st_info (session nr nc ops))) (zrange nc (Z.to_nat (st_nc (session nr nc ops) - nc))).
Proof. exact info_exact. Qed.

(* one call of a history, on an input matrix with nc columns and any previous self-description: the call lists
   exactly the columns nc .. nc + added - 1 in addition to what was listed before *)
Theorem C20_info_call : forall s o, corr_ok o ->
  st_nc (step false s o) = st_nc s + added o /\
  Permutation (listed (st_info (step false s o))) (listed (st_info s) ++ zrange (st_nc s) (Z.to_nat (added o))).
Proof. exact step_listed. Qed.

Theorem C20_info_old_refuted : exists nr nc ops, Forall corr_ok ops /\
  st_nc (session_old nr nc ops) = nc + 2 /\ listed (st_info (session_old nr nc ops)) = [nc] /\
  ~ In (nc + 1) (listed (st_info (session_old nr nc ops))).
Proof. exact info_old_refuted. Qed.

(* ---- labels ---- *)

(* monotone step function of the decision value *)
Theorem C20_labels_mono : forall d cuts i j, (i < length d)%nat -> (j < length d)%nat ->
  nth i d 0 <= nth j d 0 -> nth i (labels_of d cuts) 0 <= nth j (labels_of d cuts) 0.
Proof. exact labels_mono. Qed.

(* y_i = #{cut points < d_i}, strict comparison *)
Theorem C20_labels_count : forall d cuts,
  labels_of d cuts = map (label cuts) d /\
  (forall x, label cuts x = lenZ (filter (fun c => qlt_bool c (inject_Z x)) cuts)) /\
  (forall c x, qlt_bool c x = true <-> (c < x)%Q) /\
  (forall x, 0 <= label cuts x <= lenZ cuts) /\
  (forall a b, a <= b -> label cuts a <= label cuts b).
Proof. exact labels_count. Qed.

(* exact-arithmetic specification: tie-free decision values, cut = linear-interpolated percentile q (np.percentile default
   method, computed over the rationals): #{d <= cut} = floor((N-1) q) + 1 *)
Theorem C20_labels_prop : forall d q, NoDup d -> d <> [] -> (0 <= q)%Q -> (q <= 1)%Q ->
  lenZ (filter (fun x => Qle_bool (inject_Z x) (percentile (sort d) q)) d) = Qfloor (inject_Z (lenZ d - 1) * q) + 1.
Proof. exact labels_prop. Qed.

(* what generate_labels returns (np.percentile as an ORACLE: the recorded percent list and cut points, exact rationals of
   the doubles, within the library contract checked by the model).  PARTIAL with respect to the property's wording: the
   code computes percents and virtual indices in doubles, so the count per cut point is floor((N-1) pc/100) + 1 only when the
   virtual index is not within 1e-9 of an integer, and within one element of it always ([count_near]); the recorded percents
   are within 1e-9 of the requested cumulative proportions.  [separated d]: tie-free up to double rounding (distinct decision
   values differ by more than 1e-15 relative; automatic for integer decision values below 5e14). *)
Theorem C20_labels_class_sizes_partial : forall honour d n p rperc rcuts y,
  gen_labels_o honour d n p rperc rcuts = Ok y -> NoDup d -> separated d ->
  exists req rp rc, requested_percents honour n p = Some req /\
    rp = used_part (length req) rperc /\ rc = used_part (length req) rcuts /\
    y = map (label rc) d /\
    Forall2 (fun a b => qclose a b = true) rp req /\
    Forall2 (fun pc c => count_near (lenZ d) pc (lenZ (filter (fun x => Qle_bool (inject_Z x) c) d))) rp rc /\
    (qsortedb req = true -> StronglySorted Qle rc).
Proof. exact gen_labels_o_spec. Qed.

(* cumulative form for the code: non-decreasing requested percents: classes 0..m hold floor((N-1) pc_m/100) + 1 items, give or
   take one when the virtual index is within 1e-9 of an integer *)
Theorem C20_labels_cumulative_partial : forall honour d n p rperc rcuts y,
  gen_labels_o honour d n p rperc rcuts = Ok y -> NoDup d -> separated d ->
  exists req rp, requested_percents honour n p = Some req /\ Forall2 (fun a b => qclose a b = true) rp req /\
    (qsortedb req = true -> forall m, (m < length rp)%nat ->
       count_near (lenZ d) (nth m rp 0%Q) (lenZ (filter (fun yi => yi <=? Z.of_nat m) y))).
Proof. exact gen_labels_o_cumulative. Qed.

(* "class proportions match the requested distribution", literally.  Exact linear-interpolated percentile: within 1/N *)
Theorem C20_labels_proportion : forall d q, NoDup d -> d <> [] -> (0 <= q)%Q -> (q <= 1)%Q ->
  let cnt := lenZ (filter (fun x => Qle_bool (inject_Z x) (percentile (sort d) q)) d) in
  (q - 1 / inject_Z (lenZ d) <= inject_Z cnt / inject_Z (lenZ d))%Q /\
  (inject_Z cnt / inject_Z (lenZ d) <= q + 1 / inject_Z (lenZ d))%Q.
Proof. exact labels_proportion. Qed.

(* ... and for the code (any count the oracle contract admits): within 2/N of the percent np.percentile was asked for *)
Theorem C20_labels_proportion_partial : forall N pc cnt, 1 <= N -> (0 <= pc)%Q -> (pc <= 100)%Q -> count_near N pc cnt ->
  (pc / 100 - 2 / inject_Z N <= inject_Z cnt / inject_Z N)%Q /\ (inject_Z cnt / inject_Z N <= pc / 100 + 2 / inject_Z N)%Q.
Proof. exact count_near_proportion. Qed.

(* exact-arithmetic specification (what np.percentile computes over the rationals; equals the code whenever the double
   computation is exact, e.g. dyadic proportions): tie-free decision values, non-decreasing cut percents pcs in [0, 100]:
   classes 0..m together hold exactly floor((N-1) pcs_m / 100) + 1 items *)
Theorem C20_labels_cumulative : forall d pcs m, NoDup d -> d <> [] ->
  Forall (fun pc => (0 <= pc)%Q /\ (pc <= 100)%Q) pcs -> StronglySorted Qle pcs -> (m < length pcs)%nat ->
  lenZ (filter (fun yi => yi <=? Z.of_nat m) (labels_of d (cut_points d pcs)))
  = Qfloor (inject_Z (lenZ d - 1) * (nth m pcs 0%Q / 100)) + 1.
Proof. exact labels_cumulative. Qed.

(* fix b9eb3ad: a class distribution given as a sequence with n > 2 is honoured (cumulative sums of the requested proportions) *)
Theorem C20_labels_ndarray_note : forall n ps,
  2 < n -> lenZ ps = n -> Qle_bool (qsum ps) 1 = true ->
  forallb (fun pc => Qle_bool 0 pc && Qle_bool pc 100) (prefix_sums 0%Q (map (fun x => (x * 100)%Q) (firstn (Z.to_nat (n - 1)) ps))) = true ->
  label_percents n (PList ps) = Some (prefix_sums 0%Q (map (fun x => (x * 100)%Q) (firstn (Z.to_nat (n - 1)) ps))).
Proof. exact label_percents_list. Qed.

(* the validator used when np.percentile is not observed: accepted labels are monotone in the decision value *)
Theorem C20_labels_valid_sound : forall d req y, labels_valid d req y = true ->
  length y = length d /\
  forall a b, In a (combine d y) -> In b (combine d y) -> fst a <= fst b -> snd a <= snd b.
Proof. exact labels_valid_mono. Qed.

(* ---- noise (matrices column-major: one list per feature) ---- *)

(* The number of cells the code flips is int(n * p) computed in DOUBLES; its value k is an oracle answer (the size asked of
   np.random.choice).  [kflip_spec n p k]: k is floor(n p), except that a product within 1e-9 of an integer may round to the
   other side (then |k - floor(n p)| <= 1); k = floor(n p) whenever p has at most 20 fractional bits or n p is not within
   1e-9 of an integer.  [cum] selects the slice variant of unique_per_label: true = the code (cumulative offsets, fix 501d3c0), the only reading the
   check accepts; false = the slices as first read, kept for C20_noise_slices_prefix_refuted. *)

(* categorical: per feature, same length, at most k cells differ, every cell is one of that feature's own values;
   for EVERY answer stream on which the model succeeds *)
Theorem C20_noise_cat : forall cum cols y p k inds st out,
  Forall (fun c => lenZ c = lenZ y) cols ->
  noise_cat cum cols y p k inds st = Ok out ->
  Forall2 (fun c o => length o = length c /\ diff_count c o <= k /\ forall v, In v o -> In v c) cols out /\
  kflip_spec (lenZ y) p k.
Proof. exact noise_cat_spec. Qed.

Theorem C20_noise_cat_check_sound : forall cols n p k out, noise_cat_check cols n p k out = true ->
  Forall2 (fun c o => length o = length c /\ diff_count c o <= k /\ forall v, In v o -> In v c) cols out /\
  kflip_spec n p k.
Proof. exact noise_cat_check_sound. Qed.

(* the clause is not vacuous: labels exactly 0..K-1 (K >= 2), admissible noise level, and - for the slices as first read -
   at least two members per class: the call does not raise, whatever the RNG answers *)
Theorem C20_noise_cat_progress : forall cum cols y p k inds st K,
  uniq y = zrange 0 K -> (2 <= K)%nat -> p_ok (lenZ y) p = true ->
  (cum = false -> forall lab, In lab (uniq y) -> 2 <= countZ lab y) ->
  noise_cat cum cols y p k inds st <> Raises.
Proof. exact noise_cat_progress. Qed.

(* fix 501d3c0: under the slices as first read the input X=[[0],[4],[2],[1]], y=[0,0,1,0], p=0.25 raises (recorded run of the
   old code); under the repaired slices the recorded run of the current code is reproduced *)
Theorem C20_noise_slices_prefix_refuted :
  noise_cat false [[0; 4; 2; 1]] [0; 0; 1; 0] (1 # 4) 1 [0; 1; 3; 2] [AIdx 4 [1]; AInt 1 0] = Raises /\
  noise_cat true [[0; 4; 2; 1]] [0; 0; 1; 0] (1 # 4) 1 [0; 1; 3; 2] [AIdx 4 [1]; AVal 2] = Ok [[0; 2; 2; 1]].
Proof. exact noise_slices_prefix_refuted. Qed.

(* missing: every cell is unchanged or the marker; exactly k markers per feature when the marker is not already present *)
Theorem C20_noise_missing : forall cols n p k marker st out,
  Forall (fun c => lenZ c = n) cols ->
  noise_missing cols n p k marker st = Ok out ->
  Forall2 (fun c o => Forall2 (fun a b => b = a \/ b = marker) c o /\ (~ In marker c -> countZ marker o = k)) cols out /\
  kflip_spec n p k.
Proof. exact noise_missing_spec. Qed.

Theorem C20_noise_missing_check_sound : forall cols n p k marker out, noise_missing_check cols n p k marker out = true ->
  Forall2 (fun c o => Forall2 (fun a b => b = a \/ b = marker) c o /\ (~ In marker c -> countZ marker o = k)) cols out /\
  kflip_spec n p k.
Proof. exact noise_missing_check_sound. Qed.

(* what the oracle check on k gives *)
Theorem C20_noise_count : forall n p k, kflip_ok n p k = true ->
  nflip n p - 1 <= k <= nflip n p + 1 /\
  (let g := (inject_Z n * p - inject_Z (nflip n p))%Q in
   small_dyadic n p = true \/ ((eps9 <= g)%Q /\ (g <= 1 - eps9)%Q) -> k = nflip n p).
Proof. exact kflip_ok_spec. Qed.

(* stated precondition: labels must be 0..k-1 (here {1,2}: the real call raises KeyError, and so does the model) *)
Theorem C20_noise_cat_needs_standard_labels : forall cum,
  noise_cat cum [[1; 4; 7; 0; 3; 9]; [20; 50; 80; 10; 30; 90]] [1; 2; 1; 2; 2; 1] (1 # 2) 3 [0; 2; 5; 1; 3; 4] [AIdx 6 [5; 2; 4]] = Raises.
Proof. exact noise_cat_needs_standard_labels. Qed.

(* ---- down-sampling ---- *)

(* exactly k rows of each class (k = n or the minority count), every returned (row, label) is a (row, label) of the input *)
Theorem C20_downsample : forall X y n reshuffle st Xd yd,
  downsample X y n reshuffle st = Ok (Xd, yd) ->
  exists k, down_n y n = Some k /\ 0 <= k /\
    (length Xd = length yd /\
     (forall lab, In lab (uniq y) -> countZ lab yd = k) /\
     (forall lab, In lab yd -> In lab y) /\
     Forall (fun ry => In ry (combine X y)) (combine Xd yd)) /\
    lenZ Xd = k * lenZ (uniq y).
Proof. exact downsample_spec. Qed.

Theorem C20_downsample_check_sound : forall X y n Xd yd, downsample_check X y n Xd yd = true ->
  exists k, down_n y n = Some k /\
    (length Xd = length yd /\
     (forall lab, In lab (uniq y) -> countZ lab yd = k) /\
     (forall lab, In lab yd -> In lab y) /\
     Forall (fun ry => In ry (combine X y)) (combine Xd yd)).
Proof. exact downsample_check_sound. Qed.

Print Assumptions C20_corr.
Print Assumptions C20_corr_tan.
Print Assumptions C20_corr_construction.
Print Assumptions C20_dup.
Print Assumptions C20_dup_info.
Print Assumptions C20_dup_prefix_refuted.
Print Assumptions C20_combo.
Print Assumptions C20_corr_info.
Print Assumptions C20_info_exact.
Print Assumptions C20_info_call.
Print Assumptions C20_info_old_refuted.
Print Assumptions C20_labels_mono.
Print Assumptions C20_labels_count.
Print Assumptions C20_labels_prop.
Print Assumptions C20_labels_class_sizes_partial.
Print Assumptions C20_labels_cumulative_partial.
Print Assumptions C20_labels_proportion.
Print Assumptions C20_labels_proportion_partial.
Print Assumptions C20_labels_cumulative.
Print Assumptions C20_labels_ndarray_note.
Print Assumptions C20_labels_valid_sound.
Print Assumptions C20_noise_cat.
Print Assumptions C20_noise_cat_check_sound.
Print Assumptions C20_noise_cat_progress.
Print Assumptions C20_noise_slices_prefix_refuted.
Print Assumptions C20_noise_missing.
Print Assumptions C20_noise_missing_check_sound.
Print Assumptions C20_noise_count.
Print Assumptions C20_noise_cat_needs_standard_labels.
Print Assumptions C20_downsample.
Print Assumptions C20_downsample_check_sound.
