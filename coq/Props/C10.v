(* C10 — interaction features represent joint values faithfully.
   Only statements here; each is closed by [exact] of a lemma of Features/InteractProofs.v.
   [enc t] is the string the repaired compute_combined_features hashes for the value tuple [t] of one row
   (str(len(v)) + ":" + v per constituent, concatenated); [h] stands for xxh64(utf8(.)).hexdigest() and is
   universally quantified; [combined h sep df sel] is the returned frame for the combinations [sel] the sampler kept. *)
From Coq Require Import List NArith ZArith Arith.
From Outrank Require Import Features.Interact Features.InteractProofs Features.InteractMI.
From Outrank Require MI.Model.
Import ListNotations.

(* the encoding is injective on value tuples of arbitrary strings; no arity hypothesis is needed *)
Theorem C10_enc_inj : forall t t' : list str, enc t = enc t' -> t = t'.
Proof. exact enc_inj. Qed.

(* equal value <-> equal tuples, up to collisions of the hash: here "the two hashed strings do not collide".
   (The hypotheses below are never global injectivity of h, which no 16-hex-digit digest can satisfy.) *)
Theorem C10_equal_iff : forall (h : str -> cell) t t', inj_on h [enc t; enc t'] ->
  (h (enc t) = h (enc t') <-> t = t').
Proof. exact equal_iff. Qed.

(* rows that agree on every constituent get equal values, for any hash *)
Theorem C10_equal_if : forall (h : str -> cell) t t', t = t' -> h (enc t) = h (enc t').
Proof. exact equal_if. Qed.

(* the feature is named by joining the constituent names with the separator (" AND ") *)
Theorem C10_name : forall h sep df comb, fst (combine_feature h sep df comb) = join sep comb.
Proof. exact name_is_join. Qed.

(* the original columns are left untouched: the result is the input followed by new columns, one value per row *)
Theorem C10_originals_untouched : forall h sep df sel,
  firstn (length df) (combined h sep df sel) = df /\
  Forall (fun c : column => length (snd c) = nrows df) (skipn (length df) (combined h sep df sel)).
Proof. exact combined_untouched. Qed.

(* every new column is the feature of a selected combination; the new names are the joined selected combinations *)
Theorem C10_new_columns : forall h sep df sel,
  (forall c, In c (skipn (length df) (combined h sep df sel)) -> exists comb, In comb sel /\ c = combine_feature h sep df comb) /\
  (forall nm, In nm (names (skipn (length df) (combined h sep df sel))) <-> In nm (map (join sep) sel)).
Proof. exact combined_new_columns. Qed.

(* [no_collision h df comb] := inj_on h (map enc (tuples df comb)): no collision among the strings hashed for this frame
   and combination.  [incl comb (names df)]: the combination names columns of the frame (the code raises KeyError otherwise;
   C10_candidates gives it for every candidate). *)

(* row-level statement of the property *)
Theorem C10_rows_iff : forall (h : str -> cell) df comb i j,
  incl comb (names df) -> no_collision h df comb -> i < nrows df -> j < nrows df ->
  (nth_error (feature_values h df comb) i = nth_error (feature_values h df comb) j
   <-> forall f, In f comb -> nth i (getcol df f) [] = nth j (getcol df f) []).
Proof. exact rows_iff. Qed.

(* the new column induces the same partition of the rows as the explicit value tuples ... *)
Theorem C10_score : forall (h : str -> cell) df comb,
  incl comb (names df) -> no_collision h df comb -> same_part (feature_values h df comb) (tuples df comb).
Proof. exact feature_partition. Qed.

(* ... hence every scorer that depends only on the partition gives it the score of the value tuples ... *)
Theorem C10_score_equal : forall (h : str -> cell) S (score : list N -> list N -> S) (cH : cell -> N) (cT : list cell -> N) df comb T,
  incl comb (names df) -> no_collision h df comb ->
  partition_invariant score ->
  inj_on cH (feature_values h df comb) -> inj_on cT (tuples df comb) ->
  score (map cH (feature_values h df comb)) T = score (map cT (tuples df comb)) T.
Proof. exact score_equal. Qed.

(* ... in particular the MI family: the numba estimator transcribed in MI/Model.v ([core]; c = cardinality correction on/off;
   T = coded target), for any category codings injective on the occurring values.  Proved from C02's relabelling theorem
   (MI/Proofs.core_relabel); this one theorem lives over R and reports the four standard Reals axioms. *)
Theorem C10_score_MI : forall (h : str -> cell) (cH : cell -> Z) (cT : list cell -> Z) df comb (T : list Z) (c : bool),
  incl comb (names df) -> no_collision h df comb ->
  length T = nrows df -> 0 < nrows df ->
  inj_on cH (feature_values h df comb) -> inj_on cT (tuples df comb) ->
  MI.Model.eval_R (MI.Model.core T (map cH (feature_values h df comb)) c)
  = MI.Model.eval_R (MI.Model.core T (map cT (tuples df comb)) c).
Proof. exact score_MI. Qed.

(* the no-collision hypothesis is satisfiable on every frame *)
Theorem C10_no_collision_satisfiable : forall df comb, no_collision (fun x => x) df comb.
Proof. exact no_collision_id. Qed.

(* the encoding before fix 3978e4d (plain concatenation) aliases ("1","11") with ("11","1"), for every hash *)
Theorem C10_prefix_refuted : forall h : str -> cell,
  exists t t', t <> t' /\ length t = length t' /\ h (enc_old t) = h (enc_old t').
Proof. exact old_aliases. Qed.

(* dropping the ':' after the length (seeded change C10-G) is refuted too: ("0","AAAAAAAA3xyz") / ("12AAAAAAAA","xyz") *)
Theorem C10_nosep_refuted : forall h : str -> cell,
  exists t t', t <> t' /\ length t = length t' /\ h (enc_nosep t) = h (enc_nosep t').
Proof. exact nosep_aliases. Qed.

Theorem C10_old_partition_refuted : forall h : str -> cell,
  ~ same_part (feature_values_old h witness_frame [[97%N]; [98%N]]) (tuples witness_frame [[97%N]; [98%N]]).
Proof. exact old_partition_refuted. Qed.

(* candidates: combinations of the requested order over the non-label columns *)
Theorem C10_candidates : forall df label io is3mr c, In c (candidates df label io is3mr) ->
  length c = (if is3mr then 2 else io) /\ (forall f, In f c -> In f (names df) /\ f <> label).
Proof. exact candidates_spec. Qed.

(* the checker the harness evaluates on the implementation's output is sound (and the partition test complete) *)
Theorem C10_checker_sound : forall sep df label io is3mr cap obs_prefix obs_new,
  C10_check sep df label io is3mr cap obs_prefix obs_new = true ->
  obs_prefix = df /\
  length obs_new = cap_len (length (candidates df label io is3mr)) cap /\
  NoDup (map fst obs_new) /\
  forall nm ids, In (nm, ids) obs_new ->
    exists comb, In comb (candidates df label io is3mr) /\ nm = join sep comb /\ same_part ids (tuples df comb).
Proof. exact C10_check_sound. Qed.

Theorem C10_partition_test_exact : forall (xs : list N) (ys : list (list str)),
  same_partb N.eqb (list_eqb streqb) xs ys = true <-> same_part xs ys.
Proof. exact partition_test_exact. Qed.

Print Assumptions C10_enc_inj.
Print Assumptions C10_equal_iff.
Print Assumptions C10_equal_if.
Print Assumptions C10_name.
Print Assumptions C10_originals_untouched.
Print Assumptions C10_new_columns.
Print Assumptions C10_rows_iff.
Print Assumptions C10_score.
Print Assumptions C10_score_equal.
Print Assumptions C10_score_MI.
Print Assumptions C10_no_collision_satisfiable.
Print Assumptions C10_prefix_refuted.
Print Assumptions C10_nosep_refuted.
Print Assumptions C10_old_partition_refuted.
Print Assumptions C10_candidates.
Print Assumptions C10_checker_sound.
Print Assumptions C10_partition_test_exact.
