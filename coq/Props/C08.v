(* C08 — streaming equals reference batch semantics with median aggregation.
   Only statements here; each is closed by [exact] of a lemma of Pipeline/StreamProofs.v, AggregateProofs.v,
   C08ModelProofs.v.

   Vocabulary (Pipeline/Stream.v, Aggregate.v, C08Model.v):
   [batches/invalid_count/checkpoints/grouped score agg c lines] are the observables of the transcribed loop of
   estimate_importances_minibatches for ANY per-batch scorer [score] and ANY aggregation [agg];
   [selected s 0 lines] = the lines at 1-based positions that are multiples of s; [good] = the well-formed ones
   among them; [chunks B l] = (consecutive chunks of exactly B, remainder); [aggregate] = one row per ordered
   pair holding [median2] (twice the median) of that pair's scores; [final_sort] = ascending by score. *)
From Coq Require Import List Arith NArith ZArith Bool Permutation Sorting.Sorted.
From Outrank Require Import Common.Median Pipeline.Stream Pipeline.StreamProofs Pipeline.Aggregate
  Pipeline.AggregateProofs Pipeline.PerBatch Pipeline.C08Model Pipeline.C08ModelProofs.
Import ListNotations.

(* Hypotheses under which the model is a faithful reading of the code (stated next to every loop theorem):
   - B >= 1 and s >= 1.  For s = 0 Python raises ZeroDivisionError while [N.modulo k 0 = k] would make [sstep] skip every
     line: without the hypothesis the statements would be true of the model for the wrong reason.  Negative values are
     not transcribed.
   - heuristic <> 'Constant': [flush] always checkpoints; the code checkpoints a full batch only for a non-Constant
     heuristic (the tail batch always).  With 'Constant' and no tail batch the real task writes its outputs and then ends
     in FileNotFoundError at os.remove('ranking_checkpoint_tmp.tsv') (recorded as an observation in notes/C08.md). *)

(* consumed rows, batch boundaries, tail rule: the batches are the full chunks of size B of the well-formed rows
   among every s-th line (1-based, file order), plus the remainder iff it has MORE than [ctail c] rows *)
Theorem C08_batches : forall (row table : Type) (score : list line -> list row) (agg : list row -> table) c lines,
  (0 < cB c)%nat -> (0 < cs c)%N ->
  batches score agg c lines =
  let g := good c 0 lines in
  fst (chunks (cB c) g) ++ (if (ctail c <? length (snd (chunks (cB c) g)))%nat then [snd (chunks (cB c) g)] else []).
Proof. exact @batches_statement. Qed.

(* [chunks] is the (unique) split into chunks of exactly B rows, in order, with a remainder shorter than B *)
Theorem C08_chunks : forall (A : Type) B (l : list A), (0 < B)%nat ->
  concat (fst (chunks B l)) ++ snd (chunks B l) = l /\
  Forall (fun b => length b = B) (fst (chunks B l)) /\ (length (snd (chunks B l)) < B)%nat.
Proof. exact @chunks_spec. Qed.
Theorem C08_chunks_unique : forall (A : Type) B (l : list A) f1 r1 f2 r2, (0 < B)%nat ->
  is_chunking B l f1 r1 -> is_chunking B l f2 r2 -> f1 = f2 /\ r1 = r2.
Proof. exact @chunking_unique. Qed.

(* [selected] keeps exactly the lines whose 1-based position is a multiple of s, in file order *)
Theorem C08_selected : forall s lines k0,
  selected s k0 lines = map snd (filter (fun p => N.eqb (N.modulo (fst p) s) 0) (number (N.succ k0) lines)).
Proof. exact selected_spec. Qed.

(* skipped rows are counted: the selected lines whose field count differs from the header's *)
Theorem C08_invalid_count : forall (row table : Type) (score : list line -> list row) (agg : list row -> table) c lines,
  (0 < cB c)%nat -> (0 < cs c)%N ->
  invalid_count score agg c lines = length (filter (fun l => negb (wf c l)) (selected (cs c) 0 lines)).
Proof. exact @invalid_statement. Qed.

(* the aggregate has exactly one row per ordered pair that occurs, and its score is the median of the pair's scores *)
Theorem C08_median : forall rows k,
  lookup k (aggregate rows) = if in_dec key_eq_dec k (map fst rows) then Some (median2 (scores_of k rows)) else None.
Proof. exact aggregate_lookup. Qed.
Theorem C08_median_rows : forall rows r,
  In r (aggregate rows) <-> In (fst r) (map fst rows) /\ snd r = median2 (scores_of (fst r) rows).
Proof. exact aggregate_rows. Qed.
Theorem C08_median_one_row_per_pair : forall rows, NoDup (map fst (aggregate rows)).
Proof. exact aggregate_NoDup. Qed.
(* the scores of a pair are those of the rows that carry the pair's names *)
Theorem C08_scores_of : forall k rows z, In z (scores_of k rows) <-> In (k, z) rows.
Proof. exact scores_of_In. Qed.
(* [median2] on any sorted arrangement: twice the middle element, or the sum of the two middle elements *)
Theorem C08_median2_meaning : forall l s, Permutation s l -> StronglySorted Z.le s ->
  median2 l = let n := length s in
              if Nat.even n then (nth (n / 2 - 1) s 0 + nth (n / 2) s 0)%Z else (2 * nth (n / 2) s 0)%Z.
Proof. exact median2_sorted. Qed.

(* "the median of its PER-BATCH scores": [C08_median] is about all ROWS that carry the pair.  If every batch that
   evaluates pair k contributes the same number m > 0 of rows for k, all with that batch's score (the candidate list is
   duplicate-free after repo commit b3d9d15: m = 1 for an ordered pair of distinct names, m = 2 for a self-pair, whose
   mirror is itself), the aggregate's score is the median of one score per batch.  Otherwise it is a weighted median
   ([C08_weighted_median_differs]: rows 1,1,1,1,5,5,9,9 give 3, the per-batch scores 1,5,9 give 5) - this was a defect
   of the code with a binding cap, see notes/C08.md. *)
Theorem C08_median_per_batch : forall m k brs, (0 < m)%nat -> uniform_batches m k brs -> In k (map fst (concat brs)) ->
  lookup k (aggregate (concat brs)) = Some (median2 (per_batch_scores k brs)).
Proof. exact aggregate_per_batch. Qed.
Theorem C08_median_replicate : forall m l, (0 < m)%nat -> median2 (mrep m l) = median2 l.
Proof. exact median2_mrep. Qed.
Theorem C08_weighted_median_differs :
  let k := (1%N, 1%N) in
  let brs := [[(k, 1%Z); (k, 1%Z); (k, 1%Z); (k, 1%Z)]; [(k, 5%Z); (k, 5%Z)]; [(k, 9%Z); (k, 9%Z)]] in
  median2 (scores_of k (concat brs)) = 6%Z /\ median2 (per_batch_scores k brs) = 10%Z.
Proof. exact weighted_median_differs. Qed.
(* the table the checker holds the written scores to: keeping one row per batch and ordered pair yields exactly the
   per-batch scores, whatever the multiplicities were *)
Theorem C08_per_batch_table : forall k brs, scores_of k (concat (map batch_once brs)) = per_batch_scores k brs.
Proof. exact once_table_is_per_batch. Qed.

(* ... which is a median in the usual sense: at most half of the scores lie strictly below it, at most half above *)
Theorem C08_median_rank : forall l, l <> [] ->
  (2 * length (filter (below2 (median2 l)) l) <= length l)%nat /\
  (2 * length (filter (above2 (median2 l)) l) <= length l)%nat.
Proof. exact median2_rank. Qed.

(* the written table is a permutation of the aggregate in ascending score order.  Nothing is claimed about the order
   of rows with EQUAL scores: the model sorts stably, pandas' sort_values uses an unstable quicksort; the harness
   accepts any ascending arrangement (sortedb + equality as multisets). *)
Theorem C08_sorted : forall t,
  Permutation (final_sort t) t /\ StronglySorted (fun r1 r2 : Aggregate.row => (snd r1 <= snd r2)%Z) (final_sort t).
Proof. exact (fun t => conj (final_sort_perm t) (final_sort_sorted t)). Qed.

(* after batch j+1 the checkpoint holds the aggregation of the rows of the first j+1 batches, for every prefix *)
Theorem C08_checkpoint_prefix : forall (row table : Type) (score : list line -> list row) (agg : list row -> table) c lines,
  (0 < cB c)%nat -> (0 < cs c)%N ->
  length (checkpoints score agg c lines) = length (batches score agg c lines) /\
  forall j, (j < length (batches score agg c lines))%nat ->
    nth_error (checkpoints score agg c lines) j =
    Some (agg (concat (map score (firstn (S j) (batches score agg c lines))))).
Proof. exact @checkpoint_statement. Qed.

(* the frame returned at the end aggregates the rows of all batches *)
Theorem C08_grouped : forall (row table : Type) (score : list line -> list row) (agg : list row -> table) c lines,
  (0 < cB c)%nat -> (0 < cs c)%N ->
  grouped score agg c lines = agg (concat (map score (batches score agg c lines))).
Proof. exact @grouped_statement. Qed.

(* the model the harness evaluates, end to end *)
Theorem C08_model_spec : forall k, (0 < cB (k_cfg k))%nat ->
  let c := k_cfg k in let lines := decode_lines (k_segs k) in
  let ref := reference_batches c lines in let score := score_of (k_rows k) in
  C08_model k =
  (map (map fst) ref,
   length (filter (fun l => negb (wf c l)) (selected (cs c) 0 lines)),
   map (fun j => aggregate (concat (map score (firstn j ref)))) (seq 1 (length ref)),
   final_sort (aggregate (concat (map score ref)))).
Proof. exact model_spec. Qed.

(* the checker run on implementation outputs is sound for the property's clauses *)
Theorem C08_check_sound : forall k ob oi oc of, verdict_ok (C08_check k (ob, oi, oc, of)) = true ->
  let c := k_cfg k in let lines := decode_lines (k_segs k) in
  let ref := reference_batches c lines in let score := score_of (k_rows k) in
  ob = map (map fst) ref
  /\ oi = length (filter (fun l => negb (wf c l)) (selected (cs c) 0 lines))
  /\ length oc = length ref
  /\ (forall j, (j < length ref)%nat -> tables_close (aggregate (concat (map score (firstn (S j) ref)))) (nth j oc []))
  /\ StronglySorted Z.le (map snd of)
  /\ tables_close (aggregate (concat (map score ref))) of
  /\ (forall b r r', In b ref -> In r (score b) -> In r' (score b) -> fst r = fst r' -> snd r = snd r')
  /\ tables_close (aggregate (concat (map batch_once (map score ref)))) of.
Proof. exact check_sound. Qed.

Print Assumptions C08_batches.
Print Assumptions C08_chunks.
Print Assumptions C08_chunks_unique.
Print Assumptions C08_selected.
Print Assumptions C08_invalid_count.
Print Assumptions C08_median.
Print Assumptions C08_median_rows.
Print Assumptions C08_median_one_row_per_pair.
Print Assumptions C08_scores_of.
Print Assumptions C08_median2_meaning.
Print Assumptions C08_median_per_batch.
Print Assumptions C08_median_replicate.
Print Assumptions C08_weighted_median_differs.
Print Assumptions C08_per_batch_table.
Print Assumptions C08_median_rank.
Print Assumptions C08_sorted.
Print Assumptions C08_checkpoint_prefix.
Print Assumptions C08_grouped.
Print Assumptions C08_model_spec.
Print Assumptions C08_check_sound.
