(* E2Ecap — the ranking task end to end with a BINDING per-batch combination cap
   (--combination_number_upper_bound < number of candidate pairs), for `max-value-coverage` and `Constant`.
   Only statements here; each is closed by [exact] of a lemma of E2E/CapProofs.v / CapExamples.v.

   The model E2E/CapCompose.v is E2E/Compose.v (text -> lines -> rows -> batches -> codes -> pairs -> exact coverage ->
   median -> sorted table; see Props/E2E.v) with C07's sampler threaded through the batches:

     (sel_k, s_{k+1}) := Sampler.step s_k ids cap        ids = positions in Combos.candidates, s_0 = empty counter
     rows of batch k  := Combos.build_rows over sel_k    (random.shuffle of sel_k: E2Ecap_shuffle_independent)

   Vocabulary beyond Props/E2E.v:
   [e2ecap_run c text] / [e2ecap_core c header ps]   the table, or None (outside the fragment -- cap < 1 included -- / no batch);
   [cap_cands c header]                              C06's candidate list (= RowsProofs.cands_of);
   [cap_sels c header ps]                            the selection of every processed batch, in batch order;
   [contributing c header ps a b]                    the tables (parsed rows) of exactly the batches whose selection holds the
                                                     pair {a, b} in either orientation;
   [nsel sels p]                                     the number of selections that list the candidate p;
   [cap_counter], [cap_counts]                       the counter after the last batch / as combination_estimation_counts.json
                                                     reports it (candidate, count). *)
From Coq Require Import List NArith ZArith QArith Bool Arith Permutation Sorting.Sorted.
From Outrank Require Import IO.Str IO.StrProofs.
From Outrank Require IO.Csv IO.CsvProofs IO.Accept.
From Outrank Require Import Common.Median.
From Outrank Require Pipeline.Stream.
From Outrank Require Import Pipeline.Aggregate Pipeline.RankGraph.
From Outrank Require Pipeline.Sampler Pipeline.SamplerProofs Pipeline.Combos Pipeline.CombosProofs.
From Outrank Require Import E2E.Compose E2E.CovProofs E2E.RowsProofs E2E.ComposeProofs E2E.ShuffleProofs E2E.SpecProofs
  E2E.CapCompose E2E.CapProofs E2E.CapExamples.
Import ListNotations.
Local Open Scope nat_scope.

(* ---------------------------------------------------------------------------------------------------------- *)
(* (1) THE statement.  If the task produces a table for max-value-coverage (any cap >= 1), then: at least one batch was
   processed and every batch has its selection; the table is ascending in score with one row per ordered pair; (a, b) has a
   row IFF it is requested by the mode AND the sampler selected {a, b} in at least one batch, and then its score is the
   median of the batch scores over EXACTLY the batches that selected it (both orientations carry the same batches); each
   batch score is the exact maximal joint-value frequency n_uv / n of the two cell columns of that batch. *)
Theorem E2Ecap_spec : forall c header ps t,
  e2ecap_core c header ps = Some t -> Combos.is_const (g_heur c) = false ->
  let tables := batch_tables c header ps in
  let D := common_den (e2e_batches c header ps) in
  tables <> [] /\ D <> 0%N /\ Forall (fun rows => rows <> [] /\ (N.of_nat (length rows) | D)%N) tables /\
  length (cap_sels c header ps) = length tables /\
  StronglySorted (fun r1 r2 : list N * list N * Q => Qle (snd r1) (snd r2)) t /\
  NoDup (map fst t) /\
  (forall a b q, In (a, b, q) t <->
     requested c header a b /\ contributing c header ps a b <> [] /\
     q = Qmake (median2 (map (fun rows => Z.of_N (pair_num header D rows a b)) (contributing c header ps a b))) (den_pos D)) /\
  (forall a b, requested c header a b -> requested c header b a) /\
  (forall a b, contributing c header ps a b = contributing c header ps b a /\ incl (contributing c header ps a b) tables) /\
  (forall rows a b, In rows tables ->
     Qeq (Z.of_N (pair_num header D rows a b) # npos D) (cells_cov (column header rows a) (column header rows b)) /\
     is_max_cov (column header rows a) (column header rows b) (cells_cov (column header rows a) (column header rows b))).
Proof. exact e2ecap_spec. Qed.

(* what [contributing] is, spelled out (definitional): the batch tables paired with the batch selections, filtered by
   "the selection holds (a, b) or (b, a)" *)
Theorem E2Ecap_contributing_def : forall c header ps a b,
  contributing c header ps a b =
  map fst (filter (fun ts => Combos.umemb (a, b) (snd ts)) (combine (batch_tables c header ps) (cap_sels c header ps))) /\
  (forall sel, Combos.umemb (a, b) sel = true <-> In (a, b) sel \/ In (b, a) sel).
Proof. exact (fun c header ps a b => conj eq_refl (fun sel => CombosProofs.umemb_uin (a, b) sel)). Qed.

(* Constant: the candidates selected at least once, each once, in the listed orientation, score 0 *)
Theorem E2Ecap_spec_constant : forall c header ps t,
  e2ecap_core c header ps = Some t -> Combos.is_const (g_heur c) = true ->
  batch_tables c header ps <> [] /\
  NoDup (map fst t) /\
  (forall a b q, In (a, b, q) t <->
     In (a, b) (cap_cands c header) /\ (exists sel, In sel (cap_sels c header ps) /\ In (a, b) sel) /\
     q = Qmake 0 (den_pos (common_den (e2e_batches c header ps)))) /\
  (forall a b, CombosProofs.uin (a, b) (cap_cands c header) <-> requested c header a b).
Proof. exact e2ecap_spec_constant. Qed.

(* (2) fairness (C07_model_fair instantiated: the candidate list is one stable duplicate-free list): the numbers of
   batches contributing to the medians of two requested pairs differ by at most one *)
Theorem E2Ecap_fair : forall c header ps t, e2ecap_core c header ps = Some t ->
  (forall a b a' b', requested c header a b -> requested c header a' b' ->
     length (contributing c header ps a b) <= S (length (contributing c header ps a' b'))) /\
  (forall p q, In p (cap_cands c header) -> In q (cap_cands c header) ->
     nsel (cap_sels c header ps) p <= S (nsel (cap_sels c header ps) q)).
Proof. exact e2ecap_fair. Qed.

(* (3) the reported counts (combination_estimation_counts.json): exactly the candidates, each once, with the number of
   batches that selected it = the number of batches contributing to its median; the counter is a history of C07's relation
   (C07_counts_are_selections applies to it) *)
Theorem E2Ecap_counts : forall c header ps t, e2ecap_core c header ps = Some t ->
  (forall p n, In (p, n) (cap_counts c header ps) <->
     In p (cap_cands c header) /\ n = nsel (cap_sels c header ps) p) /\
  NoDup (map fst (cap_counts c header ps)) /\
  (forall p, In p (cap_cands c header) ->
     Sampler.get (cap_counter c header ps) (Combos.pidx (cap_cands c header) p) = nsel (cap_sels c header ps) p /\
     nsel (cap_sels c header ps) p = length (contributing c header ps (fst p) (snd p))) /\
  SamplerProofs.hist (fst (cap_sampler c header (nbatches c header ps))) (Sampler.get (cap_counter c header ps)).
Proof. exact e2ecap_counts. Qed.

(* (4) cap >= #candidates: the extension equals the existing model, so Props/E2E.v is the special case *)
Theorem E2Ecap_nonbinding : forall c header ps,
  (Z.of_nat (length (cap_cands c header)) <= g_cap c)%Z -> e2ecap_core c header ps = e2e_core c header ps.
Proof. exact cap_nonbinding_eq. Qed.

(* the selections batch by batch: C06's select_run (= C07's step on the candidate positions, counter threaded from the
   empty counter); each is a sub-list of the candidates without repetition, of length min(#candidates, cap); the counter
   stays inside C07's [reach] (C07_fair applies); and at every batch a selected candidate has been selected no more often
   before than an unselected one (least-evaluated first) *)
Theorem E2Ecap_selections : forall c header ps, NoDup header ->
  let cands := cap_cands c header in let sels := cap_sels c header ps in
  sels = Combos.select_run [] cands (g_cap c) (nbatches c header ps) /\
  length sels = nbatches c header ps /\
  Forall (fun sel => CombosProofs.selected_ok cands (g_cap c) sel /\ incl sel cands /\ NoDup sel /\
                     ((0 <= g_cap c)%Z -> length sel = Nat.min (length cands) (Z.to_nat (g_cap c)))) sels /\
  SamplerProofs.reach (cap_ids cands) (Sampler.get (cap_counter c header ps)) /\
  (forall i p q, (i < nbatches c header ps)%nat -> In p (nth i sels []) -> In q cands -> ~ In q (nth i sels []) ->
     nsel (firstn i sels) p <= nsel (firstn i sels) q).
Proof. exact e2ecap_selections. Qed.

(* random.shuffle of the selected list does not reach the table *)
Theorem E2Ecap_shuffle_independent : forall c header ps (evl : list (list Combos.pair)),
  Forall2 (@Permutation _) evl (cap_sels c header ps) ->
  final_table (all_rows_ev c header ps evl) = final_table (cap_all_rows c header ps).
Proof. exact cap_shuffle_independent. Qed.

(* the rows of a batch: Compose's batch rows are the instance "every candidate selected" *)
Theorem E2Ecap_batch_rows_instance : forall c header D rows,
  batch_triplets c header D rows = batch_triplets_sel c header D rows (cap_cands c header).
Proof. exact batch_triplets_is_sel. Qed.

(* the text layer is Compose's: the run on a text is the run on (header, parsed physical lines); on a rendered table it
   is the run on the table *)
Theorem E2Ecap_text_run : forall c text,
  e2ecap_run c text = e2ecap_core c (Accept.csv_raw_header text) (map Csv.parse (tl (phys_lines text))).
Proof. exact cap_text_run. Qed.

Theorem E2Ecap_wellformed_run : forall c (names : list (list N)) (rows : list (list (list N))),
  names <> [] -> Forall (none (fun ch => (ch =? COMMA)%N || is_nl ch)) names -> edge_clean (join_with [COMMA] names) ->
  Forall (fun r => r <> [] /\ Forall (none is_nl) r) rows -> Forall (Forall CsvProofs.flen_ok) rows ->
  e2ecap_run c (render_file names rows) = e2ecap_core c names (map Some rows).
Proof. exact cap_wellformed_run. Qed.

(* ---------------------------------------------------------------------------------------------------------- *)
(* THE RELATIONAL STATEMENTS.  Property C07 leaves the tie-breaking among equally often evaluated candidates free, so the
   end-to-end statement must hold for EVERY admissible history of per-batch selections, not only for the transcription
   Sampler.step.  [isels] = the selections as candidate ids (positions in cap_cands), one list per processed batch;
   [sels_ok c header ps isels] = one selection per batch and C07's checker accepts every step against the counts the
   selections themselves imply; [e2ecap_core_sel c header ps isels] = the table when batch k evaluates [nth k isels];
   [contributing_sel c header ps sels a b] = the tables of exactly the batches whose selection holds {a, b}. *)

Theorem E2Ecap_sels_ok_def : forall c header ps isels,
  sels_ok c header ps isels =
  (Nat.eqb (length isels) (nbatches c header ps)
   && Sampler.valid_runb [] (map (fun cp : Z => (cap_ids (cap_cands c header), cp)) (repeat (g_cap c) (nbatches c header ps)))
                         (Sampler.derived_obs [] isels))%bool.
Proof. exact (fun c header ps isels => eq_refl). Qed.

(* (a) for every admissible selection history: sorted, one row per ordered pair, a row IFF requested and selected in at
   least one batch, score = median over exactly the batches that selected it *)
Theorem E2Ecap_spec_rel : forall c header ps isels t,
  sels_ok c header ps isels = true -> e2ecap_core_sel c header ps isels = Some t -> Combos.is_const (g_heur c) = false ->
  let tables := batch_tables c header ps in
  let D := common_den (e2e_batches c header ps) in
  let sels := sel_pairs c header isels in
  tables <> [] /\ D <> 0%N /\ Forall (fun rows => rows <> [] /\ (N.of_nat (length rows) | D)%N) tables /\
  length isels = length tables /\
  StronglySorted (fun r1 r2 : list N * list N * Q => Qle (snd r1) (snd r2)) t /\
  NoDup (map fst t) /\
  (forall a b q, In (a, b, q) t <->
     requested c header a b /\ contributing_sel c header ps sels a b <> [] /\
     q = Qmake (median2 (map (fun rows => Z.of_N (pair_num header D rows a b)) (contributing_sel c header ps sels a b))) (den_pos D)) /\
  (forall a b, requested c header a b -> requested c header b a) /\
  (forall a b, contributing_sel c header ps sels a b = contributing_sel c header ps sels b a /\
               incl (contributing_sel c header ps sels a b) tables) /\
  (forall rows a b, In rows tables ->
     Qeq (Z.of_N (pair_num header D rows a b) # npos D) (cells_cov (column header rows a) (column header rows b)) /\
     is_max_cov (column header rows a) (column header rows b) (cells_cov (column header rows a) (column header rows b))).
Proof. exact e2ecap_spec_rel. Qed.

Theorem E2Ecap_spec_constant_rel : forall c header ps isels t,
  sels_ok c header ps isels = true -> e2ecap_core_sel c header ps isels = Some t -> Combos.is_const (g_heur c) = true ->
  batch_tables c header ps <> [] /\
  NoDup (map fst t) /\
  (forall a b q, In (a, b, q) t <->
     In (a, b) (cap_cands c header) /\ (exists sel, In sel (sel_pairs c header isels) /\ In (a, b) sel) /\
     q = Qmake 0 (den_pos (common_den (e2e_batches c header ps)))).
Proof. exact e2ecap_spec_constant_rel. Qed.

(* (b) fairness for every admissible history (C07_selection_history_fair instantiated) *)
Theorem E2Ecap_fair_rel : forall c header ps isels t,
  sels_ok c header ps isels = true -> e2ecap_core_sel c header ps isels = Some t ->
  let sels := sel_pairs c header isels in
  (forall a b a' b', requested c header a b -> requested c header a' b' ->
     length (contributing_sel c header ps sels a b) <= S (length (contributing_sel c header ps sels a' b'))) /\
  (forall p q, In p (cap_cands c header) -> In q (cap_cands c header) -> nsel sels p <= S (nsel sels q)) /\
  (forall i j, In i (cap_ids (cap_cands c header)) -> In j (cap_ids (cap_cands c header)) ->
     Sampler.sel_count isels i <= S (Sampler.sel_count isels j)).
Proof. exact e2ecap_fair_rel. Qed.

(* (c) the counts the JSON must report: every candidate once with Sampler.sel_count of its id = the number of batches
   contributing to its median; C07's report checker accepts that table (C07_report_sound applies) *)
Theorem E2Ecap_counts_rel : forall c header ps isels t,
  sels_ok c header ps isels = true -> e2ecap_core_sel c header ps isels = Some t ->
  let sels := sel_pairs c header isels in
  (forall k, Sampler.get (cap_counter_sel c header isels) k = Sampler.sel_count isels k) /\
  Sampler.reportb isels (cap_counter_sel c header isels) = true /\
  (forall p n, In (p, n) (cap_counts_sel c header isels) <-> In p (cap_cands c header) /\ n = nsel sels p) /\
  map fst (cap_counts_sel c header isels) = cap_cands c header /\
  (forall p, In p (cap_cands c header) ->
     nsel sels p = Sampler.sel_count isels (Combos.pidx (cap_cands c header) p) /\
     nsel sels p = length (contributing_sel c header ps sels (fst p) (snd p))).
Proof. exact e2ecap_counts_rel. Qed.

(* (d) the deterministic model (selections computed by Sampler.step) is ONE admissible instance: E2Ecap_spec / _fair /
   _counts above are the relational statements at this instance *)
Theorem E2Ecap_sel_instance : forall c header ps,
  let isels := fst (cap_sampler c header (nbatches c header ps)) in
  sels_ok c header ps isels = true /\
  e2ecap_core_sel c header ps isels = e2ecap_core c header ps /\
  sel_pairs c header isels = cap_sels c header ps /\
  (forall a b, contributing_sel c header ps (sel_pairs c header isels) a b = contributing c header ps a b) /\
  (forall k, Sampler.sel_count isels k = Sampler.get (cap_counter c header ps) k).
Proof. exact e2ecap_sel_instance. Qed.

(* C07's boolean checker is complete for the relation (soundness is C07_checker_sound): an admissible step is never rejected *)
Theorem E2Ecap_checker_complete : forall s L cap sel s',
  Sampler.valid_step (Sampler.get s) L cap sel (Sampler.get s') -> Sampler.valid_stepb s L cap sel s' = true.
Proof. exact valid_stepb_complete. Qed.

(* (5) non-vacuity: 3 feature columns + label, 4 batches of 2 rows; target-only mode with cap 3 of 4 candidates (the
   table differs from the non-binding one), pairwise mode with cap 2 of 10 candidates (2 candidates never evaluated: absent
   from the table, 0 in the counts), Constant with cap 3 *)
Definition E2Ecap_examples := (ex_cap_binding, ex_cap_sels, ex_cap_run, ex_cap_contributing, ex_cap_changes_table, ex_cap_counts,
                               ex_cap_pairwise, ex_cap_const, ex_cap_spec_hypotheses, ex_cap_zero,
                               ex_rel_instance, ex_rel_other_ties, ex_rel_rejected).

Print Assumptions E2Ecap_spec.
Print Assumptions E2Ecap_contributing_def.
Print Assumptions E2Ecap_spec_constant.
Print Assumptions E2Ecap_fair.
Print Assumptions E2Ecap_counts.
Print Assumptions E2Ecap_nonbinding.
Print Assumptions E2Ecap_selections.
Print Assumptions E2Ecap_shuffle_independent.
Print Assumptions E2Ecap_batch_rows_instance.
Print Assumptions E2Ecap_text_run.
Print Assumptions E2Ecap_wellformed_run.
Print Assumptions E2Ecap_sels_ok_def.
Print Assumptions E2Ecap_spec_rel.
Print Assumptions E2Ecap_spec_constant_rel.
Print Assumptions E2Ecap_fair_rel.
Print Assumptions E2Ecap_counts_rel.
Print Assumptions E2Ecap_sel_instance.
Print Assumptions E2Ecap_checker_complete.
Print Assumptions E2Ecap_examples.
