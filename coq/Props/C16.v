(* C16 — line parsers keep every field in its column and never mis-align.
   Only statements here; each is closed by [exact] of a lemma of IO/*Proofs.v.
   Strings are lists of Unicode code points (N).  Models (IO/Str.v Csv.v Tsv.v Vw.v Namespace.v Accept.v)
   are transcriptions of outrank/core_utils.py (parse_ob_line, parse_ob_csv_line = csv.reader default
   dialect, parse_ob_line_vw, generic_line_parser, parse_namespace) and of the validity test in
   estimate_importances_minibatches; the harness holds them to the code on every run.
   Predicates:  none p s  = no character of s satisfies p;   all p s = every character does;
   edge_clean s = s neither starts nor ends with a white-space character (s.strip() == s). *)
From Coq Require Import List NArith Bool.
From Outrank Require Import IO.Str IO.StrProofs IO.Csv IO.CsvProofs IO.Tsv IO.TsvProofs
  IO.Namespace IO.NamespaceProofs IO.Vw IO.VwProofs IO.Accept IO.AcceptProofs.
Import ListNotations.
Open Scope N_scope.

(* ---------------- format dispatch ---------------- *)

(* NB: this one is model = model (it unfolds the model's dispatch; proof by computation).  It only documents
   which parser the MODEL uses per source; that the CODE dispatches the same way is established by the
   correspondence run (generic_line_parser vs the specific parse function on every generated line). *)

Theorem C16_generic_dispatch : forall delim fw header line,
  generic_line_parser ObRawDump delim fw header line = Row (map Some (parse_tsv delim line)) /\
  generic_line_parser ObVw delim fw header line = Row (parse_vw fw header line) /\
  generic_line_parser CsvRaw delim fw header line = generic_line_parser ObCsv delim fw header line /\
  generic_line_parser CsvRaw delim fw header line =
    match Csv.parse line with Some fs => Row (map Some fs) | None => ParseError end.
Proof. intros. repeat split. Qed.

(* ---------------- tab-separated ---------------- *)

(* cells are arbitrary strings without tab / CR / LF; empty cells anywhere, first and last included *)
Theorem C16_tsv : forall cells : list (list N),
  cells <> [] ->
  Forall (none (fun x => (x =? TAB) || is_nl x)) cells ->
  parse_tsv TAB (join_with [TAB] cells ++ [LF]) = cells.
Proof. exact tsv_roundtrip. Qed.

(* any one-character delimiter, any terminator made of CR / LF (LF, CR LF, none at end of file) *)
Theorem C16_tsv_any_terminator : forall delim (cells : list (list N)) term,
  is_nl delim = false -> all is_nl term -> cells <> [] ->
  Forall (none (fun x => (x =? delim) || is_nl x)) cells ->
  parse_tsv delim (join_with [delim] cells ++ term) = cells.
Proof. exact tsv_roundtrip_term. Qed.

(* such rows are exactly the physical lines the text-mode file iterator yields *)
Theorem C16_tsv_physical_lines : forall delim (rows : list (list (list N))),
  is_nl delim = false -> Forall (Forall (none (fun x => (x =? delim) || is_nl x))) rows ->
  phys_lines (concat (map (render_tsv delim) rows)) = map (render_tsv delim) rows.
Proof. exact tsv_one_physical_line. Qed.

(* the behaviour before fix f0c9429 (line.strip()): the witness TAB b TAB c LF loses its empty first field *)
Theorem C16_tsv_prefix_refuted :
  exists cells : list (list N), cells <> [] /\ Forall (none (fun x => (x =? TAB) || is_nl x)) cells /\
    parse_tsv_old TAB (render_tsv TAB cells) <> cells /\
    length (parse_tsv_old TAB (render_tsv TAB cells)) <> length cells.
Proof. exact tsv_old_refuted. Qed.

(* ... and with the count intact, edge cells lose their blanks *)
Theorem C16_tsv_prefix_refuted_blanks :
  exists cells : list (list N), Forall (none (fun x => (x =? TAB) || is_nl x)) cells /\
    length (parse_tsv_old TAB (render_tsv TAB cells)) = length cells /\
    parse_tsv_old TAB (render_tsv TAB cells) <> cells.
Proof. exact tsv_old_refuted_blanks. Qed.

(* ---------------- CSV ---------------- *)

(* flen_ok c : N.of_nat (length c) <= field_limit = 131072, the reader's csv.field_size_limit();
   one character more and the reader raises Error (C16_csv_limit_exceeded), which the streaming loop
   does not catch.  Within the limit the contents are arbitrary: delimiters, quotes, even line breaks
   inside (quoted) cells; no further hypothesis at the level of the line parser. *)
Theorem C16_csv : forall cells : list (list N),
  cells <> [] -> Forall flen_ok cells -> Csv.parse (Csv.render cells ++ [LF]) = Some cells.
Proof. exact roundtrip. Qed.

Theorem C16_csv_any_terminator : forall (cells : list (list N)) term,
  cells <> [] -> Forall flen_ok cells -> forallb is_nl term = true -> Csv.parse (Csv.render cells ++ term) = Some cells.
Proof. exact roundtrip_term. Qed.

(* well-formed lines are not only the image of the QUOTE_MINIMAL writer: every field may be quoted although
   it need not be (flag true), as QUOTE_ALL / QUOTE_NONNUMERIC / spreadsheet exports do; fields that must
   be quoted are quoted whatever the flag says.  render_q row = the fields rendered with those choices. *)
Theorem C16_csv_any_quoting : forall (row : list (bool * list N)) term,
  row <> [] -> Forall flen_ok (map snd row) -> forallb is_nl term = true ->
  Csv.parse (Csv.render_q row ++ term) = Some (map snd row).
Proof. exact roundtrip_q_term. Qed.

Theorem C16_csv_any_quoting_physical_lines : forall rows : list (list (bool * list N)),
  Forall (fun row => Forall (none is_nl) (map snd row)) rows ->
  phys_lines (concat (map (fun r => Csv.render_q r ++ [LF]) rows)) = map (fun r => Csv.render_q r ++ [LF]) rows.
Proof. exact csv_physical_lines_q. Qed.

(* the limit is tight *)
Theorem C16_csv_limit_exceeded : forall c term, special c = false ->
  Csv.parse (repeat c (N.to_nat field_limit + 1) ++ term) = None.
Proof. exact limit_exceeded. Qed.

(* what the real pipeline needs in addition, because it hands PHYSICAL lines to the parser: no cell
   contains CR or LF.  Then every record is one physical line. *)
Theorem C16_csv_physical_lines : forall rows : list (list (list N)),
  Forall (Forall (none is_nl)) rows ->
  phys_lines (concat (map (fun r => Csv.render r ++ [LF]) rows)) = map (fun r => Csv.render r ++ [LF]) rows.
Proof. exact csv_physical_lines. Qed.

(* the hypothesis cannot be dropped: the legal record  x,"y LF z,w"  becomes two physical lines that both
   have two fields (so both pass a two-column validity test) with wrong cells *)
Theorem C16_csv_linebreak_hypothesis_needed :
  exists row : list (list N),
    length row = 2%nat /\ Csv.parse (Csv.render row ++ [LF]) = Some row /\
    exists r1 r2, map Csv.parse (phys_lines (Csv.render row ++ [LF])) = [Some r1; Some r2] /\
                  length r1 = 2%nat /\ length r2 = 2%nat /\ r1 <> row /\ r2 <> row.
Proof. exact csv_linebreak_hypothesis_needed. Qed.

(* splitting on ',' instead of running the reader shifts columns *)
Theorem C16_csv_naive_refuted :
  exists row : list (list N), Forall (none is_nl) row /\ Csv.parse (Csv.render row ++ [LF]) = Some row /\
    parse_naive (Csv.render row ++ [LF]) <> row /\ length (parse_naive (Csv.render row ++ [LF])) <> length row.
Proof. exact csv_naive_refuted. Qed.

(* ---------------- VW ---------------- *)

(* wf_vw l: label, extra tokens, namespace ids and tokens are words (non-empty, no ' ', no '|', not
   starting/ending with white space); tokens are separated by one or more spaces, parts by '|'.
   Result: the label, then for every header column the cell vw_cell = the joined tokens of the LAST
   namespace of the line whose id maps to that column, minus the first two characters; None otherwise. *)
Theorem C16_vw : forall fw header l, wf_vw l ->
  parse_vw fw header (render_vw l) = Some (vl_label l) :: map (vw_cell fw (vl_nss l)) (tl header).
Proof. exact parse_vw_spec. Qed.

Theorem C16_vw_present : forall fw nss ns el,
  In ns nss -> dict_get (ns_id ns) fw = Some el ->
  (forall ns', In ns' nss -> dict_get (ns_id ns') fw = Some el -> ns' = ns) ->
  vw_cell fw nss el = Some (skipn 2 (join_with [DASH] (map snd (ns_toks ns)))).
Proof. exact vw_cell_present. Qed.

Theorem C16_vw_absent : forall fw nss el,
  (forall ns, In ns nss -> dict_get (ns_id ns) fw <> Some el) -> vw_cell fw nss el = None.
Proof. exact vw_cell_absent. Qed.

(* INTERPRETATION of "without their two-character prefix": two characters are removed from the JOINED
   string (x[2:] after '-'.join), i.e. only the first token loses a prefix; tokens c_x c_y give x-c_y *)
Theorem C16_vw_prefix_is_of_joined_string :
  (forall (t1 : list N) ts, (2 <= length t1)%nat -> ts <> [] ->
     skipn 2 (join_with [DASH] (t1 :: ts)) = skipn 2 t1 ++ [DASH] ++ join_with [DASH] ts) /\
  (exists fw header l, wf_vw l /\
     map snd (flat_map ns_toks (vl_nss l)) = [[99; 95; 120]; [99; 95; 121]] /\
     parse_vw fw header (render_vw l) = [Some [49]; Some [120; 45; 99; 95; 121]]).
Proof. exact vw_prefix_is_of_joined_string. Qed.

(* every VW row has as many cells as the header: the field-count test can never reject an ob-vw line *)
Theorem C16_vw_never_rejected : forall fw header line,
  header <> [] -> length (parse_vw fw header line) = length header.
Proof. exact vw_row_length. Qed.

(* ---------------- field-count validity test ---------------- *)

(* one step: the row is appended unmodified iff its field count equals the header's; otherwise the
   buffer (and the emitted batches) are unchanged and the invalid counter grows by one *)
Theorem C16_reject_whole : forall ncols s r,
  (length r = ncols ->
     accept_step ncols s r = mk_l (buf s ++ [r]) (emitted s) (invalid s) (crashed s)) /\
  (length r <> ncols ->
     accept_step ncols s r = mk_l (buf s) (emitted s) (invalid s + 1) (crashed s)).
Proof. exact accept_step_spec. Qed.

(* the loop: rows entering the mini-batches = the parsed rows with the header's count, in order *)
Theorem C16_accepted_rows_are_the_matching_rows : forall parser ncols bsize lines rows s,
  map parser lines = map Row rows -> crashed s = false ->
  let s' := fold_left (loop_step parser ncols bsize) lines s in
  accepted_rows s' = accepted_rows s ++ filter (accept ncols) rows /\
  invalid s' = invalid s + N.of_nat (length (rejected ncols rows)) /\
  crashed s' = false.
Proof. exact loop_rows. Qed.

(* end to end on a file: header line, then writer-style records (any quoting) whose cells have no line
   break and respect the field size limit.
   SCOPE of accepted_rows / run_loop: subsampling = 1 (every line is looked at; the subsampling stride is
   C08's), and accepted_rows = rows that passed the validity test, INCLUDING the remainder left in the buffer
   after the last line.  The code processes that remainder only when it has more than 2**10 rows (then its
   first bsize rows) and drops it otherwise: C16_processed_rows states exactly which accepted rows reach
   a processed mini-batch. *)
Theorem C16_stream_csv : forall src delim fw hdr bsize hline (rows : list (list (bool * list N))),
  src = CsvRaw \/ src = ObCsv -> none is_nl hline ->
  Forall (fun r => r <> [] /\ Forall (none is_nl) (map snd r) /\ Forall flen_ok (map snd r)) rows ->
  let text := hline ++ LF :: concat (map (fun r => Csv.render_q r ++ [LF]) rows) in
  let s := run_loop (generic_line_parser src delim fw hdr) (length hdr) bsize text in
  accepted_rows s = map (fun r => map Some (map snd r)) (filter (fun r => Nat.eqb (length r) (length hdr)) rows) /\
  invalid s = N.of_nat (length (filter (fun r => negb (Nat.eqb (length r) (length hdr))) rows)) /\
  crashed s = false.
Proof. exact stream_csv. Qed.

(* rows that actually reach compute_batch_ranking (batches_seen) = the accepted rows minus the dropped tail
   (the whole remainder when it has at most 2**10 rows, else what lies beyond its first bsize rows) *)
Theorem C16_processed_rows : forall bsize s, crashed s = false ->
  concat (batches_seen bsize s) ++
    (if 1024 <? N.of_nat (length (buf s)) then skipn bsize (buf s) else buf s) = accepted_rows s.
Proof. exact batches_seen_spec. Qed.

Theorem C16_stream_tsv : forall delim fw hdr bsize hline (rows : list (list (list N))),
  is_nl delim = false -> none is_nl hline ->
  Forall (fun r => r <> [] /\ Forall (none (fun x => (x =? delim) || is_nl x)) r) rows ->
  let text := hline ++ LF :: concat (map (render_tsv delim) rows) in
  let s := run_loop (generic_line_parser ObRawDump delim fw hdr) (length hdr) bsize text in
  accepted_rows s = map (map Some) (filter (fun r => Nat.eqb (length r) (length hdr)) rows) /\
  invalid s = N.of_nat (length (filter (fun r => negb (Nat.eqb (length r) (length hdr))) rows)) /\
  crashed s = false.
Proof. exact stream_tsv. Qed.

(* ---------------- namespace map ---------------- *)

(* wf_decl d: fields without ',' / CR / LF, the written line neither starts nor ends with white space,
   and a declaration WITHOUT type has no '_' in its id.
   mapping = last declaration per id; keys in order of first declaration (this is the VW column order);
   float set = exactly the features some declaration gives type f32 *)
Theorem C16_namespace : forall decls : list decl, Forall wf_decl decls ->
  let r := parse_namespace (concat (map render_decl decls)) in
  (forall id, dict_get id (snd r) = assoc_last id (map (fun d => (d_id d, d_feat d)) decls)) /\
  dict_keys (snd r) = keys_first (map d_id decls) /\
  (forall f, In f (fst r) <-> exists d, In d decls /\ d_feat d = f /\ d_ty d = Some F32) /\
  NoDup (fst r).
Proof. exact parse_namespace_spec. Qed.

(* one line *)
Theorem C16_namespace_line : forall st d, wf_decl d ->
  ns_step st (render_decl d) =
  (match d_ty d with
   | Some ty => if str_eqb ty F32 then set_add (d_feat d) (fst st) else fst st
   | None => fst st
   end, dict_set (d_id d) (d_feat d) (snd st)).
Proof. exact ns_step_render. Qed.

(* the quirk: "id,feature" with '_' in the id is skipped silently (taken as the format) *)
Theorem C16_namespace_underscore_quirk : forall st id feat,
  Forall (none (fun c => (c =? COMMA) || is_nl c)) [id; feat] -> edge_clean (join_with [COMMA] [id; feat]) ->
  mem USCORE id = true ->
  ns_step st (render_decl (id, feat, None)) = st.
Proof. exact ns_step_underscore_skipped. Qed.

(* lines with another number of fields change nothing *)
Theorem C16_namespace_other_counts : forall st line,
  length (split_on COMMA (strip_ws line)) <> 2%nat -> length (split_on COMMA (strip_ws line)) <> 3%nat ->
  ns_step st line = st.
Proof. exact ns_step_other_counts. Qed.

(* non-vacuity: concrete inputs satisfying the hypotheses (the Examples live next to the lemmas) *)
Definition C16_examples := (tsv_nonvacuous, csv_nonvacuous, csv_quoted_nonvacuous, vw_nonvacuous, namespace_nonvacuous, stream_nonvacuous).

Print Assumptions C16_generic_dispatch.
Print Assumptions C16_tsv.
Print Assumptions C16_tsv_any_terminator.
Print Assumptions C16_tsv_physical_lines.
Print Assumptions C16_tsv_prefix_refuted.
Print Assumptions C16_tsv_prefix_refuted_blanks.
Print Assumptions C16_csv.
Print Assumptions C16_csv_any_terminator.
Print Assumptions C16_csv_any_quoting.
Print Assumptions C16_csv_any_quoting_physical_lines.
Print Assumptions C16_csv_limit_exceeded.
Print Assumptions C16_vw_prefix_is_of_joined_string.
Print Assumptions C16_processed_rows.
Print Assumptions C16_csv_physical_lines.
Print Assumptions C16_csv_linebreak_hypothesis_needed.
Print Assumptions C16_csv_naive_refuted.
Print Assumptions C16_vw.
Print Assumptions C16_vw_present.
Print Assumptions C16_vw_absent.
Print Assumptions C16_vw_never_rejected.
Print Assumptions C16_reject_whole.
Print Assumptions C16_accepted_rows_are_the_matching_rows.
Print Assumptions C16_stream_csv.
Print Assumptions C16_stream_tsv.
Print Assumptions C16_namespace.
Print Assumptions C16_namespace_line.
Print Assumptions C16_namespace_underscore_quirk.
Print Assumptions C16_namespace_other_counts.
Print Assumptions C16_examples.
