(* C15 — frequency sketches err on one side only.
   Only statements here; each is closed by [exact] of a lemma of Sketch/CMSProofs.v or
   Sketch/BoundedProofs.v.

   Count-min sketch (Sketch/CMS.v): [pre i x] is the hash oracle (the value cms_hash reduces
   modulo the width) — the theorems hold for EVERY function, every depth and every width >= 1.
   [flat ops] is the stream of (item, weight) that a list of add / batch_add calls stands for.
   Bounded counter (Sketch/Bounded.v): [crun bound l] feeds the items of [l] one by one. *)
From Coq Require Import List ZArith NArith Arith Bool.
From Outrank Require Import Sketch.CMS Sketch.CMSProofs Sketch.Bounded Sketch.BoundedProofs.
Import ListNotations.
Open Scope Z_scope.

(* ---- count-min ---- *)

(* an estimate never falls below the true accumulated weight of the item ... *)
Theorem C15_lower : forall depth width pre ops x q, (1 <= width)%nat -> nonneg (flat ops) ->
  query depth width pre (run depth width pre ops) x = Some q -> true_weight x (flat ops) <= q.
Proof. intros depth width pre ops x q Hw Hn Hq. exact (proj1 (query_bounds depth width pre Hw ops x q Hn Hq)). Qed.

(* ... and never exceeds the total weight added *)
Theorem C15_upper : forall depth width pre ops x q, (1 <= width)%nat -> nonneg (flat ops) ->
  query depth width pre (run depth width pre ops) x = Some q -> q <= total (flat ops).
Proof. intros depth width pre ops x q Hw Hn Hq. exact (proj2 (query_bounds depth width pre Hw ops x q Hn Hq)). Qed.

(* with at least one row the query is defined (Python's min() of an empty sequence raises) *)
Theorem C15_defined : forall depth width pre M x, (1 <= depth)%nat -> exists q, query depth width pre M x = Some q.
Proof. exact query_defined. Qed.

(* the estimate is the minimum over the rows of the cell the UPDATE side wrote for that item *)
Theorem C15_query_is_min : forall depth width pre M x q, query depth width pre M x = Some q ->
  In q (probes depth width pre M x) /\ Forall (fun b => q <= b) (probes depth width pre M x).
Proof. exact query_is_min. Qed.

(* each sketch row sums to the total weight (no sign hypothesis needed) *)
Theorem C15_rows : forall depth width pre ops i, (1 <= width)%nat -> (i < depth)%nat ->
  rowsum (run depth width pre ops) i = total (flat ops).
Proof. intros depth width pre ops i Hw Hi. exact (rows_total depth width pre Hw ops i Hi). Qed.

(* every cell holds exactly the weight of the stream elements hashing to it; cells nothing hashes to are 0 *)
Theorem C15_cell : forall depth width pre ops i j, (1 <= width)%nat -> (i < depth)%nat ->
  cell (run depth width pre ops) i j = cell_weight width pre i j (flat ops).
Proof. intros depth width pre ops i j Hw Hi. exact (cell_char depth width pre Hw ops i j Hi). Qed.

Theorem C15_support : forall depth width pre ops i j, (1 <= width)%nat -> (i < depth)%nat ->
  cell (run depth width pre ops) i j <> 0 -> exists e, In e (flat ops) /\ loc width pre i (fst e) = j.
Proof. intros depth width pre ops i j Hw Hi. exact (cell_support depth width pre Hw ops i j Hi). Qed.

Theorem C15_shape : forall depth width pre ops, (1 <= width)%nat ->
  length (run depth width pre ops) = depth /\
  forall i, (i < depth)%nat -> length (nth i (run depth width pre ops) []) = width.
Proof. intros depth width pre ops Hw. exact (shape depth width pre Hw ops). Qed.

(* the checker evaluated on implementation outputs is sound, and the model passes it *)
Theorem C15_check_sound : forall depth items s qs rs,
  check1 depth items s qs rs = true -> clause1 depth items s qs rs.
Proof. exact check1_sound. Qed.

Theorem C15_model_ok : forall depth width pre items ops, (1 <= width)%nat -> (1 <= depth)%nat -> nonneg (flat ops) ->
  checkb depth items [] ops (map (model_obs depth width pre items) (trace width pre (init depth width) ops)) = true.
Proof. intros depth width pre items ops Hw Hd Hn. exact (model_ok depth width pre Hw items ops Hd Hn). Qed.

(* ---- bounded exact counter, fed item by item ---- *)

(* never over-counts *)
Theorem C15_b_no_over : forall bound l v, 0 <= get (crun bound l) v <= occ v l.
Proof. exact no_over. Qed.

(* exact while fewer than [bound] distinct values have been seen *)
Theorem C15_b_exact : forall bound l v, Z.of_nat (distinct l) < bound -> get (crun bound l) v = occ v l.
Proof. exact exact. Qed.

(* ... including the arrival that makes the number of distinct values reach the bound *)
Theorem C15_b_exact_boundary : forall bound l x v, Z.of_nat (distinct l) < bound ->
  get (crun bound (l ++ [x])) v = occ v (l ++ [x]).
Proof. exact exact_boundary. Qed.

(* never tracks more than [bound] distinct values *)
Theorem C15_b_size : forall bound l,
  Z.of_nat (length (crun bound l)) <= Z.max bound 0 /\ NoDup (keys (crun bound l)).
Proof. exact size. Qed.

(* mechanism: once [bound] keys are tracked every further update is refused *)
Theorem C15_b_frozen : forall bound l l', bound <= Z.of_nat (length (crun bound l)) ->
  crun bound (l ++ l') = crun bound l.
Proof. exact frozen. Qed.

(* the same one-sidedness and exactness for mixed add / batch_add streams *)
Theorem C15_b_no_over_ops : forall bound ops v, 0 <= get (crun_ops bound ops) v <= occ v (cflat ops).
Proof. exact no_over_ops. Qed.
Theorem C15_b_exact_ops : forall bound ops v, Z.of_nat (distinct (cflat ops)) < bound ->
  get (crun_ops bound ops) v = occ v (cflat ops).
Proof. exact exact_ops. Qed.

(* limits of the statement, documented by witnesses: batch_add may overshoot the bound (the size
   clause is about item-by-item feeding), and "fewer than" cannot be weakened to "at most" *)
Theorem C15_b_batch_size_refuted : exists bound ops, Z.of_nat (length (crun_ops bound ops)) > Z.max bound 0.
Proof. exact batch_size_refuted. Qed.
Theorem C15_b_exact_at_bound_refuted : exists bound l v,
  Z.of_nat (distinct l) = bound /\ get (crun bound l) v <> occ v l.
Proof. exact exact_at_bound_refuted. Qed.

Theorem C15_b_check_sound : forall bound univ single l c,
  ccheck1 bound univ single l c = true -> cclause bound univ single l c.
Proof. exact ccheck1_sound. Qed.
Theorem C15_b_model_ok : forall bound univ ops,
  forallb (fun b => b) (ccheckb bound univ true [] ops (ctrace bound [] ops)) = true.
Proof. exact cmodel_ok. Qed.

(* ---- observation about the code's hash, NOT part of the property: cms_hash is additive in the seed,
        (uint32(hash x) + seed) mod width; then all depth probes of an item hold the same value, so the
        row-wise minimum equals the value of any single row and depth buys no accuracy ---- *)
Theorem C15_obs_rows_agree : forall depth width h s ops x i i',
  (1 <= width)%nat -> (i < depth)%nat -> (i' < depth)%nat ->
  cell (run depth width (pre_add h s) ops) i (loc width (pre_add h s) i x)
  = cell (run depth width (pre_add h s) ops) i' (loc width (pre_add h s) i' x).
Proof. intros depth width h s ops x i i' Hw. exact (additive_rows_agree depth width h s Hw ops x i i'). Qed.

(* ---- the hypotheses are satisfiable by non-trivial inputs ---- *)
(* width 2, depth 2, a hash that collides: items 1 and 3 share every cell *)
Example C15_ex_cms :
  let pre := fun (i : nat) (x : N) => (x + N.of_nat i)%N in
  let ops := [Add 1%N 2; Batch [3%N; 2%N] 5; Add 1%N 0] in
  (query 2 2 pre (run 2 2 pre ops) 1%N, true_weight 1%N (flat ops), total (flat ops),
   run 2 2 pre ops) = (Some 7, 2, 12, [[5; 7]; [7; 5]]).
Proof. vm_compute. reflexivity. Qed.

Example C15_ex_counter :
  (crun 2 [7%N; 8%N; 7%N; 9%N; 8%N], distinct [7%N; 8%N; 7%N; 9%N; 8%N]) = ([(7%N, 1); (8%N, 1)], 3%nat).
Proof. vm_compute. reflexivity. Qed.

Print Assumptions C15_lower.
Print Assumptions C15_upper.
Print Assumptions C15_rows.
Print Assumptions C15_b_no_over.
Print Assumptions C15_b_exact.
Print Assumptions C15_b_size.
