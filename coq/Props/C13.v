(* C13 — data-quality statistics are exact and independent of the batch split.
   Only statements here; each is closed by [exact] of a lemma of Stats/QualityProofs.v.
   Model (Stats/Quality.v): a history is a list of mini-batches, a batch a list of rows, a row a list
   of cells (code-point strings); [column j b] is input_dataframe[column].values.  Per batch the code
   inserts the SET of truthy values of each column into that column's sketch ([card]; warm phase only,
   [None] = converted, no C13 claim), every cell into the bounded counter ([counter], [hist]), every
   (column, value) cell into the rare-value machine ([rare]; sweep at the end of the batch), and
   records the coverage percentage ([cov_batch]).  [hash] (v |-> internal_hash(str(v))) is an arbitrary function.
   Cells ([val]): a Python str [V s], or what pandas stores for a cell the parser left as None (ob-vw:
   absent namespace): [NaN] when the batch's column also holds strings, [PyNone] when the whole column of
   the batch is None ([frame_raw]).  As in the code: nan/None are never missing-value symbols and the
   coverage denominator is the row count; the sketch takes truthy values ('' and None are skipped, nan is
   hashed as 'nan'); counter and rare-value machine treat nan and None as two further keys.  All theorems
   below hold for arbitrary frame contents.  Parsed rows: through the pipeline absent fields are filled with ''
   ([frame_batch], fix 2ffc0d7) and every history is split independent (C13_split_indep_parsed); for direct calls on
   pandas' own frame ([frame_raw]) it needs None-free histories (C13_split_indep_direct) and fails otherwise
   (C13_none_cells_refuted: function-level / pre-fix pipeline behaviour). *)
From Coq Require Import List ZArith QArith Permutation.
From Outrank Require Import Stats.Quality Stats.QualityProofs.
From Outrank Require Sketch.HLL Sketch.Bounded.
Import ListNotations.
Local Open Scope Z_scope.

(* cardinality, stored counts / repetition histogram and the rare-value report are functions of the
   concatenation of the batches: any two splits of the same rows agree (the report as a set of
   ((column, value), count) entries: dict order is not part of the observable) *)
Theorem C13_split_indep : forall (hash : val -> N) cap edges bound thr ncols (s1 s2 : list batch),
  0 <= cap -> concat s1 = concat s2 ->
  (forall j, card hash cap j s1 = card hash cap j s2) /\
  (forall j, counter bound j s1 = counter bound j s2 /\ hist edges bound j s1 = hist edges bound j s2) /\
  Permutation (rare thr ncols s1) (rare thr ncols s2) /\
  (forall k, get key_eq_dec (rare thr ncols s1) k = get key_eq_dec (rare thr ncols s2) k).
Proof. exact split_indep. Qed.

(* ... in particular for every composition of the row count *)
Theorem C13_compositions : forall (hash : val -> N) cap edges bound thr ncols (rows : list row) sz1 sz2,
  0 <= cap -> list_sum sz1 = length rows -> list_sum sz2 = length rows ->
  (forall j, card hash cap j (cut sz1 rows) = card hash cap j (cut sz2 rows)) /\
  (forall j, hist edges bound j (cut sz1 rows) = hist edges bound j (cut sz2 rows)) /\
  Permutation (rare thr ncols (cut sz1 rows)) (rare thr ncols (cut sz2 rows)).
Proof. exact compositions_agree. Qed.

(* whatever each batch feeds the sketch — its set of values in any order, or the values with
   repetitions — the reported cardinality is [card_spec] of the whole column: the number of distinct
   hashes of its non-empty cells, as long as that is at most the warm-up capacity *)
Theorem C13_card_any_insertion : forall (hash : val -> N) cap (inss : list (list N)) (cols : list (list val)),
  0 <= cap ->
  Forall2 (fun ins col => forall h, In h ins <-> In h (map hash (filter truthy col))) inss cols ->
  sk_len (sk_run cap inss) = card_spec hash cap (concat cols).
Proof. exact card_any_order. Qed.

Theorem C13_card_function_of_rows : forall (hash : val -> N) cap j (bs : list batch), 0 <= cap ->
  card hash cap j bs = card_spec hash cap (column j (concat bs)).
Proof. exact card_is_spec. Qed.

(* hash injective on the non-empty values that occur, at most [cap] of them: the annotation is the
   exact number of distinct non-empty values (the empty string is the only value left out; other
   missing-value markers count as values, as in the code) *)
Theorem C13_card_exact : forall (hash : val -> N) cap j (bs : list batch), 0 <= cap ->
  let col := column j (concat bs) in
  (forall u v, In u col -> In v col -> truthy u = true -> truthy v = true -> hash u = hash v -> u = v) ->
  Z.of_nat (distinct_truthy col) <= cap ->
  card hash cap j bs = Some (distinct_truthy col).
Proof. exact card_exact. Qed.

(* HEADLINE for the repetition histogram, ANY bound and ANY column: the counter holds the exact counts of the prefix of
   the concatenated column up to and including the arrival of the bound-th distinct value ([eff_prefix]; afterwards every
   add is dropped, also for stored keys), and the histogram is the exact histogram of that prefix — a function of the
   concatenation, hence independent of the split (C13_split_indep) *)
Theorem C13_hist_general : forall edges bound j (bs : list batch),
  hist edges bound j bs = hist_general edges bound (column j (concat bs)).
Proof. exact hist_is_general. Qed.

Theorem C13_counter_general : forall bound j (bs : list batch) v,
  get val_eq_dec (counter bound j bs) v = cnt val_eq_dec (eff_prefix bound [] (column j (concat bs))) v.
Proof. exact counter_get_general. Qed.

(* what the counted prefix is: a prefix; if something is left out then bound distinct values are stored; every counted
   cell arrived while fewer than bound distinct values were stored; the whole column when distinct < bound *)
Theorem C13_counted_prefix : forall bound col,
  let pre := eff_prefix bound [] col in
  (exists rest, col = pre ++ rest /\
                (rest <> [] -> bound <= Z.of_nat (length (nodup val_eq_dec pre)))) /\
  (forall q x t, pre = q ++ x :: t -> Z.of_nat (length (nodup val_eq_dec q)) < bound) /\
  (Z.of_nat (length (nodup val_eq_dec col)) < bound -> pre = col).
Proof. exact eff_prefix_spec. Qed.

(* corollary below the bound (empty string / markers included among the distinct values): every stored count is exact
   and bucket x is #{v | count v > x} over ALL consumed rows *)
Theorem C13_counter_exact : forall bound j (bs : list batch) v,
  let col := column j (concat bs) in
  Z.of_nat (length (nodup val_eq_dec col)) < bound ->
  get val_eq_dec (counter bound j bs) v = cnt val_eq_dec col v.
Proof. exact counter_exact. Qed.

Theorem C13_hist_spec : forall edges bound j (bs : list batch),
  let col := column j (concat bs) in
  Z.of_nat (length (nodup val_eq_dec col)) < bound ->
  hist edges bound j bs = hist_spec edges col.
Proof. exact hist_is_spec. Qed.

(* PARTIAL: the property's "equals an exact recomputation over the consumed rows" for the histogram is proved only under
   distinct < bound (default bound 30000).  Full statement:  forall edges bound j bs, hist edges bound j bs = hist_spec
   edges (column j (concat bs)).  It is false beyond the bound (C13_hist_all_rows_refuted: counts freeze); what holds for
   every column is C13_hist_general. *)
Theorem C13_hist_all_rows_partial : forall edges bound j (bs : list batch),
  Z.of_nat (length (nodup val_eq_dec (column j (concat bs)))) < bound ->
  hist edges bound j bs = hist_spec edges (column j (concat bs)).
Proof. exact hist_is_spec. Qed.

Theorem C13_hist_all_rows_refuted :
  exists (bound : Z) (bs : list batch),
    hist [0; 1] bound 0 bs = [2; 0] /\ hist_spec [0; 1] (column 0 (concat bs)) = [3; 1] /\
    hist_general [0; 1] bound (column 0 (concat bs)) = [2; 0] /\
    eff_prefix bound [] (column 0 (concat bs)) = [V [97%N]; V [98%N]].
Proof. exact hist_all_rows_refuted. Qed.

(* BRIDGES to the models of the real sketch (C14, Sketch/HLL.v) and of the real counter (C15, Sketch/Bounded.v).
   The warm-phase sketch of this file is HLL.add with the registers forgotten; [card] is the exact-phase view of the
   length of the real sketch; the counter of this file, keys renamed by an injective id assignment, is C15's crun *)
Theorem C13_sketch_bridge : forall p W width h2 t v,
  abs_sketch (HLL.add p W width h2 t v) = sk_add (Z.of_nat W) (abs_sketch t) v.
Proof. exact abs_add. Qed.

Theorem C13_card_bridge : forall p W width h2 (hash : val -> N) j (bs : list batch),
  card hash (Z.of_nat W) j bs = len_view (card_hll p W width h2 hash j bs).
Proof. exact card_bridge. Qed.

Theorem C13_counter_bridge : forall (enc : val -> N) univ,
  (forall a b, In a univ -> In b univ -> enc a = enc b -> a = b) ->
  forall bound j (bs : list batch), incl (column j (concat bs)) univ ->
  mapk enc (counter bound j bs) = Bounded.crun bound (map enc (column j (concat bs))).
Proof. exact counter_bridge. Qed.

(* cardinality in BOTH phases (after the conversion too): whatever each batch inserts — its set of truthy values in any
   order, or with repetitions — the union over the batches is the set of the concatenated column, so by C14's len_set
   the length of the real sketch is that of the sketch fed once with the whole column; hence split independent *)
Theorem C13_card_any_insertion_both_phases : forall p W width h2 (hash : val -> N) (inss : list (list N)) (cols : list (list val)),
  Forall2 (fun ins col => forall h, In h ins <-> In h (map hash (filter truthy col))) inss cols ->
  HLL.len (HLL.run p W width h2 (concat inss)) = card_hll_spec p W width h2 hash (concat cols).
Proof. exact card_hll_any_order. Qed.

Theorem C13_card_split_indep_cold : forall p W width h2 (hash : val -> N) j (s1 s2 : list batch),
  concat s1 = concat s2 ->
  card_hll p W width h2 hash j s1 = card_hll p W width h2 hash j s2.
Proof. exact card_hll_split_indep. Qed.

(* the report is exactly {((col, v), total) | 1 <= total <= thr}, for every threshold, with
   [total] counted over all consumed rows; a pair is retired exactly when its total exceeds thr *)
Theorem C13_rare_spec : forall thr ncols (bs : list batch),
  NoDup (map fst (rare thr ncols bs)) /\
  (forall k c, In (k, c) (rare thr ncols bs) <-> c = total ncols (concat bs) k /\ 0 < c /\ c <= thr) /\
  (forall k, get key_eq_dec (rare thr ncols bs) k =
             if thr <? total ncols (concat bs) k then 0 else total ncols (concat bs) k) /\
  (forall k, In k (snd (rv_run thr ncols bs)) <-> 0 < total ncols (concat bs) k /\ thr < total ncols (concat bs) k).
Proof. exact rare_spec. Qed.

(* the boolean checker the harness evaluates on the implementation's report *)
Theorem C13_rare_checker_sound : forall thr ncols rows rep, rare_checkb thr ncols rows rep = true ->
  NoDup (map fst rep) /\ (forall k c, In (k, c) rep <-> c = total ncols rows k /\ 0 < c /\ c <= thr).
Proof. exact rare_checkb_sound. Qed.

Theorem C13_rare_model_ok : forall thr ncols (bs : list batch),
  rare_checkb thr ncols (concat bs) (rare thr ncols bs) = true.
Proof. exact rare_checkb_model. Qed.

(* coverage of one batch: the sum over the symbol set of list.count is the number of cells holding a
   symbol, and the percentage is 100 (n - missing) / n *)
Theorem C13_missing_cells : forall syms col, miss_count syms col = missing_cells syms col.
Proof. exact miss_count_spec. Qed.

Theorem C13_coverage : forall syms col, col <> [] ->
  (cov_batch syms col * inject_Z (Z.of_nat (length col)) ==
   inject_Z (100 * (Z.of_nat (length col) - missing_cells syms col)))%Q /\
  (0 <= cov_batch syms col <= 100)%Q.
Proof. exact cov_batch_full. Qed.

(* int(round(mean, 1)) with ties to even:  a  <->  a - 0.05 <= mean < a + 0.95 *)
Theorem C13_coverage_annotation : forall covs a, (0 <= qmean covs)%Q ->
  (cov_annot covs = a <->
   (inject_Z a - (1 # 20) <= qmean covs)%Q /\ (qmean covs < inject_Z a + (19 # 20))%Q).
Proof. exact cov_annot_spec. Qed.

Theorem C13_mean_nonneg : forall l, Forall (fun c => 0 <= c)%Q l -> (0 <= qmean l)%Q.
Proof. exact qmean_nonneg. Qed.

(* args.missing_value_symbols.split(',') *)
Theorem C13_symbols_split : forall c s,
  join c (split_on c s) = s /\ Forall (fun p => ~ In c p) (split_on c s).
Proof. exact split_on_spec. Qed.

(* PARSED rows (cells = option str; None = a field absent from the line, e.g. a VW namespace).
   Through the pipeline (compute_batch_ranking, fix 2ffc0d7) every batch frame is pd.DataFrame(rows).fillna(''):
   [frame_batch] maps None to the empty string cell by cell, so the frames of a history concatenate to the filled
   table and the statistics of EVERY history of parsed rows — None cells included — depend on the concatenation only *)
Theorem C13_frames_fill : forall s : list (list rrow), concat (frames s) = fill (concat s).
Proof. exact frames_fill. Qed.

Theorem C13_split_indep_parsed : forall (hash : val -> N) cap edges bound thr ncols (s1 s2 : list (list rrow)),
  0 <= cap -> concat s1 = concat s2 ->
  (forall j, card hash cap j (frames s1) = card hash cap j (frames s2)) /\
  (forall j, counter bound j (frames s1) = counter bound j (frames s2) /\
             hist edges bound j (frames s1) = hist edges bound j (frames s2)) /\
  Permutation (rare thr ncols (frames s1)) (rare thr ncols (frames s2)) /\
  (forall k, get key_eq_dec (rare thr ncols (frames s1)) k = get key_eq_dec (rare thr ncols (frames s2)) k).
Proof. exact parsed_split_indep. Qed.

Theorem C13_parsed_card : forall (hash : val -> N) cap j (s : list (list rrow)), 0 <= cap ->
  card hash cap j (frames s) = card_spec hash cap (column j (fill (concat s))).
Proof. exact parsed_card. Qed.

(* DIRECT calls of the statistics functions on pd.DataFrame(rows) (= the pipeline before fix 2ffc0d7): [frame_raw]
   is pandas' frame, nan next to strings, None in an all-None batch column.  Without None cells it is the table of the
   cells' strings and split independence holds; with None cells it fails (C13_none_cells_refuted) *)
Theorem C13_frame_none_free : forall b : list rrow, none_free b = true -> frame_raw b = lift b.
Proof. exact frame_none_free. Qed.

Theorem C13_split_indep_direct : forall (hash : val -> N) cap edges bound thr ncols (s1 s2 : list (list rrow)),
  0 <= cap -> Forall (fun b => none_free b = true) s1 -> Forall (fun b => none_free b = true) s2 ->
  concat s1 = concat s2 ->
  (forall j, card hash cap j (frames_raw s1) = card hash cap j (frames_raw s2)) /\
  (forall j, counter bound j (frames_raw s1) = counter bound j (frames_raw s2) /\
             hist edges bound j (frames_raw s1) = hist edges bound j (frames_raw s2)) /\
  Permutation (rare thr ncols (frames_raw s1)) (rare thr ncols (frames_raw s2)) /\
  (forall k, get key_eq_dec (rare thr ncols (frames_raw s1)) k = get key_eq_dec (rare thr ncols (frames_raw s2)) k).
Proof. exact raw_split_indep. Qed.

(* with None cells the faithful model is NOT split independent (rows None, a, None in one batch, as
   singletons, cut 1 | 2): cardinality 2 / 1, histogram [2;1] / [3;0], different rare tables *)
Theorem C13_none_cells_refuted :
  exists (hash : val -> N) (s1 s2 s3 : list (list rrow)),
    concat s1 = concat s2 /\ concat s1 = concat s3 /\
    card hash 262144 0 (frames_raw s1) = Some 2%nat /\ card hash 262144 0 (frames_raw s2) = Some 1%nat /\
    hist [0; 1] 30000 0 (frames_raw s1) = [2; 1] /\ hist [0; 1] 30000 0 (frames_raw s3) = [3; 0] /\
    rare 1 1 (frames_raw s1) = [((0%nat, V [97%N]), 1)] /\
    rare 1 1 (frames_raw s3) = [((0%nat, PyNone), 1); ((0%nat, V [97%N]), 1); ((0%nat, NaN), 1)].
Proof. exact none_cells_refuted. Qed.

(* before fix 549e068 split independence and the report specification fail *)
Theorem C13_prefix_refuted :
  exists (thr : Z) (s1 s2 : list batch) (k : key),
    concat s1 = concat s2 /\
    total 1 (concat s1) k = 4 /\ thr = 2 /\
    get key_eq_dec (rare_old thr 1 s1) k = 1 /\
    get key_eq_dec (rare_old thr 1 s2) k = 0 /\
    get key_eq_dec (rare thr 1 s1) k = 0.
Proof. exact rare_old_refuted. Qed.

Print Assumptions C13_split_indep.
Print Assumptions C13_compositions.
Print Assumptions C13_card_any_insertion.
Print Assumptions C13_card_function_of_rows.
Print Assumptions C13_card_exact.
Print Assumptions C13_counter_exact.
Print Assumptions C13_hist_spec.
Print Assumptions C13_rare_spec.
Print Assumptions C13_rare_checker_sound.
Print Assumptions C13_rare_model_ok.
Print Assumptions C13_missing_cells.
Print Assumptions C13_coverage.
Print Assumptions C13_coverage_annotation.
Print Assumptions C13_mean_nonneg.
Print Assumptions C13_symbols_split.
Print Assumptions C13_prefix_refuted.
Print Assumptions C13_frame_none_free.
Print Assumptions C13_split_indep_direct.
Print Assumptions C13_frames_fill.
Print Assumptions C13_split_indep_parsed.
Print Assumptions C13_parsed_card.
Print Assumptions C13_none_cells_refuted.
Print Assumptions C13_hist_general.
Print Assumptions C13_counter_general.
Print Assumptions C13_counted_prefix.
Print Assumptions C13_hist_all_rows_partial.
Print Assumptions C13_hist_all_rows_refuted.
Print Assumptions C13_sketch_bridge.
Print Assumptions C13_card_bridge.
Print Assumptions C13_counter_bridge.
Print Assumptions C13_card_any_insertion_both_phases.
Print Assumptions C13_card_split_indep_cold.
