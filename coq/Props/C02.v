(* C02 — scores depend on the co-occurrence structure, not on the numeric category codes.
   Only statements; each is closed by [exact] of a lemma of MI/Proofs.v.

   [core Y X c]  : everything mutual_info_estimator_numba does after the self-pair test, with the flag fixed;
   [entry Y X c] : the whole entry point (repaired code, fix d3e3a97: np.array_equal);
   [entry_old]   : the entry point before the fix (np.sum(X - Y) == 0), kept for the refutation witness.
   The two sentences of the property meet here: invariance is a fact about [core] with a fixed flag (both
   values), and the flag is switched off exactly when the two vectors are element-wise identical.
   The model is total over Z, so no "codes stay >= 0" side condition is needed in the statements (the real
   code needs it; the generated relabelings keep codes in [0, 2^20)). *)
From Coq Require Import Reals List ZArith Bool Rpower.
From Outrank Require Import Common.RSum MI.Model MI.Spec MI.Proofs.
Import ListNotations.
Open Scope R_scope.

Definition C02_case : Type := list Z * list Z * bool.                (* (Y, X, flag); f, g are applied by the harness *)
Definition C02_model (c : C02_case) : terms := entry (fst (fst c)) (snd (fst c)) (snd c).

Theorem C02_core_relabel : forall (f g : Z -> Z) Y X (c : bool),
  length Y = length X -> (0 < length X)%nat ->
  (forall a b, In a Y -> In b Y -> f a = f b -> a = b) ->
  (forall a b, In a X -> In b X -> g a = g b -> a = b) ->
  eval_R (core (map f Y) (map g X) c) = eval_R (core Y X c).
Proof. exact core_relabel. Qed.

Theorem C02_veq_spec : forall a b, veq a b = true <-> a = b.
Proof. exact veq_spec. Qed.

(* REMARK rather than a theorem with content of its own: this is the definition of [entry] unfolded (entry tests [veq X Y],
   the statement uses [veq Y X]).  That the REAL code applies the self-pair rule exactly when the vectors are element-wise
   identical rests on C02_veq_spec (what the model's test means) plus the correspondence check on the identical,
   equal-sum-not-identical and becomes-identical families (tools/props/c02.py), which is where a sum-based or otherwise
   weaker test in the code shows up as a model / implementation disagreement. *)
Theorem C02_selfpair_exact : forall Y X c, entry Y X c = core Y X (c && negb (veq Y X)).
Proof. exact selfpair_exact. Qed.

(* Invariance of the ENTRY POINT.  With the flag off it is unconditional.  With the flag on it holds exactly OFF THE DIAGONAL,
   i.e. when recoding does not change whether the two vectors are element-wise identical (side condition below).  The side
   condition is necessary, not a convenience: see C02_diag_relabel_refuted — recoding only one side of an identical pair
   legitimately switches the correction back on.  This is a documented deviation from the literal first sentence of the
   property ("renaming the codes of either vector ... with and without correction"), forced by its second sentence. *)
Theorem C02_entry_relabel_offdiag : forall (f g : Z -> Z) Y X (c : bool),
  length Y = length X -> (0 < length X)%nat ->
  (forall a b, In a Y -> In b Y -> f a = f b -> a = b) ->
  (forall a b, In a X -> In b X -> g a = g b -> a = b) ->
  (c = true -> (Y = X <-> map f Y = map g X)) ->
  eval_R (entry (map f Y) (map g X) c) = eval_R (entry Y X c).
Proof. exact entry_relabel. Qed.

Theorem C02_entry_relabel_flag_off : forall (f g : Z -> Z) Y X,
  length Y = length X -> (0 < length X)%nat ->
  (forall a b, In a Y -> In b Y -> f a = f b -> a = b) ->
  (forall a b, In a X -> In b X -> g a = g b -> a = b) ->
  eval_R (entry (map f Y) (map g X) false) = eval_R (entry Y X false).
Proof. intros f g Y X Hl Hn Hf Hg. apply entry_relabel; try assumption. discriminate. Qed.

(* ON / INTO the diagonal with the flag on, invariance FAILS (and must): Y = X = [0,1,0,1,2,2] scores H(Y) = ln 3, while the
   same Y against X + 10 — an injective recoding of one side — is an ordinary pair and scores the corrected value ln 2 *)
Theorem C02_diag_relabel_refuted :
  exists (Y : list Z) (g : Z -> Z),
    (0 < length Y)%nat /\ (forall a b, In a Y -> In b Y -> g a = g b -> a = b) /\
    eval_R (entry Y Y true) = ln 3 /\ eval_R (entry Y (map g Y) true) = ln 2 /\
    eval_R (entry Y (map g Y) true) < eval_R (entry Y Y true).
Proof. exact diag_relabel_refuted. Qed.

(* the old, sum-based test: on Y = [0,1,0,1,2,2,0,1], X = [1,0,1,0,2,2,1,0] (different vectors, equal sums) the
   shortcut fires, after X+10 it does not, and the two scores differ (1.0822 vs 0.6507 on the real code) *)
Theorem C02_prefix_refuted :
  exists (Y X : list Z) (g : Z -> Z),
    length Y = length X /\ Y <> X /\ (forall a b, In a X -> In b X -> g a = g b -> a = b) /\
    entry_old Y X true = core Y X false /\
    entry_old Y (map g X) true = core Y (map g X) true /\
    eval_R (entry_old Y (map g X) true) < eval_R (entry_old Y X true).
Proof. exact prefix_refuted. Qed.

(* non-vacuity: an order-reversing sparse recoding of one side and an offset on the other, on a non-trivial pair;
   and the repaired entry point treats the equal-sum witness as an ordinary pair *)
Example C02_nonvacuous :
  let Y := [0; 1; 2; 0; 1; 2; 0; 0; 1; 2]%Z in let X := [5; 5; 9; 9; 7; 7; 5; 3; 9; 9]%Z in
  let f := fun z => (1000000 - 7 * z)%Z in let g := Z.add 10 in
  length Y = length X /\ (0 < length X)%nat /\
  (forall a b, In a Y -> In b Y -> f a = f b -> a = b) /\ (forall a b, In a X -> In b X -> g a = g b -> a = b) /\
  map f Y <> Y /\ enc (core (map f Y) (map g X) true) <> enc (core Y X true).
Proof.
  cbv zeta. repeat split; try (vm_compute; discriminate).
  - vm_compute. repeat constructor.
  - intros a b _ _ E. apply Z.sub_cancel_l in E. apply Z.mul_reg_l in E; [exact E|discriminate].
  - intros a b _ _ E. apply Z.add_cancel_l in E. exact E.
Qed.

Example C02_witness_repaired : entry wY wX true = core wY wX true /\ wY <> wX.
Proof. split; [exact witness_new|discriminate]. Qed.

Print Assumptions C02_core_relabel.
Print Assumptions C02_veq_spec.
Print Assumptions C02_selfpair_exact.
Print Assumptions C02_entry_relabel_offdiag.
Print Assumptions C02_entry_relabel_flag_off.
Print Assumptions C02_diag_relabel_refuted.
Print Assumptions C02_prefix_refuted.
