(* C04 — subsampled estimation is memory-safe, deterministic, sample-only.
   Only statements here; each is closed by [exact] of a lemma of MI/SubProofs.v.  Model: MI/Subsample.v.

     entry g Y X r c     mutual_info_estimator_numba(Y, X, r, c): the exact integer term structure fed to np.log
     subsample g Y X r   stratified_subsampling(Y, X, r, numba_unique(X)[0]): the two returned arrays
     g : nat -> Z        garbage oracle = what position p of the freshly allocated index buffer yields when it
                         is used without having been written ("prior allocator history")
     r : Q               exact value of the float32 ratio (float computations = exact floors: C04_float_* below)
     Error _             a slice write outside the buffer or a row index outside [0, n)
   X is the stratifying ("target") vector, Y the other one; both have the same length (the code's
   precondition, as in C01). *)
From Coq Require Import List Arith ZArith QArith Bool Sorted Reals Qreals.
From Flocq Require Import Core.
From Outrank Require MI.Model.
From Outrank Require Import MI.Subsample MI.SubProofs MI.SubFloat MI.SubAgree.
Import ListNotations.
Local Close Scope Q_scope.

(* --- memory safety: no history of earlier allocations can make the call fail --------------------------
   X <> [] is the code's own precondition (numba_unique raises on np.max of an empty array; the model does not
   transcribe that raise and claims nothing about the empty input). *)
Theorem C04_safe_subsample : forall (g : nat -> Z) Y X r e,
  X <> [] -> length Y = length X -> subsample g Y X r <> Error e.
Proof. exact (fun g Y X r e _ => subsample_safe g Y X r e). Qed.

Theorem C04_safe : forall (g : nat -> Z) Y X r c e,
  X <> [] -> length Y = length X -> entry g Y X r c <> Error e.
Proof. exact (fun g Y X r c e _ => entry_safe g Y X r c e). Qed.

(* [index_buffer Repaired X r (f_values X)] is the buffer slice final_index_array[:index_offset] that
   subsample_gen itself builds and reads (C04_subsample_reads below shows the definition unfolded): when the
   quota is not 0 the loop never writes outside the buffer (= Ok _), EVERY cell the gather reads is a Written
   cell holding the index of an existing row, the slice fits into the allocation, and read back — under any
   garbage oracle — it is exactly the list of sampled rows *)
Theorem C04_all_written : forall X r, quota X r <> 0 ->
  exists cells, index_buffer Repaired X r (f_values X) = Ok cells /\
                Forall (fun c => exists i, c = Written i /\ i < length X) cells /\
                length cells <= final_space_size r (length X) /\
                forall g : nat -> Z, read_buffer g cells = map Z.of_nat (sampled_indices X r).
Proof. exact index_buffer_written. Qed.

(* definition unfolded, not a result: the only buffer cells subsample reads are those of index_buffer *)
Theorem C04_subsample_reads : forall (g : nat -> Z) Y X r,
  subsample g Y X r =
  if quota X r =? 0 then Ok (Y, X) else
  bind (index_buffer Repaired X r (f_values X)) (fun cells =>
  bind (mapM (get_row X) (read_buffer g cells)) (fun X' =>
  bind (mapM (get_row Y) (read_buffer g cells)) (fun Y' => Ok (Y', X')))).
Proof. reflexivity. Qed.

(* --- determinism: the result does not depend on the stale contents ------------------------------------ *)
Theorem C04_garbage_indep : forall (g1 g2 : nat -> Z) Y X r c,
  length Y = length X -> entry g1 Y X r c = entry g2 Y X r c.
Proof. exact entry_garbage_indep. Qed.

Theorem C04_garbage_indep_subsample : forall (g1 g2 : nat -> Z) Y X r,
  length Y = length X -> subsample g1 Y X r = subsample g2 Y X r.
Proof. exact subsample_garbage_indep. Qed.

(* --- sample = per-value prefixes ------------------------------------------------------------------------
   quota = floor(floor(r*n) / #values); the sampled rows are, for the distinct values of X in increasing
   order, the first quota positions carrying that value; all rows when the quota is 0. *)
(* C04_quota and C04_sampled_indices are DEFINITIONS UNFOLDED (reflexivity), displayed here so that C04_prefix_rows
   can be read without opening the model; they are not counted as results *)
Theorem C04_quota : forall X r,
  quota X r = Z.to_nat ((Qnum r * Z.of_nat (length X)) / Zpos (Qden r)) / length (f_values X).
Proof. reflexivity. Qed.

Theorem C04_sampled_indices : forall X r,
  sampled_indices X r =
  if quota X r =? 0 then seq 0 (length X)
  else concat (map (fun v => firstn (quota X r) (where_eq X v)) (f_values X)).
Proof. reflexivity. Qed.

Theorem C04_prefix_rows : forall (g : nat -> Z) Y X r,
  length Y = length X ->
  subsample g Y X r = Ok (rows Y (sampled_indices X r), rows X (sampled_indices X r)).
Proof. exact subsample_spec. Qed.

(* the ingredients mean what their names say: distinct values in increasing order; the positions carrying a
   value, in increasing order; the count stored with a value is its number of rows in the ORIGINAL X *)
Theorem C04_values : forall X,
  StronglySorted Z.lt (f_values X) /\ (forall v, In v (f_values X) <-> In v X).
Proof. exact values_spec. Qed.

Theorem C04_positions : forall X v,
  StronglySorted lt (where_eq X v) /\ (forall i, In i (where_eq X v) <-> nth_error X i = Some v).
Proof. exact positions_spec. Qed.

Theorem C04_counts : forall X v k, In (v, k) (numba_unique X) -> k = length (where_eq X v) /\ 0 < k.
Proof. exact counts_spec. Qed.

Theorem C04_sample_nonempty : forall X r,
  X <> [] -> sampled_indices X r <> [] /\ (forall i, In i (sampled_indices X r) -> i < length X).
Proof. exact sample_nonempty_spec. Qed.

(* --- sample-only: the estimator is a function of the sampled rows (plus the original stratum sizes, the
   flag after the self-pair test, and r) ... *)
Theorem C04_entry_spec : forall (g : nat -> Z) Y X r c,
  length Y = length X ->
  entry g Y X r c = Ok (terms_spec (rows X (entry_indices X r)) (rows Y (entry_indices X r)) (length X)
                                   (numba_unique X) (c && negb (veq X Y)) r).
Proof. exact entry_spec. Qed.

(* ... hence altering Y outside the sampled rows changes nothing, provided the self-pair test
   np.array_equal(X, Y) — the only use of unsampled values — answers the same, or the flag is off *)
Theorem C04_outside_irrelevant : forall (g : nat -> Z) Y Y' X r c,
  length Y = length X -> length Y' = length X ->
  (forall i, In i (entry_indices X r) -> nth i Y 0%Z = nth i Y' 0%Z) ->
  (veq X Y = veq X Y' \/ c = false) ->
  entry g Y X r c = entry g Y' X r c.
Proof. exact entry_outside_irrelevant. Qed.

(* definition unfolded (reflexivity), not a result *)
Theorem C04_entry_indices : forall X r,
  entry_indices X r = if (Qnum r <? Zpos (Qden r))%Z then sampled_indices X r else seq 0 (length X).
Proof. reflexivity. Qed.

(* ... and that side condition is NECESSARY: the property's sentence "the score does not change when feature values
   outside the sampled rows are altered" holds except through the self-pair test, which is made on the full vectors.
   Witness: Y = X, flag on, ONE unsampled cell of Y changed -> the test switches off, the correction on. *)
Theorem C04_outside_selfpair_refuted : exists (g : nat -> Z) Y Y' X r c,
  length Y = length X /\ length Y' = length X /\
  (forall i, In i (entry_indices X r) -> nth i Y 0%Z = nth i Y' 0%Z) /\
  Y <> Y' /\ entry g Y X r c <> entry g Y' X r c.
Proof. exact outside_selfpair_refuted. Qed.

(* --- one transcription: without subsampling (r >= 1) the encoded term structure is the one of the C01-C03
   model MI/Model.v (enc4 = enc_terms without the ratio; both harnesses evaluate this encoding with the same
   float64 evaluator, tools/props/c01.py eval_float) *)
Theorem C04_entry_agrees_full : forall (g : nat -> Z) Y X r c,
  length Y = length X -> (Qnum r <? Zpos (Qden r))%Z = false ->
  exists t, entry g Y X r c = Ok t /\ enc4 t = Model.enc (Model.entry Y X c).
Proof. exact entry_agrees_full. Qed.

(* --- finite score: every argument of np.log is a quotient of two positive integers, every divisor is
   positive *)
Theorem C04_finite : forall (g : nat -> Z) Y X r c,
  length Y = length X -> X <> [] ->
  exists t, entry g Y X r c = Ok t /\
            Forall (fun ab => 0 < fst ab /\ 0 < snd ab) (log_args t) /\
            Forall (fun d => 0 < d) (denominators t).
Proof. exact entry_finite. Qed.

(* --- the behaviour before fix 6ef24c0 (whole np.empty buffer used) does depend on the stale contents:
   X = [0]*7 + [1,2,2], r = float32(0.7): floor(r*n) = 6, quota 2, five cells written, one not *)
Theorem C04_prefix_refuted : exists (g1 g2 : nat -> Z) Y X r c,
  length Y = length X /\ entry_old g1 Y X r c <> entry_old g2 Y X r c.
Proof. exact prefix_refuted. Qed.

Theorem C04_prefix_unsafe : exists (g : nat -> Z) Y X r c,
  length Y = length X /\ entry_old g Y X r c = Error IndexOutOfRange.
Proof. exact prefix_unsafe. Qed.

(* --- the float computations of the code equal the exact ones of the model (Flocq; over R, so these four
   theorems — and only these — depend on the standard-library Reals axioms) ---------------------------------
   binary32 = generic_format radix2 (FLT_exp (-149) 24), binary64 = FLT_exp (-1074) 53, round to nearest even.
   Trusted: numba evaluates float32 * int64 as a binary64 multiplication and int / int as a binary64 division,
   then truncates. *)
Theorem C04_float_product_exact : forall (r : R) (n : Z),
  generic_format radix2 (FLT_exp (-149) 24) r -> (0 < r < 1)%R -> (0 <= n < 2 ^ 29)%Z ->
  generic_format radix2 (FLT_exp (-1074) 53) (r * IZR n) /\
  round radix2 (FLT_exp (-1074) 53) ZnearestE (r * IZR n) = (r * IZR n)%R /\
  Ztrunc (round radix2 (FLT_exp (-1074) 53) ZnearestE (r * IZR n)) = Zfloor (r * IZR n).
Proof. exact product_exact. Qed.

Theorem C04_float_quotient_floor : forall a b : Z,
  (0 <= a < 2 ^ 29)%Z -> (1 <= b < 2 ^ 29)%Z ->
  Zfloor (round radix2 (FLT_exp (-1074) 53) ZnearestE (IZR a / IZR b)) = (a / b)%Z /\
  Ztrunc (round radix2 (FLT_exp (-1074) 53) ZnearestE (IZR a / IZR b)) = (a / b)%Z.
Proof. exact quotient_floor. Qed.

(* int(approximation_factor * all_events) = the model's final_space_size (and it is <= n) *)
Theorem C04_float_final_space_size : forall (q : Q) (n : nat),
  generic_format radix2 (FLT_exp (-149) 24) (Q2R q) -> (0 < Q2R q < 1)%R -> (Z.of_nat n < 2 ^ 29)%Z ->
  Z.of_nat (final_space_size q n) =
    Ztrunc (round radix2 (FLT_exp (-1074) 53) ZnearestE (Q2R q * IZR (Z.of_nat n))) /\
  (Z.of_nat (final_space_size q n) <= Z.of_nat n)%Z.
Proof. exact final_space_size_float. Qed.

(* the quota the code computes in floats = the model's exact quota, for n < 2^29 *)
Theorem C04_float_quota : forall (X : list Z) (q : Q),
  X <> [] -> (Z.of_nat (length X) < 2 ^ 29)%Z ->
  generic_format radix2 (FLT_exp (-149) 24) (Q2R q) -> (0 < Q2R q < 1)%R ->
  Z.of_nat (quota X q) =
  Ztrunc (round radix2 (FLT_exp (-1074) 53) ZnearestE
            (IZR (Ztrunc (round radix2 (FLT_exp (-1074) 53) ZnearestE (Q2R q * IZR (Z.of_nat (length X)))))
             / IZR (Z.of_nat (length (f_values X))))).
Proof. exact quota_float. Qed.

(* non-vacuity: np.float32(0.7) = 11744051 * 2^-24 is a binary32 number in (0,1) *)
Example C04_ex_float32 :
  generic_format radix2 (FLT_exp (-149) 24) (Q2R (11744051 # 16777216)) /\ (0 < Q2R (11744051 # 16777216) < 1)%R.
Proof. exact ex_float32. Qed.

(* --- harness interface (DESIGN Appendix C) ----------------------------------------------------------------- *)
Theorem C04_check_sound : forall Y X r c o,
  C04_check (Y, X, r, c) o = true -> o = (rows Y (sampled_indices X r), rows X (sampled_indices X r)).
Proof. exact check_sound. Qed.

Theorem C04_model_ok : forall Y X r c (g : nat -> Z) o,
  length Y = length X -> subsample g Y X r = Ok o -> C04_check (Y, X, r, c) o = true.
Proof. exact check_model. Qed.

Theorem C04_outside_hyp_sound : forall (g : nat -> Z) Y X r c Y2,
  length Y = length X -> outside_hyp (Y, X, r, c) Y2 = true -> entry g Y X r c = entry g Y2 X r c.
Proof. exact outside_hyp_sound. Qed.

(* --- non-vacuity ------------------------------------------------------------------------------------------ *)
Definition exX : list Z := [0; 0; 0; 0; 0; 0; 0; 1; 2; 2]%Z.
Definition exY : list Z := [0; 1; 0; 1; 2; 2; 0; 1; 1; 0]%Z.
Definition ex07 : Q := (11744051 # 16777216)%Q.

(* a stratum smaller than the quota, floor(r*n) = 6 not a multiple of 3 values, quota 2 *)
Example C04_ex_rows : quota exX ex07 = 2 /\ sampled_indices exX ex07 = [0; 1; 7; 8; 9] /\
  subsample no_garbage exY exX ex07 = Ok ([0; 1; 1; 1; 0]%Z, [0; 0; 1; 2; 2]%Z).
Proof. vm_compute. auto. Qed.

(* the term structure of that call: n = 10, class counts of the sample, strata with ORIGINAL sizes 7 and 2
   (the singleton stratum is skipped) *)
Example C04_ex_terms : C04_model (exY, exX, ex07, true) =
  (0%Z, Some (10, [2; 3], [(7, [1; 1], [2]); (2, [1; 1], [1; 1])], true, (11744051, 16777216))%Z).
Proof. vm_compute. reflexivity. Qed.

(* outside-irrelevance with a non-trivial change: rows 2..6 are not sampled *)
Example C04_ex_outside :
  outside_hyp (exY, exX, ex07, true) [0; 1; 2; 2; 0; 0; 1; 1; 1; 0]%Z = true /\
  exY <> [0; 1; 2; 2; 0; 0; 1; 1; 1; 0]%Z.
Proof. split; [vm_compute; reflexivity | discriminate]. Qed.

(* quota 0: every row is used *)
Example C04_ex_quota0 : quota exX (1 # 4) = 0 /\ sampled_indices exX (1 # 4) = seq 0 10.
Proof. vm_compute. auto. Qed.

(* log arguments and divisors of the example are non-empty lists (C04_finite is not about nothing) *)
Example C04_ex_finite : exists t, entry no_garbage exY exX ex07 false = Ok t /\
  length (log_args t) = 6 /\ denominators t = [10; 7; 2].
Proof. eexists. split; [vm_compute; reflexivity|]. vm_compute. auto. Qed.

Print Assumptions C04_safe_subsample.
Print Assumptions C04_safe.
Print Assumptions C04_all_written.
Print Assumptions C04_subsample_reads.
Print Assumptions C04_outside_selfpair_refuted.
Print Assumptions C04_entry_agrees_full.
Print Assumptions C04_garbage_indep.
Print Assumptions C04_garbage_indep_subsample.
Print Assumptions C04_quota.
Print Assumptions C04_sampled_indices.
Print Assumptions C04_prefix_rows.
Print Assumptions C04_values.
Print Assumptions C04_positions.
Print Assumptions C04_counts.
Print Assumptions C04_sample_nonempty.
Print Assumptions C04_entry_spec.
Print Assumptions C04_outside_irrelevant.
Print Assumptions C04_entry_indices.
Print Assumptions C04_finite.
Print Assumptions C04_prefix_refuted.
Print Assumptions C04_prefix_unsafe.
Print Assumptions C04_check_sound.
Print Assumptions C04_model_ok.
Print Assumptions C04_outside_hyp_sound.
Print Assumptions C04_float_product_exact.
Print Assumptions C04_float_quotient_floor.
Print Assumptions C04_float_final_space_size.
Print Assumptions C04_float_quota.
