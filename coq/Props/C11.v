(* C11 — feature construction is additive, row-aligned and follows its stated rule.
   Only statements here; each is closed by [exact] of a lemma of Features/ConstructProofs.v / InteractProofs.v.
   A frame is a list of (name, cells) in column order, a row is a position (RangeIndex);
   [appends df out] = "out is df followed by new columns with one value per row of df", equivalently
   [firstn (ncols df) out = df] and every later column has [nrows df] cells (C11_appends_firstn).
   A constructor returns [None] where the real function raises on a configuration naming a missing column. *)
From Coq Require Import List NArith ZArith Arith.
From Outrank Require Import Features.Interact Features.InteractProofs Features.Construct Features.ConstructProofs.
Import ListNotations.

Theorem C11_appends_firstn : forall df out, appends df out ->
  firstn (length df) out = df /\ Forall (fun c : column => length (snd c) = nrows df) (skipn (length df) out).
Proof. exact appends_firstn. Qed.

(* ---- each of the five constructors only appends ----
   READ THIS FIRST.  The five statements below hold *by construction of the model*: every constructor is transcribed as
   [df ++ <new columns>], and the transformer / noise columns are [map f (seq 0 (nrows df))].  They say that the transcription
   has the shape the property demands and that the rule-derived columns have one cell per row (the only content: lengths, under
   [wf df] and the configuration naming existing columns); they do NOT prove that pandas' [pd.concat(axis=1)] aligns rows,
   keeps dtypes or that a transformer returns an array of the right length — that part of the clause is modelled away.
   For the real code the clause "only appends; originals, values and row order preserved; one value per row" is carried by
   the checker [append_okb], proved sound below (C11_append_checker_sound), which the harness evaluates on every frame the
   implementation returns (RangeIndex string frames, which is all compute_batch_ranking ever builds; behaviour on other row
   indexes is recorded as an observation per constructor, see notes/C11.md). *)
Theorem C11_append_multivalue : forall df missing feats out,
  wf df -> multivalue df missing feats = Some out -> appends df out.
Proof. exact multivalue_appends. Qed.

Theorem C11_append_subfeatures : forall df ops out, wf df -> subfeatures df ops = Some out -> appends df out.
Proof. exact subfeatures_appends. Qed.

Theorem C11_append_combined : forall h sep df sel, appends df (combined h sep df sel).
Proof. exact combined_appends. Qed.

Theorem C11_append_transform : forall T df out, transform T df = Some out -> appends df out.
Proof. exact transform_appends. Qed.

Theorem C11_append_noise : forall rnd df label out, wf df -> noisy rnd df label = Some out -> appends df out.
Proof. exact noisy_appends. Qed.

(* ---- composition: any steps, in any order and number, that each only append, only append ---- *)
Theorem C11_compose : forall steps, Forall append_step steps ->
  forall df df', wf df -> run_steps steps df = Some df' -> appends df df' /\ wf df'.
Proof. exact run_steps_appends. Qed.

(* ... in particular the sequence compute_batch_ranking runs, for every setting of the construction flags,
   every hash, transformer outcome, random draw and sampler behaviour *)
Theorem C11_batch : forall h T rnd sample cfg df out,
  wf df -> batch_construct h T rnd sample cfg df = Some out -> appends df out /\ wf out.
Proof. exact batch_appends. Qed.

(* ---- multi-value expansion ---- *)
(* tokens of a cell: the maximal '-'-free pieces after replacing ',' by '-' *)
Theorem C11_tokens : forall v,
  join1 DASH (tokens v) = map (fun c => if N.eqb c COMMA then DASH else c) v /\
  forall t, In t (tokens v) -> ~ In DASH t.
Proof. exact tokens_spec. Qed.

(* one column MULTIEX-f-t per distinct non-missing token t occurring in f, and it is t's indicator column
   (the columns of one feature are emitted in sorted token order, as the code does since b8c228d; the statement below
   does not depend on the order) *)
Theorem C11_multivalue : forall df missing feats out f t,
  multivalue df missing feats = Some out -> In f feats -> ~ In DASH t ->
  ((exists col, In (mv_name f t, col) (skipn (length df) out)) <->
   (~ In t missing /\ exists v, In v (getcol df f) /\ In t (tokens v))) /\
  (forall col, In (mv_name f t, col) (skipn (length df) out) -> col = mv_column (getcol df f) t).
Proof. exact multivalue_rule. Qed.

Theorem C11_multivalue_names_distinct : forall df missing feats out,
  multivalue df missing feats = Some out -> NoDup (names (skipn (length df) out)).
Proof. exact multivalue_names_nodup. Qed.

(* the indicator: "1" exactly on rows whose delimited value contains the token, "" on the others *)
Theorem C11_multivalue_cell : forall vec t i v, nth_error vec i = Some v ->
  (In t (tokens v) -> nth_error (mv_column vec t) i = Some ONE) /\
  (~ In t (tokens v) -> nth_error (mv_column vec t) i = Some EMPTY).
Proof. exact mv_cell. Qed.

(* ---- sub-features ---- *)
(* every appended column is generated by one of the operators under its name, every generated name is present,
   names are distinct and the column kept under a name is the last one written under it *)
Theorem C11_sub_columns : forall df ops out,
  subfeatures df ops = Some out ->
  let new := skipn (length df) out in
  (forall c, In c new -> exists op, In op ops /\ In c (sub_cols df op)) /\
  (forall nm, In nm (names new) <-> exists op, In op ops /\ In nm (names (sub_cols df op))) /\
  NoDup (names new) /\
  (forall nm, dict_get new nm = assoc_last (flat_map (sub_cols df) ops) nm).
Proof. exact subfeatures_columns. Qed.

(* one-sided a->b: one column per value v of the selector b ... *)
Theorem C11_sub_one_columns : forall df fa fb nm col,
  In (nm, col) (sub_cols df (OneSided fa fb)) <->
  exists v, In v (getcol df fb) /\ nm = sub_one_name fa v /\ col = sub_one_column (getcol df fa) (getcol df fb) v.
Proof. exact sub_one_cols. Qed.

(* ... carrying the joined source value a ++ "AND" ++ b exactly on the rows where the selector has the value v *)
Theorem C11_sub_one : forall A B v i a b, nth_error A i = Some a -> nth_error B i = Some b ->
  (b = v -> nth_error (sub_one_column A B v) i = Some (a ++ S_AND ++ b)) /\
  (b <> v -> nth_error (sub_one_column A B v) i = Some EMPTY).
Proof. exact sub_one_cell. Qed.

(* two-sided a<->b: one column per pair of values (u of a, v of b) ... *)
Theorem C11_sub_two_columns : forall df fa fb nm col,
  In (nm, col) (sub_cols df (TwoSided fa fb)) <->
  exists u v, In u (getcol df fa) /\ In v (getcol df fb) /\ nm = sub_two_name fa fb u v /\
              col = sub_two_column (getcol df fa) (getcol df fb) u v.
Proof. exact sub_two_cols. Qed.

(* ... which is the indicator of the value pair *)
Theorem C11_sub_two : forall A B u v i a b, nth_error A i = Some a -> nth_error B i = Some b ->
  ((a, b) = (u, v) -> nth_error (sub_two_column A B u v) i = Some ONE) /\
  ((a, b) <> (u, v) -> nth_error (sub_two_column A B u v) i = Some ZERO).
Proof. exact sub_two_cell. Qed.

(* ---- noise controls: the target control column replicates the label ---- *)
Theorem C11_target_control : forall rnd df label out, noisy rnd df label = Some out -> has_col df label = true ->
  let new := skipn (length df) out in
  names new = CONTROL_RANDOM ++ [CONTROL_TARGET; CONTROL_VOLUME] /\
  getcol new CONTROL_TARGET = getcol df label /\ In (CONTROL_TARGET, getcol df label) new.
Proof. exact noisy_target. Qed.

(* ---- the checkers evaluated on the implementation's frames are sound ---- *)
Theorem C11_append_checker_sound : forall df out, append_okb df out = true -> appends df out.
Proof. exact append_okb_sound. Qed.

Theorem C11_rule_checker_sound : forall df m out,
  check_against df (Some m) out = (true, true) ->
  appends df out /\ forall c, In c (skipn (length df) out) <-> In c (skipn (length df) m).
Proof. exact check_against_sound. Qed.

Theorem C11_noise_checker_sound : forall df label out, noise_okb df label out = (true, true) -> has_col df label = true ->
  appends df out /\ getcol (skipn (length df) out) CONTROL_TARGET = getcol df label /\
  forall nm, In nm (names (skipn (length df) out)) <-> In nm (CONTROL_RANDOM ++ [CONTROL_TARGET; CONTROL_VOLUME]).
Proof. exact noise_okb_sound. Qed.

Print Assumptions C11_appends_firstn.
Print Assumptions C11_append_multivalue.
Print Assumptions C11_append_subfeatures.
Print Assumptions C11_append_combined.
Print Assumptions C11_append_transform.
Print Assumptions C11_append_noise.
Print Assumptions C11_compose.
Print Assumptions C11_batch.
Print Assumptions C11_tokens.
Print Assumptions C11_multivalue.
Print Assumptions C11_multivalue_names_distinct.
Print Assumptions C11_multivalue_cell.
Print Assumptions C11_sub_columns.
Print Assumptions C11_sub_one_columns.
Print Assumptions C11_sub_one.
Print Assumptions C11_sub_two_columns.
Print Assumptions C11_sub_two.
Print Assumptions C11_target_control.
Print Assumptions C11_append_checker_sound.
Print Assumptions C11_rule_checker_sound.
Print Assumptions C11_noise_checker_sound.
