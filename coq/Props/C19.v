(* C19 — synthetic categorical data respects its declared shape, domains and seed.
   Only statements here; each is closed by [exact] of a lemma of Synth/DataGenProofs.v.

   [generate a s] / [generate_full a s] transcribe CategoricalClassification.generate_data with
   _configure_generate_feature and _generate_feature; [s : list answer] is the recorded answer
   stream of numpy's global RNG (seed, choice, randint, shuffle calls in program order).  The model
   checks the assumed library behaviour on every answer and returns [Err _] when an answer violates
   it, when the stream does not have the shape of the code's call pattern, or when the real code
   raises (empty domain, column index beyond n_features, value outside int32).  All theorems hold for
   EVERY stream on which the model succeeds.  [generate_full] also returns the per-column domains. *)
From Coq Require Import List Arith ZArith Bool.
From Outrank Require Import Synth.DataGen Synth.DataGenProofs.
Import ListNotations.
Open Scope Z_scope.

(* n_samples rows, n_features columns, every cell a 32-bit integer *)
Theorem C19_shape : forall a s X doms, generate_full a s = Ok (X, doms) ->
  length X = n_samples a /\
  forall row, In row X -> length row = n_features a /\ forall v, In v row -> in_int32 v = true.
Proof. exact (run_shape Nat.leb leb_le'). Qed.

(* every cell of column j lies in domain j, and domain j is what the j-th generated feature
   declares ([dom_ok]): the explicit value list; arange(low, low+cardinality); or, with
   random_values, a duplicate-free draw of exactly `cardinality` values within [low, high] *)
Theorem C19_domain : forall a s X doms, generate_full a s = Ok (X, doms) ->
  exists specs, layout a = Ok specs /\ length doms = n_features a /\
  forall j, (j < n_features a)%nat ->
    dom_ok a (nth j specs (dflt a)) (nth j doms []) /\
    forall i, (i < n_samples a)%nat -> In (cell X i j) (nth j doms []).
Proof. exact (run_domain Nat.leb leb_le'). Qed.

(* structure indices strictly increasing and < n_features: column j carries exactly the feature
   declared for j (the default feature where nothing is declared) *)
Theorem C19_positions : forall a, sorted_structure a = true ->
  layout a = Ok (map (declared a) (seq 0 (n_features a))).
Proof. exact layout_sorted. Qed.

Theorem C19_positions_at : forall a i at_, sorted_structure a = true ->
  In (i, at_) (flat (structure a)) ->
  exists specs, layout a = Ok specs /\ (i < n_features a)%nat /\ nth i specs (dflt a) = at_.
Proof. exact layout_positions. Qed.

Theorem C19_positions_default : forall a j, sorted_structure a = true -> (j < n_features a)%nat ->
  ~ In j (map fst (flat (structure a))) ->
  exists specs, layout a = Ok specs /\ nth j specs (dflt a) = dflt a.
Proof. exact layout_default. Qed.

(* observation (outside the hypothesis above): with an unsorted structure — distinct indices, all
   < n_features — a declared feature does not sit at its declared index *)
Theorem C19_positions_unsorted_refuted :
  exists a i at_ specs,
    In (i, at_) (flat (structure a)) /\ NoDup (map fst (flat (structure a))) /\
    Forall (fun k => (k < n_features a)%nat) (map fst (flat (structure a))) /\
    layout a = Ok specs /\ nth i specs (dflt a) <> at_.
Proof. exact positions_unsorted_refuted. Qed.

(* ensure_rep: whenever the sample count allows (|domain| <= n_samples), every domain value occurs *)
Theorem C19_ensure_rep : forall a s X doms, generate_full a s = Ok (X, doms) ->
  ensure_rep a = true ->
  forall j, (j < n_features a)%nat -> (length (nth j doms []) <= n_samples a)%nat ->
  forall v, In v (nth j doms []) -> exists i, (i < n_samples a)%nat /\ cell X i j = v.
Proof. exact run_ensure_rep_le. Qed.

(* the behaviour before fix 31e7d2c (`len(vec) < size`): n_samples = |domain| and a value missing *)
Theorem C19_ensure_rep_prefix_refuted :
  exists a s X doms,
    generate_full_old a s = Ok (X, doms) /\ ensure_rep a = true /\
    exists j v, (j < n_features a)%nat /\ (length (nth j doms []) <= n_samples a)%nat /\
                In v (nth j doms []) /\ forall i, (i < n_samples a)%nat -> cell X i j <> v.
Proof. exact ensure_rep_prefix_refuted. Qed.

(* the data set is a function of (arguments, answer stream), and the stream starts with
   np.random.seed(seed): whatever the generator state was before the call is irrelevant *)
Theorem C19_deterministic : forall a a' s s', a = a' -> s = s' -> generate a s = generate a' s'.
Proof. intros a a' s s' -> ->. reflexivity. Qed.

Theorem C19_seeded : forall a s X, generate a s = Ok X -> exists s1, s = RSeed (seed a) :: s1.
Proof. exact generate_seeded. Qed.

(* the validator evaluated on implementation outputs: sound for the property's clauses, and
   accepted by every successful model run inside the positions hypothesis *)
Theorem C19_check_sound : forall a X, valid_dataset a X = true ->
  length X = n_samples a /\
  (forall row, In row X -> length row = n_features a /\ forall v, In v row -> in_int32 v = true) /\
  (sorted_structure a = true -> forall j, (j < n_features a)%nat -> col_prop a (declared a j) (column X j)).
Proof. exact valid_dataset_sound. Qed.

Theorem C19_model_ok : forall a s X, sorted_structure a = true ->
  generate a s = Ok X -> valid_dataset a X = true.
Proof. exact model_passes_validator. Qed.

(* naive generator: label = 1 iff the DRAWN needle value (column 30) is >= 40; needs
   num_features >= 31; the returned sample's needle column is overwritten by the label (view
   semantics), every other cell is the drawn one *)
Theorem C19_naive : forall nf size s sample target,
  naive nf size s = Ok (sample, target) ->
  exists m, s = [RRandintMat m] /\ (needle < nf)%nat /\ length m = size /\
    target = map (fun r => if 40 <=? nth needle r 0 then 1 else 0) m /\
    length sample = size /\
    forall i, (i < size)%nat ->
      length (nth i sample []) = nf /\
      nth needle (nth i sample []) 0 = nth i target 0 /\
      forall j, j <> needle -> nth j (nth i sample []) 0 = nth j (nth i m []) 0.
Proof. exact naive_spec. Qed.

Theorem C19_naive_needle_only : forall nf size nf' size' m m' sa t sa' t',
  naive nf size [RRandintMat m] = Ok (sa, t) -> naive nf' size' [RRandintMat m'] = Ok (sa', t') ->
  map (fun r => nth needle r 0) m = map (fun r => nth needle r 0) m' -> t = t'.
Proof. exact naive_needle_only. Qed.

(* fewer than 31 features: sample[:, 30] raises *)
Theorem C19_naive_precondition : forall nf size s, (nf <= needle)%nat -> exists e, naive nf size s = Err e.
Proof. exact naive_small. Qed.

(* data.csv of --task data_generator: each row = the sample row followed by its label *)
Theorem C19_csv_rows : forall sample target i, length sample = length target -> (i < length sample)%nat ->
  length (csv_rows sample target) = length sample /\
  nth i (csv_rows sample target) [] = nth i sample [] ++ [nth i target 0].
Proof. exact csv_rows_spec. Qed.

Print Assumptions C19_shape.
Print Assumptions C19_domain.
Print Assumptions C19_positions.
Print Assumptions C19_positions_at.
Print Assumptions C19_positions_default.
Print Assumptions C19_positions_unsorted_refuted.
Print Assumptions C19_ensure_rep.
Print Assumptions C19_ensure_rep_prefix_refuted.
Print Assumptions C19_deterministic.
Print Assumptions C19_seeded.
Print Assumptions C19_check_sound.
Print Assumptions C19_model_ok.
Print Assumptions C19_naive.
Print Assumptions C19_naive_needle_only.
Print Assumptions C19_naive_precondition.
Print Assumptions C19_csv_rows.
