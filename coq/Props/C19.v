(* C19 — synthetic categorical data respects its declared shape, domains and seed.
   Only statements here; each is closed by [exact] of a lemma of Synth/DataGenProofs.v.

   [generate a s] / [generate_full a s] transcribe CategoricalClassification.generate_data with
   _ordered_structure, _configure_generate_feature and _generate_feature; [s : list answer] is the
   recorded answer stream of numpy's global RNG (seed, choice, randint, shuffle calls in program
   order).  The model checks the assumed library behaviour on every answer and returns [Err _] when
   an answer violates it, when the stream does not have the shape of the code's call pattern, or
   when the real code raises (empty domain, an index described twice, a column index beyond
   n_features).

   STATED PRECONDITION (int32).  The code does NOT raise on values outside int32: `astype('int32')`
   wraps them silently ([3000000000, 1] -> [-1294967296, 1]).  The model does not follow the code
   there: it returns [Err 9] as soon as a value outside int32 would reach the data set
   (DataGenProofs.ex_out_of_int32).  So every theorem below with hypothesis
   [generate_full a s = Ok _] speaks only about runs all of whose generated values lie inside int32
   (made explicit as the conjunct [in_int32 v = true] of C19_shape and as the int32 hypothesis of
   C19_progress); for other argument sets nothing is claimed ("32-bit integers from the declared
   domain" is unsatisfiable for them) and the harness only counts them.

   The theorems hold for EVERY stream on which the model succeeds; C19_progress shows that is
   every stream respecting numpy's contract, for valid arguments. *)
From Coq Require Import List Arith ZArith Bool.
From Outrank Require Import Synth.DataGen Synth.DataGenProofs.
Import ListNotations.
Open Scope Z_scope.

(* n_samples rows, n_features columns, every cell a 32-bit integer *)
Theorem C19_shape : forall a s X doms, generate_full a s = Ok (X, doms) ->
  length X = n_samples a /\
  forall row, In row X -> length row = n_features a /\ forall v, In v row -> in_int32 v = true.
Proof. exact (run_shape Nat.leb leb_le'). Qed.

(* every cell of column j lies in domain j, and domain j is what the j-th generated feature
   declares ([dom_ok]): the explicit value list; arange(low, low+cardinality); or, with
   random_values, a duplicate-free draw of exactly `cardinality` values within [low, high] *)
Theorem C19_domain : forall a s X doms, generate_full a s = Ok (X, doms) ->
  exists specs, layout a = Ok specs /\ length doms = n_features a /\
  forall j, (j < n_features a)%nat ->
    dom_ok a (nth j specs (dflt a)) (nth j doms []) /\
    forall i, (i < n_samples a)%nat -> In (cell X i j) (nth j doms []).
Proof. exact (run_domain Nat.leb leb_le'). Qed.

(* every index described once and < n_features, IN ANY ORDER ([wf_structure]; single indices, index
   lists, interleaved entries): column j carries exactly the feature declared for j (the default
   feature where nothing is declared).  An index described twice makes the code raise ValueError. *)
Theorem C19_positions : forall a, wf_structure a = true ->
  layout a = Ok (map (declared a) (seq 0 (n_features a))).
Proof. exact layout_wf. Qed.

Theorem C19_positions_at : forall a i at_, wf_structure a = true ->
  In (i, at_) (flat (structure a)) ->
  exists specs, layout a = Ok specs /\ (i < n_features a)%nat /\ nth i specs (dflt a) = at_.
Proof. exact layout_positions. Qed.

Theorem C19_positions_default : forall a j, wf_structure a = true -> (j < n_features a)%nat ->
  ~ In j (map fst (flat (structure a))) ->
  exists specs, layout a = Ok specs /\ nth j specs (dflt a) = dflt a.
Proof. exact layout_default. Qed.

Theorem C19_positions_duplicates_rejected : forall a,
  ~ NoDup (map fst (flat (structure a))) -> layout a = Err 21.
Proof. exact layout_rejects_duplicates. Qed.

(* the behaviour before fix 70b449e (entries processed in the order given, [layout_old]): a
   well-formed but unsorted structure mis-placed a declared feature *)
Theorem C19_positions_unsorted_prefix_refuted :
  exists a i at_ specs,
    In (i, at_) (flat (structure a)) /\ wf_structure a = true /\
    layout_old a = Ok specs /\ nth i specs (dflt a) <> at_.
Proof. exact positions_unsorted_prefix_refuted. Qed.

(* ensure_rep: whenever the sample count allows (|domain| <= n_samples), every domain value occurs *)
Theorem C19_ensure_rep : forall a s X doms, generate_full a s = Ok (X, doms) ->
  ensure_rep a = true ->
  forall j, (j < n_features a)%nat -> (length (nth j doms []) <= n_samples a)%nat ->
  forall v, In v (nth j doms []) -> exists i, (i < n_samples a)%nat /\ cell X i j = v.
Proof. exact run_ensure_rep_le. Qed.

(* the behaviour before fix 31e7d2c (`len(vec) < size`): n_samples = |domain| and a value missing *)
Theorem C19_ensure_rep_prefix_refuted :
  exists a s X doms,
    generate_full_old a s = Ok (X, doms) /\ ensure_rep a = true /\
    exists j v, (j < n_features a)%nat /\ (length (nth j doms []) <= n_samples a)%nat /\
                In v (nth j doms []) /\ forall i, (i < n_samples a)%nat -> cell X i j <> v.
Proof. exact ensure_rep_prefix_refuted. Qed.

(* PARTIAL (seed clause).  Proved: the data set is a function of the arguments once the answer stream
   after np.random.seed(s) is a function [rng] of s, and a successful run's stream starts with
   np.random.seed(seed a) (C19_seeded), so the generator state before the call is irrelevant.
   NOT proved (oracle assumption, made explicit as the quantified [rng]; tested on the real code by
   three runs from different generator states): that numpy's stream after seed(s) is a function of s. *)
Theorem C19_deterministic_partial : forall (rng : Z -> list answer) a a', a = a' ->
  generate a (RSeed (seed a) :: rng (seed a)) = generate a' (RSeed (seed a') :: rng (seed a')).
Proof. intros rng a a' ->. reflexivity. Qed.

Theorem C19_seeded : forall a s X, generate a s = Ok X -> exists s1, s = RSeed (seed a) :: s1.
Proof. exact generate_seeded. Qed.

(* the calls a successful run made are exactly [call_pattern a], in that order *)
Theorem C19_call_pattern : forall a s X doms, generate_full a s = Ok (X, doms) ->
  map kind_of s = call_pattern a.
Proof. exact run_pattern. Qed.

(* progress: valid arguments ([layout] defined; in particular every well-formed structure) and a
   stream respecting numpy's contract ([cols_stream]: replace=False draws are duplicate-free, of the
   requested size, within [low, high]; randint(n) in [0, n); choice(vec, size, p) returns `size`
   elements of vec; shuffle permutes; given frequencies are acceptable to choice), domains inside
   int32: the model succeeds, with exactly those domains *)
Theorem C19_progress : forall a specs doms s1,
  layout a = Ok specs -> cols_stream a specs doms s1 ->
  (forall dom, In dom doms -> forall v, In v dom -> in_int32 v = true) ->
  exists X, generate_full a (RSeed (seed a) :: s1) = Ok (X, doms).
Proof. exact generate_progress. Qed.

Theorem C19_progress_wf : forall a doms s1, wf_structure a = true ->
  cols_stream a (map (declared a) (seq 0 (n_features a))) doms s1 ->
  (forall dom, In dom doms -> forall v, In v dom -> in_int32 v = true) ->
  exists X, generate_full a (RSeed (seed a) :: s1) = Ok (X, doms).
Proof. exact generate_progress_wf. Qed.

(* the validator evaluated on implementation outputs: sound for the property's clauses (for every
   structure the layout accepts; for well-formed ones the layout is the declared one), and accepted
   by every successful model run *)
Theorem C19_check_sound : forall a X, valid_dataset a X = true ->
  length X = n_samples a /\
  (forall row, In row X -> length row = n_features a /\ forall v, In v row -> in_int32 v = true) /\
  exists specs, layout a = Ok specs /\
    (forall j, (j < n_features a)%nat -> col_prop a (nth j specs (dflt a)) (column X j)) /\
    (wf_structure a = true -> forall j, (j < n_features a)%nat -> nth j specs (dflt a) = declared a j).
Proof. exact valid_dataset_sound. Qed.

Theorem C19_model_ok : forall a s X, generate a s = Ok X -> valid_dataset a X = true.
Proof. exact model_passes_validator. Qed.

(* naive generator: label = 1 iff the DRAWN needle value (column 30) is >= 40; needs
   num_features >= 31; the returned sample's needle column is overwritten by the label (view
   semantics), every other cell is the drawn one *)
Theorem C19_naive : forall nf size s sample target,
  naive nf size s = Ok (sample, target) ->
  exists m, s = [RRandintMat m] /\ (needle < nf)%nat /\ length m = size /\
    target = map (fun r => if 40 <=? nth needle r 0 then 1 else 0) m /\
    length sample = size /\
    forall i, (i < size)%nat ->
      length (nth i sample []) = nf /\
      nth needle (nth i sample []) 0 = nth i target 0 /\
      forall j, j <> needle -> nth j (nth i sample []) 0 = nth j (nth i m []) 0.
Proof. exact naive_spec. Qed.

Theorem C19_naive_needle_only : forall nf size nf' size' m m' sa t sa' t',
  naive nf size [RRandintMat m] = Ok (sa, t) -> naive nf' size' [RRandintMat m'] = Ok (sa', t') ->
  map (fun r => nth needle r 0) m = map (fun r => nth needle r 0) m' -> t = t'.
Proof. exact naive_needle_only. Qed.

(* fewer than 31 features: sample[:, 30] raises *)
Theorem C19_naive_precondition : forall nf size s, (nf <= needle)%nat -> exists e, naive nf size s = Err e.
Proof. exact naive_small. Qed.

(* data.csv of --task data_generator: each row = the sample row followed by its label *)
Theorem C19_csv_rows : forall sample target i, length sample = length target -> (i < length sample)%nat ->
  length (csv_rows sample target) = length sample /\
  nth i (csv_rows sample target) [] = nth i sample [] ++ [nth i target 0].
Proof. exact csv_rows_spec. Qed.

Print Assumptions C19_shape.
Print Assumptions C19_domain.
Print Assumptions C19_positions.
Print Assumptions C19_positions_at.
Print Assumptions C19_positions_default.
Print Assumptions C19_positions_duplicates_rejected.
Print Assumptions C19_positions_unsorted_prefix_refuted.
Print Assumptions C19_ensure_rep.
Print Assumptions C19_ensure_rep_prefix_refuted.
Print Assumptions C19_deterministic_partial.
Print Assumptions C19_seeded.
Print Assumptions C19_call_pattern.
Print Assumptions C19_progress.
Print Assumptions C19_progress_wf.
Print Assumptions C19_check_sound.
Print Assumptions C19_model_ok.
Print Assumptions C19_naive.
Print Assumptions C19_naive_needle_only.
Print Assumptions C19_naive_precondition.
Print Assumptions C19_csv_rows.
