(* C06 — the rank graph covers exactly the requested pairs, in both orientations.
   Only statements here; each is closed by [exact] of a lemma of Pipeline/CombosProofs.v.

   [candidates cols h tro label] transcribes get_combinations_from_columns (as a list, in the code's order);
   [uin (a,b) l] = the pair occurs in l in one of its two orientations (the property speaks of the SET of pairs);
   [selected_ok cands cap' sel] = sel is a sub-multiset of the candidate list of length len(cands[:cap']);
   [valid_batch cols h tro label cap rows] = rows is what one mixed_rank_graph call may return: some such selection,
   in any order (random.shuffle), with any scorer answers, assembled by the mirror loop / the Constant shortcut;
   [C06_check] is the boolean checker the harness evaluates on the implementation's candidate list and rows.
   No theorem bounds the number of columns; none needs NoDup except where stated. *)
From Coq Require Import List Arith ZArith NArith Bool Permutation Sorted.
From Outrank Require Import Pipeline.Sampler Pipeline.Combos Pipeline.CombosProofs.
Import ListNotations.

(* target-only: exactly every column paired with the label, incl. {label,label} *)
Theorem C06_target_only : forall cols h tro label,
  is_3mr h = false -> is_tonly tro = true ->
  forall a b, uin (a, b) (candidates cols h tro label) <-> In a cols /\ In b cols /\ (a = label \/ b = label).
Proof. exact cands_target_only. Qed.

(* pairwise: exactly every unordered pair of columns, incl. every column with itself *)
Theorem C06_pairwise : forall cols h tro label,
  is_3mr h = false -> is_tonly tro = false ->
  forall a b, uin (a, b) (candidates cols h tro label) <-> In a cols /\ In b cols.
Proof. exact cands_pairwise. Qed.

(* 3mr: unordered pairs over the non-relation columns, relation columns with the label only,
   and the non-label diagonal when not target-only *)
Theorem C06_3mr : forall cols h tro label,
  is_3mr h = true ->
  forall a b, uin (a, b) (candidates cols h tro label) <->
    (In a cols /\ In b cols /\ is_rel a = false /\ is_rel b = false)
    \/ (In a cols /\ is_rel a = true /\ b = label)
    \/ (a = label /\ In b cols /\ is_rel b = true)
    \/ (is_tonly tro = false /\ a = b /\ In a cols /\ a <> label).
Proof. exact cands_3mr. Qed.

(* the decidable specification used by the checker is the same set *)
Theorem C06_spec_decidable : forall cols h tro label p,
  spec_pairb cols h tro label p = true <-> uin p (candidates cols h tro label).
Proof. exact spec_pairb_iff. Qed.

(* list level (code as of b3d9d15: the diagonal list skips pairs already listed): with duplicate-free columns the candidate
   list is duplicate-free and holds one orientation of each pair, IN EVERY MODE ... *)
Theorem C06_listed_once : forall cols h tro label, NoDup cols ->
  NoDup (candidates cols h tro label) /\
  (forall a b, In (a, b) (candidates cols h tro label) -> In (b, a) (candidates cols h tro label) -> a = b).
Proof. exact cands_once. Qed.

Theorem C06_target_only_once : forall cols h tro label, NoDup cols -> is_tonly tro = true ->
  NoDup (candidates cols h tro label) /\
  (forall a b, In (a, b) (candidates cols h tro label) -> In (b, a) (candidates cols h tro label) -> a = b).
Proof. intros cols h tro label H _. exact (cands_once cols h tro label H). Qed.

(* ... hence every requested pair is listed exactly once and nothing else is listed: target-only, pairwise, and 3mr
   (non-relation pairs once, {rel,label} once, (rel,rel) once when not target-only, relation columns never with another column) *)
Theorem C06_multiplicity : forall cols h tro label p, NoDup cols ->
  ucount p (candidates cols h tro label) = if spec_pairb cols h tro label p then 1 else 0.
Proof. exact cands_multiplicity. Qed.

Theorem C06_pairwise_multiplicity : forall cols h tro label a b,
  NoDup cols -> is_3mr h = false -> is_tonly tro = false -> In a cols -> In b cols ->
  ucount (a, b) (candidates cols h tro label) = 1.
Proof. exact pairwise_multiplicity. Qed.

(* the 3mr clamp *)
Theorem C06_clamp : forall h cap, is_3mr h = true -> eff_cap h cap = Z.min cap max_features_3mr.
Proof. exact eff_cap_3mr. Qed.

(* the cap: whatever the sampler's tie-breaking (C07's relation, tuples identified by any encoding injective on
   the tuples involved), the selection is a sub-multiset of the candidates of the slice's length *)
Theorem C06_selected : forall (enc : pair -> key) st cands cap' sel st',
  inj_on enc (cands ++ sel) ->
  valid_step st (map enc cands) cap' (map enc sel) st' ->
  incl sel cands /\ selected_ok cands cap' sel.
Proof. exact selected_from_sampler. Qed.

Theorem C06_selected_min : forall cands cap' sel, (0 <= cap')%Z -> selected_ok cands cap' sel ->
  length sel = Nat.min (length cands) (Z.to_nat cap').
Proof. exact selected_ok_nonneg. Qed.

(* the transcription of prior_combinations_sample on the candidate list is an instance *)
Theorem C06_transcription_selected : forall s cands cap', selected_ok cands cap' (fst (select s cands cap')).
Proof. exact select_ok. Qed.

(* scoring heuristics: the rows are exactly the evaluated triplets and their mirror images, same score *)
Theorem C06_mirrored : forall cols h tro label cap rows, is_const h = false ->
  valid_batch cols h tro label cap rows ->
  exists T, selected_ok (candidates cols h tro label) (eff_cap h cap) (map rp T)
    /\ (forall r, In r rows <-> In r T \/ In (swap3 r) T)
    /\ (forall a b s, In (a, b, s) T -> In (a, b, s) rows /\ In (b, a, s) rows)
    /\ (forall r, rcount r rows = rcount r T + rcount (swap3 r) T)
    /\ (forall r, rcount r rows = rcount (swap3 r) rows)
    /\ length rows = 2 * slice_len (length (candidates cols h tro label)) (eff_cap h cap).
Proof. exact batch_mirrored. Qed.

(* Constant: one row per selected combination, score 0, no mirror; with duplicate-free columns "lists each pair once" is
   literally true in every mode (at most one row per unordered pair), also under the reference-model filter *)
Theorem C06_constant_once : forall cols h tro label cap refs rows, is_const h = true ->
  valid_batch_ref cols h tro label cap refs rows ->
  selected_ok (ref_filter refs (candidates cols h tro label)) (eff_cap h cap) (map rp rows)
  /\ (forall r, In r rows -> snd r = 0%N)
  /\ length rows = slice_len (length (ref_filter refs (candidates cols h tro label))) (eff_cap h cap)
  /\ (NoDup cols -> forall p, ucount p (map rp rows) <= 1).
Proof. exact constant_once. Qed.

(* prior heuristics (surrogate-SGD / -SVM / -SGD-RP with a reference model JSON): [refs] = ref_names h (Some features);
   [valid_batch] is the case refs = [] *)
Theorem C06_valid_batch_no_reference : forall cols h tro label cap rows,
  valid_batch cols h tro label cap rows <-> valid_batch_ref cols h tro label cap [] rows.
Proof. exact valid_batch_is_ref_nil. Qed.

Theorem C06_ref_filter_set : forall refs cands a b,
  uin (a, b) (ref_filter refs cands) <-> uin (a, b) cands /\ ~ In a refs /\ ~ In b refs.
Proof. exact uin_ref_filter. Qed.

(* evaluated pairs are requested pairs that touch no reference feature ... *)
Theorem C06_ref_requested : forall cols h tro label cap refs rows, In label cols ->
  valid_batch_ref cols h tro label cap refs rows ->
  forall a b s, In (a, b, s) rows ->
    spec_pairb cols h tro label (a, b) = true /\ ~ In a refs /\ ~ In b refs /\ In a cols /\ In b cols.
Proof. exact batch_ref_requested. Qed.

(* ... reduced only by the cap: all clauses relative to the filtered list, and completeness when the cap does not bind *)
Theorem C06_ref_batch_spec : forall cols h tro label cap refs rows, In label cols ->
  valid_batch_ref cols h tro label cap refs rows ->
  rows_spec cols h (ref_filter refs (candidates cols h tro label)) (eff_cap h cap) rows.
Proof. exact batch_ref_rows_spec. Qed.

Theorem C06_ref_complete : forall cols h tro label cap refs rows,
  (Z.of_nat (length (ref_filter refs (candidates cols h tro label))) <= eff_cap h cap)%Z ->
  valid_batch_ref cols h tro label cap refs rows ->
  forall a b, spec_pairb cols h tro label (a, b) = true -> ~ In a refs -> ~ In b refs ->
    exists s, In (a, b, s) rows \/ In (b, a, s) rows.
Proof. exact batch_ref_complete. Qed.

(* no row mentions a column outside the frame; every row is a requested pair *)
Theorem C06_closed : forall cols h tro label cap rows, In label cols ->
  valid_batch cols h tro label cap rows ->
  forall a b s, In (a, b, s) rows -> In a cols /\ In b cols.
Proof. exact batch_closed. Qed.

Theorem C06_requested : forall cols h tro label cap rows, In label cols ->
  valid_batch cols h tro label cap rows ->
  forall a b s, In (a, b, s) rows -> spec_pairb cols h tro label (a, b) = true.
Proof. exact batch_requested. Qed.

(* all clauses at once, and the checker decides exactly them *)
Theorem C06_batch_spec : forall cols h tro label cap rows, In label cols ->
  valid_batch cols h tro label cap rows ->
  rows_spec cols h (candidates cols h tro label) (eff_cap h cap) rows.
Proof. exact batch_rows_spec. Qed.

Theorem C06_rows_checker_exact : forall cols h cands cap' rows,
  rows_okb cols h cands cap' rows = true <-> rows_spec cols h cands cap' rows.
Proof. exact rows_okb_iff. Qed.

(* the harness evaluates the same checks on column positions; on closed candidate lists they are equal *)
Theorem C06_fast_rows_checker : forall cols h cands cap' rows, closed_pairsb cols cands = true ->
  rows_okb_fast cols h cands cap' rows = rows_okb cols h cands cap' rows.
Proof. exact rows_okb_fast_eq. Qed.

Theorem C06_fast_cands_checker : forall cols h tro label cands, closed_pairsb cols cands = true ->
  cands_okb_fast cols h tro label cands = cands_okb cols h tro label cands.
Proof. exact cands_okb_fast_eq. Qed.

Theorem C06_check_sound : forall c o, In (c_label c) (c_cols c) -> C06_check c o = true ->
  (forall p, uin p (o_cands o) <-> uin p (C06_cands c))
  /\ o_cap o = eff_cap (c_heur c) (c_cap c)
  /\ Forall (rows_spec (c_cols c) (c_heur c) (ref_filter (C06_refs c) (o_cands o)) (o_cap o)) (o_rows o).
Proof. exact check_sound. Qed.

Theorem C06_model_ok : forall c scores, In (c_label c) (c_cols c) ->
  (forall e s, In (e, s) (combine (select_run [] (ref_filter (C06_refs c) (C06_cands c)) (eff_cap (c_heur c) (c_cap c)) (c_batches c)) scores) ->
               length s = length e) ->
  C06_check c (C06_model c scores) = true.
Proof. exact model_ok. Qed.

(* sorted(set(...)) in the 3mr branch does not depend on the set's iteration order *)
Theorem C06_sorted_set_canonical : forall cols l',
  StronglySorted str_le l' -> Permutation l' (dedup (filter (fun c => negb (is_rel c)) cols)) ->
  l' = non_rel_columns cols.
Proof. exact non_rel_canonical. Qed.

Print Assumptions C06_target_only.
Print Assumptions C06_pairwise.
Print Assumptions C06_3mr.
Print Assumptions C06_spec_decidable.
Print Assumptions C06_listed_once.
Print Assumptions C06_target_only_once.
Print Assumptions C06_multiplicity.
Print Assumptions C06_pairwise_multiplicity.
Print Assumptions C06_clamp.
Print Assumptions C06_selected.
Print Assumptions C06_selected_min.
Print Assumptions C06_transcription_selected.
Print Assumptions C06_mirrored.
Print Assumptions C06_constant_once.
Print Assumptions C06_valid_batch_no_reference.
Print Assumptions C06_ref_filter_set.
Print Assumptions C06_ref_requested.
Print Assumptions C06_ref_batch_spec.
Print Assumptions C06_ref_complete.
Print Assumptions C06_closed.
Print Assumptions C06_requested.
Print Assumptions C06_batch_spec.
Print Assumptions C06_rows_checker_exact.
Print Assumptions C06_fast_rows_checker.
Print Assumptions C06_fast_cands_checker.
Print Assumptions C06_check_sound.
Print Assumptions C06_model_ok.
Print Assumptions C06_sorted_set_canonical.
