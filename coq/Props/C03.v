(* C03 — the cardinality correction subtracts the displaced-copy noise floor.
   Only statements; each is closed by [exact] of a lemma of MI/Proofs.v.

   [displace Y X] reads Y at the row position advanced cyclically by the size of the row's X-group:
   (displace Y X)[i] = Y[(i + n_{X[i]}) mod n]  (MI/Spec.v);  [Hcond A X] is the textbook H(A | X).
   Proved: the exact identity and the three corollaries (constant, all-distinct, self pair).
   NOT a theorem (statistical clause, DESIGN section 3 C03 "partial"): "an informative low-cardinality feature
   outranks independent noise features of any cardinality at n >= 4000" — reported by the check only as a
   labelled supporting statistic. *)
(* The heuristic NAME -> flag clause ("with cardinality correction on (heuristic MI-numba-randomized)") is deliberately not
   restated here.  Its for-all-strings form is C05_flag_only_randomized (Props/C05.v, Pipeline/DispatchProofs.v) about the
   GENERATED Gen/Dispatch.v; importing that file would make this property's build depend on the C05 translator accepting the
   current shape of conduct_feature_ranking and on the shared coq/Gen directory not being rewritten by a concurrent run against
   another tree — both observed to fail on harmless rewrites.  C03 holds the clause by its own run-time probe of
   importance_estimator.numba_mi / conduct_feature_ranking (every documented name) plus a sound, advisory ast reader
   (tools/props/c03.py, coverage.wiring_decided_by). *)
From Coq Require Import Reals List ZArith.
From Outrank Require Import Common.RSum MI.Model MI.Spec MI.Proofs.
Import ListNotations.
Open Scope R_scope.

Definition C03_case : Type := list Z * list Z.                       (* (Y, X), flag = true *)
Definition C03_model (c : C03_case) : terms := entry (fst c) (snd c) true.

Theorem C03_identity : forall Y X, length Y = length X -> (0 < length X)%nat -> Y <> X ->
  eval_R (entry Y X true) = Hcond (displace Y X) X - Hcond Y X.
Proof. exact corrected_identity. Qed.

(* the same identity for the core with the flag on, without the Y <> X hypothesis *)
Theorem C03_core_identity : forall Y X, length Y = length X -> (0 < length X)%nat ->
  eval_R (core Y X true) = Hcond (displace Y X) X - Hcond Y X.
Proof. exact core_true_identity. Qed.

Theorem C03_const : forall Y X a, length Y = length X -> (0 < length X)%nat ->
  (forall v, In v Y -> v = a) -> eval_R (entry Y X true) = 0.
Proof. exact corrected_const. Qed.

Theorem C03_alldistinct : forall Y X, length Y = length X -> (0 < length X)%nat -> NoDup Y -> Y <> X ->
  eval_R (entry Y X true) = 0.
Proof. exact corrected_alldistinct. Qed.

Theorem C03_self : forall Y, (0 < length Y)%nat -> eval_R (entry Y Y true) = H Y.
Proof. exact corrected_self. Qed.

(* the displaced copy: same length, values of Y only *)
Theorem C03_displace_shape : forall Y X, length (displace Y X) = length Y /\ incl (displace Y X) Y.
Proof. intros Y X. split; [apply displace_length|apply displace_incl]. Qed.

(* non-vacuity: the displaced copy differs from Y and changes the class counts; an all-distinct Y against a
   two-valued X; and the corrected and uncorrected scores differ as reals on a concrete pair *)
Example C03_nonvacuous :
  let Y := [0; 1; 2; 0; 1; 2; 0; 0; 1; 2]%Z in let X := [5; 5; 9; 9; 7; 7; 5; 3; 9; 9]%Z in
  length Y = length X /\ (0 < length X)%nat /\ Y <> X /\
  displace Y X = [0; 1; 0; 0; 0; 0; 2; 1; 2; 0]%Z /\
  enc (entry Y X true)
  = (10%Z, [4; 3; 3]%Z, [(3%Z, [2; 1]%Z, [1; 1; 1]%Z); (2%Z, [1; 1]%Z, [2]%Z); (4%Z, [1; 1; 2]%Z, [3; 1]%Z)], true).
Proof. cbv zeta. repeat split; try (vm_compute; discriminate). vm_compute. repeat constructor. Qed.

Example C03_alldistinct_nonvacuous :
  let Y := [4; 9; 1; 7; 3; 8]%Z in let X := [0; 1; 0; 1; 1; 0]%Z in
  length Y = length X /\ NoDup Y /\ Y <> X /\ t_strata (entry Y X true) <> [].
Proof.
  cbv zeta. repeat split; try (vm_compute; discriminate).
  repeat constructor; simpl; intuition discriminate.
Qed.

Example C03_values_differ : eval_R (core wY wX true) < eval_R (core wY wX false).
Proof. exact witness_gap. Qed.

Print Assumptions C03_identity.
Print Assumptions C03_core_identity.
Print Assumptions C03_const.
Print Assumptions C03_alldistinct.
Print Assumptions C03_self.
Print Assumptions C03_displace_shape.
