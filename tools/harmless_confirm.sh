#!/bin/bash
# usage: tools/harmless_confirm.sh <src-dir with patch.diff demo.py meta.json> <name>
# Confirms an independently written HARMLESS rewrite in a fresh scratch worktree of /repo:
#   with the patch: its own property demo passes and the unedited test suite passes.  Kept as /verif/seeded/<name>/.
src=$1; name=$2
wt=/root/scratch/confirm_$name
log=/root/scratch/confirm_$name.log
git -C /repo worktree remove --force $wt >/dev/null 2>&1
git -C /repo worktree add --detach $wt HEAD >/dev/null 2>&1 || exit 2
mkdir -p $wt/.rt_tmp
run() { (cd $wt && PYTHONPATH=$wt NUMBA_CACHE_DIR=$wt/.nb PYTHONHASHSEED=0 timeout 1800 /venv/bin/python "$@"); }
{
echo "== apply"; git -C $wt apply $src/patch.diff; a=$?; echo "apply=$a"
echo "== patched demo"; run $src/demo.py; p=$?; echo "exit=$p"
echo "== patched suite"; run -m pytest -q -p no:cacheprovider --timeout=900 tests 2>&1 | tail -5; s=${PIPESTATUS[0]}; echo "suite_exit=$s"
} > $log 2>&1
a=$(grep "^apply=" $log | cut -d= -f2); p=$(grep "^exit=" $log | head -1 | cut -d= -f2); s=$(grep "^suite_exit=" $log | cut -d= -f2)
git -C /repo worktree remove --force $wt
if [ "$a" = "0" ] && [ "$p" = "0" ] && [ "$s" = "0" ]; then
  mkdir -p /verif/seeded/$name && cp $src/patch.diff $src/demo.py $src/meta.json /verif/seeded/$name/ && cp $log /verif/seeded/$name/confirm.log
  echo "CONFIRMED-HARMLESS $name"
else
  echo "REJECTED $name (apply=$a demo=$p suite=$s) see $log"
fi
