#!/usr/bin/env python3
"""C05 translator: regenerates coq/Gen/Dispatch.v and coq/Gen/DocNames.v from the repo's working tree.

Dispatch.v  <- outrank/algorithms/importance_estimator.py
    the if/elif chain over the heuristic name in `conduct_feature_ranking` (reached from
    `get_importances_estimate_pairwise`) and the correction-flag expression of `numba_mi`, as
        dispatch : str -> scorer            (str = list N of code points)
    plus, from outrank/core_ranking.py, the two other name tests on the scoring path:
        is_const_name : str -> bool         (`args.heuristic == 'Constant'`, the no-scoring shortcut of mixed_rank_graph)
        is_3mr_name   : str -> bool         (`'3mr' in args.heuristic`, get_combinations_from_columns)
    Accepted tests (anything else: refuse):  heuristic == 'lit' | heuristic != 'lit' | heuristic in {lits}
    | 'lit' in heuristic | not t | t and t | t or t,  where `heuristic` is the local bound to args.heuristic
    (or args.heuristic itself).  Accepted branch bodies: `score = <known scorer call>(vector_first, vector_second…)`,
    `score = 0.0`; the final else may log and must set `score = 0.0`.

DocNames.v  <- README.md, docs/, examples/, scripts/, benchmarks/, outrank/__main__.py
    doc_names : list str  = every heuristic NAME the project's own material uses:
      `--heuristic <name>` (shell / markdown / usage text / f-strings with a module constant),
      the argparse default of --heuristic, `heuristic == 'x'`, `heuristic != 'x'`, `heuristic = 'x'`,
      `heuristic: str = 'x'` in the rendered sources under docs/, and `Score <name>` column names.
    doc_fragments : substring markers (`'x' in heuristic`) — listed for information, they are not names.

Fail-closed: any unrecognised construct -> exit status 1, and the generated file is replaced by a stub
that does not define `dispatch` / `doc_names`, so the proofs in Props/C05.v cannot be built from stale text.
The output is a deterministic function of the repo's files (no timestamps, sorted names).
"""
from __future__ import annotations

import ast
import html
import os
import re
import sys

HERE = os.path.dirname(os.path.abspath(__file__))
VERIF = os.path.dirname(HERE)


class Refuse(Exception):
    pass


# --------------------------------------------------------------------------------------------------
# Coq text helpers

def strlit(s):
    for c in s:
        if ord(c) >= 0x110000:
            raise Refuse("bad code point")
    return "[" + "; ".join("%d" % ord(c) for c in s) + "]"


def cmt(s):
    """text safe inside a Coq comment"""
    return s.replace("(*", "( *").replace("*)", "* )").replace('"', "'")


# --------------------------------------------------------------------------------------------------
# Dispatch

SUBJECT = "heuristic"


class Dispatch:
    def __init__(self, src, fname):
        self.src = src
        self.fname = fname
        self.tree = ast.parse(src, filename=fname)
        self.funcs = {n.name: n for n in self.tree.body if isinstance(n, ast.FunctionDef)}
        # module-level string constants assigned exactly once (NAME = 'literal'): usable where a literal is expected
        seen = {}
        for n in ast.walk(self.tree):
            tg = []
            if isinstance(n, ast.Assign):
                tg = [t for t in n.targets]
            elif isinstance(n, (ast.AnnAssign, ast.AugAssign)):
                tg = [n.target]
            for t in tg:
                for nm in ast.walk(t):
                    if isinstance(nm, ast.Name):
                        seen[nm.id] = seen.get(nm.id, 0) + 1
        self.consts = {}
        for n in self.tree.body:
            if isinstance(n, ast.Assign) and len(n.targets) == 1 and isinstance(n.targets[0], ast.Name) \
                    and isinstance(n.value, ast.Constant) and isinstance(n.value.value, str) and seen.get(n.targets[0].id) == 1:
                self.consts[n.targets[0].id] = n.value.value

    def where(self, node):
        return "%s:%d" % (self.fname, getattr(node, "lineno", 0))

    def text(self, node):
        return ast.get_source_segment(self.src, node) or ast.dump(node)

    # -- tests ----------------------------------------------------------------------------------
    def is_subject(self, e, names, args_name):
        if isinstance(e, ast.Name) and e.id in names:
            return True
        if (args_name and isinstance(e, ast.Attribute) and e.attr == "heuristic"
                and isinstance(e.value, ast.Name) and e.value.id == args_name):
            return True
        return False

    def is_lit(self, e):
        return (isinstance(e, ast.Constant) and isinstance(e.value, str)) or (isinstance(e, ast.Name) and e.id in self.consts)

    def lit(self, e):
        return e.value if isinstance(e, ast.Constant) else self.consts[e.id]

    def test(self, e, names, args_name):
        """-> Coq boolean expression over `h`"""
        if isinstance(e, ast.BoolOp):
            op = "&&" if isinstance(e.op, ast.And) else "||"
            return "(" + (" %s " % op).join(self.test(v, names, args_name) for v in e.values) + ")"
        if isinstance(e, ast.UnaryOp) and isinstance(e.op, ast.Not):
            return "(negb %s)" % self.test(e.operand, names, args_name)
        if isinstance(e, ast.Compare) and len(e.ops) == 1 and len(e.comparators) == 1:
            op, l, r = e.ops[0], e.left, e.comparators[0]
            if isinstance(op, (ast.Eq, ast.NotEq)):
                if self.is_subject(l, names, args_name) and self.is_lit(r):
                    lit = self.lit(r)
                elif self.is_subject(r, names, args_name) and self.is_lit(l):
                    lit = self.lit(l)
                else:
                    raise Refuse("%s: unsupported comparison %s" % (self.where(e), self.text(e)))
                t = "(seqb h %s (* '%s' *))" % (strlit(lit), cmt(lit))
                return t if isinstance(op, ast.Eq) else "(negb %s)" % t
            if isinstance(op, (ast.In, ast.NotIn)):
                if self.is_subject(l, names, args_name) and isinstance(r, (ast.Set, ast.List, ast.Tuple)) \
                        and all(self.is_lit(x) for x in r.elts):
                    lits = [self.lit(x) for x in r.elts]
                    t = "(smem h [%s] (* %s *))" % ("; ".join(strlit(x) for x in lits),
                                                     cmt(", ".join("'%s'" % x for x in lits)))
                elif self.is_lit(l) and self.is_subject(r, names, args_name):
                    t = "(sinfix %s h (* '%s' in h *))" % (strlit(self.lit(l)), cmt(self.lit(l)))
                else:
                    raise Refuse("%s: unsupported membership test %s" % (self.where(e), self.text(e)))
                return t if isinstance(op, ast.In) else "(negb %s)" % t
        raise Refuse("%s: unsupported test %s" % (self.where(e), self.text(e)))

    # -- numba_mi flag --------------------------------------------------------------------------
    def numba_flag(self):
        f = self.funcs.get("numba_mi")
        if f is None:
            raise Refuse("numba_mi not found")
        params = [a.arg for a in f.args.args]
        if len(params) < 3:
            raise Refuse("%s: numba_mi parameters %s not recognised" % (self.where(f), params))
        subj = SUBJECT if SUBJECT in params else params[2]     # the heuristic name is the third parameter
        def local_def(name):
            """the unique `name = <expr>` of numba_mi (a local flag variable, whatever it is called)"""
            found = None
            for st in ast.walk(f):
                tg = st.targets if isinstance(st, ast.Assign) else [st.target] if isinstance(st, (ast.AnnAssign, ast.AugAssign)) else []
                if any(isinstance(nm, ast.Name) and nm.id == name for t in tg for nm in ast.walk(t)):
                    if found is not None or not isinstance(st, ast.Assign) or len(st.targets) != 1 \
                            or not isinstance(st.targets[0], ast.Name):
                        raise Refuse("%s: %s is not assigned exactly once by a plain assignment" % (self.where(st), name))
                    found = st.value
            return found
        calls = [c for c in ast.walk(f) if isinstance(c, ast.Call) and
                 ((isinstance(c.func, ast.Attribute) and c.func.attr == "mutual_info_estimator_numba") or
                  (isinstance(c.func, ast.Name) and c.func.id == "mutual_info_estimator_numba"))]
        if len(calls) != 1:
            raise Refuse("%s: expected exactly one call of mutual_info_estimator_numba in numba_mi" % self.where(f))
        call = calls[0]
        passed = None
        for kw in call.keywords:
            if kw.arg == "cardinality_correction":
                passed = kw.value
        if passed is None and len(call.args) >= 4:
            passed = call.args[3]
        if passed is None:
            # the estimator's default is False
            return "false", "default (no flag passed)"
        if isinstance(passed, ast.Name) and passed.id != subj and passed.id not in params and local_def(passed.id) is not None:
            e = local_def(passed.id)
            if isinstance(e, ast.Constant) and isinstance(e.value, bool):
                return ("true" if e.value else "false"), self.text(e)
        elif isinstance(passed, ast.Constant) and isinstance(passed.value, bool):
            return ("true" if passed.value else "false"), self.text(passed)
        else:
            e = passed
        return self.test(e, {subj}, None), self.text(e)

    # -- branch bodies --------------------------------------------------------------------------
    def scorer_of_value(self, v, flag, names, args_name):
        """value expression assigned to `score` -> scorer term (or None for a numeric constant 0)"""
        def vec_args(call, extra_ok):
            a = call.args
            # either order: which column conditions is part of the hand-written model and is held by the
            # correspondence (only the corrected numba score is asymmetric), not by this table
            if len(a) < 2 or not all(isinstance(x, ast.Name) for x in a[:2]) \
                    or {a[0].id, a[1].id} != {"vector_first", "vector_second"}:
                raise Refuse("%s: scorer not applied to the two column vectors: %s" % (self.where(call), self.text(call)))
            if not extra_ok and (len(a) != 2 or call.keywords):
                raise Refuse("%s: unexpected extra arguments: %s" % (self.where(call), self.text(call)))
            return a[2:]

        def fname(call):
            f = call.func
            if isinstance(f, ast.Name):
                return f.id
            if isinstance(f, ast.Attribute):
                return f.attr
            return None

        if isinstance(v, ast.Constant) and isinstance(v.value, (int, float)) and not isinstance(v.value, bool):
            if v.value == 0:
                return None
            raise Refuse("%s: non-zero constant score %r" % (self.where(v), v.value))
        if isinstance(v, ast.Subscript) and isinstance(v.value, ast.Call) and fname(v.value) == "pearsonr":
            idx = v.slice
            if not (isinstance(idx, ast.Constant) and idx.value == 0):
                raise Refuse("%s: pearsonr(...)[%s]" % (self.where(v), self.text(idx)))
            vec_args(v.value, False)
            return "Pearson"
        if isinstance(v, ast.Call):
            n = fname(v)
            if n == "sklearn_MI":
                vec_args(v, False)
                return "SkMI"
            if n == "sklearn_mi_adj":
                vec_args(v, False)
                return "AMI"
            if n == "max_pair_coverage":
                vec_args(v, False)
                return "MaxCov"
            if n == "sklearn_surrogate":
                vec_args(v, True)
                return "Surrogate"
            if n == "numba_mi":
                extra = vec_args(v, True)
                if not extra or not self.is_subject(extra[0], names, args_name):
                    raise Refuse("%s: numba_mi not given the heuristic name: %s" % (self.where(v), self.text(v)))
                return "(NumbaMI %s)" % flag
        raise Refuse("%s: unrecognised scorer expression %s" % (self.where(v), self.text(v)))

    def branch(self, body, flag, names, args_name, is_else):
        score_val = None
        for st in body:
            if isinstance(st, ast.Assign) and len(st.targets) == 1 and isinstance(st.targets[0], ast.Name) \
                    and st.targets[0].id == "score":
                if score_val is not None:
                    raise Refuse("%s: score assigned twice in one branch" % self.where(st))
                score_val = st.value
            elif isinstance(st, ast.Expr) and isinstance(st.value, ast.Call) and isinstance(st.value.func, ast.Attribute) \
                    and isinstance(st.value.func.value, ast.Name) and st.value.func.value.id in ("logger", "logging"):
                continue        # log line
            elif isinstance(st, ast.Pass):
                continue
            else:
                raise Refuse("%s: unsupported statement in dispatch branch: %s" % (self.where(st), self.text(st)))
        if score_val is None:
            return None         # keeps the initial value
        s = self.scorer_of_value(score_val, flag, names, args_name)
        if s is None:
            return "Fallback" if is_else else "Const"
        return s

    def chain(self):
        if "get_importances_estimate_pairwise" not in self.funcs:
            raise Refuse("get_importances_estimate_pairwise not found")
        entry = self.funcs["get_importances_estimate_pairwise"]
        called = {c.func.id for c in ast.walk(entry) if isinstance(c, ast.Call) and isinstance(c.func, ast.Name)}
        # the chain lives in conduct_feature_ranking (called from the entry point) or in the entry point itself
        host = None
        for cand in ("conduct_feature_ranking", "get_importances_estimate_pairwise"):
            f = self.funcs.get(cand)
            if f is None:
                continue
            if cand != "get_importances_estimate_pairwise" and cand not in called:
                continue
            if any(isinstance(st, ast.If) for st in f.body):
                host = f
                break
        if host is None:
            raise Refuse("no if/elif dispatch chain found in conduct_feature_ranking / get_importances_estimate_pairwise")
        flag, flag_src = self.numba_flag()
        argnames = [a.arg for a in host.args.args]
        args_name = "args" if "args" in argnames else None
        names = set()
        if SUBJECT in argnames:
            names.add(SUBJECT)
        initial = None
        chain = None
        for st in host.body:
            if isinstance(st, ast.Expr) and isinstance(st.value, ast.Constant) and isinstance(st.value.value, str):
                continue    # docstring
            if isinstance(st, ast.Assign) and len(st.targets) == 1 and isinstance(st.targets[0], ast.Name):
                tgt = st.targets[0].id
                if self.is_subject(st.value, set(), args_name) and chain is None and tgt != "score":
                    names.add(tgt)      # local alias of args.heuristic
                    continue
                if tgt == "score" and chain is None:
                    if self.scorer_of_value(st.value, flag, names, args_name) is not None:
                        raise Refuse("%s: initial score is not the constant 0" % self.where(st))
                    initial = "Fallback"
                    continue
            if isinstance(st, ast.If) and chain is None:
                chain = st
                continue
            if isinstance(st, ast.Return) and chain is not None and isinstance(st.value, ast.Name) and st.value.id == "score":
                continue
            if host.name == "get_importances_estimate_pairwise":
                raise Refuse("%s: dispatch chain inside the entry point is not supported: %s" % (self.where(st), self.text(st)))
            raise Refuse("%s: unsupported statement around the dispatch chain: %s" % (self.where(st), self.text(st)))
        if chain is None:
            raise Refuse("dispatch chain not found")
        branches = []
        node = chain
        final = None
        while True:
            t = self.test(node.test, names, args_name)
            s = self.branch(node.body, flag, names, args_name, False)
            if s is None:
                if initial is None:
                    raise Refuse("%s: branch leaves score unset" % self.where(node))
                s = initial
            branches.append((t, s, self.text(node.test)))
            if len(node.orelse) == 1 and isinstance(node.orelse[0], ast.If):
                node = node.orelse[0]
                continue
            if node.orelse:
                final = self.branch(node.orelse, flag, names, args_name, True)
            if final is None:
                if initial is None:
                    raise Refuse("%s: no else branch and no initial score" % self.where(node))
                final = initial
            break
        return host.name, branches, final, flag_src

    def emit(self, extra_defs=""):
        host, branches, final, flag_src = self.chain()
        out = []
        out.append("(* GENERATED by tools/translate_dispatch.py from outrank/algorithms/importance_estimator.py — do not edit.")
        out.append("   Dispatch chain of %s; correction flag of numba_mi = %s *)" % (host, cmt(flag_src)))
        out.append("From Coq Require Import List NArith Bool.")
        out.append("From Outrank Require Import Pipeline.RankGraph.")
        out.append("Import ListNotations.")
        out.append("Open Scope N_scope.")
        out.append("Open Scope bool_scope.")
        out.append("")
        out.append("Definition dispatch (h : str) : scorer :=")
        for t, s, src in branches:
            out.append("  (* %s *)" % cmt(src))
            out.append("  if %s then %s else" % (t, s))
        out.append("  %s." % final)
        out.append("")
        if extra_defs:
            out.append(extra_defs)
        return "\n".join(out)


# --------------------------------------------------------------------------------------------------
# the two other tests of the heuristic name on the scoring path (outrank/core_ranking.py)

def core_name_tests(src, fname):
    """`if args.heuristic == 'Constant':` (the no-scoring shortcut of mixed_rank_graph, must return from the function)
    and `if '3mr' in args.heuristic:` (candidate space of get_combinations_from_columns).  Each function must mention
    args.heuristic exactly once, inside the test of an `if` statement of an accepted shape."""
    d = Dispatch(src, fname)
    out = []
    for fn, coqname, must_return in (("mixed_rank_graph", "is_const_name", True),
                                     ("get_combinations_from_columns", "is_3mr_name", False)):
        f = d.funcs.get(fn)
        if f is None:
            raise Refuse("%s: function %s not found" % (fname, fn))
        argnames = [a.arg for a in f.args.args]
        if "args" not in argnames:
            raise Refuse("%s: %s has no `args` parameter" % (d.where(f), fn))
        mentions = [n for n in ast.walk(f) if isinstance(n, ast.Attribute) and n.attr == "heuristic"]
        ifs = [n for n in ast.walk(f) if isinstance(n, ast.If)
               and any(isinstance(m, ast.Attribute) and m.attr == "heuristic" for m in ast.walk(n.test))]
        if len(ifs) != 1:
            raise Refuse("%s: expected exactly one `if` on args.heuristic in %s, found %d" % (d.where(f), fn, len(ifs)))
        inside = [m for m in ast.walk(ifs[0].test) if isinstance(m, ast.Attribute) and m.attr == "heuristic"]
        if len(inside) != len(mentions):
            raise Refuse("%s: %s uses args.heuristic outside the recognised test" % (d.where(f), fn))
        t = d.test(ifs[0].test, set(), "args")
        if must_return and not any(isinstance(s, ast.Return) for s in ifs[0].body):
            raise Refuse("%s: the Constant branch of %s does not return" % (d.where(ifs[0]), fn))
        out.append("(* %s: %s *)" % (fn, cmt(d.text(ifs[0].test))))
        out.append("Definition %s (h : str) : bool := %s." % (coqname, t))
        out.append("")
    return "\n".join(out)


# --------------------------------------------------------------------------------------------------
# Documented names

NAME_RE = r"[A-Za-z0-9][A-Za-z0-9_.+-]*"
TEXT_EXT = (".sh", ".md", ".py", ".html", ".js", ".txt", ".rst", ".cfg", ".toml", ".yaml", ".yml", "")


def doc_files(repo):
    files = []
    for top in ("README.md", os.path.join("outrank", "__main__.py")):
        p = os.path.join(repo, top)
        if os.path.isfile(p):
            files.append(top)
        else:
            raise Refuse("documentation source %s is missing" % top)
    for d in ("docs", "examples", "scripts", "benchmarks"):
        base = os.path.join(repo, d)
        if not os.path.isdir(base):
            continue
        for root, dirs, fs in os.walk(base):
            dirs.sort()
            for f in sorted(fs):
                if os.path.splitext(f)[1].lower() in TEXT_EXT:
                    files.append(os.path.relpath(os.path.join(root, f), repo))
    return sorted(set(files))


def resolve_var(var, text, rel):
    m = re.findall(r"^\s*(?:export\s+)?%s\s*=\s*['\"]?(%s)['\"]?\s*$" % (re.escape(var), NAME_RE), text, re.M)
    vals = sorted(set(m))
    if not vals:
        raise Refuse("%s: cannot resolve the heuristic variable %s" % (rel, var))
    return vals


def doc_names(repo):
    names = {}       # name -> sorted list of sources
    frags = {}

    def add(d, name, rel):
        d.setdefault(name, set()).add(rel)

    for rel in doc_files(repo):
        p = os.path.join(repo, rel)
        try:
            raw = open(p, encoding="utf8").read()
        except UnicodeDecodeError:
            continue
        text = raw
        if rel.endswith(".html"):
            text = html.unescape(re.sub(r"<[^>]+>", "", raw))
        elif rel.endswith(".js"):
            text = html.unescape(re.sub(r"<[^>]+>", "", raw.replace('\\"', '"').replace("\\n", "\n")))
        # 1. --heuristic <name>
        for m in re.finditer(r"--heuristic(?:\s+|=)(\S+)", text):
            tok = m.group(1).strip("'\"`;,)\\")
            if not tok:
                raise Refuse("%s: --heuristic without a value" % rel)
            mv = re.fullmatch(r"\$\{?([A-Za-z_][A-Za-z0-9_]*)\}?|\{([A-Za-z_][A-Za-z0-9_.]*)\}", tok)
            if mv:
                var = mv.group(1) or mv.group(2)
                for v in resolve_var(var, text, rel):
                    add(names, v, rel)
            elif re.fullmatch(NAME_RE, tok):
                add(names, tok, rel)
            else:
                raise Refuse("%s: cannot read the heuristic name in %r" % (rel, m.group(0)))
        # 2. python-level mentions (rendered sources under docs/, example / benchmark scripts, __main__)
        if rel.endswith((".html", ".py", ".md")):
            for m in re.finditer(r"(?<![A-Za-z0-9_])(?:args\.)?heuristic(?:\s*:\s*str)?\s*(?:==|!=|=)\s*(['\"])([^'\"\n]*)\1", text):
                if re.fullmatch(NAME_RE, m.group(2)):
                    add(names, m.group(2), rel)
            for m in re.finditer(r"(['\"])([^'\"\n]+)\1\s+(?:not\s+)?in\s+(?:args\.)?heuristic\b", text):
                add(frags, m.group(2), rel)
            for m in re.finditer(r"(?<![A-Za-z0-9_])(?:args\.)?heuristic\s+(?:not\s+)?in\s+[\{\[\(]([^\}\]\)\n]*)[\}\]\)]", text):
                for lit in re.findall(r"['\"]([^'\"]+)['\"]", m.group(1)):
                    if re.fullmatch(NAME_RE, lit):
                        add(names, lit, rel)
            for m in re.finditer(r"['\"]Score (%s)['\"]" % NAME_RE, text):
                add(names, m.group(1), rel)
        # 3. argparse default of --heuristic
        if rel.endswith("__main__.py"):
            tree = ast.parse(raw)
            found = False
            for c in ast.walk(tree):
                if isinstance(c, ast.Call) and isinstance(c.func, ast.Attribute) and c.func.attr == "add_argument" \
                        and c.args and isinstance(c.args[0], ast.Constant) and c.args[0].value == "--heuristic":
                    found = True
                    for kw in c.keywords:
                        if kw.arg == "default":
                            if isinstance(kw.value, ast.Constant) and isinstance(kw.value.value, str):
                                add(names, kw.value.value, rel + " (argparse default)")
                            else:
                                raise Refuse("%s: --heuristic default is not a string literal" % rel)
            if not found:
                raise Refuse("%s: --heuristic argument not found" % rel)
    if not names:
        raise Refuse("no documented heuristic name found")
    return names, frags


def emit_docnames(repo):
    names, frags = doc_names(repo)
    out = []
    out.append("(* GENERATED by tools/translate_dispatch.py from README.md, docs/, examples/, scripts/, benchmarks/,")
    out.append("   outrank/__main__.py — do not edit.  Heuristic names used by the project's own material. *)")
    out.append("From Coq Require Import List NArith.")
    out.append("From Outrank Require Import Pipeline.RankGraph.")
    out.append("Import ListNotations.")
    out.append("Open Scope N_scope.")
    out.append("")
    out.append("Definition doc_names : list str := [")
    ks = sorted(names)
    for i, k in enumerate(ks):
        src = sorted(names[k])
        shown = ", ".join(src[:4]) + (" (+%d more)" % (len(src) - 4) if len(src) > 4 else "")
        out.append("  %s%s  (* '%s' : %s *)" % (strlit(k), ";" if i + 1 < len(ks) else "", cmt(k), cmt(shown)))
    out.append("].")
    out.append("")
    out.append("(* substring markers tested with `'x' in heuristic` in the documented sources; not names *)")
    out.append("Definition doc_fragments : list str := [")
    fs = sorted(frags)
    for i, k in enumerate(fs):
        out.append("  %s%s  (* '%s' *)" % (strlit(k), ";" if i + 1 < len(fs) else "", cmt(k)))
    out.append("].")
    out.append("")
    return "\n".join(out), ks


# --------------------------------------------------------------------------------------------------

def write_if_changed(path, text):
    old = None
    if os.path.exists(path):
        old = open(path, encoding="utf8").read()
    if old != text:
        os.makedirs(os.path.dirname(path), exist_ok=True)
        tmp = path + ".tmp%d" % os.getpid()
        with open(tmp, "w", encoding="utf8") as f:
            f.write(text)
        os.replace(tmp, path)


def stub(what, why):
    return ("(* GENERATED by tools/translate_dispatch.py — TRANSLATION REFUSED.\n   %s\n"
            "   This stub deliberately does not define `%s`, so Props/C05.v cannot be built from stale text. *)\n"
            "Definition %s_translation_refused : unit := tt.\n" % (cmt(why), what, what))


def run(repo, outdir):
    """-> (ok, messages, names)"""
    msgs = []
    ok = True
    names = []
    src_path = os.path.join(repo, "outrank", "algorithms", "importance_estimator.py")
    try:
        src = open(src_path, encoding="utf8").read()
        core_src = open(os.path.join(repo, "outrank", "core_ranking.py"), encoding="utf8").read()
        extra = core_name_tests(core_src, "outrank/core_ranking.py")
        text = Dispatch(src, "outrank/algorithms/importance_estimator.py").emit(extra)
    except (Refuse, SyntaxError, OSError) as e:
        ok = False
        msgs.append("Dispatch.v: %s" % e)
        text = stub("dispatch", str(e))
    write_if_changed(os.path.join(outdir, "Dispatch.v"), text)
    try:
        text, names = emit_docnames(repo)
    except (Refuse, SyntaxError, OSError) as e:
        ok = False
        msgs.append("DocNames.v: %s" % e)
        text = stub("doc_names", str(e))
    write_if_changed(os.path.join(outdir, "DocNames.v"), text)
    return ok, msgs, names


def main(argv):
    repo = os.environ.get("OUTRANK_REPO", "/repo")
    outdir = os.path.join(VERIF, "coq", "Gen")
    i = 0
    while i < len(argv):
        if argv[i] == "--repo":
            repo = argv[i + 1]
            i += 2
        elif argv[i] == "--out":
            outdir = argv[i + 1]
            i += 2
        else:
            print("usage: translate_dispatch.py [--repo DIR] [--out DIR]", file=sys.stderr)
            return 2
    ok, msgs, names = run(repo, outdir)
    for m in msgs:
        print("translate_dispatch: REFUSED: " + m, file=sys.stderr)
    if ok:
        print("translate_dispatch: ok (%d documented names) -> %s" % (len(names), outdir))
    return 0 if ok else 1


if __name__ == "__main__":
    sys.exit(main(sys.argv[1:]))
