"""C07 translator: reads the four constants of `prior_combinations_sample` out of outrank/core_ranking.py with `ast`:

    rev   sort direction of the selection        sorted(<candidates>, key=<counts>.get [, reverse=<bool>])
    off   integer added to the cap in the slice  [...][:args.combination_number_upper_bound (+|-) <int>]
    inc   increment per selected combination     <counts>[c] += <int>      (in a loop over the selection)
    init  count given to a new combination       <counts>[c] = <int>       (in a loop over the missing ones)

The model `Sampler.pstep rev off inc init` is the transcription with these as parameters; `C07_source_constants` proves that
(false, 0, 1, 0) is `Sampler.step`, the function all other C07 theorems are about.  The check regenerates a proof obligation
`pstep <rev> <off> <inc> <init> = step` from what this reader returns and has coqc check it on every run.

Recognised shape only (everything else: TranslateError -> the caller holds the function by the correspondence alone and says
so in the evidence; an unrecognised shape is NOT an alarm, a recognised shape with other constants is):
  * exactly one `sorted(...)` call in the function, its first argument the function's first parameter, `key=` an attribute
    `.get` of a name or a lambda `lambda c: <name>[c]`, optional `reverse=` a bool literal, sliced once with lower bound and
    step absent and an upper bound `<args>.combination_number_upper_bound` optionally +/- an int literal;
  * exactly one augmented assignment `<name>[<var>] += <int literal>` inside a `for` over the name bound to the sorted slice;
  * exactly one plain assignment `<name>[<var>] = <int literal>` inside a `for` loop.
"""
from __future__ import annotations

import ast
import os

TARGET = "prior_combinations_sample"
CAP = "combination_number_upper_bound"


class TranslateError(Exception):
    pass


def _int(node):
    if isinstance(node, ast.Constant) and isinstance(node.value, int) and not isinstance(node.value, bool):
        return node.value
    if isinstance(node, ast.UnaryOp) and isinstance(node.op, ast.USub):
        return -_int(node.operand)
    raise TranslateError("line %d: not an integer literal" % getattr(node, "lineno", 0))


def extract(repo):
    path = os.path.join(repo, "outrank", "core_ranking.py")
    src = open(path, encoding="utf8").read()
    tree = ast.parse(src, filename=path)
    fs = [n for n in tree.body if isinstance(n, ast.FunctionDef) and n.name == TARGET]
    if len(fs) != 1:
        raise TranslateError("%s not found exactly once at module level" % TARGET)
    f = fs[0]
    if not f.args.args:
        raise TranslateError("no parameters")
    cands = f.args.args[0].arg
    # nested function definitions would hide part of the behaviour
    if any(isinstance(n, (ast.FunctionDef, ast.AsyncFunctionDef, ast.ClassDef)) for n in ast.walk(f) if n is not f):
        raise TranslateError("nested definitions")
    sorts = [n for n in ast.walk(f) if isinstance(n, ast.Call) and isinstance(n.func, ast.Name) and n.func.id == "sorted"]
    if len(sorts) != 1:
        raise TranslateError("expected exactly one sorted(...) call, found %d" % len(sorts))
    call = sorts[0]
    if len(call.args) != 1 or not (isinstance(call.args[0], ast.Name) and call.args[0].id == cands):
        raise TranslateError("line %d: sorted is not applied to the candidate list parameter" % call.lineno)
    rev, key_seen = False, False
    for kw in call.keywords:
        if kw.arg == "key":
            k = kw.value
            ok = (isinstance(k, ast.Attribute) and k.attr == "get" and isinstance(k.value, ast.Name)) or \
                 (isinstance(k, ast.Lambda) and len(k.args.args) == 1 and isinstance(k.body, ast.Subscript)
                  and isinstance(k.body.value, ast.Name) and isinstance(k.body.slice, ast.Name)
                  and k.body.slice.id == k.args.args[0].arg)
            if not ok:
                raise TranslateError("line %d: sort key is not a plain count lookup" % call.lineno)
            key_seen = True
        elif kw.arg == "reverse":
            if not (isinstance(kw.value, ast.Constant) and isinstance(kw.value.value, bool)):
                raise TranslateError("line %d: reverse= is not a bool literal" % call.lineno)
            rev = kw.value.value
        else:
            raise TranslateError("line %d: unexpected keyword %s" % (call.lineno, kw.arg))
    if not key_seen:
        raise TranslateError("line %d: sorted without key=" % call.lineno)
    # the slice around the sorted call
    subs = [n for n in ast.walk(f) if isinstance(n, ast.Subscript) and n.value is call]
    if len(subs) != 1 or not isinstance(subs[0].slice, ast.Slice):
        raise TranslateError("line %d: the sorted list is not sliced exactly once" % call.lineno)
    sl = subs[0].slice
    if sl.lower is not None or sl.step is not None or sl.upper is None:
        raise TranslateError("line %d: slice is not [:upper]" % call.lineno)

    def is_cap(e):
        return isinstance(e, ast.Attribute) and e.attr == CAP and isinstance(e.value, ast.Name)
    up, off = sl.upper, 0
    if is_cap(up):
        off = 0
    elif isinstance(up, ast.BinOp) and isinstance(up.op, (ast.Add, ast.Sub)) and is_cap(up.left):
        off = _int(up.right) * (1 if isinstance(up.op, ast.Add) else -1)
    elif isinstance(up, ast.BinOp) and isinstance(up.op, ast.Add) and is_cap(up.right):
        off = _int(up.left)
    else:
        raise TranslateError("line %d: slice bound is not args.%s (+/- int)" % (call.lineno, CAP))
    # the name bound to the selection
    sel_names = [n.targets[0].id for n in ast.walk(f) if isinstance(n, ast.Assign) and n.value is subs[0]
                 and len(n.targets) == 1 and isinstance(n.targets[0], ast.Name)]
    if len(sel_names) != 1:
        raise TranslateError("the sorted slice is not bound to one name")
    sel = sel_names[0]
    rets = [n for n in ast.walk(f) if isinstance(n, ast.Return)]
    if not any(isinstance(r.value, ast.Name) and r.value.id == sel for r in rets):
        raise TranslateError("the selection is not what the function returns")
    for r in rets:
        v = r.value
        if isinstance(v, ast.Name) and v.id == sel:
            continue
        if isinstance(v, ast.List) and not v.elts:
            continue
        raise TranslateError("line %d: unrecognised return value" % r.lineno)
    augs = [n for n in ast.walk(f) if isinstance(n, ast.AugAssign)]
    if len(augs) != 1 or not isinstance(augs[0].op, ast.Add) or not isinstance(augs[0].target, ast.Subscript):
        raise TranslateError("expected exactly one `counts[c] += k`")
    inc = _int(augs[0].value)
    loops = [n for n in ast.walk(f) if isinstance(n, ast.For) and any(a is augs[0] for a in ast.walk(n))]
    if len(loops) != 1 or not (isinstance(loops[0].iter, ast.Name) and loops[0].iter.id == sel) \
            or not (isinstance(loops[0].target, ast.Name) and isinstance(augs[0].target.slice, ast.Name)
                    and augs[0].target.slice.id == loops[0].target.id) or len(loops[0].body) != 1:
        raise TranslateError("the increment is not `for c in <selection>: counts[c] += k`")
    inits = [n for n in ast.walk(f) if isinstance(n, ast.Assign) and len(n.targets) == 1
             and isinstance(n.targets[0], ast.Subscript)]
    if len(inits) != 1:
        raise TranslateError("expected exactly one `counts[c] = k`")
    init = _int(inits[0].value)
    iloops = [n for n in ast.walk(f) if isinstance(n, ast.For) and any(a is inits[0] for a in ast.walk(n))]
    if len(iloops) != 1 or not (isinstance(iloops[0].target, ast.Name) and isinstance(inits[0].targets[0].slice, ast.Name)
                                and inits[0].targets[0].slice.id == iloops[0].target.id) or len(iloops[0].body) != 1:
        raise TranslateError("the initialisation is not `for c in <missing>: counts[c] = k`")
    if inc < 0 or init < 0:
        raise TranslateError("negative count constants")
    # anything else that writes a subscript or calls a mutating method of the storage would escape the four constants
    for n in ast.walk(f):
        if isinstance(n, ast.Delete):
            raise TranslateError("line %d: del" % n.lineno)
        if isinstance(n, ast.Call) and isinstance(n.func, ast.Attribute) and n.func.attr in (
                "update", "pop", "clear", "setdefault", "subtract", "popitem", "sort", "reverse", "append", "remove", "insert"):
            raise TranslateError("line %d: call of .%s" % (n.lineno, n.func.attr))
    return {"rev": bool(rev), "off": int(off), "inc": int(inc), "init": int(init), "line": f.lineno}


if __name__ == "__main__":
    import sys
    print(extract(sys.argv[1] if len(sys.argv) > 1 else "/repo"))
