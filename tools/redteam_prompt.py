"""Prints the prompt given to an independent 'seeded change' sub-agent for one property (nothing from /verif but the property text)."""
import json, sys
pid = sys.argv[1]
wt = sys.argv[2] if len(sys.argv) > 2 else "/tmp/rt/%s" % pid
p = [json.loads(l) for l in open("/verif/properties.jsonl") if json.loads(l)["id"] == pid][0]
print(f"""You are helping to evaluate a verification effort by seeding realistic bugs into a Python project. You work ONLY inside the git worktree {wt} (a checkout of outbrain/outrank: a CLI/library for feature ranking on large sparse categorical datasets). Do NOT read or write anything under /verif, /repo, /root/.claude or /root/scratch; use only {wt} and (for your own temp files) {wt}/.rt_tmp/. Run Python as `cd {wt} && PYTHONPATH={wt} NUMBA_CACHE_DIR={wt}/.rt_tmp/nb /venv/bin/python ...` (numpy 2.5, pandas 3.0, numba 0.67, xxhash 4, sklearn 1.9; importing outrank takes 10-15 s; no network).

The semantic property under test ({pid}: {p['title']}):
  "{p['statement']}"
  It is quantified over: {p['quantifier']['text']}
  Code it is anchored in: {', '.join(p['anchors']['files'])}

YOUR TASK: produce TWO different, independent source changes (call them A and B) to the project's code, each of which BREAKS this property while (1) the code still imports/compiles, and (2) the project's existing test suite still passes: `cd {wt} && PYTHONPATH={wt} NUMBA_CACHE_DIR={wt}/.rt_tmp/nb /venv/bin/python -m pytest -q -p no:cacheprovider --timeout=900 -x -q tests` must report the same passes as on the unmodified tree (run it on the unmodified tree first to learn the baseline: 58 tests pass; the run takes 1-4 minutes). The changes should look like plausible developer mistakes or "optimisations" (not sabotage with magic constants), and should need something SPECIFIC to manifest — a particular multi-step sequence of operations, an unusual-but-legal input, a boundary size, a particular interleaving/history, or two cooperating sites that each look fine alone — rather than failing on the very first ordinary use. A and B should attack different clauses/mechanisms of the property.

For each change deliver, in {wt}/.rt_out/A/ and {wt}/.rt_out/B/:
  - patch.diff : `git diff` of ONLY that change against HEAD (apply-able with `git apply` on a clean checkout),
  - demo.py : a small self-contained program (run with the command line above) that exits 0 / prints PASS on the UNMODIFIED tree and exits 1 / prints FAIL with the change applied, demonstrating the property violation on a concrete input/history,
  - meta.json : {{"property": "{pid}", "clause_broken": "...", "what_it_needs_to_manifest": "...", "why_tests_still_pass": "...", "commands_run": ["..."]}}.
Verify all of it yourself: clean tree -> demo passes, suite passes; apply A -> demo fails, suite still passes; `git checkout -- .` ; same for B. Leave the worktree clean (no modified tracked files) at the end; the .rt_out and .rt_tmp directories stay. In your final message list for A and B: the diff in a few lines, the failing input, and the exact commands you ran with their outcomes.""")
