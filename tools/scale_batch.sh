#!/bin/bash
# usage: tools/scale_batch.sh ID...   (round-3 'scale' seeds from /tmp/rt2/<ID>_scale; A->E, B->F; quick, then thorough if missed)
cd "$(dirname "$0")/.."
for id in "$@"; do
  for pair in A:E B:F; do
    v=${pair%%:*}; n=${pair##*:}
    src=/tmp/rt2/${id}_scale/.rt_out/$v
    [ -f $src/patch.diff ] || continue
    tools/seeded_confirm.sh $src $id-$n
    [ -d seeded/$id-$n ] || continue
    tools/seeded_run.sh $id-$n
    if ! grep -q "^VIOLATION" seeded/$id-$n/result.txt; then
      cp seeded/$id-$n/result.txt seeded/$id-$n/result_quick.txt
      TIER=thorough tools/seeded_run.sh $id-$n
      cat seeded/$id-$n/result_quick.txt >> seeded/$id-$n/result.txt
    fi
  done
done
