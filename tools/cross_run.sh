#!/bin/bash
# usage: tools/cross_run.sh  < lines "SEED: ID ID ..."   — runs OTHER properties' checks against a seeded change (result in cross.txt)
cd "$(dirname "$0")/.."
run_line() { n=${1%%:*}; ids=${1#*:}; OUT=cross.txt tools/seeded_run.sh $n $ids > .cache/cross_$n.log 2>&1; echo "$n: $(grep -E '^VIOLATION' seeded/$n/cross.txt | sed 's/replay=.*json//' | tr '\n' ' ')"; }
export -f run_line
grep -v "^#" | grep ":" | xargs -P ${PAR:-3} -d '\n' -I{} bash -c 'run_line "{}"'
