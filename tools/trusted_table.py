"""Rewrites the per-property trusted-base table in DESIGN.md (between TRUSTED-TABLE markers) from evidence/*.json."""
import json, glob, os, re
rows = []
for f in sorted(glob.glob("/verif/evidence/C*.json")):
    e = json.load(open(f))
    c = e["coverage"]
    ax = c.get("axioms_per_theorem") or {}
    used = sorted({a for v in ax.values() for a in v})
    closed = sum(1 for v in ax.values() if not v)
    rows.append("| %s | %d | %d | %s | %d/%d | %d (%d) | %.0f s |" % (
        e["property_id"], len(ax), closed, ", ".join(a.split(".")[-1] for a in used) or "none",
        c.get("discharged", 0), c.get("obligations", 0), c.get("evaluations", 0), c.get("distinct_nontrivial", 0), e.get("wall_s", 0)))
hdr = ("| property | theorems audited | closed under the global context | axioms reported by Print Assumptions | obligations discharged | cases (distinct non-trivial) in the last %s run | wall |\n|---|---|---|---|---|---|---|\n")
tier = json.load(open(sorted(glob.glob("/verif/evidence/C*.json"))[0]))["tier"]
tab = hdr % tier + "\n".join(rows) + "\n"
t = open("/verif/DESIGN.md").read()
t = re.sub(r"<!-- TRUSTED-TABLE-BEGIN -->.*<!-- TRUSTED-TABLE-END -->", lambda _m: "<!-- TRUSTED-TABLE-BEGIN -->\n" + tab + "<!-- TRUSTED-TABLE-END -->", t, flags=re.S)
open("/verif/DESIGN.md", "w").write(t)
print(tab)
