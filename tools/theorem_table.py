"""Rewrites the theorem inventory in DESIGN.md (between THEOREM-INVENTORY markers) from coq/Props/*.v."""
import re, glob, os
rows = []
tot = 0
for f in sorted(glob.glob("/verif/coq/Props/*.v")):
    pid = os.path.basename(f)[:-2]
    txt = open(f, encoding="utf8").read()
    names = re.findall(r"^\s*(?:Theorem|Lemma|Corollary|Example)\s+([A-Za-z0-9_']+)", txt, flags=re.M)
    tot += len(names)
    rows.append("* **%s** (%d): %s" % (pid, len(names), ", ".join("`%s`" % n for n in names)))
body = ("Generated from `coq/Props/*.v` (%d statements; each is closed by `exact <lemma>` and followed by `Print Assumptions`):\n\n" % tot) + "\n".join(rows) + "\n"
t = open("/verif/DESIGN.md").read()
t = re.sub(r"<!-- THEOREM-INVENTORY-BEGIN -->.*<!-- THEOREM-INVENTORY-END -->", lambda _m: "<!-- THEOREM-INVENTORY-BEGIN -->\n" + body + "<!-- THEOREM-INVENTORY-END -->", t, flags=re.S)
open("/verif/DESIGN.md", "w").write(t)
print(tot)
