"""Parser for the terms Coq prints after `Eval vm_compute in ...`.

Handles integers (with optional %Z/%N/%nat/%positive suffixes and parentheses),
booleans, lists `[a; b]`, tuples `(a, b)`, rationals `a # b`, `Some x` / `None`
and bare constructor applications `Ctor a b`.  Tuples become Python tuples,
lists become lists, `Some x` -> ('Some', x), `None` -> None, `C a b` -> ('C', a, b).
"""
from __future__ import annotations

import re
from fractions import Fraction

_TOK = re.compile(r"\s*(?:(-?\d+)|([A-Za-z_][A-Za-z_0-9'.]*)|(\[|\]|\(|\)|;|,|#|::|\"(?:[^\"]|\"\")*\"))")
_SCOPE = re.compile(r"%(?:Z|N|nat|positive|Q|bool|list|string|char)\b")


def tokenize(s: str):
    s = _SCOPE.sub("", s)
    pos = 0
    out = []
    n = len(s)
    while pos < n:
        m = _TOK.match(s, pos)
        if not m:
            if s[pos:].strip() == "":
                break
            raise ValueError("cannot tokenize at %r" % s[pos:pos + 40])
        pos = m.end()
        if m.group(1) is not None:
            out.append(("int", int(m.group(1))))
        elif m.group(2) is not None:
            out.append(("id", m.group(2)))
        else:
            out.append(("p", m.group(3)))
    return out


class _P:
    def __init__(self, toks):
        self.t = toks
        self.i = 0

    def peek(self):
        return self.t[self.i] if self.i < len(self.t) else ("eof", None)

    def next(self):
        tok = self.peek()
        self.i += 1
        return tok

    def expect(self, p):
        tok = self.next()
        if tok != ("p", p):
            raise ValueError("expected %r got %r at %d" % (p, tok, self.i))

    # term := app ('#' app)?
    def term(self):
        a = self.app()
        if self.peek() == ("p", "#"):
            self.next()
            b = self.app()
            return Fraction(a, b)
        if self.peek() == ("p", "::"):
            self.next()
            rest = self.term()
            return [a] + rest
        return a

    def app(self):
        k, v = self.peek()
        if k == "id" and v not in ("true", "false", "None", "nil"):
            self.next()
            args = []
            while True:
                k2, v2 = self.peek()
                if k2 in ("int", "id") or (k2 == "p" and (v2 in ("[", "(") or v2.startswith('"'))):
                    args.append(self.atom())
                else:
                    break
            if not args:
                return (v,)
            return (v,) + tuple(args)
        return self.atom()

    def atom(self):
        k, v = self.next()
        if k == "int":
            return v
        if k == "id":
            if v == "true":
                return True
            if v == "false":
                return False
            if v == "None":
                return None
            if v == "nil":
                return []
            return (v,)
        if k == "p" and v == "[":
            items = []
            if self.peek() == ("p", "]"):
                self.next()
                return items
            while True:
                items.append(self.term())
                k2, v2 = self.next()
                if (k2, v2) == ("p", "]"):
                    return items
                if (k2, v2) != ("p", ";"):
                    raise ValueError("bad list sep %r" % ((k2, v2),))
        if k == "p" and v == "(":
            items = [self.term()]
            while True:
                k2, v2 = self.next()
                if (k2, v2) == ("p", ")"):
                    break
                if (k2, v2) != ("p", ","):
                    raise ValueError("bad tuple sep %r" % ((k2, v2),))
                items.append(self.term())
            if len(items) == 1:
                return items[0]
            return tuple(items)
        if k == "p" and v.startswith('"'):
            return v[1:-1].replace('""', '"')
        raise ValueError("unexpected token %r" % ((k, v),))


def parse_term(s: str):
    p = _P(tokenize(s))
    v = p.term()
    if p.peek()[0] != "eof":
        raise ValueError("trailing tokens: %r" % (p.t[p.i:p.i + 5],))
    return v


_EVAL = re.compile(r"^\s*= (.*?)^\s*: ", re.S | re.M)


def parse_evals(out: str):
    """All `= term : type` blocks printed by Eval/Compute, in order."""
    res = []
    for m in _EVAL.finditer(out):
        res.append(parse_term(m.group(1)))
    return res


# ---- emitting Coq literals -------------------------------------------------

def z(n: int) -> str:
    return str(n) if n >= 0 else "(%d)" % n


def zlist(xs) -> str:
    return "[" + "; ".join(z(int(x)) for x in xs) + "]"


def lit(v) -> str:
    """Python value -> Coq literal in Z_scope: int -> Z, bool, list, tuple, None/('Some',x)."""
    if isinstance(v, bool):
        return "true" if v else "false"
    if isinstance(v, int):
        return z(v)
    if isinstance(v, Fraction):
        return "(%s # %d)" % (z(v.numerator), v.denominator)
    if isinstance(v, list):
        return "[" + "; ".join(lit(x) for x in v) + "]"
    if isinstance(v, tuple):
        if len(v) == 2 and v[0] == "Some":
            return "(Some %s)" % lit(v[1])
        return "(" + ", ".join(lit(x) for x in v) + ")"
    if v is None:
        return "None"
    if isinstance(v, str):
        return "[" + "; ".join(str(ord(c)) for c in v) + "]"
    raise TypeError(type(v))
