"""Prints the markdown table of seeded changes and what caught them (from seeded/*/meta.json and result.txt)."""
import json, os, glob
rows = []
for d in sorted(glob.glob("/verif/seeded/*")):
    name = os.path.basename(d)
    try:
        m = json.load(open(d + "/meta.json"))
    except Exception:
        m = {}
    res = open(d + "/result.txt").read() if os.path.exists(d + "/result.txt") else ""
    caught = [l.split()[1].split("=")[1] for l in res.splitlines() if l.startswith("VIOLATION")]
    nofound = any("no-failing-input-found" in l for l in res.splitlines())
    ran = [l.split()[0] for l in res.splitlines() if " tier=" in l]
    if m.get("kind") == "out-of-quantifier":
        rows.append("| %s | %s | %s | %s |" % (name, (m.get("clause_broken") or "")[:110].replace("|", "/").replace("\n", " "),
                                             (m.get("what_it_needs_to_manifest") or "")[:150].replace("|", "/").replace("\n", " "),
                                             "outside the property's quantifier: " + m.get("out_of_quantifier", "")[:160] + (" (own check: %s)" % ("alarm" if caught else "quiet"))))
        continue
    harmless = m.get("kind") == "harmless"
    if harmless:
        concrete = [l for l in res.splitlines() if l.startswith("VIOLATION") and "no-failing-input-found" not in l]
        if concrete:
            status = "FALSE ALARM (concrete) from " + ",".join(sorted(set(caught)))
        elif caught:
            quiet = [r for r in ran if r not in caught]
            status = "no-failing-input-found from %s (a translator / observation point lost its code shape)%s" % (",".join(sorted(set(caught))), ("; quiet: " + ",".join(quiet)) if quiet else "")
        else:
            status = ("quiet (%s)" % ",".join(ran)) if ran else "not run yet"
        rows.append("| %s | (harmless rewrite) %s | %s | %s |" % (name, (m.get("what_changed") or "")[:150].replace("|", "/").replace("\n", " "), "-", status))
        continue
    cross = open(d + "/cross.txt").read() if os.path.exists(d + "/cross.txt") else ""
    xc = sorted({l.split()[1].split("=")[1] for l in cross.splitlines() if l.startswith("VIOLATION")})
    if not caught and xc:
        status = "caught by %s (the property this glue change breaks; own check %s quiet: its observable, the anchored function, is unchanged)" % (",".join(xc), ",".join(ran))
        rows.append("| %s | %s | %s | %s |" % (name, (m.get("clause_broken") or "")[:110].replace("|", "/").replace("\n", " "),
                                             (m.get("what_it_needs_to_manifest") or "")[:150].replace("|", "/").replace("\n", " "), status))
        continue
    status = ("caught by " + ",".join(sorted(set(caught + xc))) + (" (no-failing-input-found)" if nofound else "")) if caught else ("MISSED (ran %s)" % ",".join(ran) if ran else "not run yet")
    rows.append("| %s | %s | %s | %s |" % (name, (m.get("clause_broken") or "")[:110].replace("|", "/").replace("\n", " "),
                                         (m.get("what_it_needs_to_manifest") or "")[:150].replace("|", "/").replace("\n", " "), status))
print("| seed | clause broken | needs | outcome |\n|---|---|---|---|")
print("\n".join(rows))
