#!/bin/bash
# Full pass over every seeded change (final state of the checks).  Lanes keep the checks that regenerate coq/Gen serial.
cd "$(dirname "$0")/.."
ids_for() {
  n=$1; p=${n%%-*}; s=${n##*-}
  case "$s" in
    HA|HB)
      case "$p" in
        C01|C04) echo "C01 C02 C03 C04 C05";;
        C05) echo "C01 C03 C05 C06 C08";;
        C06|C07) echo "C05 C06 C07 C08";;
        C08|C13|C16) echo "C08 C13 C16";;
        C10|C11) echo "C10 C11 C12";;
        C12) echo "C11 C12";;
        C14|C15) echo "C13 C14 C15";;
        *) echo "$p";;
      esac;;
    *)
      case "$n" in
        C02-D) echo "C02 C04";;
        C13-D) echo "C13 C14";;
        C06-E) echo "C06 C05";;
        C05-E) echo "C05 C01 C03";;
        *) echo "$p";;
      esac;;
  esac
}
lane() {
  for n in "$@"; do
    ids=$(ids_for $n)
    tier=quick; case "$n" in C04-E|C13-F) tier=thorough;; esac
    TIER=$tier tools/seeded_run.sh $n $ids > .cache/full_$n.log 2>&1
  done
}
all=$(ls -d seeded/*/ | xargs -n1 basename)
gen=$(echo "$all" | grep -E "^(C03|C05|C06|C12)-" | tr '\n' ' ')
rest=$(echo "$all" | grep -vE "^(C03|C05|C06|C12)-")
l1=$(echo "$rest" | awk 'NR%3==0' | tr '\n' ' '); l2=$(echo "$rest" | awk 'NR%3==1' | tr '\n' ' '); l3=$(echo "$rest" | awk 'NR%3==2' | tr '\n' ' ')
lane $gen & lane $l1 & lane $l2 & lane $l3 &
wait
python3 tools/design_tables.py
echo done
