#!/bin/bash
# Full pass over every seeded change (final state of the checks).  Each change is run against its own property's check,
# harmless rewrites (-H?) also against the neighbouring checks.  Checks that regenerate coq/Gen (C03, C05, C12) run in ONE
# serial lane over all changes — two different trees must never regenerate coq/Gen at the same time —, the others in
# $LANES parallel lanes (default 4).  Results: seeded/<name>/result.txt; cross.txt (other properties' checks) is kept.
cd "$(dirname "$0")/.."
LANES=${LANES:-4}
neighbours() { case "$1" in
    C01|C04) echo "C01 C02 C03 C04 C05";; C02|C03) echo "C01 C02 C03 C05";; C05) echo "C01 C03 C05 C06 C08";;
    C06|C07) echo "C05 C06 C07 C08";; C08|C13|C16) echo "C08 C13 C16";; C09) echo "C09 C08";; C10|C11) echo "C10 C11 C12";;
    C12) echo "C11 C12";; C14|C15) echo "C13 C14 C15";; C17) echo "C17 C06";; *) echo "$1";; esac; }
ids_for() { n=$1; p=${n%%-*}; s=${n##*-}
  case "$s" in H?) neighbours $p;; *) case "$n" in C02-D) echo "C02 C04";; C13-D) echo "C13 C14";; C06-E) echo "C06 C05";; C05-E) echo "C05 C01 C03";; *) echo "$p";; esac;; esac; }
tier_for() { case "$1" in C04-E|C13-F) echo thorough;; *) echo quick;; esac; }
names=$(ls -d seeded/*/ | xargs -n1 basename)
[ -n "$ONLY" ] && names=$(echo "$names" | grep -E "$ONLY")
cross_ids() { [ -f seeded/$1/cross.txt ] && grep " tier=" seeded/$1/cross.txt | cut -d" " -f1 | sort -u | tr '\n' ' '; }
genlane() { for n in $names; do g=""; for c in $(ids_for $n); do case $c in C03|C05|C12) g="$g $c";; esac; done
    [ -n "$g" ] && TIER=$(tier_for $n) OUT=result_gen.txt tools/seeded_run.sh $n $g > .cache/full_${n}_gen.log 2>&1
    x=""; for c in $(cross_ids $n); do case $c in C03|C05|C12) x="$x $c";; esac; done
    [ -n "$x" ] && OUT=cross_gen.txt tools/seeded_run.sh $n $x > .cache/full_${n}_xgen.log 2>&1; done; }
otherlane() { k=$1; i=0; for n in $names; do i=$((i+1)); [ $((i%LANES)) = $k ] || continue; o=""; for c in $(ids_for $n); do case $c in C03|C05|C12) ;; *) o="$o $c";; esac; done
    [ -n "$o" ] && TIER=$(tier_for $n) OUT=result_other.txt tools/seeded_run.sh $n $o > .cache/full_${n}_other.log 2>&1
    x=""; for c in $(cross_ids $n); do case $c in C03|C05|C12) ;; *) x="$x $c";; esac; done
    [ -n "$x" ] && OUT=cross_other.txt tools/seeded_run.sh $n $x > .cache/full_${n}_xother.log 2>&1; done; }
genlane &
for k in $(seq 0 $((LANES-1))); do otherlane $k & done
wait
for n in $names; do if [ -f seeded/$n/result_gen.txt ] || [ -f seeded/$n/result_other.txt ]; then
  cat seeded/$n/result_gen.txt seeded/$n/result_other.txt 2>/dev/null > seeded/$n/result.txt; rm -f seeded/$n/result_gen.txt seeded/$n/result_other.txt; fi; done
for n in $names; do if [ -f seeded/$n/cross_gen.txt ] || [ -f seeded/$n/cross_other.txt ]; then
  cat seeded/$n/cross_gen.txt seeded/$n/cross_other.txt 2>/dev/null > seeded/$n/cross.txt; rm -f seeded/$n/cross_gen.txt seeded/$n/cross_other.txt; fi; done
python3 tools/design_tables.py
echo done
