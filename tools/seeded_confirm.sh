#!/bin/bash
# usage: tools/seeded_confirm.sh <src-dir with patch.diff demo.py meta.json> <name>
# Confirms an independently written breaking change in a fresh scratch worktree of /repo:
#   clean tree: demo passes;  with the patch: demo fails, the unedited test suite still passes.
# Only then is it kept as /verif/seeded/<name>/ (with confirm.log).
src=$1; name=$2
wt=/root/scratch/confirm_$name
log=/root/scratch/confirm_$name.log
git -C /repo worktree remove --force $wt >/dev/null 2>&1
git -C /repo worktree add --detach $wt HEAD >/dev/null 2>&1 || exit 2
mkdir -p $wt/.rt_tmp $wt/.rt_out/X
cp $src/demo.py $wt/.rt_out/X/demo.py   # demos that locate the tree from their own path then see the scratch worktree
run() { (cd $wt && PYTHONPATH=$wt NUMBA_CACHE_DIR=$wt/.nb PYTHONHASHSEED=0 timeout 1800 /venv/bin/python "$@"); }
{
echo "== clean demo"; run $wt/.rt_out/X/demo.py; c=$?; echo "exit=$c"
echo "== apply"; git -C $wt apply $src/patch.diff; a=$?; echo "apply=$a"
echo "== patched demo"; run $wt/.rt_out/X/demo.py; p=$?; echo "exit=$p"
echo "== patched suite"; run -m pytest -q -p no:cacheprovider --timeout=900 tests 2>&1 | tail -5; s=${PIPESTATUS[0]}; echo "suite_exit=$s"
} > $log 2>&1
c=$(grep -m1 -A0 "^exit=" $log | head -1 | cut -d= -f2)
p=$(grep "^exit=" $log | sed -n 2p | cut -d= -f2)
s=$(grep "^suite_exit=" $log | cut -d= -f2)
git -C /repo worktree remove --force $wt
if [ "$c" = "0" ] && [ "$p" != "0" ] && [ "$s" = "0" ]; then
  mkdir -p /verif/seeded/$name && cp $src/patch.diff $src/demo.py $src/meta.json /verif/seeded/$name/ && cp $log /verif/seeded/$name/confirm.log
  echo "CONFIRMED $name"
else
  echo "REJECTED $name (clean=$c patched=$p suite=$s) see $log"
fi
