#!/bin/bash
# For every "fixed:" entry of KNOWN_FINDINGS.txt: revert that commit in a scratch worktree of /repo's HEAD and run the
# property's check against it — the violation must be reported again ("a fixed entry suppresses nothing").
# Gen-regenerating checks (C03 C05 C12) in one serial lane, the rest three at a time.  Result: .cache/revert_<commit>.txt
cd "$(dirname "$0")/.."
one() { pid=$1; c=$2; wt=/root/scratch/revert_$c
  git -C /repo worktree remove --force $wt >/dev/null 2>&1
  git -C /repo worktree add --detach $wt HEAD >/dev/null 2>&1 || return
  if git -C $wt revert --no-commit $c >/dev/null 2>&1; then
    out=$(OUTRANK_REPO=$wt ./check $pid --tier quick 2>&1 | grep -E "^(VIOLATION|KNOWN-FINDING|C[0-9]+ tier)" | sed "s/^KNOWN-FINDING: property=\([A-Z0-9]*\).*/KNOWN-FINDING(\1)/")
  else out="REVERT-CONFLICT (later fixes touch the same lines)"; fi
  echo "$pid $c: $(echo "$out" | tr '\n' ' ' | cut -c1-230)" | tee .cache/revert_$c.txt
  git -C $wt revert --abort >/dev/null 2>&1; git -C /repo worktree remove --force $wt; }
export -f one
list=$(grep "^fixed:" KNOWN_FINDINGS.txt | sed 's/fixed: property=\(C[0-9]*\) \([0-9a-f]*\).*/\1 \2/')
# LANES=gen | nongen | both (default)
case "${LANES:-both}" in gen|both) (echo "$list" | grep -E "^(C03|C05|C12) " | while read p c; do one $p $c; done) & ;; esac
case "${LANES:-both}" in nongen|both) echo "$list" | grep -vE "^(C03|C05|C12) " | xargs -P 3 -L1 bash -c 'one $0 $1' ;; esac
wait
