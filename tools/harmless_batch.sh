#!/bin/bash
# usage: tools/harmless_batch.sh ID...   (confirm + run checks for harmless rewrites from /tmp/rt2/<ID>_harmless)
cd "$(dirname "$0")/.."
for id in "$@"; do
  for v in A B; do
    src=/tmp/rt2/${id}_harmless/.rt_out/$v
    [ -f $src/patch.diff ] || continue
    python3 - "$src/meta.json" <<'PY'
import json,sys
p=sys.argv[1]
try: m=json.load(open(p))
except Exception: m={}
m["kind"]="harmless"; json.dump(m,open(p,"w"),indent=1)
PY
    tools/harmless_confirm.sh $src $id-H$v
    [ -d seeded/$id-H$v ] && tools/seeded_run.sh $id-H$v
  done
done
