#!/usr/bin/env python3
"""C12 translator (fail-closed): /repo's transformer presets and keep/drop constants -> Coq.

  coq/Gen/Presets.v             tables  name -> expr  of the presets `minimal`, `default`, `fw-transformers`
                                (deep embedding Outrank.Features.Transform.expr), the registry of those three
                                presets and the fw grids (resolution_range, greater_than_range)
  coq/Gen/TransformConstants.v  keep/drop rule of FeatureTransformerGeneric.construct_new_features (three comparison
                                operators and their constants), the 'nan' literal, the characters stripped and the
                                value of the empty string in get_vals, the preset separator

The vault is loaded from $OUTRANK_REPO (default /repo) in a child /venv/bin/python (the names of the fw family are
f-strings over numpy floats, so the real numpy has to format them); only the vault package is imported (plain dicts,
no numba).  Every formula string is parsed with `ast`; any node outside the supported set makes the translator exit
non-zero and leaves the old files untouched.  Output text is deterministic; files are rewritten only when changed.

Use as a module:  translate(repo) -> dict (tables with JSON expression trees, constants, texts of both .v files)
                  write(result)   -> list of files rewritten
"""
from __future__ import annotations

import ast
import json
import os
import re
import subprocess
import sys
from fractions import Fraction

VERIF = os.path.dirname(os.path.dirname(os.path.abspath(__file__)))
GEN = os.path.join(VERIF, "coq", "Gen")
IMPL_PY = "/venv/bin/python"
PRESETS = ["minimal", "default", "fw-transformers"]
COQ_TABLE = {"minimal": "minimal_table", "default": "default_table", "fw-transformers": "fw_table"}

VAULT = "outrank/feature_transformations/feature_transformer_vault"
RT = "outrank/feature_transformations/ranking_transformers.py"


class Refuse(Exception):
    pass


# ---------------------------------------------------------------------------
# loading the vault (child process under the repo's interpreter)

_LOADER = r"""
import json, sys
sys.path.insert(0, sys.argv[1])
import outrank.feature_transformations.feature_transformer_vault as vault
import outrank.feature_transformations.feature_transformer_vault.fw_transformers as fw
reg = vault._tr_global_namespace
out = {"registry_keys": list(reg.keys()), "presets": {}}
for p in sys.argv[2:]:
    d = reg[p]
    assert isinstance(d, dict)
    items = []
    for k, v in d.items():
        assert type(k) is str and type(v) is str, (k, v)
        items.append([k, v])
    out["presets"][p] = items
rr, gr = list(fw.resolution_range), list(fw.greater_than_range)
assert all(type(x) is int and x > 0 for x in rr + gr), (rr, gr)
out["resolution_range"], out["greater_than_range"] = rr, gr
print("@@VAULT " + json.dumps(out))
"""


def load_vault(repo):
    env = dict(os.environ)
    env.pop("PYTHONSTARTUP", None)
    env["PYTHONDONTWRITEBYTECODE"] = "1"
    env["PYTHONPATH"] = repo
    try:
        r = subprocess.run([IMPL_PY, "-c", _LOADER, repo] + PRESETS, env=env, cwd=os.path.join(VERIF, ".cache")
                           if os.path.isdir(os.path.join(VERIF, ".cache")) else VERIF,
                           stdout=subprocess.PIPE, stderr=subprocess.PIPE, text=True, timeout=120)
    except subprocess.TimeoutExpired:
        raise Refuse("loading the vault timed out")
    for ln in r.stdout.splitlines():
        if ln.startswith("@@VAULT "):
            return json.loads(ln[8:])
    raise Refuse("cannot load the transformer vault from %s:\n%s" % (repo, r.stderr[-2000:]))


# ---------------------------------------------------------------------------
# formula strings -> expression trees

_DEC = re.compile(r"^(\d+)(?:\.(\d*))?(?:[eE]([+-]?\d+))?$|^\.(\d+)(?:[eE]([+-]?\d+))?$")


def lit_of_text(txt):
    """decimal literal text -> (num, den) exactly, NOT reduced (digits / 10^fractional digits)."""
    m = _DEC.match(txt.replace("_", ""))
    if not m:
        raise Refuse("unsupported numeric literal %r" % txt)
    if m.group(4) is not None:
        ip, fp, ex = "", m.group(4), m.group(5)
    else:
        ip, fp, ex = m.group(1), m.group(2) or "", m.group(3)
    e = int(ex or 0) - len(fp)
    mant = int((ip + fp) or "0")
    if e >= 0:
        return mant * 10 ** e, 1
    return mant, 10 ** (-e)


_CMP = {ast.Lt: "CLt", ast.LtE: "CLe", ast.Gt: "CGt", ast.GtE: "CGe", ast.Eq: "CEq", ast.NotEq: "CNe"}
_FLIP = {"CLt": "CGt", "CLe": "CGe", "CGt": "CLt", "CGe": "CLe", "CEq": "CEq", "CNe": "CNe"}
_UN = {"sqrt": "Sqrt", "log": "Log", "abs": "Abs", "absolute": "Abs"}
_BIN = {ast.Add: "Add", ast.Sub: "Sub", ast.Mult: "Mul", ast.Div: "Div"}


def _np_func(node):
    f = node.func
    if isinstance(f, ast.Attribute) and isinstance(f.value, ast.Name) and f.value.id == "np":
        return f.attr
    raise Refuse("call of something that is not np.<function>: %s" % ast.dump(f))


def _small_nat(node, what):
    if isinstance(node, ast.Constant) and type(node.value) is int and 0 <= node.value <= 64:
        return node.value
    raise Refuse("%s must be a small non-negative integer literal, got %s" % (what, ast.dump(node)))


def tr_expr(node, src):
    if isinstance(node, ast.Name):
        if node.id == "X":
            return ["X"]
        raise Refuse("unknown name %r" % node.id)
    if isinstance(node, ast.Constant):
        if type(node.value) not in (int, float):
            raise Refuse("unsupported constant %r" % (node.value,))
        txt = ast.get_source_segment(src, node)
        n, d = lit_of_text(txt)
        if Fraction(n, d) != Fraction(str(node.value)) and float(Fraction(n, d)) != float(node.value):
            raise Refuse("literal %r read as %s/%s" % (txt, n, d))
        return ["Lit", txt, n, d]
    if isinstance(node, ast.UnaryOp):
        if isinstance(node.op, ast.USub):
            return ["Neg", tr_expr(node.operand, src)]
        if isinstance(node.op, ast.UAdd):
            return tr_expr(node.operand, src)
        raise Refuse("unsupported unary operator %s" % type(node.op).__name__)
    if isinstance(node, ast.BinOp):
        op = _BIN.get(type(node.op))
        if op is None:
            raise Refuse("unsupported binary operator %s" % type(node.op).__name__)
        return [op, tr_expr(node.left, src), tr_expr(node.right, src)]
    if isinstance(node, ast.Call):
        fn = _np_func(node)
        args, kws = node.args, node.keywords
        if fn in _UN:
            if len(args) != 1 or kws:
                raise Refuse("np.%s expects exactly one positional argument" % fn)
            return [_UN[fn], tr_expr(args[0], src)]
        if fn == "square":
            if len(args) != 1 or kws:
                raise Refuse("np.square expects exactly one positional argument")
            return ["Pow", tr_expr(args[0], src), 2]
        if fn == "divide":
            if len(args) != 2 or kws:
                raise Refuse("np.divide with out=/where= is not supported")
            return ["Div", tr_expr(args[0], src), tr_expr(args[1], src)]
        if fn == "power":
            if len(args) != 2 or kws:
                raise Refuse("np.power expects two positional arguments")
            return ["Pow", tr_expr(args[0], src), _small_nat(args[1], "exponent of np.power")]
        if fn in ("round", "around"):
            d = 0
            if len(args) == 2 and not kws:
                d = _small_nat(args[1], "decimals of np.round")
            elif len(args) == 1 and len(kws) == 1 and kws[0].arg == "decimals":
                d = _small_nat(kws[0].value, "decimals of np.round")
            elif not (len(args) == 1 and not kws):
                raise Refuse("unsupported np.round call")
            return ["Round", tr_expr(args[0], src), d]
        if fn == "where":
            if len(args) != 3 or kws:
                raise Refuse("np.where expects (condition, a, b)")
            c = args[0]
            if not (isinstance(c, ast.Compare) and len(c.ops) == 1 and type(c.ops[0]) in _CMP):
                raise Refuse("np.where condition must be one comparison: %s" % ast.dump(c))
            return ["Where", _CMP[type(c.ops[0])], tr_expr(c.left, src), tr_expr(c.comparators[0], src),
                    tr_expr(args[1], src), tr_expr(args[2], src)]
        if fn == "select":
            # np.select([c1, .., cn], [v1, .., vn], default=d): element-wise, the first true condition wins, else d
            # (d = 0 when omitted) = np.where(c1, v1, np.where(c2, v2, .. d)); every branch is evaluated eagerly in both
            kw = {k.arg: k.value for k in kws}
            if not (2 <= len(args) <= 3 and set(kw) <= {"default"} and not (len(args) == 3 and kw)
                    and isinstance(args[0], ast.List) and isinstance(args[1], ast.List)
                    and len(args[0].elts) == len(args[1].elts) >= 1):
                raise Refuse("unsupported np.select call")
            dflt = args[2] if len(args) == 3 else kw.get("default")
            acc = ["Lit", "0", 0, 1] if dflt is None else tr_expr(dflt, src)
            for c, v in reversed(list(zip(args[0].elts, args[1].elts))):
                if not (isinstance(c, ast.Compare) and len(c.ops) == 1 and type(c.ops[0]) in _CMP):
                    raise Refuse("np.select condition must be one comparison: %s" % ast.dump(c))
                acc = ["Where", _CMP[type(c.ops[0])], tr_expr(c.left, src), tr_expr(c.comparators[0], src),
                       tr_expr(v, src), acc]
            return acc
        if fn in ("max", "amax"):
            if len(args) == 1 and not kws and isinstance(args[0], ast.Name) and args[0].id == "X":
                return ["MaxX"]
            raise Refuse("np.max is supported on the whole column X only")
        raise Refuse("unsupported numpy function np.%s" % fn)
    raise Refuse("unsupported syntax node %s" % type(node).__name__)


def parse_formula(src):
    try:
        tree = ast.parse(src.strip(), mode="eval")
    except SyntaxError as e:
        raise Refuse("formula is not an expression: %r (%s)" % (src, e))
    return tr_expr(tree.body, src.strip())


def coq_expr(t):
    k = t[0]
    if k == "X":
        return "EX"
    if k == "MaxX":
        return "EMaxX"
    if k == "Lit":
        return "(ELit (%d # %d))" % (t[2], t[3])
    if k in ("Add", "Sub", "Mul", "Div"):
        return "(E%s %s %s)" % (k, coq_expr(t[1]), coq_expr(t[2]))
    if k in ("Neg", "Sqrt", "Log", "Abs"):
        return "(E%s %s)" % (k, coq_expr(t[1]))
    if k in ("Pow", "Round"):
        return "(E%s %s %d%%nat)" % (k, coq_expr(t[1]), t[2])
    if k == "Where":
        return "(EWhere %s %s %s %s %s)" % (t[1], coq_expr(t[2]), coq_expr(t[3]), coq_expr(t[4]), coq_expr(t[5]))
    raise Refuse("internal: unknown tree node %r" % (k,))


def coq_str(s):
    for ch in s:
        if ord(ch) > 0x10FFFF:
            raise Refuse("bad character")
    return "[" + "; ".join(str(ord(c)) for c in s) + "]"


def coq_comment(s):
    return s.replace("(*", "( *").replace("*)", "* )").replace('"', "''")


# ---------------------------------------------------------------------------
# keep/drop rule, numeric parse and preset separator from ranking_transformers.py

def _find_class(mod, name):
    for n in mod.body:
        if isinstance(n, ast.ClassDef) and n.name == name:
            return n
    raise Refuse("class %s not found in %s" % (name, RT))


def _find_method(cls, name):
    for n in cls.body:
        if isinstance(n, ast.FunctionDef) and n.name == name:
            return n
    raise Refuse("method %s.%s not found" % (cls.name, name))


def _is_call(node, *path):
    """node is a call of the dotted name path, e.g. ('np', 'unique') or ('len',)"""
    if not isinstance(node, ast.Call):
        return False
    f = node.func
    parts = []
    while isinstance(f, ast.Attribute):
        parts.append(f.attr)
        f = f.value
    if not isinstance(f, ast.Name):
        return False
    parts.append(f.id)
    return tuple(reversed(parts)) == tuple(path)


def _self_attr(node):
    if isinstance(node, ast.Attribute) and isinstance(node.value, ast.Name) and node.value.id == "self":
        return node.attr
    return None


def _functions_of(cls):
    return [n for n in cls.body if isinstance(n, (ast.FunctionDef, ast.AsyncFunctionDef))]


def _own_walk(fn):
    """nodes of a function body, not descending into nested function definitions"""
    stack = list(fn.body)
    while stack:
        n = stack.pop()
        yield n
        for ch in ast.iter_child_nodes(n):
            if not isinstance(ch, (ast.FunctionDef, ast.AsyncFunctionDef, ast.ClassDef, ast.Lambda)):
                stack.append(ch)


class _Scope:
    """single-assignment view of one function: name -> the one expression assigned to it"""

    def __init__(self, fn):
        self.fn = fn
        self.strc = lambda n: n.value if isinstance(n, ast.Constant) and type(n.value) is str else None
        self.assigned = {}
        self.unique_of = {}      # name -> ("values" | "counts", array name)
        for n in _own_walk(fn):
            if isinstance(n, ast.Assign) and len(n.targets) == 1:
                tg, val = n.targets[0], n.value
            elif isinstance(n, ast.AnnAssign) and n.value is not None:
                tg, val = n.target, n.value
            else:
                continue
            if isinstance(tg, ast.Name):
                self.assigned.setdefault(tg.id, []).append(val)
            elif isinstance(tg, ast.Tuple) and len(tg.elts) == 2 and all(isinstance(e, ast.Name) for e in tg.elts) \
                    and _is_call(val, "np", "unique"):
                kw = {k.arg: k.value for k in val.keywords}
                if len(val.args) == 1 and isinstance(val.args[0], ast.Name) and set(kw) == {"return_counts"} \
                        and isinstance(kw["return_counts"], ast.Constant) and kw["return_counts"].value is True:
                    for e, role in zip(tg.elts, ("values", "counts")):
                        self.assigned.setdefault(e.id, []).append(None)
                        self.unique_of[e.id] = (role, val.args[0].id)
        # names bound in other ways (loop variables, parameters, augmented assignments) are not single assignments
        for n in _own_walk(fn):
            if isinstance(n, ast.AugAssign) and isinstance(n.target, ast.Name):
                self.assigned.setdefault(n.target.id, []).extend([None, None])

    def value(self, name):
        v = self.assigned.get(name, [])
        return v[0] if len(v) == 1 else None

    def deref(self, node, depth=0):
        """follow single assignments of plain names"""
        while isinstance(node, ast.Name) and depth < 8:
            v = self.value(node.id)
            if v is None:
                return node
            node = v
            depth += 1
        return node


ANY = "*"      # "the number of rows of the input column" (equal to the rows of every element-wise transformed column)


def _same_arr(a, b):
    return a == b or ANY in (a, b)


def _classify(sc, node):
    """which statistic of the rendered column does the expression denote?
    -> ("distinct", arr, None) | ("majority", arr, None) | ("nanshare", arr, literal) | None"""
    node = sc.deref(node)

    def counter_of(n):
        """n is (a name bound to) Counter(arr) / Counter(arr.tolist()): -> arr"""
        n = sc.deref(n)
        if (_is_call(n, "Counter") or _is_call(n, "collections", "Counter")) and len(n.args) == 1 and not n.keywords:
            a = n.args[0]
            if isinstance(a, ast.Call) and isinstance(a.func, ast.Attribute) and a.func.attr == "tolist" \
                    and not a.args and not a.keywords:
                a = a.func.value
            # flattening does not change the multiset of the values: np.ravel(a), a.ravel(), a.flatten()
            if _is_call(a, "np", "ravel") and len(a.args) == 1 and not a.keywords:
                a = a.args[0]
            elif isinstance(a, ast.Call) and isinstance(a.func, ast.Attribute) and a.func.attr in ("ravel", "flatten") \
                    and not a.args and not a.keywords:
                a = a.func.value
            if isinstance(a, ast.Name):
                return a.id
        return None

    def uniq(n, role):
        if isinstance(n, ast.Name) and sc.unique_of.get(n.id, ("", ""))[0] == role:
            return sc.unique_of[n.id][1]
        return None

    def counter_values(n):
        """vc.values() -> arr"""
        if isinstance(n, ast.Call) and isinstance(n.func, ast.Attribute) and n.func.attr == "values" and not n.args \
                and not n.keywords:
            return counter_of(n.func.value)
        return None

    def rows(n):
        """number of rows of the rendered column -> arr | ANY | None"""
        n = sc.deref(n)
        if _is_call(n, "len") and len(n.args) == 1 and not n.keywords and isinstance(n.args[0], ast.Name):
            if _is_call(sc.deref(n.args[0]), "self", "get_vals"):
                return ANY
            return n.args[0].id
        if isinstance(n, ast.Attribute) and n.attr == "size" and isinstance(n.value, ast.Name):
            return n.value.id
        if (_is_call(n, "np", "sum") or _is_call(n, "sum")) and len(n.args) == 1 and not n.keywords:
            return uniq(n.args[0], "counts") or counter_values(n.args[0])
        return None

    # distinct
    if _is_call(node, "len") and len(node.args) == 1 and not node.keywords:
        arr = uniq(node.args[0], "values") or counter_of(node.args[0])
        if arr:
            return ("distinct", arr, None)
    # quotients
    num = den = None
    if _is_call(node, "np", "divide") and len(node.args) == 2 and not node.keywords:
        num, den = node.args
    elif isinstance(node, ast.BinOp) and isinstance(node.op, ast.Div):
        num, den = node.left, node.right
    if num is None:
        return None
    r = rows(den)
    if r is None:
        return None
    num = sc.deref(num)
    # most frequent value
    if (_is_call(num, "np", "max") or _is_call(num, "max")) and len(num.args) == 1 and not num.keywords:
        arr = uniq(num.args[0], "counts") or counter_values(num.args[0])
        if arr and _same_arr(arr, r):
            return ("majority", arr, None)
    # occurrences of the nan literal
    if (_is_call(num, "np", "count_nonzero") or _is_call(num, "np", "sum")) and len(num.args) == 1 and not num.keywords:
        c = num.args[0]
        if isinstance(c, ast.Compare) and len(c.ops) == 1 and isinstance(c.ops[0], ast.Eq) and isinstance(c.left, ast.Name) \
                and sc.strc(c.comparators[0]) is not None and _same_arr(c.left.id, r):
            return ("nanshare", c.left.id, sc.strc(c.comparators[0]))
    if isinstance(num, ast.Call) and isinstance(num.func, ast.Attribute) and num.func.attr == "get" and len(num.args) == 2 \
            and not num.keywords and sc.strc(num.args[0]) is not None \
            and isinstance(num.args[1], ast.Constant) and num.args[1].value == 0 and type(num.args[1].value) is int:
        arr = counter_of(num.func.value)
        if arr and _same_arr(arr, r):
            return ("nanshare", arr, sc.strc(num.args[0]))
    return None


def _is_astype_str(n):
    """<expr>.astype(str)"""
    return (isinstance(n, ast.Call) and isinstance(n.func, ast.Attribute) and n.func.attr == "astype"
            and len(n.args) == 1 and not n.keywords and isinstance(n.args[0], ast.Name) and n.args[0].id == "str")


def _stores(body, name):
    """does the statement list store the array `name` as a new column:  d[...] = name   or   xs.append(name)"""
    for st in body:
        for n in ast.walk(st):
            if isinstance(n, ast.Assign) and any(isinstance(tg, ast.Subscript) for tg in n.targets) \
                    and isinstance(n.value, ast.Name) and n.value.id == name:
                return True
            if isinstance(n, ast.Call) and isinstance(n.func, ast.Attribute) and n.func.attr == "append" \
                    and len(n.args) == 1 and isinstance(n.args[0], ast.Name) and n.args[0].id == name:
                return True
    return False


def _is_text_array(cls, fns, fn, name):
    """`name` in function `fn` is the transformed column rendered as text: assigned once from <..>.astype(str), or the
    element of a for-loop over a generator method of the class all of whose yields put <..>.astype(str) there"""
    sc = _Scope(fn)
    v = sc.value(name)
    if v is not None and _is_astype_str(v):
        return True
    # assigned once from a method of the class whose every `return` is <..>.astype(str)
    if isinstance(v, ast.Call) and isinstance(v.func, ast.Attribute) and isinstance(v.func.value, ast.Name) \
            and v.func.value.id in ("self", "cls", cls.name):
        ms = [g for g in fns if g.name == v.func.attr]
        if len(ms) == 1:
            rets = [r for r in _own_walk(ms[0]) if isinstance(r, ast.Return)]
            if rets and all(r.value is not None and _is_astype_str(r.value) for r in rets):
                return True
    for n in _own_walk(fn):
        if isinstance(n, ast.For) and isinstance(n.target, ast.Tuple):
            idx = [i for i, e in enumerate(n.target.elts) if isinstance(e, ast.Name) and e.id == name]
            it = n.iter
            if len(idx) == 1 and isinstance(it, ast.Call) and isinstance(it.func, ast.Attribute) \
                    and isinstance(it.func.value, ast.Name) and it.func.value.id == "self":
                gens = [g for g in fns if g.name == it.func.attr]
                if len(gens) != 1:
                    return False
                ys = [y for y in ast.walk(gens[0]) if isinstance(y, ast.Yield)]
                return bool(ys) and all(isinstance(y.value, ast.Tuple) and len(y.value.elts) == len(n.target.elts)
                                        and _is_astype_str(y.value.elts[idx[0]]) for y in ys)
    return False


_NEG = {"CLt": "CGe", "CLe": "CGt", "CGt": "CLe", "CGe": "CLt", "CEq": "CNe", "CNe": "CEq"}


def _blocks(fn):
    """every statement list of the function (not descending into nested definitions)"""
    stack = [fn.body]
    while stack:
        body = stack.pop()
        yield body
        for st in body:
            for fld in ("body", "orelse", "finalbody"):
                sub = getattr(st, fld, None)
                if isinstance(sub, list) and sub and not isinstance(st, (ast.FunctionDef, ast.AsyncFunctionDef, ast.ClassDef)):
                    stack.append(sub)
            for h in getattr(st, "handlers", []) or []:
                stack.append(h.body)


def _carries(sc, test, boolop):
    """does the expression `test` carry the value of `boolop`?  -> +1 (same truth value), -1 (negated), 0 (no)"""
    sign = 1
    for _ in range(6):
        if test is boolop:
            return sign
        if isinstance(test, ast.UnaryOp) and isinstance(test.op, ast.Not):
            sign, test = -sign, test.operand
        elif _is_call(test, "bool") and len(test.args) == 1 and not test.keywords:
            test = test.args[0]
        elif isinstance(test, ast.Name) and sc.value(test.id) is not None:
            test = sc.value(test.id)
        else:
            return 0
    return 0


def _check_guard(cls, fns, fn, boolop, keep_when_true, arr):
    """the rule must be what decides the emission, and its statistics must be those of the text column.
    Accepted: (a) `if <rule says keep>: store(arr)`; (b) `if <rule says degenerate>: ...; continue` followed, in the
    same block, by store(arr) (or with the store in the else branch); (c) a predicate method whose single `return`
    carries the keep verdict and whose only call, applied to the array, is the test of form (a)."""
    if arr is None:
        raise Refuse("keep rule: cannot name the array whose statistics are tested")
    sc = _Scope(fn)
    for body in _blocks(fn):
        for i, st in enumerate(body):
            if not isinstance(st, ast.If):
                continue
            s = _carries(sc, st.test, boolop)
            if s == 0:
                continue
            keep_branch = (s > 0) == keep_when_true
            if keep_branch:
                ok = _stores(st.body, arr)
            else:
                skips = bool(st.body) and isinstance(st.body[-1], ast.Continue) and not _stores(st.body, arr)
                ok = (skips and _stores(body[i + 1:], arr)) or (not _stores(st.body, arr) and _stores(st.orelse, arr))
            if not ok:
                raise Refuse("keep rule: the statement guarded by the rule does not store the tested array %r" % arr)
            if not _is_text_array(cls, fns, fn, arr):
                raise Refuse("keep rule: the tested array %r is not <transformed>.astype(str)" % arr)
            return
    # predicate form
    rets = [n for n in _own_walk(fn) if isinstance(n, ast.Return)]
    params = [a.arg for a in fn.args.args]
    if len(rets) != 1 or arr not in params or rets[0].value is None:
        raise Refuse("keep rule: the rule is neither the guard of the storing `if` nor the result of a predicate on the array")
    s = _carries(sc, rets[0].value, boolop)
    if s == 0 or (s > 0) != keep_when_true:
        raise Refuse("keep rule: the predicate does not return the keep verdict")
    pos = params.index(arr) - (1 if params and params[0] in ("self", "cls") else 0)
    sites = []
    for g in fns:
        for n in _own_walk(g):
            if isinstance(n, ast.Call) and isinstance(n.func, ast.Attribute) and n.func.attr == fn.name \
                    and isinstance(n.func.value, ast.Name) and n.func.value.id in ("self", "cls", cls.name):
                sites.append((g, n))
    if len(sites) != 1:
        raise Refuse("keep rule: predicate %s must be called exactly once in the class, found %d calls" % (fn.name, len(sites)))
    g, call = sites[0]
    if call.keywords or pos >= len(call.args) or not isinstance(call.args[pos], ast.Name):
        raise Refuse("keep rule: cannot read the argument of %s" % fn.name)
    arg = call.args[pos].id
    for n in _own_walk(g):
        if isinstance(n, ast.If) and n.test is call:
            if not _stores(n.body, arg):
                raise Refuse("keep rule: the statement guarded by %s does not store its argument %r" % (fn.name, arg))
            if not _is_text_array(cls, fns, g, arg):
                raise Refuse("keep rule: the argument %r of %s is not <transformed>.astype(str)" % (arg, fn.name))
            return
    raise Refuse("keep rule: the call of %s is not the test of an `if`" % fn.name)


def extract_constants(src):
    """keep/drop rule, numeric parse and preset separator of class FeatureTransformerGeneric.
    Three independent items; each is searched in all methods of the class.  An item whose code shape is not recognised
    is reported in "unread" (the caller then emits the specification's value, marked as not read from the source: that
    piece of glue is held by the correspondence only).  A recognised shape yields the operators / constants of the
    source, whatever they are."""
    mod = ast.parse(src)
    cls = _find_class(mod, "FeatureTransformerGeneric")
    fns = _functions_of(cls)

    def single_consts(body):
        d = {}
        for n in body:
            tg = val = None
            if isinstance(n, ast.Assign) and len(n.targets) == 1:
                tg, val = n.targets[0], n.value
            elif isinstance(n, ast.AnnAssign) and n.value is not None:
                tg, val = n.target, n.value
            elif isinstance(n, ast.AugAssign):
                tg, val = n.target, None
            if isinstance(tg, ast.Name):
                d.setdefault(tg.id, []).append(val)
        return d

    class_consts = single_consts(cls.body)
    mod_consts = single_consts(mod.body)
    rebound = {nm for n in ast.walk(mod) if isinstance(n, ast.Global) for nm in n.names}
    self_assign = {}
    for fn in fns:
        for n in ast.walk(fn):
            tgts, val = [], None
            if isinstance(n, ast.Assign):
                tgts, val = n.targets, n.value
            elif isinstance(n, ast.AnnAssign) and n.value is not None:
                tgts, val = [n.target], n.value
            elif isinstance(n, ast.AugAssign):
                tgts, val = [n.target], None
            for tg in tgts:
                a = _self_attr(tg)
                if a:
                    self_assign.setdefault(a, []).append(val)

    def number(node):
        if isinstance(node, ast.Constant) and type(node.value) in (int, float):
            return lit_of_text(ast.get_source_segment(src, node))
        return None

    def module_value(name):
        v = mod_consts.get(name, [])
        if len(v) == 1 and v[0] is not None and name not in rebound:
            return v[0]
        return None

    def class_const(name):
        v = class_consts.get(name, [])
        if len(v) != 1 or v[0] is None:
            raise Refuse("class attribute %s is not one constant" % name)
        k = number(v[0])
        if k is None and isinstance(v[0], ast.Name) and module_value(v[0].id) is not None:
            k = number(module_value(v[0].id))
        if k is None:
            raise Refuse("class attribute %s is not one numeric constant" % name)
        return k

    def constant(node, local=()):
        """numeric literal | module-level NAME bound once to a literal | self.<attr> assigned once in the class to one of
        these | class-level constant"""
        k = number(node)
        if k is not None:
            return k
        if isinstance(node, ast.Name) and node.id not in local and module_value(node.id) is not None:
            return number(module_value(node.id))
        a = _self_attr(node)
        if a is not None:
            if a in self_assign:
                v = self_assign[a]
                if len(v) != 1 or v[0] is None:
                    raise Refuse("self.%s is not assigned exactly once in the class" % a)
                inner = v[0]
                if isinstance(inner, ast.Attribute) and isinstance(inner.value, ast.Name) \
                        and inner.value.id in ("self", "cls", cls.name):
                    if inner.attr in self_assign:
                        raise Refuse("self.%s refers to a mutable attribute" % a)
                    return class_const(inner.attr)
                k = constant(inner) if not _self_attr(inner) else None
                if k is None:
                    raise Refuse("self.%s is not a numeric constant" % a)
                return k
            return class_const(a)
        if isinstance(node, ast.Attribute) and isinstance(node.value, ast.Name) and node.value.id in ("cls", cls.name):
            return class_const(node.attr)
        return None

    def strc(node):
        if isinstance(node, ast.Constant) and type(node.value) is str:
            return node.value
        if isinstance(node, ast.Name) and module_value(node.id) is not None:
            v = module_value(node.id)
            if isinstance(v, ast.Constant) and type(v.value) is str:
                return v.value
        return None

    out = dict(rule=None, nan_literal=None, strip_char=None, empty_value=None, separator=None, unread={})

    # ---- preset separator: exactly one <x>.split(<one-character string constant>) in the class
    try:
        seps = [strc(n.args[0]) for fn in fns for n in ast.walk(fn)
                if isinstance(n, ast.Call) and isinstance(n.func, ast.Attribute) and n.func.attr == "split"
                and len(n.args) == 1 and not n.keywords]
        if len(seps) != 1 or seps[0] is None or len(seps[0]) != 1:
            raise Refuse("expected exactly one .split(<one-character constant>) in the class, found %r" % (seps,))
        out["separator"] = seps[0]
    except Refuse as e:
        out["unread"]["separator"] = str(e)

    # ---- keep rule: `distinct op k and majority op k and nan op k` (keep) or its De Morgan dual with `or` (degenerate)
    try:
        found = []
        for fn in fns:
            sc = _Scope(fn)
            sc.strc = strc
            local = set(sc.assigned) | {a.arg for a in fn.args.args}
            for n in _own_walk(fn):
                if not (isinstance(n, ast.BoolOp) and len(n.values) == 3):
                    continue
                keep_when_true = isinstance(n.op, ast.And)
                rule, arrs, nan_lit, ok = {}, [], None, True
                for c in n.values:
                    if not (isinstance(c, ast.Compare) and len(c.ops) == 1 and type(c.ops[0]) in _CMP):
                        ok = False
                        break
                    op = _CMP[type(c.ops[0])]
                    lq, rq = _classify(sc, c.left), _classify(sc, c.comparators[0])
                    if lq is not None and rq is None:
                        q, kn = lq, c.comparators[0]
                    elif rq is not None and lq is None:
                        q, kn, op = rq, c.left, _FLIP[op]
                    else:
                        ok = False
                        break
                    k = constant(sc.deref(kn), local)
                    if k is None or q[0] in rule:
                        ok = False
                        break
                    rule[q[0]] = (op if keep_when_true else _NEG[op], k)
                    arrs.append(q[1])
                    if q[0] == "nanshare":
                        nan_lit = q[2]
                if ok and set(rule) == {"distinct", "majority", "nanshare"} \
                        and all(_same_arr(x, y) for x in arrs for y in arrs):
                    names = sorted({x for x in arrs if x != ANY})
                    found.append((rule, nan_lit, fn, n, keep_when_true, names[0] if len(names) == 1 else None))
        if len(found) != 1:
            raise Refuse("expected exactly one rule `distinct <op> k and majority share <op> k and nan share <op> k` (or its "
                         "negation with `or`) over one rendered array in class %s, found %d" % (cls.name, len(found)))
        rule, nan_lit, rule_fn, rule_node, kwt, rule_arr = found[0]
        _check_guard(cls, fns, rule_fn, rule_node, kwt, rule_arr)
        out["rule"], out["nan_literal"] = rule, nan_lit
    except Refuse as e:
        out["unread"]["keep rule"] = str(e)

    # ---- get_vals: exactly one <s>.replace('<c>', '') and exactly one `float(x)` / `<number>` choice on emptiness of x
    try:
        gv = _find_method(cls, "get_vals")
        reps = [n for n in ast.walk(gv) if isinstance(n, ast.Call) and isinstance(n.func, ast.Attribute) and n.func.attr == "replace"]
        if len(reps) != 1 or len(reps[0].args) != 2 or reps[0].keywords or not all(strc(a) is not None for a in reps[0].args):
            raise Refuse("expected exactly one <str>.replace('<char>', '')")
        old, new = strc(reps[0].args[0]), strc(reps[0].args[1])
        if new != "" or len(old) != 1:
            raise Refuse("replace(%r, %r) is not the removal of one character" % (old, new))

        def float_of(n):
            if _is_call(n, "float") and len(n.args) == 1 and not n.keywords and isinstance(n.args[0], ast.Name):
                return n.args[0].id
            return None

        choices = []
        for n in ast.walk(gv):
            if not isinstance(n, ast.IfExp):
                continue
            for num_branch, flt_branch, const_when_true in ((n.body, n.orelse, True), (n.orelse, n.body, False)):
                v = float_of(flt_branch)
                if number(num_branch) is not None and v is not None:
                    choices.append((n.test, v, num_branch, const_when_true))
        if len(choices) != 1:
            raise Refuse("expected exactly one `<number> if <x is empty> else float(x)` (or the mirrored form), found %d"
                         % len(choices))
        test, var, num_branch, const_when_true = choices[0]

        def is_name(n):
            return isinstance(n, ast.Name) and n.id == var

        def is_len(n):
            return _is_call(n, "len") and len(n.args) == 1 and is_name(n.args[0])

        def zero(n):
            return isinstance(n, ast.Constant) and type(n.value) is int and n.value == 0

        def empty_str(n):
            return isinstance(n, ast.Constant) and n.value == ""

        empty_when_true = None
        if isinstance(test, ast.Compare) and len(test.ops) == 1:
            l, o, r = test.left, test.ops[0], test.comparators[0]
            if (is_len(l) and zero(r)) or (is_name(l) and empty_str(r)) or (zero(l) and is_len(r)) or (empty_str(l) and is_name(r)):
                if isinstance(o, ast.Eq):
                    empty_when_true = True
                elif isinstance(o, ast.NotEq):
                    empty_when_true = False
                elif isinstance(o, ast.Gt) and is_len(l):
                    empty_when_true = False
        elif is_name(test) or is_len(test):
            empty_when_true = False
        elif isinstance(test, ast.UnaryOp) and isinstance(test.op, ast.Not) and (is_name(test.operand) or is_len(test.operand)):
            empty_when_true = True
        if empty_when_true is None or empty_when_true != const_when_true:
            raise Refuse("cannot read `%s` as `<number> when the cell is empty, float(cell) otherwise`"
                         % ast.get_source_segment(src, choices[0][0]))
        out["strip_char"] = old
        out["empty_value"] = lit_of_text(ast.get_source_segment(src, num_branch))
    except Refuse as e:
        out["unread"]["numeric parse (get_vals)"] = str(e)
    return out


# ---------------------------------------------------------------------------

def translate(repo=None):
    repo = repo or os.environ.get("OUTRANK_REPO", "/repo")
    vault = load_vault(repo)
    for p in PRESETS:
        if p not in vault["presets"]:
            raise Refuse("preset %r missing from the registry" % p)
    tables = {}
    problems = []
    for p in PRESETS:
        rows = []
        for name, formula in vault["presets"][p]:
            try:
                rows.append(dict(name=name, formula=formula, expr=parse_formula(formula)))
            except Refuse as e:
                problems.append("%s[%r] = %r: %s" % (p, name, formula, e))
                rows.append(dict(name=name, formula=formula, expr=None))
        tables[p] = rows
    try:
        rt_src = open(os.path.join(repo, RT), encoding="utf8").read()
        consts = extract_constants(rt_src)
    except (OSError, SyntaxError) as e:
        consts = None
        problems.append("%s: %s" % (RT, e))
    except Refuse as e:
        consts = None
        problems.append("%s: %s" % (RT, e))
    res = dict(repo=repo, tables=tables, constants=consts, problems=problems,
               resolution_range=vault["resolution_range"], greater_than_range=vault["greater_than_range"],
               registry_keys=vault["registry_keys"])
    if not problems:
        res["presets_v"] = presets_text(res)
        res["constants_v"] = constants_text(res)
    return res


def presets_text(res):
    L = ["(* GENERATED by tools/translate_presets.py from %s/{default_transformers,fw_transformers,__init__}.py." % VAULT,
         "   Do not edit: rewritten by every run of ./check C12 and by setup.sh. *)",
         "From Coq Require Import List NArith QArith.",
         "From Outrank Require Import Features.Transform.",
         "Import ListNotations.",
         "Local Open Scope N_scope.",
         ""]
    for p in PRESETS:
        L.append("Definition %s : list (str * expr) := [" % COQ_TABLE[p])
        rows = res["tables"][p]
        for i, r in enumerate(rows):
            L.append("  (* %s : %s *)" % (coq_comment(r["name"]), coq_comment(r["formula"])))
            L.append("  (%s,\n   %s)%s" % (coq_str(r["name"]), coq_expr(r["expr"]), ";" if i + 1 < len(rows) else ""))
        L.append("].")
        L.append("")
    L.append("(* the presets translated here, under the names of the vault's registry _tr_global_namespace *)")
    L.append("Definition registry : list (str * list (str * expr)) := [")
    L.append(";\n".join("  (%s (* %s *), %s)" % (coq_str(p), p, COQ_TABLE[p]) for p in PRESETS))
    L.append("].")
    L.append("")
    L.append("(* all keys of the vault's registry; the presets beyond the three above are not modelled (outside C12) *)")
    L.append("Definition vault_registry_keys : list str := [")
    L.append(";\n".join("  %s (* %s *)" % (coq_str(k), coq_comment(k)) for k in res["registry_keys"]))
    L.append("].")
    L.append("")
    L.append("(* fw_transformers.resolution_range / greater_than_range *)")
    L.append("Definition resolution_range : list N := [%s]." % "; ".join(str(x) for x in res["resolution_range"]))
    L.append("Definition greater_than_range : list N := [%s]." % "; ".join(str(x) for x in res["greater_than_range"]))
    return "\n".join(L) + "\n"


SPEC_DEFAULTS = dict(rule={"distinct": ("CGt", (1, 1)), "majority": ("CLt", (80, 100)), "nanshare": ("CLt", (75, 100))},
                     nan_literal="nan", strip_char='"', empty_value=(0, 1), separator=",")


def constants_text(res):
    c = dict(res["constants"])
    unread = c.get("unread", {})
    how = {}
    for key, item in (("rule", "keep rule"), ("nan_literal", "keep rule"), ("strip_char", "numeric parse (get_vals)"),
                      ("empty_value", "numeric parse (get_vals)"), ("separator", "separator")):
        if c.get(key) is None:
            c[key] = SPEC_DEFAULTS[key]
            how[key] = "NOT READ from the source (code shape not recognised): value of the specification; held by the correspondence only"
        else:
            how[key] = "read from the source"
    r = c["rule"]
    L = ["(* GENERATED by tools/translate_presets.py from %s (class FeatureTransformerGeneric)." % RT,
         "   Do not edit: rewritten by every run of ./check C12 and by setup.sh. *)",
         "From Coq Require Import List NArith QArith.",
         "From Outrank Require Import Features.Transform.",
         "Import ListNotations.",
         "",
         "(* construct_new_features emits a transformed column iff",
         "     (number of distinct rendered values) distinct_op distinct_rhs",
         "     and (count of the most frequent value / rows) maj_op max_maj_support",
         "     and (count of nan_literal / rows) nan_op nan_prop_support",
         "   -- %s *)" % how["rule"],
         "Definition distinct_op : cmp := %s." % r["distinct"][0],
         "Definition distinct_rhs : Q := %d # %d." % r["distinct"][1],
         "Definition maj_op : cmp := %s." % r["majority"][0],
         "Definition max_maj_support : Q := %d # %d." % r["majority"][1],
         "Definition nan_op : cmp := %s." % r["nanshare"][0],
         "Definition nan_prop_support : Q := %d # %d." % r["nanshare"][1],
         "Definition nan_literal : str := %s%%N.  (* %s *)" % (coq_str(c["nan_literal"]), coq_comment(repr(c["nan_literal"]))),
         "",
         "(* get_vals: character removed from a cell, value of the empty cell -- %s *)" % how["strip_char"],
         "Definition strip_char : N := %d%%N." % ord(c["strip_char"]),
         "Definition empty_value : Q := %d # %d." % c["empty_value"],
         "",
         "(* separator of the preset list -- %s *)" % how["separator"],
         "Definition preset_separator : N := %d%%N." % ord(c["separator"])]
    return "\n".join(L) + "\n"


def write(res):
    os.makedirs(GEN, exist_ok=True)
    changed = []
    for fn, key in (("Presets.v", "presets_v"), ("TransformConstants.v", "constants_v")):
        path = os.path.join(GEN, fn)
        old = open(path, encoding="utf8").read() if os.path.exists(path) else None
        if old != res[key]:
            tmp = path + ".tmp%d" % os.getpid()
            with open(tmp, "w", encoding="utf8") as f:
                f.write(res[key])
            os.replace(tmp, path)
            changed.append(fn)
    return changed


def main():
    try:
        res = translate()
    except Refuse as e:
        print("translate_presets: REFUSED: %s" % e, file=sys.stderr)
        return 2
    if res["problems"]:
        for p in res["problems"]:
            print("translate_presets: REFUSED: %s" % p, file=sys.stderr)
        return 2
    ch = write(res)
    print("translate_presets: %s (%s)" % (", ".join("%s=%d" % (p, len(res["tables"][p])) for p in PRESETS),
                                          "rewrote " + ", ".join(ch) if ch else "unchanged"))
    return 0


if __name__ == "__main__":
    sys.exit(main())
