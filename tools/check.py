"""Entry point of every registered check:  ./check <ID> [--tier quick|thorough] [--replay <file>]"""
from __future__ import annotations

import argparse
import importlib
import json
import os
import sys
import traceback

sys.path.insert(0, os.path.dirname(os.path.abspath(__file__)))
import vlib  # noqa: E402


def main():
    ap = argparse.ArgumentParser()
    ap.add_argument("pid")
    ap.add_argument("--tier", default=os.environ.get("VERIF_TIER", "quick"), choices=["quick", "thorough"])
    ap.add_argument("--replay", default=None)
    a = ap.parse_args()
    seed = int(os.environ.get("VERIF_SEED", "0") or 0)
    pid = a.pid.upper()
    mod = importlib.import_module("props.%s" % pid.lower())
    run = vlib.Run(pid, a.tier, seed)
    replay = None
    if a.replay:
        replay = json.load(open(a.replay))
    try:
        mod.check(run, replay)
    except vlib.Broken as b:
        run.oblige(b.obligation, False, b.detail)
        run.violation("broken-obligation", b.obligation, found_input=False, extra=b.detail[-3000:])
    except Exception:
        tb = traceback.format_exc()
        run.oblige("harness", False, tb)
        run.violation("broken-obligation", "harness-exception", found_input=False, extra=tb[-3000:])
    rc = vlib.finish(run, level=getattr(mod, "LEVEL", "proof"), rule=getattr(mod, "RULE", ""))
    sys.exit(rc)


if __name__ == "__main__":
    main()
