"""Entry point of every registered check:  ./check <ID> [--tier quick|thorough] [--replay <file>]"""
from __future__ import annotations

import argparse
import importlib
import json
import os
import sys
import traceback

sys.path.insert(0, os.path.dirname(os.path.abspath(__file__)))
import vlib  # noqa: E402


# Extra engines run as additional obligations of a property's check (they are not properties of their own):
# E2E = the composed end-to-end model of the ranking task (coq/E2E, notes/E2E.md) — obligations of C08.
# E2ECAP = the same composition with a BINDING per-batch cap, relational in the selections (notes/E2Ecap.md) — obligations of C07.
EXTRA = {"C08": ["e2e"], "C07": ["e2ecap"]}


def run_extra(run, name):
    emod = importlib.import_module("props.%s" % name)
    sub = vlib.Run(name.upper(), run.tier, run.seed)
    try:
        emod.check(sub, None)
    except vlib.Broken as b:
        sub.oblige(b.obligation, False, b.detail)
        sub.violation("broken-obligation", b.obligation, found_input=False, extra=b.detail[-3000:])
    tag = name.upper() + ":"
    for o in sub.obligations:
        run.obligations.append((tag + o[0], o[1], o[2]))
    for v in sub.violations:
        v = dict(v)
        v["obligation"] = tag + str(v["obligation"])
        if v.get("case") is not None:
            v["case"] = {"_engine": name, "case": v["case"]}
        run.violations.append(v)
    run.evaluations += sub.evaluations
    run.distinct |= {tag + d for d in sub.distinct}
    run.cov[name.upper()] = dict(sub.cov, evaluations=sub.evaluations, distinct_nontrivial=len(sub.distinct),
                                 samples=sub.samples[:2])
    run.trusted += [tag + " " + x for x in sub.trusted]
    run.assumptions += [tag + " " + x for x in sub.assumptions]


def main():
    ap = argparse.ArgumentParser()
    ap.add_argument("pid")
    ap.add_argument("--tier", default=os.environ.get("VERIF_TIER", "quick"), choices=["quick", "thorough"])
    ap.add_argument("--replay", default=None)
    a = ap.parse_args()
    seed = int(os.environ.get("VERIF_SEED", "0") or 0)
    pid = a.pid.upper()
    mod = importlib.import_module("props.%s" % pid.lower())
    run = vlib.Run(pid, a.tier, seed)
    replay = None
    if a.replay:
        replay = json.load(open(a.replay))
    try:
        if replay is not None and isinstance(replay.get("case"), dict) and replay["case"].get("_engine"):
            emod = importlib.import_module("props.%s" % replay["case"]["_engine"])
            emod.check(run, dict(replay, case=replay["case"]["case"]))
        else:
            mod.check(run, replay)
            if replay is None:
                for name in EXTRA.get(pid, []):
                    run_extra(run, name)
    except vlib.Broken as b:
        run.oblige(b.obligation, False, b.detail)
        run.violation("broken-obligation", b.obligation, found_input=False, extra=b.detail[-3000:])
    except Exception:
        tb = traceback.format_exc()
        run.oblige("harness", False, tb)
        run.violation("broken-obligation", "harness-exception", found_input=False, extra=tb[-3000:])
    rc = vlib.finish(run, level=getattr(mod, "LEVEL", "proof"), rule=getattr(mod, "RULE", ""))
    sys.exit(rc)


if __name__ == "__main__":
    main()
