"""Round-2 prompts for independent sub-agents (nothing from /verif but the property text and the one-line summaries of
earlier seeded changes, which were themselves written independently of /verif).
usage: redteam_prompt2.py <ID> break|harmless [worktree]"""
import json, sys, glob, os
pid, mode = sys.argv[1], sys.argv[2]
wt = sys.argv[3] if len(sys.argv) > 3 else "/tmp/rt2/%s_%s" % (pid, mode)
p = [json.loads(l) for l in open("/verif/properties.jsonl") if json.loads(l)["id"] == pid][0]
known = []
for d in sorted(glob.glob("/verif/seeded/%s-*" % pid)):
    try:
        m = json.load(open(d + "/meta.json"))
        if mode == "harmless":
            if m.get("kind") == "harmless" or "-H" in d:
                known.append("- %s" % (m.get("what_changed") or "")[:300].replace("\n", " "))
            continue
        if "-H" in os.path.basename(d):
            continue
        known.append("- %s" % (m.get("what_it_needs_to_manifest") or m.get("clause_broken") or "")[:260].replace("\n", " "))
    except Exception:
        pass
head = f"""You are helping to evaluate a verification effort for a Python project. You work ONLY inside the git worktree {wt} (a checkout of outbrain/outrank: a CLI/library for feature ranking on large sparse categorical datasets). Do NOT read or write anything under /verif, /repo, /root/.claude or /root/scratch; use only {wt} and (for your own temp files) {wt}/.rt_tmp/. Run Python as `cd {wt} && PYTHONPATH={wt} NUMBA_CACHE_DIR={wt}/.rt_tmp/nb /venv/bin/python ...` (numpy 2.5, pandas 3.0, numba 0.67, xxhash 4, sklearn 1.9; importing outrank takes 10-15 s; no network). The existing test suite is run as `cd {wt} && PYTHONPATH={wt} NUMBA_CACHE_DIR={wt}/.rt_tmp/nb /venv/bin/python -m pytest -q -p no:cacheprovider --timeout=900 tests` (58 tests pass on the unmodified tree; 0.5-4 minutes).

The semantic property under consideration ({pid}: {p['title']}):
  "{p['statement']}"
  It is quantified over: {p['quantifier']['text']}
  Code it is anchored in: {', '.join(p['anchors']['files'])}
"""
if mode == "scale":
    body = f"""
YOUR TASK: produce TWO different, independent source changes (call them A and B) to the project's code, each of which BREAKS this property while the code still imports and the existing test suite still passes (same 58 passes) — and which manifest ONLY AT SCALE or only in a particular ENVIRONMENT, the natural blind spots of quick differential testing on small generated inputs: e.g. narrow integer dtypes or float32 accumulators that overflow / lose exactness only beyond a few thousand or 2^15 / 2^16 / 2^24 rows, values, distinct categories, columns, batches or calls; fixed-size buffers, caches with eviction, LRU sizes, chunking thresholds, recursion limits; quadratic shortcuts switched on above a size threshold ("fast path for large inputs"); behaviour that depends on the number of worker threads, PYTHONHASHSEED, locale, current working directory, file size or gzip, long lines, or on how many mini-batches / calls preceded. Each must look like a plausible optimisation or refactor (no magic sabotage constants: thresholds must have a believable performance rationale), and small/ordinary inputs (say fewer than ~2000 rows, fewer than ~100 distinct values, fewer than ~10 columns, a single batch or call) must behave exactly as before. A and B must attack different clauses/mechanisms and be DIFFERENT from these ideas already used by others:
{chr(10).join(known) if known else '- (none so far)'}

For each change deliver, in {wt}/.rt_out/A/ and {wt}/.rt_out/B/:
  - patch.diff : `git diff` of ONLY that change against HEAD (apply-able with `git apply` on a clean checkout),
  - demo.py : a small self-contained program (run with the command line above; keep its runtime under ~2 minutes) that exits 0 / prints PASS on the UNMODIFIED tree and exits 1 / prints FAIL with the change applied, demonstrating the property violation on a concrete large/environment-specific input, and ALSO shows that a small ordinary input behaves identically with and without the change,
  - meta.json : {{"property": "{pid}", "clause_broken": "...", "what_it_needs_to_manifest": "... (state the smallest size / the environment at which it shows)", "why_tests_still_pass": "...", "commands_run": ["..."]}}.
Verify all of it yourself: clean tree -> demo passes, suite passes; apply A -> demo fails, suite still passes; `git checkout -- .`; same for B. Leave the worktree clean (no modified tracked files) at the end; the .rt_out and .rt_tmp directories stay. In your final message list for A and B: the diff in a few lines, the failing input with its size, and the exact commands you ran with their outcomes."""
elif mode == "edge":
    body = f"""
YOUR TASK: produce TWO different, independent source changes (call them A and B) to the project's code, each of which BREAKS this property while the code still imports and the existing test suite still passes (same 58 passes) — and which manifest ONLY on DEGENERATE or EXOTIC-BUT-LEGAL inputs, the places where a differential tester's input generator is thinnest: zero / one / two rows, a single column, a column that is constant or entirely empty / entirely missing, every value distinct, values that are the empty string, a single space, strings with leading/trailing whitespace, NUL or other control characters, tabs/commas/quotes/newlines inside quoted cells, very long values (>= 64 KiB), non-BMP unicode (emoji), combining characters / different unicode normal forms, right-to-left text, strings that look like numbers ('1', '1.0', '01', '1e3', 'nan', 'inf', '-0'), numeric cells that are NaN / +-inf / -0.0 / huge (1e308, 2^63) / denormal, negative codes or counts of zero, column or feature names that contain the project's own separators (' AND ', '-', ',', ';', '&', '|', '_tr_', 'AND_REL') or are empty / duplicated / equal to the label name, CRLF / CR line endings, a missing final newline, a UTF-8 BOM, blank lines, a header-only file, options at their extremes (cap 0 or 1, batch size 1, subsampling larger than the file, interaction order equal to the number of features, ratio just below 1 or just above 0, thresholds 0 / negative / huge). Each change must look like a plausible simplification, optimisation or "robustness" tweak (no magic sabotage), and ORDINARY inputs (a few hundred rows of short ASCII tokens, 3-10 columns, default options) must behave exactly as before. A and B must attack different clauses/mechanisms and be DIFFERENT from these ideas already used by others:
{chr(10).join(known) if known else '- (none so far)'}

For each change deliver, in {wt}/.rt_out/A/ and {wt}/.rt_out/B/:
  - patch.diff : `git diff` of ONLY that change against HEAD (apply-able with `git apply` on a clean checkout),
  - demo.py : a small self-contained program (run with the command line above; locate the tree through PYTHONPATH / `import outrank`, never through a hard-coded path) that exits 0 / prints PASS on the UNMODIFIED tree and exits 1 / prints FAIL with the change applied, demonstrating the property violation on a concrete degenerate/exotic input, and ALSO shows that an ordinary input behaves identically with and without the change. First make sure the UNMODIFIED tree really satisfies the property on your exotic input (if it does not, that is worth reporting in your final message, but pick another input for the demo),
  - meta.json : {{"property": "{pid}", "clause_broken": "...", "what_it_needs_to_manifest": "...", "why_tests_still_pass": "...", "commands_run": ["..."]}}.
Verify all of it yourself: clean tree -> demo passes, suite passes; apply A -> demo fails, suite still passes; `git checkout -- .`; same for B. Leave the worktree clean (no modified tracked files) at the end; the .rt_out and .rt_tmp directories stay. In your final message list for A and B: the diff in a few lines, the failing input, the exact commands you ran with their outcomes, and any exotic input on which the UNMODIFIED code already violates the property."""
elif mode == "glue":
    body = f"""
YOUR TASK: produce TWO different, independent source changes (call them A and B) to the project's code, each of which BREAKS this property for a USER of the project (command line `python -m outrank ...` or the public functions the pipeline itself calls) while the code still imports and the existing test suite still passes (same 58 passes) — but made OUTSIDE the innermost function the property is anchored in: in the glue around it. Think of call sites that pass the wrong/reordered/stale argument, a caller that post-processes or caches the result, argument plumbing (`args.<option>` read under another name, a default changed where it is consumed, an option honoured on one code path and ignored on another: first batch vs later batches, tail batch, target_ranking_only True vs False, interaction_order > 1, 3mr heuristics, feature_set_focus, reference_model_JSON, explode_multivalue_features, subfeature_mapping, transformers, the different data_source parsers), module-level state shared between stages, the order in which pipeline stages run, what is written to the output files versus what was computed, type conversions at stage boundaries (str/int/float/None/NaN cells, categorical codes, column order), exception handling that swallows a failure. A direct call of the anchored innermost function with ordinary arguments should behave exactly as before; the violation must be visible through the pipeline (a function one or more levels up, a task, or the written output files). The changes should look like plausible developer mistakes or refactors (no magic constants, no sabotage). A and B must attack different mechanisms and be DIFFERENT from these ideas that were already used by others:
{chr(10).join(known) if known else '- (none so far)'}

For each change deliver, in {wt}/.rt_out/A/ and {wt}/.rt_out/B/:
  - patch.diff : `git diff` of ONLY that change against HEAD (apply-able with `git apply` on a clean checkout),
  - demo.py : a small self-contained program (run with the command line above; locate the tree through PYTHONPATH / `import outrank`, never through a hard-coded path) that exits 0 / prints PASS on the UNMODIFIED tree and exits 1 / prints FAIL with the change applied, demonstrating the property violation on a concrete input/history/configuration,
  - meta.json : {{"property": "{pid}", "clause_broken": "...", "what_it_needs_to_manifest": "...", "why_tests_still_pass": "...", "commands_run": ["..."]}}.
Verify all of it yourself: clean tree -> demo passes, suite passes; apply A -> demo fails, suite still passes; `git checkout -- .`; same for B. Leave the worktree clean (no modified tracked files) at the end; the .rt_out and .rt_tmp directories stay. In your final message list for A and B: the diff in a few lines, the failing input/configuration, and the exact commands you ran with their outcomes."""
elif mode == "break":
    body = f"""
YOUR TASK: produce TWO different, independent source changes (call them A and B) to the project's code, each of which BREAKS this property while the code still imports and the existing test suite still passes (same 58 passes). The changes should look like plausible developer mistakes, refactors or "optimisations" (no magic constants, no sabotage), and should need something SPECIFIC to manifest — a particular multi-step sequence of operations or calls on the same objects/process, an unusual-but-legal input, a boundary size, a particular configuration flag combination, or two cooperating sites that each look fine alone — rather than failing on the very first ordinary use. Prefer subtle ones: small numeric deviations that are still far above float32 rounding, state leaking between calls/batches, boundary conditions, rarely used code paths or arguments, behaviour that differs only for particular value patterns. A and B must attack different clauses/mechanisms of the property, and must be DIFFERENT from these ideas that were already used by others:
{chr(10).join(known) if known else '- (none so far)'}

For each change deliver, in {wt}/.rt_out/A/ and {wt}/.rt_out/B/:
  - patch.diff : `git diff` of ONLY that change against HEAD (apply-able with `git apply` on a clean checkout),
  - demo.py : a small self-contained program (run with the command line above) that exits 0 / prints PASS on the UNMODIFIED tree and exits 1 / prints FAIL with the change applied, demonstrating the property violation on a concrete input/history,
  - meta.json : {{"property": "{pid}", "clause_broken": "...", "what_it_needs_to_manifest": "...", "why_tests_still_pass": "...", "commands_run": ["..."]}}.
Verify all of it yourself: clean tree -> demo passes, suite passes; apply A -> demo fails, suite still passes; `git checkout -- .`; same for B. Leave the worktree clean (no modified tracked files) at the end; the .rt_out and .rt_tmp directories stay. In your final message list for A and B: the diff in a few lines, the failing input, and the exact commands you ran with their outcomes."""
else:
    body = f"""
YOUR TASK: produce TWO different, independent HARMLESS rewrites (call them A and B) of the code this property is anchored in: each must change the source substantially (a different algorithm or data structure, a vectorised/loop version, reordered independent statements, renamed locals/helpers, extracted or inlined functions, a different but equivalent library call, different tie-breaking where the property leaves it free) while the property STILL HOLDS for every input/history it quantifies over, the public function names/signatures used by the rest of the project stay the same, and the existing test suite still passes. Think of what a maintainer would do in a performance or readability refactor. Do NOT change documented observable behaviour that the property pins down (values, which rows/pairs/fields are produced, file contents named by the property); anything the property leaves open (ordering of equal scores, iteration order, internal representation, log messages, timing) may change. A should be a rewrite of the core computation, B a restructuring of the surrounding glue (argument handling, loops over batches/columns, how results are collected, helper functions extracted or inlined, module-level constants introduced, code moved between functions of the same module). Both must be DIFFERENT from these rewrites already made by others:
{chr(10).join(known) if known else '- (none so far)'}

For each rewrite deliver, in {wt}/.rt_out/A/ and {wt}/.rt_out/B/:
  - patch.diff : `git diff` of ONLY that rewrite against HEAD (apply-able with `git apply` on a clean checkout),
  - demo.py : a small self-contained program (run with the command line above) that checks the property on a few hundred generated inputs/histories INCLUDING edge cases and exits 0 / prints PASS both on the unmodified tree and with the rewrite applied,
  - meta.json : {{"property": "{pid}", "kind": "harmless", "what_changed": "...", "why_property_still_holds": "...", "commands_run": ["..."]}}.
Verify all of it yourself: clean tree -> demo passes, suite passes; apply A -> demo passes, suite passes; `git checkout -- .`; same for B. Leave the worktree clean (no modified tracked files) at the end; the .rt_out and .rt_tmp directories stay. In your final message summarise A and B in a few lines each and list the commands you ran with their outcomes."""
print(head + body)
