#!/bin/bash
# run the checks against every round-4 seeded change (G/J); coq/Gen-regenerating checks in one serial lane
cd "$(dirname "$0")/.."
lane() { for n in "$@"; do [ -d seeded/$n ] && tools/seeded_run.sh $n > .cache/full_$n.log 2>&1; done; }
gen=""; for p in C03 C05 C06 C12; do gen="$gen $p-G $p-J"; done
a=""; for p in C01 C02 C04 C07 C08; do a="$a $p-G $p-J"; done
b=""; for p in C09 C10 C11 C13 C14; do b="$b $p-G $p-J"; done
c=""; for p in C15 C16 C17 C18 C19 C20; do c="$c $p-G $p-J"; done
lane $gen & lane $a & lane $b & lane $c &
wait
for n in seeded/*-G seeded/*-J; do echo "$(basename $n): $(tail -1 $n/result.txt 2>/dev/null)"; done
