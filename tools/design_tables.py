"""Rewrites the seeded-changes table in DESIGN.md between the SEEDED-TABLE markers."""
import subprocess, re
t = open("/verif/DESIGN.md").read()
tab = subprocess.run(["python3", "/verif/tools/seeded_table.py"], capture_output=True, text=True).stdout
t = re.sub(r"<!-- SEEDED-TABLE-BEGIN -->.*<!-- SEEDED-TABLE-END -->", lambda _m: "<!-- SEEDED-TABLE-BEGIN -->\n" + tab + "<!-- SEEDED-TABLE-END -->", t, flags=re.S)
open("/verif/DESIGN.md", "w").write(t)
