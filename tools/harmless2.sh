#!/bin/bash
# usage: tools/harmless2.sh <round-dir> <suffixA> <suffixB> [ID ...]
# Harmless rewrites of one round: confirm (own demo + suite pass with the rewrite), then run the property's check and its
# neighbours against each.  Checks that regenerate coq/Gen (C03, C05, C12) run in ONE serial lane over all rewrites (two
# different trees must never regenerate coq/Gen at the same time); the other checks run in three parallel lanes.
cd "$(dirname "$0")/.."
rt=$1; sa=$2; sb=$3; shift 3
ids="$@"; [ -z "$ids" ] && ids=$(ls $rt)
neighbours() { case "$1" in
    C01|C04) echo "C01 C02 C03 C04 C05";; C02|C03) echo "C01 C02 C03 C05";; C05) echo "C01 C03 C05 C06 C08";;
    C06|C07) echo "C05 C06 C07 C08";; C08|C13|C16) echo "C08 C13 C16";; C09) echo "C09 C08";; C10|C11) echo "C10 C11 C12";;
    C12) echo "C11 C12";; C14|C15) echo "C13 C14 C15";; C17) echo "C17 C06";; *) echo "$1";; esac; }
one() { id=$1
  for pair in A:$sa B:$sb; do v=${pair%%:*}; n=${pair##*:}
    src=$rt/$id/.rt_out/$v; [ -f $src/patch.diff ] || { echo "MISSING $id-$v"; continue; }
    python3 - "$src/meta.json" <<'PY'
import json,sys
p=sys.argv[1]
try: m=json.load(open(p))
except Exception: m={}
m["kind"]="harmless"; json.dump(m,open(p,"w"),indent=1)
PY
    tools/harmless_confirm.sh $src $id-$n
  done; }
export -f one; export rt sa sb
[ -n "$SKIP_CONFIRM" ] || printf "%s\n" $ids | xargs -P 5 -I{} bash -c 'one {}'
names=""; for id in $ids; do for s in $sa $sb; do [ -d seeded/$id-$s ] && names="$names $id-$s"; done; done
genlane() { for n in $names; do g=""; for c in $(neighbours ${n%%-*}); do case $c in C03|C05|C12) g="$g $c";; esac; done
    [ -n "$g" ] && OUT=result_gen.txt tools/seeded_run.sh $n $g > .cache/full_${n}_gen.log 2>&1; done; }
otherlane() { k=$1; i=0; for n in $names; do i=$((i+1)); [ $((i%3)) = $k ] || continue; o=""; for c in $(neighbours ${n%%-*}); do case $c in C03|C05|C12) ;; *) o="$o $c";; esac; done
    [ -n "$o" ] && OUT=result_other.txt tools/seeded_run.sh $n $o > .cache/full_${n}_other.log 2>&1; done; }
genlane & otherlane 0 & otherlane 1 & otherlane 2 &
wait
for n in $names; do cat seeded/$n/result_gen.txt seeded/$n/result_other.txt 2>/dev/null > seeded/$n/result.txt; rm -f seeded/$n/result_gen.txt seeded/$n/result_other.txt
  echo "$n: v=$(grep -c '^VIOLATION' seeded/$n/result.txt) nfi=$(grep -c no-failing seeded/$n/result.txt) $(grep '^VIOLATION' seeded/$n/result.txt | sed 's/replay=[^ ]*//' | tr '\n' ';')"; done
