"""usage: manifest_add.py <ID> <level_text> <level_note> <technique>   (moves the property from not_applicable to checks)"""
import json, sys
pid, text, note, tech = sys.argv[1:5]
p = "/verif/MANIFEST.json"
m = json.load(open(p))
m["checks"] = [c for c in m["checks"] if c["property_id"] != pid]
m["checks"].append({
    "property_id": pid,
    "quick_cmd": "./check %s --tier quick" % pid,
    "thorough_cmd": "./check %s --tier thorough" % pid,
    "evidence_file": "/verif/evidence/%s.json" % pid,
    "replay_cmd_template": "./check %s --replay {path}" % pid,
    "engine": "coq-proof+correspondence",
    "level_claimed": {"category": "proof", "text": text, "design_ref": "DESIGN.md section 3 / %s and section 9.2 / %s" % (pid, pid)},
    "level_note": note,
    "technique": tech,
})
m["checks"].sort(key=lambda c: c["property_id"])
m["not_applicable"] = [n for n in m.get("not_applicable", []) if n["property_id"] != pid]
m["engines"][0]["serves_properties"] = [c["property_id"] for c in m["checks"]]
json.dump(m, open(p, "w"), indent=1)
print("claimed:", [c["property_id"] for c in m["checks"]])
