"""C04 — subsampled estimation is memory-safe, deterministic, sample-only.

Proof side: coq/MI/Subsample.v (model with an explicit index buffer and a garbage oracle), coq/MI/SubProofs.v,
coq/Props/C04.v.  Correspondence side (this file): for generated (Y, X, r, c)
  (a) the arrays returned by the real stratified_subsampling(Y, X, float32(r), numba_unique(X)[0]) are checked by
      the Coq checker C04_check against rows (sampled_indices X r) — exact integer comparison;
  (b) the real score mutual_info_estimator_numba(Y, X, float32(r), c) is compared with a float64 evaluation
      (eval_float below, trusted) of the model's exact term structure, tolerance 8*2^-24*(sum|terms| + 1e-6);
  (c) every case is executed in three long-lived child processes — malloc free lists poisoned with double a,
      poisoned with double b, not poisoned — and a few cases additionally in a brand-new interpreter; a crash, an
      exception, scores that differ between the runs, or a score that differs from the model is a violation whose
      replay holds the input and the poison patterns;
  (d) Y is altered outside the sampled rows (hypothesis of C04_outside_irrelevant evaluated in Coq): the score
      must not move.
"""
from __future__ import annotations

import json
import math
import os
import struct
from fractions import Fraction

import vlib
from props import c01

LEVEL = "proof"
RULE = ("entry-point family (numba_mi / conduct_feature_ranking, heuristics MI-numba and MI-numba-randomized, ratios just below 1 as "
        "float64 and float32, just above 0, ordinary; model at r := float32(ratio)); scale families (65536..~200000 rows, thorough also ~18 million rows crossing 2^24) given by generator parameters; small "
        "cases (Y, X, r, c, poison patterns, altered Y2): X families uniform/skewed/rare strata/many values/blocks/"
        "sparse codes, Y families random/self-pair/self-on-sample-only/function of X/noisy/constant/high-cardinality, "
        "r from a grid 0.01..0.99, float32 neighbours of k/n, ratios putting floor(r*n) on, just below and just above a "
        "multiple of #values, r*n < 1; non-trivial = quota >= 1 and at least one row not sampled; "
        "distinct = distinct (Y, X, r, c)")
THEOREMS = ["C04_safe_subsample", "C04_safe", "C04_all_written", "C04_garbage_indep", "C04_garbage_indep_subsample",
            "C04_quota", "C04_sampled_indices", "C04_prefix_rows", "C04_values", "C04_positions", "C04_counts",
            "C04_sample_nonempty", "C04_entry_spec", "C04_outside_irrelevant", "C04_entry_indices", "C04_finite",
            "C04_prefix_refuted", "C04_prefix_unsafe", "C04_check_sound", "C04_model_ok", "C04_outside_hyp_sound",
            "C04_subsample_reads", "C04_outside_selfpair_refuted", "C04_entry_agrees_full"]
# over R (Flocq): may use the standard-library Reals axioms; every other theorem must be closed under the global context
FLOAT_THEOREMS = ["C04_float_product_exact", "C04_float_quotient_floor", "C04_float_final_space_size", "C04_float_quota"]
HEADER = ("From Coq Require Import List ZArith QArith.\nFrom Outrank Require Import MI.Subsample.\n"
          "Import ListNotations.\nOpen Scope Z_scope.")
EPS32 = 2.0 ** -24
MODES = ("A", "B", "N", "F")


# ---------------------------------------------------------------------------------------------------------
# float32 values without numpy

def f32(x):
    return struct.unpack("<f", struct.pack("<f", x))[0]


def f32_step(x, up):
    if not (0.0 < x < 3e38):
        return x
    b = struct.unpack("<I", struct.pack("<f", x))[0]
    b += 1 if up else -1
    return struct.unpack("<f", struct.pack("<I", b))[0]


# ---------------------------------------------------------------------------------------------------------
# generator-side mirror of the model (used to build cases and to explain a disagreement; verdicts come from Coq)

def py_sampled(X, r):
    n = len(X)
    fs = math.floor(Fraction(r) * n)
    vals = sorted(set(X))
    q = fs // len(vals) if vals else 0
    if q == 0:
        return q, list(range(n))
    pos = {}
    for i, x in enumerate(X):
        pos.setdefault(x, []).append(i)
    idx = []
    for v in vals:
        idx.extend(pos[v][:q])
    return q, idx


def py_entry(X, r):
    """rows the estimator uses: the sample when r < 1, every row when the float32 ratio is >= 1.0 (entry_indices)"""
    return py_sampled(X, r) if r < 1.0 else (0, list(range(len(X))))


def eval_float(t):
    """float64 meaning of the model's term structure: (score, sum of |summands|).  The ONE trusted float mirror of the
    MI properties is tools/props/c01.py eval_float (it mirrors Model.eval_R term by term; C04_entry_agrees_full proves that
    the C04 encoding without the ratio IS the C01 encoding when nothing is subsampled); the subsampled estimator only
    multiplies by the ratio: result = r * core."""
    n, classes, strata, corr, (num, den) = t
    r = num / den
    core, sabs = c01.eval_float((n, classes, strata, corr))
    return r * core, r * sabs


# ---------------------------------------------------------------------------------------------------------
# generator

GRID = [0.01, 0.02, 0.05, 0.1, 0.15, 0.2, 0.25, 0.3, 0.33, 0.4, 0.5, 0.6, 0.66, 0.7, 0.75, 0.8, 0.9, 0.95, 0.99]


def gen_X(rng, n):
    fam = rng.choice(["uniform", "skew", "rare", "many", "blocks", "two"])
    if fam == "uniform":
        k = rng.randint(1, max(1, min(n, 12)))
        X = [rng.randrange(k) for _ in range(n)]
    elif fam == "skew":
        k = rng.randint(2, max(2, min(n, 40)))
        s = rng.choice([0.7, 1.0, 1.5, 2.5])
        w = [1.0 / (i + 1) ** s for i in range(k)]
        X = rng.choices(range(k), weights=w, k=n)
    elif fam == "rare":
        dom = rng.randint(1, 3)
        X = [rng.randrange(dom) for _ in range(n)]
        for j in range(rng.randint(1, max(1, min(6, n // 2)))):
            for _ in range(rng.choice([1, 1, 2, 3])):
                X[rng.randrange(n)] = dom + j
    elif fam == "many":
        k = max(1, n // rng.choice([1, 2, 3, 5]))
        X = [rng.randrange(k) for _ in range(n)]
    elif fam == "blocks":
        k = rng.randint(1, max(1, min(n, 10)))
        X = sorted(rng.randrange(k) for _ in range(n))
        if rng.random() < 0.5:
            X.reverse()
    else:
        p = rng.choice([0.5, 0.9, 0.98])
        X = [0 if rng.random() < p else 1 for _ in range(n)]
    if rng.random() < 0.3:      # recode: value order no longer equals frequency / first-occurrence order; sparse codes
        vals = sorted(set(X))
        top = rng.choice([len(vals) + 3, 1000, 1 << 20])
        new = rng.sample(range(max(top, len(vals))), len(vals))
        m = dict(zip(vals, new))
        X = [m[x] for x in X]
    return fam, X


def gen_r(rng, n, nvals):
    fam = rng.choice(["grid", "grid", "k_over_n", "k_over_n", "multiple", "multiple", "tiny", "uniform"])
    if fam == "grid":
        r = f32(rng.choice(GRID))
    elif fam == "k_over_n":
        k = rng.randint(1, max(1, n - 1))
        r = f32(k / n)
        d = rng.choice([-1, 0, 0, 1])
        if d:
            r = f32_step(r, d > 0)
    elif fam == "multiple":
        q = rng.randint(1, max(1, n // max(1, nvals)))
        fs = q * nvals + rng.choice([-1, 0, 0, 1])
        r = f32((fs + rng.choice([0.0, 0.0, 0.5])) / n)
        d = rng.choice([-1, 0, 1])
        if d:
            r = f32_step(r, d > 0)
    elif fam == "tiny":
        r = f32(rng.uniform(0.05, 0.999) / n)
    else:
        r = f32(rng.uniform(0.01, 0.99))
    if not (0.0 < r < 1.0):
        r = f32(rng.choice(GRID))
        fam = "grid"
    return fam, r


def gen_Y(rng, X, idx):
    n = len(X)
    fam = rng.choice(["random", "random", "self", "self_on_sample", "func", "noisy", "const", "highcard"])
    if fam == "random":
        k = rng.randint(1, 8)
        Y = [rng.randrange(k) for _ in range(n)]
    elif fam == "self":
        Y = list(X)
    elif fam == "self_on_sample":
        Y = [rng.randrange(4) for _ in range(n)]
        for i in idx:
            Y[i] = X[i]
    elif fam == "func":
        m = rng.randint(1, 5)
        Y = [x % m for x in X]
    elif fam == "noisy":
        m = rng.randint(2, 5)
        Y = [x % m if rng.random() < 0.8 else rng.randrange(m) for x in X]
    elif fam == "const":
        Y = [rng.randrange(5)] * n
    else:
        Y = [rng.randrange(max(1, n)) for _ in range(n)]
    return fam, Y


def pick_poison(rng, Y, X):
    n = len(X)
    a = rng.randrange(n)
    b = rng.randrange(n)
    for _ in range(20):
        if (Y[a], X[a]) != (Y[b], X[b]):
            break
        b = rng.randrange(n)
    return [float(a), float(b)]


def gen_Y2(rng, Y, X, idx, c):
    n = len(X)
    outside = sorted(set(range(n)) - set(idx))
    if not outside:
        return None
    if c and Y == X:
        # the corner where the clause "unsampled values do not matter" FAILS (C04_outside_selfpair_refuted): one or a few
        # unsampled cells change, the self-pair test np.array_equal(X, Y2) switches off and the correction on; the harness
        # then holds the second score to the model's term structure for (Y2, X), which differs from the one for (Y, X)
        Y2 = list(Y)
        for i in rng.sample(outside, rng.randint(1, min(3, len(outside)))):
            Y2[i] = Y[i] + 1 + rng.randrange(3)
        return Y2
    Y2 = list(Y)
    top = max(Y) + 2
    chosen = outside if rng.random() < 0.5 else rng.sample(outside, rng.randint(1, len(outside)))
    for i in chosen:
        Y2[i] = rng.randrange(top + 1) if rng.random() < 0.8 else X[i]
    return Y2 if Y2 != Y else None


def gen_case(rng, tier):
    u = rng.random()
    big = 2500 if tier == "quick" else 5000
    if u < 0.35:
        n = rng.randint(1, 20)
    elif u < 0.72:
        n = rng.randint(21, 300)
    else:
        n = rng.randint(301, big)
    xfam, X = gen_X(rng, n)
    rfam, r = gen_r(rng, n, len(set(X)))
    q, idx = py_sampled(X, r)
    yfam, Y = gen_Y(rng, X, idx)
    c = rng.random() < 0.5
    case = {"Y": Y, "X": X, "r": r, "c": c, "poison": pick_poison(rng, Y, X)}
    y2 = gen_Y2(rng, Y, X, idx, c)
    if y2 is not None:
        case["Y2"] = y2
    case["fam"] = [xfam, yfam, rfam]
    return case


def small_scope(rng):
    """every X over 3 codes of length <= 5, one random (Y, c) each, four ratios"""
    import itertools
    out = []
    for n in range(1, 6):
        for X in itertools.product(range(3), repeat=n):
            X = list(X)
            for r in (0.3, 0.5, 0.7, 0.9):
                r = f32(r)
                q, idx = py_sampled(X, r)
                Y = [rng.randrange(3) for _ in range(n)]
                c = rng.random() < 0.5
                case = {"Y": Y, "X": X, "r": r, "c": c, "poison": pick_poison(rng, Y, X), "fam": ["small", "random", "grid"]}
                y2 = gen_Y2(rng, Y, X, idx, c)
                if y2 is not None:
                    case["Y2"] = y2
                out.append(case)
    return out


def scale_cases(rng, tier):
    """inputs given by generator parameters only (arrays are produced by impl_c04_npmodel.gen_scale on the implementation
    side and judged by the numpy transcription of the model): around the 2^16 and 2^17 row marks and ~200 000 rows in both
    tiers; in thorough additionally one ~18 million row input whose minority target value only occurs beyond row 2^24"""
    def one(n, k, layout, r, **kw):
        p = {"n": n, "k": k, "seed": rng.randrange(1 << 20), "layout": layout, "classes": rng.choice([2, 3, 5]),
             "r": f32(r), "c": rng.random() < 0.5, "reps": 3}
        p.update(kw)
        return {"scale": p, "poison": [3.0, 9.0], "fam": ["scale-" + layout, "scale", "scale-%g" % r]}
    out = [one(65536, 64, "hash", 0.5),
           one(65537, rng.choice([2, 3, 7]), "hash", rng.choice([0.05, 0.9])),
           one(131072, 64, rng.choice(["hash", "skew"]), 0.5),
           one(rng.randint(180000, 220000), rng.randint(2, 64), rng.choice(["hash", "skew"]), rng.choice([0.05, 0.5, 0.9])),
           one(rng.choice([65535, 65536, 131071, 131073]), rng.randint(2, 64), "skew", rng.choice([0.05, 0.5, 0.9]))]
    if tier == "thorough":
        for _ in range(6):
            out.append(one(rng.choice([65536, 65537, 100000, 131072, 262144, rng.randint(66000, 400000)]), rng.randint(2, 64),
                           rng.choice(["hash", "skew"]), rng.choice([0.05, 0.5, 0.9])))
        n = rng.randint(17200000, 18200000)
        out.append(one(n, 2, "late_minority", 0.05, start=(1 << 24) + rng.randint(1, 300), reps=2))
    return out


NEAR_ONE = [1 - 1e-3, 1 - 1e-5, 0.999995, 1 - 2.0 ** -20, 1 - 2.0 ** -24, 0.99999, 0.9999999, 0.99999999, 1.0]
HEURISTICS = ["MI-numba", "MI-numba-randomized"]


def entry_cases(rng, tier):
    """the Python / CLI path: importance_estimator.numba_mi and conduct_feature_ranking (heuristics MI-numba and
    MI-numba-randomized) with the ratio as a user gives it.  The entry point is documented to pass np.float32(ratio) to the
    estimator, so the model is evaluated at r := float32(ratio) — which is 1 (no subsampling) for 0.99999999 — and
    c := (heuristic == 'MI-numba-randomized').  Ratios: just below 1 (as float64 and as np.float32 objects), just above 0,
    ordinary.  Includes the alteration of Y outside the sampled rows."""
    out = []
    nn = 70 if tier == "quick" else 400
    for j in range(nn):
        rfam = ["near_one", "near_one", "near_zero", "ordinary"][j % 4]
        for _ in range(8):
            n = rng.randint(2, 60) if rng.random() < 0.4 else rng.randint(61, 400)
            xfam, X = gen_X(rng, n)
            if rfam == "near_one":
                if len(set(X)) > 4 or rng.random() < 0.5:          # few, large strata: some rows stay outside the sample
                    k = rng.randint(1, 3)
                    X = [rng.randrange(k + 1) if rng.random() < 0.9 else 0 for _ in range(n)]
                    xfam = "few_large"
                ratio = rng.choice(NEAR_ONE)
            elif rfam == "near_zero":
                ratio = rng.choice([1e-6, 1e-3, 1.0 / n, 1.5 / n, 2.5 / n, (len(set(X)) + 0.5) / n, 0.01])
            else:
                ratio = rng.choice(GRID) if rng.random() < 0.5 else rng.uniform(0.01, 0.99)
            kind = rng.choice(["f64", "f32"])
            if kind == "f32":
                ratio = f32(ratio)
            r = f32(ratio)
            if not (0.0 < r <= 1.0):
                continue
            q, idx = py_entry(X, r)
            if rfam != "near_one" or r >= 1.0 or len(idx) < n:
                break
        yfam, Y = gen_Y(rng, X, idx)
        heur = rng.choice(HEURISTICS)
        c = heur == "MI-numba-randomized"
        case = {"Y": Y, "X": X, "r": min(r, 1.0), "c": c, "poison": pick_poison(rng, Y, X),
                "entry": {"via": rng.choice(["numba_mi", "conduct_feature_ranking"]), "heuristic": heur, "ratio": ratio,
                          "ratio_kind": kind, "shape": rng.choice(["col", "flat"])},
                "fam": ["entry-" + xfam, "entry-" + yfam, "entry-" + rfam]}
        y2 = gen_Y2(rng, Y, X, idx, c)
        if y2 is not None:
            case["Y2"] = y2
        out.append(case)
    return out


def load_corpus():
    d = os.path.join(vlib.VERIF, "corpus", "C04")
    out = []
    if os.path.isdir(d):
        for f in sorted(os.listdir(d)):
            if f.endswith(".json"):
                out.append(json.load(open(os.path.join(d, f))))
    return out


def well_formed(c):
    if "scale" in c:
        p = c["scale"]
        return (isinstance(p, dict) and isinstance(p.get("n"), int) and 1 <= p["n"] < 2 ** 29 and isinstance(p.get("k"), int)
                and p["k"] >= 1 and isinstance(p.get("r"), float) and f32(p["r"]) == p["r"] and 0.0 < p["r"] < 1.0
                and p.get("layout") in ("hash", "skew", "late_minority"))
    return (isinstance(c.get("Y"), list) and isinstance(c.get("X"), list) and len(c["Y"]) == len(c["X"]) >= 1
            and all(isinstance(v, int) and 0 <= v < 2 ** 24 for v in c["Y"] + c["X"])
            and isinstance(c.get("r"), float) and f32(c["r"]) == c["r"] and 0.0 < c["r"] <= (1.0 if "entry" in c else 0.99999995)
            and ("entry" not in c or (c["entry"].get("heuristic") in HEURISTICS and min(f32(c["entry"]["ratio"]), 1.0) == c["r"]
                                      and c["c"] == (c["entry"]["heuristic"] == "MI-numba-randomized")))
            and (c.get("Y2") is None or (len(c["Y2"]) == len(c["X"]) and all(isinstance(v, int) and 0 <= v < 2 ** 24 for v in c["Y2"]))))


# ---------------------------------------------------------------------------------------------------------
# evaluation of a batch of cases: implementation runs + model in Coq + verdicts

def coq_expr(case, arrays, nparrays):
    """model terms, C04_check on the implementation's arrays, outside_hyp, quota, #sampled, C04_check on the rows of the
    numpy transcription (cross-check of impl_c04_npmodel.py against the Coq model)"""
    fr = Fraction(case["r"])
    ys, xs = arrays if arrays is not None else ([], [])
    y2 = case.get("Y2") or case["Y"]
    if nparrays is not None and arrays is not None and tuple(nparrays) == tuple(arrays):
        npchk = "true"          # placeholder: same arrays as the implementation's, the harness reuses that verdict
    else:
        nys, nxs = nparrays if nparrays is not None else ([], [])
        npchk = "C04_check k (%s, %s)" % (vlib.zlist(nys), vlib.zlist(nxs))
    if needs_model2(case):
        m2 = "C04_model (%s, X, (%d # %d)%%Q, %s)" % (vlib.zlist(case["Y2"]), fr.numerator, fr.denominator, vlib.blit(case["c"]))
    else:
        m2 = "(1, @None Z)"
    return ("let Y := %s in let X := %s in let k := (Y, X, (%d # %d)%%Q, %s) in "
            "(C04_model k, C04_check k (%s, %s), outside_hyp k %s, Z.of_nat (quota X (%d # %d)%%Q), "
            "Z.of_nat (length (sampled_indices X (%d # %d)%%Q)), %s, %s)" % (
                vlib.zlist(case["Y"]), vlib.zlist(case["X"]), fr.numerator, fr.denominator, vlib.blit(case["c"]),
                vlib.zlist(ys), vlib.zlist(xs), vlib.zlist(y2), fr.numerator, fr.denominator,
                fr.numerator, fr.denominator, npchk, m2))


def needs_model2(case):
    """the self-pair test answers differently for Y and Y2 and the flag is on: outside-irrelevance does not apply, the
    second score is held to the model of (Y2, X) instead"""
    y2 = case.get("Y2")
    return y2 is not None and bool(case["c"]) and ((case["Y"] == case["X"]) != (y2 == case["X"]))


def num(x):
    return x if isinstance(x, (int, float)) else float(x)      # "nan"/"inf" come back as strings


def pick_first(good):
    return "N" if "N" in good else "N1" if "N1" in good else sorted(good)[-1]


def sig(r):
    """what stratified_subsampling returned: the arrays (small cases) or their summary (scale cases)"""
    return r["sum"] if "sum" in r else (r.get("ys"), r.get("xs"))


def show(r):
    return r["sum"] if "sum" in r else (r.get("xs") or [])[-6:]


def judge(case, runs, val):
    """-> (list of (clause, detail), info).  val = (error status, Some terms, rows_ok, hyp, quota, #sampled): from Coq for
    small cases, from the numpy transcription (cross-checked against Coq in the same run) for scale cases"""
    status, mterms, rows_ok, hyp, quota, nsampled = val[:6]      # Coq prints left-nested pairs flat
    info = {"quota": quota, "sampled": nsampled, "hyp": hyp}
    viol = []
    if status != 0 or mterms is None:
        raise vlib.Broken("model-error", "the model returned Error %r on %r — contradicts C04_safe" % (status, canonical(case)))
    mscore, tot = eval_float(mterms[1])
    tol = 8 * EPS32 * (tot + 1e-6)
    dtol = tol / 4
    info.update(model_score=mscore, tolerance=tol)
    done = {m: r for m, r in runs.items() if r and not r.get("skipped")}
    for m, r in sorted(done.items()):
        if "crash" in r:
            viol.append(("the call terminates normally", "run %s (poison %s): worker died, return code %s (-11 = SIGSEGV, exit 139) %s" % (
                m, poison_of(case, m), r["crash"], (r.get("stderr") or "")[-200:])))
        elif "error" in r:
            viol.append(("the call terminates normally", "run %s (poison %s): exception %s" % (m, poison_of(case, m), r["error"])))
    good = {m: r for m, r in done.items() if "score" in r}
    if not good:
        return viol, info
    first = pick_first(good)
    for m, r in sorted(good.items()):
        if sig(r) != sig(good[first]):
            viol.append(("never reads uninitialised memory / same result in every process",
                         "sampled arrays differ between run %s (poison %s) and run %s (poison %s): %s vs %s" % (
                             m, poison_of(case, m), first, poison_of(case, first), show(r), show(good[first]))))
            break
    fin = {m: num(r["score"]) for m, r in good.items() if math.isfinite(num(r["score"]))}
    ms = sorted(fin)
    for i in range(len(ms)):
        for j in range(i + 1, len(ms)):
            if abs(fin[ms[i]] - fin[ms[j]]) > dtol:
                viol.append(("returns the same score on every repetition and in every process",
                             "run %s (poison %s) gives %.9g, run %s (poison %s) gives %.9g" % (
                                 ms[i], poison_of(case, ms[i]), fin[ms[i]], ms[j], poison_of(case, ms[j]), fin[ms[j]])))
                break
        else:
            continue
        break
    if not rows_ok:
        if "scale" in case:
            viol.append(("uses, for each distinct target value, only the first floor(floor(r*n)/#values) rows carrying that value",
                         "run %s: stratified_subsampling returned %s; model (numpy transcription of sampled_indices, cross-checked "
                         "against Coq in this run): quota %d, %s" % (first, good[first]["sum"], quota, val[6])))
        else:
            q, idx = py_sampled(case["X"], case["r"])
            viol.append(("uses, for each distinct target value, only the first floor(floor(r*n)/#values) rows carrying that value",
                         "run %s: stratified_subsampling returned %d rows %s..., C04_check = false; model: quota %d, %d rows, X' = %s..." % (
                             first, len(good[first]["xs"]), good[first]["xs"][:12], quota, nsampled, [case["X"][i] for i in idx][:12])))
    for m, r in sorted(good.items()):
        s = num(r["score"])
        if not math.isfinite(s):
            viol.append(("returns a finite score", "run %s: score %r" % (m, r["score"])))
        elif abs(s - mscore) > tol:
            viol.append(("score = estimator on the sampled rows with the original stratum weights, scaled by r",
                         "run %s (poison %s): score %.9g, model %.9g, tolerance %.3g" % (m, poison_of(case, m), s, mscore, tol)))
    if case.get("Y2") is not None and hyp:
        for m, r in sorted(good.items()):
            if "score2" not in r:
                continue
            s, s2 = num(r["score"]), num(r["score2"])
            if not (math.isfinite(s2) and abs(s2 - mscore) <= tol and (not math.isfinite(s) or abs(s - s2) <= dtol)):
                viol.append(("the score does not change when feature values outside the sampled rows are altered",
                             "run %s (poison %s): score %.9g with Y, %.9g with Y2 (equal on all sampled rows); model %.9g" % (
                                 m, poison_of(case, m), s, s2, mscore)))
                break
    if case.get("Y2") is not None and not hyp and len(val) >= 9 and val[7] == 0 and val[8] is not None:
        # self-pair corner: the model predicts a DIFFERENT term structure for (Y2, X); the code must follow it
        m2score, tot2 = eval_float(val[8][1])
        tol2 = 8 * EPS32 * (tot2 + 1e-6)
        info.update(selfpair_corner=True, model_score_Y2=m2score, model_terms_differ=jsonable(val[8]) != jsonable(mterms))
        for m, r in sorted(good.items()):
            if "score2" not in r:
                continue
            s2 = num(r["score2"])
            if not (math.isfinite(s2) and abs(s2 - m2score) <= tol2):
                viol.append(("self-pair corner: with Y2 differing from Y = X in unsampled rows only, the score follows the model "
                             "of (Y2, X) (self-pair test made on the full vectors)",
                             "run %s (poison %s): score with Y2 %.9g, model for (Y2, X) %.9g, tolerance %.3g" % (
                                 m, poison_of(case, m), s2, m2score, tol2)))
                break
    info["impl_scores"] = {m: r.get("score") for m, r in good.items()}
    return viol, info


def poison_of(case, m):
    pz = case.get("poison") or [3.0, 9.0]
    return {"A": pz[0], "B": pz[1], "N": None, "F": pz[0]}[m[0]]


def canonical(case):
    if "scale" in case:
        return {"scale": case["scale"]}
    if "entry" in case:
        return {"Y": case["Y"], "X": case["X"], "entry": case["entry"]}
    return {"Y": case["Y"], "X": case["X"], "r": case["r"], "c": case["c"]}


def jsonable(v):
    return json.loads(json.dumps(v))


def evaluate(cases, fresh=(), max_respawn=4, crosscheck=None):
    """implementation runs (3 workers) and the numpy transcription run side by side; small cases then go through Coq.
    crosscheck, when given, collects the small cases on which the numpy transcription and the Coq model disagree."""
    from concurrent.futures import ThreadPoolExecutor
    with ThreadPoolExecutor(max_workers=2) as ex:
        f1 = ex.submit(vlib.run_impl, "impl_c04.py", {"cases": cases, "fresh": list(fresh), "max_respawn": max_respawn})
        f2 = ex.submit(vlib.run_impl, "impl_c04_np.py", {"cases": cases})
        res = f1.result()["results"]
        npres = f2.result()["results"]
    small = [i for i, c in enumerate(cases) if "scale" not in c]
    exprs = []
    shared = []
    for i in small:
        c, runs, nr = cases[i], res[i], npres[i]
        good = {m: r for m, r in runs.items() if r and "score" in r}
        first = None if not good else pick_first(good)
        arrays = None if first is None or "entry" in c else (good[first]["ys"], good[first]["xs"])
        shared.append(arrays is not None and tuple(arrays) == (nr["ys"], nr["xs"]))
        exprs.append(coq_expr(c, arrays, (nr["ys"], nr["xs"])))
    vals = {}
    if small:
        for i, sh, v in zip(small, shared, balanced_eval(exprs, [len(cases[i]["X"]) for i in small])):
            if "entry" in cases[i]:
                v = list(v)
                v[2] = True            # the entry point returns no arrays: nothing for C04_check to judge
            vals[i] = tuple(v[:6]) + ((v[2],) if sh else (v[6],)) + tuple(v[7])     # same arrays => same C04_check verdict; v[7] = model of (Y2, X): (status, Some terms)
    out = []
    bad = []
    for i, (c, runs, nr) in enumerate(zip(cases, res, npres)):
        if "scale" in c:
            flat = {}
            for m, r in runs.items():
                if r and "reps" in r:
                    for j, rep in enumerate(r["reps"]):
                        flat["%s%d" % (m, j + 1)] = rep
                else:
                    flat[m] = r
            good = {m: r for m, r in flat.items() if r and "score" in r}
            first = None if not good else pick_first(good)
            rows_ok = first is None or good[first]["sum"] == nr["sum"]
            v = (0, ("Some", nr["terms"]), rows_ok, False, nr["quota"], nr["sampled"], nr["sum"])
            viol, info = judge(c, flat, v)
            info["numba_threads"] = sorted({r.get("numba_threads") for r in runs.values() if r and "numba_threads" in r})
            info["n_values"] = nr.get("n_values")
            info["model_seconds"] = nr.get("model_seconds")
            runs = flat
        else:
            v = vals[i]
            same = (v[0] == 0 and v[1] is not None and jsonable(v[1][1]) == nr["terms"] and v[6] is True
                    and v[4] == nr["quota"] and v[5] == nr["sampled"])
            if not same:
                bad.append({"case": canonical(c), "coq": jsonable(v[1]), "coq_rows_check_on_numpy_rows": v[6], "numpy": nr["terms"]})
            viol, info = judge(c, runs, v)
        out.append({"viol": viol, "info": info, "runs": runs})
    if crosscheck is not None:
        crosscheck.extend(bad)
        crosscheck.append(len(small))
    elif bad:
        raise vlib.Broken("numpy-transcription-differs-from-coq-model", json.dumps(bad[0])[:1500])
    return out


def balanced_eval(exprs, weights, jobs=12):
    """vlib.coq_eval over shards of similar cost (big cases dealt round-robin), results back in input order"""
    from concurrent.futures import ThreadPoolExecutor
    nb = max(1, min(jobs, -(-len(exprs) // 3)), -(-len(exprs) // 50))       # <= 50 cases per generated file
    order = sorted(range(len(exprs)), key=lambda i: -weights[i])
    bins = [order[b::nb] for b in range(nb)]
    bins = [b for b in bins if b]

    def one(kb):
        k, b = kb
        return vlib.coq_eval("C04s%d" % k, HEADER, [exprs[i] for i in b], shard=len(b), jobs=1)
    vals = [None] * len(exprs)
    with ThreadPoolExecutor(max_workers=jobs) as ex:
        for b, vs in zip(bins, ex.map(one, enumerate(bins))):
            for i, v in zip(b, vs):
                vals[i] = v
    return vals


def shrink(rng, case, budget=5):
    """drop rows while some violation persists; every candidate is re-run through implementation and model"""
    best = case
    for _ in range(budget):
        n = len(best["X"])
        if n <= 8:
            break
        cands = []
        spans = [(0, n // 2), (n // 2, n), (0, 3 * n // 4), (n // 4, n), (0, n - 1), (1, n)]
        for _ in range(4):
            a = rng.randrange(n)
            b = min(n, a + max(1, n // 4))
            spans.append(("del", a, b))
        for sp in spans:
            keep = list(range(sp[0], sp[1])) if len(sp) == 2 else [i for i in range(n) if not (sp[1] <= i < sp[2])]
            if not keep or len(keep) >= n:
                continue
            cnd = {"Y": [best["Y"][i] for i in keep], "X": [best["X"][i] for i in keep], "r": best["r"], "c": best["c"]}
            if best.get("Y2") is not None:
                cnd["Y2"] = [best["Y2"][i] for i in keep]
            if "entry" in best:
                cnd["entry"] = best["entry"]
            m = len(keep)
            cnd["poison"] = [float(int(p) % m) for p in (best.get("poison") or [3.0, 9.0])]
            cands.append(cnd)
        try:
            ev = evaluate(cands, max_respawn=len(cands))
        except vlib.Broken:
            break
        failing = [(len(c["X"]), i) for i, (c, e) in enumerate(zip(cands, ev)) if e["viol"]]
        if not failing:
            break
        best = cands[min(failing)[1]]
    return best


def check(run, replay):
    ok, log = vlib.build(["MI/Subsample.vo"])
    run.oblige("build:model MI/Subsample.vo", ok, "" if ok else log[-1500:])
    if not ok:
        raise vlib.Broken("build:MI/Subsample.vo", log)
    if vlib.standard_proof_phase(run, ["Props/C04.vo"], "Outrank.Props.C04", THEOREMS + FLOAT_THEOREMS,
                                 allowed=vlib.STD_REAL_AXIOMS):
        ax = run.cov.get("axioms_per_theorem", {})
        open_ = {t: ax[t] for t in THEOREMS if ax.get(t)}
        run.oblige("axiom-free: the %d theorems not over R are closed under the global context" % len(THEOREMS),
                   not open_, json.dumps(open_))
        if open_:
            run.violation("broken-obligation", "axioms:" + ",".join(sorted(open_)), found_input=False, extra=open_)

    if replay is not None:
        cases = [replay["case"]]
        fresh = [0]
    else:
        cases = load_corpus()
        ngen = 260 if run.tier == "quick" else 2200
        for _ in range(ngen):
            cases.append(gen_case(run.rng, run.tier))
        if run.tier == "thorough":
            cases.extend(small_scope(run.rng))
        nf = 3 if run.tier == "quick" else 16
        nontriv = [i for i, c in enumerate(cases) if 0 < len(py_sampled(c["X"], c["r"])[1]) < len(c["X"])]
        fresh = nontriv[:2] + run.rng.sample(nontriv, min(nf, len(nontriv)))
        fresh = sorted(set(fresh))[:nf + 2]
        cases.extend(entry_cases(run.rng, run.tier))
        cases.extend(scale_cases(run.rng, run.tier))
    bad = [c for c in cases if not well_formed(c)]
    if bad:
        raise vlib.Broken("harness:ill-formed-case", json.dumps(bad[0])[:500])

    cross = []
    ev = evaluate(cases, fresh, crosscheck=cross)
    nsmall = cross.pop() if cross else 0
    run.oblige("numpy transcription (impl_c04_npmodel.py: sampled rows, quota, term structure) = Coq model on all %d small "
               "cases of this run" % nsmall, not cross, json.dumps(cross[:2])[:1500])
    if cross:
        run.violation("broken-obligation", "numpy-transcription-differs-from-coq-model", found_input=False, extra=cross[:3])
    run.oblige("correspondence:(a) sampled rows = C04_check, (b) score = model term structure, "
               "(c) poisoned/plain/fresh runs agree, (d) outside-irrelevance", True)
    hist = {"n": {}, "x_family": {}, "y_family": {}, "r_family": {}, "quota0": 0, "stratum_smaller_than_quota": 0,
            "fs_not_multiple_of_values": 0, "self_pair": 0, "correction_on": 0, "outside_checked": 0,
            "outside_hypothesis_false": 0, "fresh_interpreter_runs": 0, "runs": 0, "skipped_runs": 0}
    failing = []
    for i, (c, e) in enumerate(zip(cases, ev)):
        n = c["scale"]["n"] if "scale" in c else len(c["X"])
        b = ("1-20" if n <= 20 else "21-300" if n <= 300 else "301-2500" if n <= 2500 else "2501-65535" if n < 65536
             else "65536-400000" if n <= 400000 else "> 2^24")
        hist["n"][b] = hist["n"].get(b, 0) + 1
        for key, v in zip(("x_family", "y_family", "r_family"), c.get("fam", ["corpus"] * 3)):
            hist[key][v] = hist[key].get(v, 0) + 1
        q = e["info"]["quota"]
        ns = e["info"]["sampled"]
        if "scale" in c:
            hist["scale_cases"] = hist.get("scale_cases", 0) + 1
            hist["scale_runs"] = hist.get("scale_runs", 0) + sum(1 for r in e["runs"].values() if r and "score" in r)
            hist.setdefault("scale_sizes", []).append([n, e["info"].get("n_values"), c["scale"]["r"], q, ns])
            hist.setdefault("numba_threads", set()).update(e["info"].get("numba_threads") or [])
            hist["correction_on"] += bool(c["scale"]["c"])
            run.count_case(canonical(c), q > 0 and ns < n)
            if e["viol"]:
                failing.append((n, i))
            continue
        if "entry" in c:
            if c["r"] >= 1.0:                     # float32(ratio) = 1.0: no subsampling, modelled as r = 1
                q, ns = 0, n
                hist["entry_ratio_rounds_to_1"] = hist.get("entry_ratio_rounds_to_1", 0) + 1
            hist["entry_cases"] = hist.get("entry_cases", 0) + 1
            hist["entry_" + c["entry"]["via"]] = hist.get("entry_" + c["entry"]["via"], 0) + 1
            hist["entry_ratio_" + c["entry"]["ratio_kind"]] = hist.get("entry_ratio_" + c["entry"]["ratio_kind"], 0) + 1
            if (c.get("fam") or ["", "", ""])[2] == "entry-near_one" and c["r"] < 1.0 and 0 < q and ns < n:
                hist["entry_near_one_with_unsampled_rows"] = hist.get("entry_near_one_with_unsampled_rows", 0) + 1
        cnts = {}
        for x in c["X"]:
            cnts[x] = cnts.get(x, 0) + 1
        fs = math.floor(Fraction(c["r"]) * n)
        hist["quota0"] += q == 0
        hist["stratum_smaller_than_quota"] += q > 0 and min(cnts.values()) < q
        hist["fs_not_multiple_of_values"] += q > 0 and fs % len(cnts) != 0
        hist["self_pair"] += c["Y"] == c["X"]
        hist["correction_on"] += bool(c["c"])
        if c.get("Y2") is not None:
            hist["outside_checked" if e["info"]["hyp"] else "outside_hypothesis_false"] += 1
            if e["info"].get("selfpair_corner"):
                hist["selfpair_corner_checked"] = hist.get("selfpair_corner_checked", 0) + 1
                hist["selfpair_corner_terms_differ"] = hist.get("selfpair_corner_terms_differ", 0) + bool(e["info"].get("model_terms_differ"))
        hist["fresh_interpreter_runs"] += "F" in e["runs"]
        hist["runs"] += sum(1 for r in e["runs"].values() if r and not r.get("skipped"))
        hist["skipped_runs"] += sum(1 for r in e["runs"].values() if r and r.get("skipped"))
        run.count_case(canonical(c), q > 0 and ns < n)
        if e["viol"]:
            failing.append((n, i))
    failing.sort()
    for rank, (n, i) in enumerate(failing[:8]):
        c, e = cases[i], ev[i]
        rc = {k: v for k, v in c.items() if k != "fam"}
        viol, info, runs = e["viol"], e["info"], e["runs"]
        if rank == 0 and replay is None and n > 8 and "scale" not in rc:
            sc = shrink(run.rng, rc)
            if sc is not rc:
                try:
                    e2 = evaluate([sc], fresh=[0], max_respawn=3)[0]
                except vlib.Broken:
                    e2 = None
                if e2 and e2["viol"]:
                    rc, viol, info, runs = sc, e2["viol"], e2["info"], e2["runs"]
        brief = {m: ({k: (v if k not in ("ys", "xs") else v[:40]) for k, v in r.items()} if r else r) for m, r in runs.items()}
        run.violation("counterexample", "C04 correspondence (model = code on sampled rows and score; runs agree)",
                      case=rc, impl=brief, model=info, clause="; ".join("%s — %s" % v for v in viol[:6]))
    if failing:
        run.obligations[-1] = (run.obligations[-1][0], False, "%d of %d cases fail" % (len(failing), len(cases)))
    run.cov["input_distribution"] = {k: (dict(sorted(v.items())) if isinstance(v, dict) else sorted(v) if isinstance(v, (set, list))
                                         else int(v)) for k, v in hist.items()}
    run.cov["exhaustive"] = False
    if run.tier == "thorough" and replay is None:
        run.cov["exhaustive_small_scope"] = "every X over 3 codes with length <= 5, ratios 0.3/0.5/0.7/0.9, one random (Y, c) each"
    run.samples = [{k: v for k, v in c.items()} for c in cases if "scale" in c or len(c["X"]) <= 16][:4] + \
                  [c for c in cases if "scale" in c][:2]
    run.assumptions += [
        "codes are >= 0 and both vectors have the same length >= 1 (precondition of the numba code, as in C01)",
        "0 < r < 1 and n < 2^29: int(float32 * int64) and int(a / b) then equal the model's exact floors — proved with Flocq "
        "(C04_float_product_exact, C04_float_quotient_floor, C04_float_quota); what remains trusted is only that numba evaluates "
        "float32 * int64 as a binary64 multiplication and int / int as a binary64 division, then truncates",
        "the garbage oracle g : nat -> Z covers any stale bytes; the real allocator / numba NRT is exhibited by heap poisoning, not modelled",
        "scores are compared with tolerance 8*2^-24*(sum|terms|+1e-6); repetitions with a quarter of it (float32 results, fastmath)",
    ]
    run.trusted += [
        "harness: tools/props/c04.py (generator, eval_float = float64 mirror of the term structure's meaning, tolerances)",
        "tools/impl/impl_c04.py + impl_c04_worker.py (drive the real code in child processes, ctypes heap poisoning)",
        "coqparse.py (reads the terms coqc prints)",
        "scale families (n >= 65536, up to ~18 million rows in thorough): judged by tools/impl/impl_c04_npmodel.py, a numpy "
        "transcription of sampled_indices / terms_spec that is held against the Coq model on every small case of the same run; "
        "the generator of those inputs (gen_scale) is shared by the implementation workers and the transcription",
    ]
