"""C01 — the plain estimator equals the plug-in Shannon mutual information.

Also the shared library of the C01/C02/C03 checks (generators, the float mirror of eval_R, model evaluation in Coq,
the comparison with its tolerance, shrinking)."""
from __future__ import annotations

import json
import math
import os
from collections import Counter

import vlib

LEVEL = "proof"
RULE = ("pairs (Y, X) of code vectors run through the real mutual_info_estimator_numba(int32, int32, float32(1.0), False) and "
        "through the Coq transcription (term structure, vm_compute), the terms evaluated in float64; families: constant, "
        "all-distinct, singleton strata, Zipf skew, equal histograms, Y = X, Y = f(X), sparse codes < 2^20, uniform, noisy copy, "
        "each also swapped; plus SCALE families (n = 40 000 .. 200 000, thorough 10^6: all-distinct pairs and self pairs, many "
        "singleton strata at low codes, distinct(Y) > 65 536, label-sorted / drifting Y against constant and low-cardinality X in "
        "both argument orders, groups > 32 768 rows, distinct(X)*distinct(Y) > 2^31, rows*distinct(X) > 2^24) regenerated from "
        "(family, n, seed); non-trivial = both sides take >= 2 values and Y != X; distinct = distinct (Y, X, flag)")
THEOREMS = ["C01_plugin", "C01_symm", "C01_symm_spec", "C01_nonneg", "C01_const_l", "C01_const_r", "C01_le_min",
            "C01_self", "C01_chain", "C01_score_nonneg", "C01_score_const_l", "C01_score_const_r", "C01_score_le_min",
            "C01_score_self"]
MODEL_TARGETS = ["MI/Model.vo"]
HEADER = ("From Coq Require Import List ZArith.\nFrom Outrank Require Import MI.Model.\n"
          "Import ListNotations.\nOpen Scope Z_scope.")
MAXCODE = 2 ** 20 - 1
EPS32 = 2.0 ** -24
TOL_FACTOR = 8.0
FAMILIES = ["constant", "alldistinct", "singleton", "zipf", "equalhist", "self", "func", "sparse", "uniform", "noisy"]


# ---------------------------------------------------------------------------
# trusted float mirror of MI/Model.v eval_R  (terms as printed by `enc`: zero counts already dropped)

def eval_float(terms):
    """-> (value, sum of |summands|).  Mirrors eval_R / cond_entropy / full_entropy term by term in float64."""
    n, classes, strata, corr = terms
    n = float(n)
    tot = 0.0
    sabs = 0.0

    def cond(cntv, counts):
        s = 0.0
        a = 0.0
        for c in counts:
            if c != 0:
                t = (cntv / n) * (c / cntv) * math.log(c / cntv)
                s -= t
                a += abs(t)
        return s, a
    cnd = bg = 0.0
    for cntv, real, spoof in strata:
        s, a = cond(float(cntv), real)
        cnd += s
        sabs += a
        if corr:
            s, a = cond(float(cntv), spoof)
            bg += s
            sabs += a
    if corr:
        tot = -cnd + bg
    else:
        full = 0.0
        for c in classes:
            t = -(c / n) * math.log(c / n)
            full += t
            sabs += abs(t)
        tot = full - cnd
    return tot, sabs


def tolerance(sabs):
    """8 * 2^-24 * (sum |terms| + 1e-6): the code rounds every stratum term, the stratum weight and the result to
    float32 and is compiled with fastmath (DESIGN section 3, C01)."""
    return TOL_FACTOR * EPS32 * (sabs + 1e-6)


# independent evaluation of the SPEC side (MI/Spec.v) in float64; guards the mirror and the reading of the theorems
def _hcond(Y, X):
    n = len(X)
    cx = Counter(X)
    cxy = Counter(zip(X, Y))
    return -sum((c / n) * math.log(c / cx[x]) for (x, _), c in cxy.items())


def _h(Y):
    n = len(Y)
    return -sum((c / n) * math.log(c / n) for c in Counter(Y).values())


def displace(Y, X):
    n = len(Y)
    cx = Counter(X)
    return [Y[(i + cx[X[i]]) % n] for i in range(n)]


def spec_float(Y, X, flag):
    """What the theorems say the score is: C01_plugin / C03_identity / C03_self."""
    n = len(X)
    if flag and list(Y) != list(X):
        return _hcond(displace(Y, X), X) - _hcond(Y, X)
    cx, cy, cxy = Counter(X), Counter(Y), Counter(zip(X, Y))
    return sum((c / n) * math.log(n * c / (cx[x] * cy[y])) for (x, y), c in cxy.items())


def py_terms(Y, X, flag):
    """Python transcription of MI/Model.v `enc (entry Y X flag)` (same integers, same order).  Used (a) as a cross-check of
    every Coq evaluation and (b) on the large supporting cases of C03 where the quadratic Coq model is too slow."""
    n = len(X)
    corr = bool(flag) and list(X) != list(Y)
    cy = Counter(Y)
    class_values = sorted(cy)
    cx = Counter(X)
    pos = {}
    for i, x in enumerate(X):
        pos.setdefault(x, []).append(i)
    strata = []
    for v in sorted(cx):
        k = cx[v]
        if k == 1:
            continue
        real = Counter(Y[i] for i in pos[v])
        spoof = Counter(Y[(i + k) % len(Y)] for i in pos[v])
        strata.append((k, [real[c] for c in class_values if real[c]], [spoof[c] for c in class_values if spoof[c]]))
    return (n, [cy[c] for c in class_values], strata, corr)


# ---------------------------------------------------------------------------
# generators

def _zipf(rng, n, k, a=1.3):
    w = [1.0 / (i + 1) ** a for i in range(k)]
    return rng.choices(range(k), weights=w, k=n)


def _recode_sparse(rng, v):
    vals = sorted(set(v))
    codes = rng.sample(range(MAXCODE + 1), len(vals))
    if rng.random() < 0.5 and vals and MAXCODE not in codes:
        codes[rng.randrange(len(codes))] = MAXCODE
    m = dict(zip(vals, codes))
    return [m[a] for a in v]


def gen_pair(rng, fam, n):
    """One (Y, X) of length n from the named family."""
    def unif(k):
        return [rng.randrange(max(1, k)) for _ in range(n)]

    def card():
        r = rng.random()
        if r < 0.5:
            return rng.randint(1, min(n, 6))
        if r < 0.85:
            return rng.randint(1, max(1, min(n, 40)))
        return rng.randint(1, n)
    if fam == "constant":
        a = rng.randrange(50)
        side = rng.random()
        if side < 0.4:
            return [a] * n, unif(card())
        if side < 0.8:
            return unif(card()), [a] * n
        return [a] * n, [rng.randrange(50)] * n
    if fam == "alldistinct":
        p = list(range(n))
        rng.shuffle(p)
        if rng.random() < 0.3:
            p = _recode_sparse(rng, p)
        side = rng.random()
        other = unif(card())
        if side < 0.6:
            return p, other
        if side < 0.9:
            return other, p
        q = list(range(n))
        rng.shuffle(q)
        return p, q
    if fam == "singleton":
        # X: many values occurring once, a few groups
        X = []
        nxt = 100
        while len(X) < n:
            if rng.random() < 0.6:
                X.append(nxt)
                nxt += 1
            else:
                g = rng.randint(2, 5)
                X.extend([rng.randrange(5)] * g)
        X = X[:n]
        rng.shuffle(X)
        Y = unif(card())
        return (Y, X) if rng.random() < 0.8 else (X, Y)
    if fam == "zipf":
        return _zipf(rng, n, card(), rng.choice([1.0, 1.5, 2.5])), _zipf(rng, n, card(), rng.choice([1.0, 1.5, 2.5]))
    if fam == "equalhist":
        X = unif(card())
        Y = list(X)
        rng.shuffle(Y)
        return Y, X
    if fam == "self":
        X = unif(card()) if rng.random() < 0.7 else _zipf(rng, n, card())
        return list(X), X
    if fam == "func":
        kx = card()
        X = unif(kx)
        m = {v: rng.randrange(max(1, kx // 2 + 1)) for v in set(X)}
        Y = [m[v] for v in X]
        return (Y, X) if rng.random() < 0.5 else (X, Y)
    if fam == "sparse":
        Y, X = unif(card()), unif(card())
        return _recode_sparse(rng, Y), _recode_sparse(rng, X)
    if fam == "noisy":
        k = card()
        X = unif(k)
        p = rng.choice([0.05, 0.15, 0.4])
        Y = [x if rng.random() > p else rng.randrange(max(1, k)) for x in X]
        return Y, X
    return unif(card()), unif(card())


def model_cost(Y, X):
    n = len(Y)
    return n * (n + 2 * len(set(Y)) + len(set(X))) + 2000


def gen_sizes(rng, tier, count):
    """sizes: mostly small, some medium, a few large (the Coq model is quadratic)."""
    out = []
    for i in range(count):
        r = rng.random()
        if r < 0.10:
            out.append(rng.randint(1, 4))
        elif r < 0.78:
            out.append(rng.randint(5, 120))
        elif r < 0.94:
            out.append(rng.randint(121, 700))
        else:
            out.append(rng.randint(1000, 3000))
    return out


def gen_pairs(rng, tier, count, flags):
    cases = []
    sizes = gen_sizes(rng, tier, count)
    for i, n in enumerate(sizes):
        fam = FAMILIES[i % len(FAMILIES)]
        for _ in range(20):
            Y, X = gen_pair(rng, fam, n)
            if n < 1000 or model_cost(Y, X) <= 3.2e7:
                break
            n = max(1000, n // 2)
        flag = flags[i % len(flags)] if len(flags) > 1 and rng.random() < 0.5 else rng.choice(flags)
        cases.append({"Y": Y, "X": X, "flag": flag, "fam": fam})
    return cases


def gen_self_pairs(rng, flag, per_family=2):
    """Self pairs (V, V) for EVERY family: both members of a generated pair are scored against themselves, so each run has
    all-distinct, constant, singleton-heavy, Zipf, sparse, ... vectors on the diagonal (clauses C01_self / C03_self)."""
    out = []
    for fam in FAMILIES:
        for j in range(per_family):
            n = rng.choice([1, 2, 3, 8]) if j == 0 else rng.randint(5, 300)
            Y, X = gen_pair(rng, fam, n)
            for v in (Y, X):
                out.append({"Y": list(v), "X": list(v), "flag": flag, "fam": "self-of-" + fam})
    # always: an all-distinct identifier against itself (score must be ln n), plain and sparse codes, and a constant
    for n in (2, rng.randint(5, 400)):
        p = list(range(n))
        rng.shuffle(p)
        out.append({"Y": p, "X": list(p), "flag": flag, "fam": "self-of-alldistinct"})
        q = _recode_sparse(rng, p)
        out.append({"Y": q, "X": list(q), "flag": flag, "fam": "self-of-alldistinct"})
        out.append({"Y": [7] * n, "X": [7] * n, "flag": flag, "fam": "self-of-constant"})
    return out


def xcheck_cases(rng, flag, count):
    """n = 3000 with >= 1500 distinct values on both sides, evaluated in Coq (~7 s each): the largest size at which the Python
    transcriptions py_terms / np_terms are held to the Coq model on every run (above it the expected values of the SCALE and
    supporting families come from the transcriptions only)."""
    out = []
    n = 3000
    for j in range(count):
        kind = ["uniform", "singletons", "sparse", "dependent"][j % 4]
        while True:
            if kind == "uniform":
                Y = [rng.randrange(2600) for _ in range(n)]
                X = [rng.randrange(2600) for _ in range(n)]
            elif kind == "singletons":             # X: ~1900 singleton strata among ~2100 values, a few big strata at scattered codes
                X = list(range(1900)) + [2000 + rng.randrange(200) for _ in range(n - 1900)]
                rng.shuffle(X)
                Y = [rng.randrange(2600) for _ in range(n)]
            elif kind == "sparse":
                Y = _recode_sparse(rng, [rng.randrange(2600) for _ in range(n)])
                X = _recode_sparse(rng, [rng.randrange(2600) for _ in range(n)])
            else:                                  # Y a noisy function of X, both high-cardinality
                X = [rng.randrange(2600) for _ in range(n)]
                Y = [(x * 7 + 3) % 2600 if rng.random() < 0.6 else rng.randrange(2600) for x in X]
            if len(set(Y)) >= 1500 and len(set(X)) >= 1500:
                break
        out.append({"Y": Y, "X": X, "flag": flag, "fam": "xcheck-3000-" + kind})
    return out


def exhaustive_pairs(flag, maxlen=5, codes=3):
    import itertools
    out = []
    for ln in range(1, maxlen + 1):
        for t in itertools.product(range(codes), repeat=2 * ln):
            out.append({"Y": list(t[:ln]), "X": list(t[ln:]), "flag": flag, "fam": "exhaustive"})
    return out


def load_corpus(pid):
    d = os.path.join(vlib.VERIF, "corpus", pid)
    out = []
    if os.path.isdir(d):
        for f in sorted(os.listdir(d)):
            if f.endswith(".json"):
                out.append(json.load(open(os.path.join(d, f))))
    return out


def nontrivial(c):
    return len(set(c["Y"])) >= 2 and len(set(c["X"])) >= 2 and c["Y"] != c["X"]


def canon(c):
    return [c["Y"], c["X"], bool(c["flag"])]


# ---------------------------------------------------------------------------
# model evaluation

def model_terms(pid, cases, entry="entry", jobs=12):
    """enc (entry Y X flag) for every case, via vm_compute; load-balanced over the shards."""
    if not cases:
        return []
    order = sorted(range(len(cases)), key=lambda i: -model_cost(cases[i]["Y"], cases[i]["X"]))
    nsh = max(1, min(jobs, (len(cases) + 7) // 8))
    load = [0.0] * nsh
    bins = [[] for _ in range(nsh)]
    for i in order:
        k = min(range(nsh), key=lambda j: (load[j], j))
        bins[k].append(i)
        load[k] += model_cost(cases[i]["Y"], cases[i]["X"])
    size = max(len(b) for b in bins)
    # coq_eval cuts consecutive chunks of `size`: pad every bin to the same length with a trivial expression
    exprs, back = [], []
    for b in bins:
        for i in b:
            c = cases[i]
            exprs.append("enc (%s %s %s %s)" % (entry, vlib.zlist(c["Y"]), vlib.zlist(c["X"]), vlib.blit(c["flag"])))
            back.append(i)
        for _ in range(size - len(b)):
            exprs.append("enc (entry [0] [0] false)")
            back.append(None)
    vals = vlib.coq_eval(pid, HEADER, exprs, shard=size, jobs=jobs)
    out = [None] * len(cases)
    for i, v in zip(back, vals):
        if i is not None:
            out[i] = _norm_terms(v)
    return out


def _norm_terms(v):
    n, classes, strata, corr = v
    return (int(n), [int(c) for c in classes], [(int(a), [int(x) for x in r], [int(x) for x in s]) for a, r, s in strata],
            bool(corr))


def as_float(v):
    if isinstance(v, str):
        return float(v)
    return float(v)


def compare(case, impl, terms):
    """-> (ok, info).  impl: one result record of impl_c01.py; terms: normalised model terms."""
    mv, sabs = eval_float(terms)
    tol = tolerance(sabs)
    info = {"model": mv, "sum_abs_terms": sabs, "tolerance": tol}
    if not impl["ok"]:
        info["impl_error"] = impl["error"]
        return False, info
    iv = as_float(impl["v"])
    info["impl"] = iv
    if impl.get("mutated_inputs"):
        info["mutated_inputs"] = True
        return False, info
    if math.isnan(iv) or math.isinf(iv):
        return False, info
    info["diff"] = abs(iv - mv)
    info["ratio"] = abs(iv - mv) / (EPS32 * (sabs + 1e-6))
    return abs(iv - mv) <= tol, info


def run_cases(pid, cases, entry="entry"):
    """impl + model on all cases -> list of (ok, info, terms)."""
    res = vlib.run_impl("impl_c01.py", {"cases": [{"Y": c["Y"], "X": c["X"], "flag": c["flag"]} for c in cases]})["results"]
    terms = model_terms(pid, cases, entry=entry)
    out = []
    for c, r, t in zip(cases, res, terms):
        ok, info = compare(c, r, t)
        out.append((ok, info, t))
    return out


def shrink(pid, case, still_bad, rounds=3, keys=("Y", "X")):
    """Greedy shrink by rows (of all row-aligned `keys`): keep a smaller case while
    `still_bad(list_of_cases) -> list of bool` says it still fails."""
    cur = case
    for _ in range(rounds):
        n = len(cur["Y"])
        if n <= 4:
            break
        cands = []
        for frac in (8, 4, 2):
            k = max(1, n // frac)
            cands.append((0, k))
            cands.append((n - k, n))
        step = max(1, n // 6)
        for a in range(0, n, step):                    # drop one block
            cands.append(("drop", a, min(n, a + step)))
        cs = []
        for cd in cands:
            c2 = dict(cur)
            for k in keys:
                if cd[0] == "drop":
                    c2[k] = cur[k][:cd[1]] + cur[k][cd[2]:]
                else:
                    c2[k] = cur[k][cd[0]:cd[1]]
            if c2["Y"] and len(c2["Y"]) < n:
                cs.append(c2)
        if not cs:
            break
        try:
            bad = still_bad(cs)
        except vlib.Broken:
            break
        best = None
        for c2, b in zip(cs, bad):
            if b and (best is None or len(c2["Y"]) < len(best["Y"])):
                best = c2
        if best is None:
            break
        cur = best
    return cur


def shrink_pair_case(pid, case):
    def still_bad(cs):
        return [not ok for ok, _, _ in run_cases(pid, cs)]
    return shrink(pid, case, still_bad)


def mirror_consistency(run, cases, results):
    """The float mirror of eval_R on the model's terms must agree with an independent float evaluation of the SPEC
    (the theorems say they are equal as reals).  A disagreement is a harness / reading error, not an impl failure."""
    worst = 0.0
    bad = None
    for c, (_, info, t) in zip(cases, results):
        if py_terms(c["Y"], c["X"], c["flag"]) != t and bad is None:
            bad = {"case": canon(c), "py_terms_differs_from_coq_terms": True}
        sv = spec_float(c["Y"], c["X"], c["flag"])
        d = abs(sv - info["model"])
        lim = 1e-9 * (info["sum_abs_terms"] + 1.0)
        if d > lim and bad is None:
            bad = {"case": canon(c), "spec_float": sv, "model_float": info["model"]}
        worst = max(worst, d)
    run.oblige("mirror:eval_float(Coq model terms) = float evaluation of the Spec.v formulas (1e-9 relative); py_terms = Coq terms", bad is None,
               json.dumps(bad)[:400] if bad else "worst |diff| %.3g" % worst)
    if bad:
        run.violation("broken-obligation", "mirror-consistency", found_input=False, extra=bad)
    return bad is None


def report(run, pid, cases, results, clause, obligation):
    """Common tail: count cases, histogram, violations (first one shrunk)."""
    hist = {"family": {}, "n": {"1-4": 0, "5-120": 0, "121-700": 0, "701-3000": 0, ">3000": 0}, "flag_true": 0,
            "identical_pairs": 0, "identical_alldistinct_n>=2": 0, "identical_constant": 0, "model_corr_true": 0,
            "impl_errors": 0}
    worst = 0.0
    nbad = 0
    for c, (ok, info, t) in zip(cases, results):
        run.count_case(canon(c), nontrivial(c))
        hist["family"][c.get("fam", "?")] = hist["family"].get(c.get("fam", "?"), 0) + 1
        n = len(c["Y"])
        b = "1-4" if n <= 4 else "5-120" if n <= 120 else "121-700" if n <= 700 else "701-3000" if n <= 3000 else ">3000"
        hist["n"][b] += 1
        hist["flag_true"] += 1 if c["flag"] else 0
        hist["identical_pairs"] += 1 if c["Y"] == c["X"] else 0
        if c["Y"] == c["X"]:
            k = len(set(c["Y"]))
            hist["identical_alldistinct_n>=2"] += 1 if (k == n and n >= 2) else 0
            hist["identical_constant"] += 1 if k == 1 else 0
        hist["model_corr_true"] += 1 if t[3] else 0
        if "impl_error" in info:
            hist["impl_errors"] += 1
        if ok:
            worst = max(worst, info.get("ratio", 0.0))
            continue
        nbad += 1
        if nbad <= 3:
            small = c
            if nbad == 1 and len(c["Y"]) > 4:
                small = shrink_pair_case(pid, c)
                ok2, info2, t2 = run_cases(pid, [small])[0]
                if ok2:
                    small, info2, t2 = c, info, t
                info, t = info2, t2
            run.violation("counterexample", obligation,
                          case={"Y": small["Y"], "X": small["X"], "flag": small["flag"], "fam": small.get("fam", "?")},
                          impl=info.get("impl", info.get("impl_error")), model={"value": info["model"], "terms": _short(t),
                                                                                 "tolerance": info["tolerance"]},
                          clause=("the call terminates normally: " + info["impl_error"]) if "impl_error" in info else
                          ("a vector scored against itself scores its entropy H(Y) (self pair) — " + clause)
                          if small["Y"] == small["X"] else clause)
    run.oblige(obligation, nbad == 0, "%d of %d cases disagree" % (nbad, len(cases)) if nbad else
               "worst |impl-model| = %.2f * 2^-24 * (sum|terms|+1e-6), allowed %.0f" % (worst, TOL_FACTOR))
    hist["worst_ratio_in_units_of_2^-24_sumabs"] = round(worst, 3)
    return hist, nbad


def _short(t):
    s = json.dumps(t)
    return t if len(s) < 3000 else s[:3000] + "..."


def coqchk(run, modules):
    """thorough tier: re-check the compiled libraries with the independent checker and hold its axiom list against the
    allowed set (DESIGN section 5)."""
    import re
    import subprocess
    with vlib._Lock("build.lock"):
        try:
            p = subprocess.run(["coqchk", "-silent", "-o", "-Q", vlib.COQ, "Outrank"] + modules, cwd=vlib.COQ, timeout=1500,
                               stdout=subprocess.PIPE, stderr=subprocess.STDOUT, text=True)
            rc, out = p.returncode, p.stdout
        except subprocess.TimeoutExpired:
            rc, out = 124, "timeout"
    axioms = []
    m = re.search(r"\* Axioms:(.*?)\n\s*\n\* Constants", out, re.S)
    if m:
        axioms = [a.strip() for a in m.group(1).split("\n") if a.strip() and a.strip() != "<none>"]
    allowed = {"Coq." + ".".join(a.split(".")[:-1]) + "." + a.split(".")[-1] for a in vlib.STD_REAL_AXIOMS}
    short = {a.split(".")[-1] for a in vlib.STD_REAL_AXIOMS}
    bad = [a for a in axioms if a.split(".")[-1] not in short]
    clean = rc == 0 and m is not None and not bad and all(k in out for k in (
        "relying on type-in-type: <none>", "relying on unsafe (co)fixpoints: <none>", "positivity is assumed: <none>"))
    run.oblige("coqchk -o " + " ".join(modules), clean, ("axioms: " + ", ".join(axioms)) if clean else out[-800:])
    if not clean:
        run.violation("broken-obligation", "coqchk", found_input=False, extra=out[-2000:])
    run.cov["coqchk_axioms"] = axioms
    return clean


def large_supporting(run, pid, flag, sizes=((100000, 50, 30), (1000000, 40, 25))):
    """thorough tier: pairs too long for the quadratic Coq model; expected value from py_terms (the Python transcription
    that is cross-checked against every Coq evaluation of the run).  A disagreement is a violation with that pair."""
    cases = []
    for n, kx, ky in sizes:
        X = [run.rng.randrange(kx) for _ in range(n)]
        Y = [(x * 7 + run.rng.randrange(ky)) % ky if run.rng.random() < 0.3 else run.rng.randrange(ky) for x in X]
        cases.append({"Y": Y, "X": X, "flag": flag, "fam": "large-supporting"})
    res = vlib.run_impl("impl_c01.py", {"cases": [{"Y": c["Y"], "X": c["X"], "flag": c["flag"]} for c in cases]})["results"]
    rep = []
    for c, r in zip(cases, res):
        ok, info = compare(c, r, py_terms(c["Y"], c["X"], c["flag"]))
        run.evaluations += 1
        rep.append({"n": len(c["Y"]), "ok": ok, "impl": info.get("impl"), "expected": info["model"], "tolerance": info["tolerance"]})
        if not ok:
            small = shrink_pair_case(pid, c)
            run.violation("counterexample", "correspondence on a long pair (expected value from the Python transcription of the model)",
                          case=small, impl=info.get("impl", info.get("impl_error")), model={"value": info["model"]},
                          clause="score = model value on a pair of length %d" % len(c["Y"]))
    run.oblige("correspondence:long pairs (n = 10^5, 10^6), impl = eval(py_terms) within tolerance", all(r["ok"] for r in rep),
               json.dumps(rep)[:400])
    run.cov["long_pairs_supporting"] = rep


# ---------------------------------------------------------------------------
# SCALE families: long vectors regenerated from (family, n, seed) on the implementation side (tools/impl/impl_c01_gen.py);
# expected values from the vectorised transcription np_terms (same file, run under /venv/bin/python because the harness
# interpreter has no numpy), which is held to the Coq model on the small cases of every run.

SCALE_SIZES = [40000, 65536, 65537, 70000, 131073, 200000]
SHRINK_SIZES = [5000, 20000, 40000, 47000, 65536, 65537, 70000, 131073, 200000, 500000]


def compress(terms):
    """(n, classes, strata, corr) as printed by `enc`  ->  the compressed form np_terms produces"""
    n, classes, strata, corr = terms
    ch, rh, sh = Counter(classes), Counter(), Counter()
    for cntv, real, spoof in strata:
        for c in real:
            rh[(cntv, c)] += 1
        for c in spoof:
            sh[(cntv, c)] += 1
    return {"n": n, "corr": corr, "classes": sorted([c, m] for c, m in ch.items()),
            "real": sorted([a, c, m] for (a, c), m in rh.items()), "spoof": sorted([a, c, m] for (a, c), m in sh.items())}


def eval_float_c(ct):
    """eval_float on compressed terms (same summands, grouped by multiplicity; math.fsum)"""
    n = float(ct["n"])

    def cond(lst):
        ts = [m * ((a / n) * (c / a) * math.log(c / a)) for a, c, m in lst]
        return -math.fsum(ts), math.fsum(abs(t) for t in ts)
    cnd, a1 = cond(ct["real"])
    if ct["corr"]:
        bg, a2 = cond(ct["spoof"])
        return -cnd + bg, a1 + a2
    ts = [m * (-(c / n) * math.log(c / n)) for c, m in ct["classes"]]
    return math.fsum(ts) - cnd, a1 + math.fsum(abs(t) for t in ts)


def scale_specs(pid, rng, tier):
    """(family, n) grid of the property, a fresh seed per case.  Picked so that each case costs the real code < ~1 s."""
    g = []

    def add(fam, sizes, flag, **kw):
        for n in sizes:
            gen = dict({"fam": fam, "n": n, "seed": rng.randrange(10 ** 6)}, **kw)
            g.append({"kind": "scale", "gen": gen, "flag": flag})
    big = [500000, 1000000] if tier == "thorough" else []
    if pid == "C01":
        add("ad_ad", SCALE_SIZES + big, False)
        add("self_ad", [70000, 131073] + big, False)
        add("self_manyvalues", [70000, 200000], False)
        add("xsingles_1025", [40000, 65537], False)
        add("xsingles_1025", [40000], False, swap=True)
        add("xsingles_4440", [20000, 40000, 131073] + big[:1], False)
        add("xsingles_4440", [40000], False, swap=True)
        add("xsingles_70000", [200000] + big, False)
        add("ycard", [65536, 65537, 70000], False)
        add("ycard", [70000], False, swap=True)          # (n <= 70 000 only: the swapped X is all-distinct, no repeated strata)
        add("sorted_const", [65537, 200000] + big, False)
        add("sorted_const", [200000] + big, False, swap=True)
        add("sorted_lowcard", [131073, 200000] + big, False)
        add("sorted_lowcard", [200000] + big, False, swap=True)
        add("drift_lowcard", [70000, 131073] + big, False)
        add("drift_lowcard", [70000], False, swap=True)
        add("biggroup", [70000], False)
        add("prod31", [200000] + big[:1], False)
    elif pid == "C03":
        add("ad_ad", [65537, 70000, 200000] + big, True)
        add("self_ad", [70000] + big, True)
        add("self_manyvalues", [70000], True)
        add("ycard", [65536, 65537, 70000, 131073], True)
        add("biggroup", [65537, 70000, 131073] + big[:1], True)
        add("biggroup_signal", [70000, 200000] + big, True)
        add("xsingles_4440", [40000], True)
        add("xsingles_70000", [200000], True)
        add("sorted_lowcard", [200000] + big, True)
        add("sorted_const", [200000], True, swap=True)
        add("drift_lowcard", [131073], True)
        add("prod31", [200000], True)
        if tier == "thorough":
            add("biggroup_ident", [70000], True)
            add("biggroup_ident", [70000], False)
    return g


def run_scale_raw(specs, small=()):
    """-> (impl results, compressed expected terms, stats, compressed np_terms of the small cases)"""
    from concurrent.futures import ThreadPoolExecutor
    cases = [{"gen": c["gen"], "flag": c["flag"]} for c in specs]
    with ThreadPoolExecutor(max_workers=2) as ex:
        fi = ex.submit(vlib.run_impl, "impl_c01.py", {"cases": cases})
        fe = ex.submit(vlib.run_impl, "impl_c01_gen.py", {"scale": cases, "small": [{"Y": c["Y"], "X": c["X"], "flag": c["flag"]} for c in small]})
        impl, exp = fi.result()["results"], fe.result()
    return impl, exp["scale"], exp["stats"], exp["small"]


def compare_c(impl, ct):
    mv, sabs = eval_float_c(ct)
    tol = tolerance(sabs)
    info = {"model": mv, "sum_abs_terms": sabs, "tolerance": tol}
    if not impl["ok"]:
        info["impl_error"] = impl["error"]
        return False, info
    iv = as_float(impl["v"])
    info["impl"] = iv
    if impl.get("mutated_inputs") or math.isnan(iv) or math.isinf(iv):
        return False, info
    info["diff"] = abs(iv - mv)
    info["ratio"] = abs(iv - mv) / (EPS32 * (sabs + 1e-6))
    return abs(iv - mv) <= tol, info


def shrink_scale(spec):
    """same family and seed at the smaller grid sizes; the smallest n that still fails"""
    n = spec["gen"]["n"]
    cands = []
    for m in SHRINK_SIZES:
        if m < n:
            c = {"kind": "scale", "gen": dict(spec["gen"], n=m), "flag": spec["flag"]}
            cands.append(c)
    if not cands:
        return spec
    try:
        impl, exp, _, _ = run_scale_raw(cands)
    except vlib.Broken:
        return spec
    for c, r, ct in zip(cands, impl, exp):
        if not compare_c(r, ct)[0]:
            return c
    return spec


def np_terms_crosscheck(run, small_cases, small_terms, small_ct):
    bad = None
    for c, t, ct in zip(small_cases, small_terms, small_ct):
        if compress(t) != ct and bad is None:
            bad = {"case": canon(c), "coq_compressed": compress(t), "np_terms": ct}
    nbig = sum(1 for c in small_cases if len(c["Y"]) >= 3000)
    run.oblige("mirror:np_terms (numpy transcription used for the SCALE families) = compressed Coq terms on %d cases of this run "
               "(%d of them n = 3000 with >= 1500 distinct values per side)" % (len(small_cases), nbig), bad is None,
               json.dumps(bad)[:400] if bad else "")
    if bad:
        run.violation("broken-obligation", "mirror-consistency(np_terms)", found_input=False, extra=bad)


def scale_family(run, pid, specs, small_cases, small_terms, clause):
    """Run the SCALE specs of a property; records obligations, coverage and (shrunk, parameter-only) violations."""
    if not specs:
        return
    impl, exp, st, small_ct = run_scale_raw(specs, small_cases)
    np_terms_crosscheck(run, small_cases, small_terms, small_ct)
    nbad, worst, rows = 0, 0.0, []
    for c, r, ct, s_ in zip(specs, impl, exp, st):
        ok, info = compare_c(r, ct)
        run.count_case(["scale", c["gen"], c["flag"]], not s_["identical"] and s_["distinct_X"] > 1 and s_["distinct_Y"] > 1)
        rows.append(dict(s_, fam=c["gen"]["fam"], swap=bool(c["gen"].get("swap")), flag=c["flag"], ok=ok, impl_seconds=r.get("t")))
        if ok:
            worst = max(worst, info["ratio"])
            continue
        nbad += 1
        if nbad <= 2:
            small = shrink_scale(c) if nbad == 1 else c
            if small is not c:
                i2, e2, _, _ = run_scale_raw([small])
                ok2, info2 = compare_c(i2[0], e2[0])
                if ok2:
                    small = c
                else:
                    info = info2
            run.violation("counterexample", "correspondence on the SCALE families (vectors regenerated from family, n, seed)",
                          case=small, impl=info.get("impl", info.get("impl_error")),
                          model={"value": info["model"], "tolerance": info["tolerance"]},
                          clause=(("the call terminates normally: " + info["impl_error"]) if "impl_error" in info else clause)
                          + " [family %s, n = %d]" % (small["gen"]["fam"], small["gen"]["n"]))
    run.oblige("correspondence:SCALE families (n = 40 000 .. 200 000%s), impl = eval(np_terms) within 8*2^-24*(sum|terms|+1e-6)"
               % (", 10^6 in thorough" if run.tier == "thorough" else ""), nbad == 0,
               "%d of %d fail" % (nbad, len(specs)) if nbad else "worst %.2f * 2^-24 * (sum|terms|+1e-6)" % worst)
    run.cov["scale_families"] = rows


def pick_small(cases, results, limit=150):
    sc, stt = [], []
    for c, (_, _, t) in zip(cases, results):
        if str(c.get("fam", "")).startswith("xcheck-3000"):        # the big cross-check cases always take part
            sc.append(c)
            stt.append(t)
    for c, (_, _, t) in zip(cases, results):
        if len(c["Y"]) <= 400 and len(sc) < limit:
            sc.append(c)
            stt.append(t)
    return sc, stt


# ---------------------------------------------------------------------------
# DIRECT HISTORIES: the score must be a function of the CONTENTS of (Y, X) at call time — not of array identity, length,
# or of what an earlier call saw.  Sequences of direct calls in one implementation process.

def gen_direct_histories(rng, flag, count=6):
    hs = []

    def vec(kind, n, X=None):
        if kind == "binary":
            return [rng.randrange(2) for _ in range(n)]
        if kind == "six":
            return [rng.randrange(6) for _ in range(n)]
        if kind == "zeros":
            return [0] * n
        if kind == "ident":
            p = list(range(n))
            rng.shuffle(p)
            return p
        if kind == "skew":
            return _zipf(rng, n, 5, 2.0)
        return [x % 2 if rng.random() > 0.1 else 1 - x % 2 for x in X]              # "signal": noisy function of X
    # the refilled batch buffer: binary -> 6-class -> zeros -> 6-class -> self pair, X fixed
    for reuse_x in (False, True):
        n = rng.randint(20, 200)
        X = [rng.randrange(6) for _ in range(n)]
        steps = [{"Y": vec(k, n, X), "X": X} for k in ("signal", "six", "zeros", "six", "binary")]
        steps.append({"Y": vec("six", n), "X": None, "self": True})
        steps.append({"Y": vec("binary", n), "X": X})
        hs.append({"kind": "direct-history", "flag": flag, "reuse_y": True, "reuse_x": reuse_x, "steps": steps})
    # many short-lived arrays of equal length (freed after each call: ids / addresses are recycled)
    n = rng.randint(16, 120)
    X = [rng.randrange(4) for _ in range(n)]
    kinds = ["binary", "six", "zeros", "ident", "skew", "six", "binary", "zeros", "skew", "ident", "six", "binary"]
    hs.append({"kind": "direct-history", "flag": flag, "reuse_y": False, "reuse_x": False,
               "steps": [{"Y": vec(k, n, X), "X": X} for k in kinds]})
    # random mixtures
    while len(hs) < count:
        n = rng.randint(6, 150)
        steps = []
        for _ in range(rng.randint(3, 7)):
            X = [rng.randrange(rng.choice([2, 3, 6])) for _ in range(n)]
            k = rng.choice(["binary", "six", "zeros", "ident", "skew", "signal"])
            st = {"Y": vec(k, n, X), "X": X}
            if rng.random() < 0.2:
                st = {"Y": st["Y"], "X": None, "self": True}
            steps.append(st)
        hs.append({"kind": "direct-history", "flag": flag, "reuse_y": rng.random() < 0.7, "reuse_x": rng.random() < 0.5, "steps": steps})
    for h in hs:
        for st in h["steps"]:
            if st.get("self"):
                st["X"] = list(st["Y"])
    return hs


def direct_history_family(run, pid, histories, clause):
    """impl (one process, all histories) vs Coq model of every step; violation = the history up to the failing call"""
    if not histories:
        return
    res = vlib.run_impl("impl_c01.py", {"cases": [], "direct_histories": histories}).get("direct_histories", [])
    flat = [{"Y": st["Y"], "X": st["X"], "flag": h["flag"]} for h in histories for st in h["steps"]]
    terms = model_terms(pid, flat)
    k = nbad = ncalls = 0
    for hi, h in enumerate(histories):
        rs = res[hi] if hi < len(res) else []
        failed = False
        for si, st in enumerate(h["steps"]):
            t = terms[k]
            k += 1
            if failed:
                continue
            ncalls += 1
            run.evaluations += 1
            r = rs[si] if si < len(rs) else {"ok": False, "error": "no result"}
            ok, info = compare(flat[k - 1], r, t)
            if py_terms(st["Y"], st["X"], h["flag"]) != t:
                run.violation("broken-obligation", "mirror-consistency(py_terms, history step)", found_input=False, extra=[st["Y"][:40], st["X"][:40]])
            if not ok:
                failed = True
                nbad += 1
                if nbad == 1:
                    small = dict(h)
                    small["steps"] = h["steps"][:si + 1]
                    # try the two-call history (previous call, failing call)
                    if si >= 2:
                        two = dict(h)
                        two["steps"] = h["steps"][si - 1:si + 1]
                        try:
                            r2 = vlib.run_impl("impl_c01.py", {"cases": [], "direct_histories": [two]})["direct_histories"][0]
                            if not compare(flat[k - 1], r2[1], t)[0]:
                                small = two
                        except (vlib.Broken, IndexError, KeyError):
                            pass
                    run.violation("counterexample", "history of direct calls of mutual_info_estimator_numba (buffers refilled in place / "
                                  "short-lived arrays)", case=small,
                                  impl={"call": len(small["steps"]) - 1, "score": info.get("impl", info.get("impl_error"))},
                                  model={"call": len(small["steps"]) - 1, "value": info["model"], "tolerance": info["tolerance"]},
                                  clause=clause + " — for the contents of the two vectors AT CALL TIME (the score is a function of (Y, X) only)")
    run.oblige("history: direct calls on refilled buffers, short-lived equal-length arrays and self pairs = model on the contents at "
               "call time", nbad == 0, "%d of %d histories fail" % (nbad, len(histories)) if nbad else
               "%d histories, %d calls" % (len(histories), ncalls))
    run.cov["direct_histories"] = {"count": len(histories), "calls": ncalls,
                                   "reuse_y": sum(1 for h in histories if h.get("reuse_y")),
                                   "reuse_x": sum(1 for h in histories if h.get("reuse_x")),
                                   "self_pair_calls": sum(1 for h in histories for st in h["steps"] if st.get("self"))}


# ---------------------------------------------------------------------------

def check(run, replay):
    ok, log = vlib.build(MODEL_TARGETS)
    run.oblige("build:model MI/Model.vo", ok, "" if ok else log[-1500:])
    if not ok:
        raise vlib.Broken("build:MI/Model.vo", log)
    vlib.standard_proof_phase(run, ["Props/C01.vo"], "Outrank.Props.C01", THEOREMS, allowed=vlib.STD_REAL_AXIOMS)

    if replay is not None and (replay.get("case") or {}).get("kind") == "scale":
        scale_family(run, "C01", [replay["case"]], [], [], "score(Y, X, 1.0, False) = plug-in MI(Y; X)")
        return
    if replay is not None and (replay.get("case") or {}).get("kind") == "direct-history":
        direct_history_family(run, "C01", [replay["case"]], "score(Y, X, 1.0, False) = plug-in MI(Y; X)")
        return
    if replay is not None:
        cases = [replay["case"]]
    else:
        cases = load_corpus("C01")
        base = gen_pairs(run.rng, run.tier, 260 if run.tier == "quick" else 1500, [False])
        cases += base
        # symmetry / self / constant clauses are exercised through the same correspondence: add swapped copies
        for c in base[::4]:
            cases.append({"Y": c["X"], "X": c["Y"], "flag": False, "fam": c["fam"] + "-swapped"})
        cases += gen_self_pairs(run.rng, False, per_family=1)
        cases += xcheck_cases(run.rng, False, 3 if run.tier == "quick" else 8)
        if run.tier == "thorough":
            cases += exhaustive_pairs(False)
    results = run_cases("C01", cases)
    mirror_consistency(run, cases, results)
    hist, nbad = report(run, "C01", cases, results,
                        clause="score(Y, X, 1.0, False) = plug-in MI(Y; X) up to single-precision rounding",
                        obligation="correspondence:impl = eval(model terms) within 8*2^-24*(sum|terms|+1e-6)")
    run.cov["input_distribution"] = hist
    run.cov["exhaustive"] = False
    if replay is None:
        direct_history_family(run, "C01", gen_direct_histories(run.rng, False, 6 if run.tier == "quick" else 30),
                              "score(Y, X, 1.0, False) = plug-in MI(Y; X) up to single-precision rounding")
        sc, stt = pick_small(cases, results)
        scale_family(run, "C01", scale_specs("C01", run.rng, run.tier), sc, stt,
                     "score(Y, X, 1.0, False) = plug-in MI(Y; X) up to single-precision rounding")
    if run.tier == "thorough" and replay is None:
        run.cov["exhaustive_small_scope"] = "all pairs of length <= 5 over 3 codes (66429 pairs) included"
        large_supporting(run, "C01", False)
        coqchk(run, ["Outrank.Props.C01", "Outrank.Props.C02", "Outrank.Props.C03"])
    run.samples = [{"Y": c["Y"][:40], "X": c["X"][:40], "flag": c["flag"], "n": len(c["Y"]), "fam": c.get("fam")}
                   for c in cases[:4]]
    run.assumptions += [
        "codes are >= 0 and < 2^20 and n >= 1 (the quantifier of the property); the Coq model is total over Z and the theorems "
        "need no bound, but the real code's numba_unique indexes a histogram by the code",
        "'up to single-precision rounding' is carried by the tolerance 8*2^-24*(sum|terms|+1e-6), not by a floating-point theorem "
        "(fastmath leaves no fixed evaluation order)",
        "approximation_factor = float32(1.0): no subsampling (that path is C04)",
    ]
    run.trusted += [
        "harness: tools/props/c01.py (generators, eval_float = 25-line float64 mirror of MI/Model.v eval_R, tolerance), "
        "tools/impl/impl_c01.py (calls the real mutual_info_estimator_numba on int32 arrays)",
        "coqparse.py (reads the terms coqc prints)",
        "tools/impl/impl_c01_gen.py: generators of the SCALE families and np_terms, the numpy transcription of the model that gives "
        "their expected term structures (the Coq model is quadratic); np_terms is compared with the Coq terms on the small cases of "
        "every run",
        "numba/LLVM code generation, fastmath, float32/float64 arithmetic: modelled by the tolerance, not verified",
        "above n ~ 3000 (SCALE families, long pairs, planted family) the expected values come from the Python transcriptions "
        "py_terms / np_terms only; they are held to the Coq model on every run up to n = 3000 with >= 1500 distinct values per side",
    ]
